(** C33 — proofs about the serving side of the download protocol and the
    peer-info handlers of Streams.v *)
From Coq Require Import List ZArith NArith Bool Lia.
From C33 Require Import C33.Model C33.Streams C33.ProofsStreams.
Import ListNotations.
Open Scope Z_scope.

(** ** serving side, any blockchain module *)

Definition chain_alive (chain : Z -> Z -> out chain_ans) : Prop := forall s e, chain s e <> Died.

Lemma serve_range_survives : forall chain old s e,
  chain_alive chain -> serve_survives (serve_range chain old s e) = true.
Proof.
  intros chain old s e Hc. unfold serve_range, serve_survives.
  destruct (range_bad s e); [reflexivity|].
  specialize (Hc s e). destruct (chain s e) as [[|hs]|w|w|]; cbn; try reflexivity; try congruence.
  destruct hs as [|b tl]; cbn; [reflexivity|]. destruct old; reflexivity.
Qed.

Lemma serve_range_no_panic : forall chain old s e,
  chain_alive chain -> no_panic (snd (serve_range chain old s e)).
Proof.
  intros chain old s e Hc. unfold serve_range.
  destruct (range_bad s e); [exact I|].
  specialize (Hc s e). destruct (chain s e) as [[|hs]|w|w|]; cbn; try exact I; try congruence.
  destruct hs as [|b tl]; cbn; [exact I|]. destruct old; exact I.
Qed.

Lemma serve_old_survives : forall chain r,
  chain_alive chain -> serve_survives (serve_old chain r) = true.
Proof.
  intros chain [| |[[s e]|]] Hc; cbn; try reflexivity. apply serve_range_survives, Hc.
Qed.

Lemma serve_new_survives : forall chain r,
  chain_alive chain -> serve_survives (serve_new chain r) = true.
Proof.
  intros chain [| |[s e]] Hc; cbn [serve_new]; try reflexivity; apply serve_range_survives, Hc.
Qed.

(** the only panic on the serving side: the old handler reads a field through a nil Message *)
Lemma serve_old_panic_site : forall chain r w,
  chain_alive chain -> snd (serve_old chain r) = Panicked w ->
  w = W_NILREQ /\ (r = RdZero \/ r = RdMsg None).
Proof.
  intros chain [| |[[s e]|]] w Hc; cbn; try discriminate.
  - intros H; injection H as <-; auto.
  - intros H. pose proof (serve_range_no_panic chain true s e Hc) as Hn. rewrite H in Hn. contradiction.
  - intros H; injection H as <-; auto.
Qed.

Lemma serve_new_no_panic : forall chain r, chain_alive chain -> no_panic (snd (serve_new chain r)).
Proof.
  intros chain [| |[s e]] Hc; cbn [serve_new]; try exact I; apply serve_range_no_panic, Hc.
Qed.

(** ** int64 *)
Definition int64 (z : Z) : Prop := - two63 <= z < two63.
Definition int64b (z : Z) : bool := (- two63 <=? z) && (z <? two63).

Lemma wrap64_id : forall z, int64 z -> wrap64 z = z.
Proof.
  intros z [H1 H2]. unfold wrap64. unfold two63 in *.
  rewrite Z.mod_small; lia.
Qed.


(** the range test means what it says: a range that passes has a non-negative
    start and spans at most 257 blocks, as integers *)
Lemma range_ok : forall s e,
  int64 s -> int64 e -> range_bad s e = false -> 0 <= s /\ span_ok s e = true.
Proof.
  intros s e Hs He Hr. unfold range_bad in Hr.
  apply orb_false_elim in Hr. destruct Hr as [Hr H3].
  apply orb_false_elim in Hr. destruct Hr as [H1 H2].
  assert (H0 : 0 <= s) by lia. assert (Hse : s <= e) by lia.
  rewrite wrap64_id in H3 by (unfold int64, two63 in *; lia).
  split; [exact H0|]. unfold span_ok. apply andb_true_intro; split; lia.
Qed.

(** ** serving side with the real blockchain module *)

Lemma zseq_len : forall n s, length (zseq s n) = n.
Proof. induction n; cbn; intros; [reflexivity|]. rewrite IHn. reflexivity. Qed.

(** wrap64 stays in int64 *)
Lemma wrap64_range : forall z, int64 (wrap64 z).
Proof.
  intros z. unfold int64, wrap64, two63.
  pose proof (Z.mod_pos_bound (z + 9223372036854775808) (2 * 9223372036854775808) ltac:(lia)). lia.
Qed.

(** for Start <= End (int64) the wrapped difference is the difference or negative *)
Lemma wrap64_diff : forall s e,
  int64 s -> int64 e -> s <= e -> wrap64 (e - s) = e - s \/ wrap64 (e - s) < 0.
Proof.
  intros s e Hs He Hse. destruct (Z_lt_le_dec (e - s) two63) as [Hlt|Hge].
  - left. apply wrap64_id. unfold int64, two63 in *. lia.
  - right. unfold int64, wrap64, two63 in *.
    replace (e - s + 9223372036854775808) with ((e - s - 9223372036854775808) + 1 * (2 * 9223372036854775808)) by lia.
    rewrite Z.mod_add by lia. rewrite Z.mod_small by lia. lia.
Qed.

(** ProcGetBlockDetailsMsg, any int64 request (the callers behind the queue: rpc,
    consensus, the p2p handlers): an error or 1..1000 blocks, never a panic,
    never an allocation beyond 1000 pointers *)
Lemma chain_get_total : forall tip cap s e,
  int64 s -> int64 e -> int64 tip -> max_per_time <= cap ->
  chain_get tip cap s e = Done CErr
  \/ exists hs, chain_get tip cap s e = Done (CBlocks hs) /\ (1 <= length hs <= 1000)%nat.
Proof.
  intros tip cap s e Hs He Ht Hcap. unfold chain_get.
  destruct (tip <? s) eqn:E1; [left; reflexivity|].
  destruct (e <? s) eqn:E2; [left; reflexivity|].
  destruct ((max_per_time <=? wrap64 (e - s)) || (wrap64 (e - s) <? 0)) eqn:E3; [left; reflexivity|].
  apply orb_false_elim in E3. destruct E3 as [E3 E4]. unfold max_per_time in *.
  destruct (wrap64_diff s e Hs He ltac:(lia)) as [Hw|Hw]; [|lia].
  rewrite Hw in E3.
  set (en := if tip <? e then tip else e).
  assert (Hen : s <= en <= e) by (unfold en; destruct (tip <? e) eqn:E5; lia).
  rewrite (wrap64_id (en - s)) by (unfold int64, two63 in *; lia).
  rewrite (wrap64_id (en - s + 1)) by (unfold int64, two63 in *; lia).
  unfold go_make. unfold max_len.
  replace ((en - s + 1 <? 0) || (35184372088832 <? en - s + 1)) with false
    by (symmetry; apply orb_false_intro; lia).
  replace (cap <? en - s + 1) with false by (symmetry; lia).
  destruct (s <? 0); [left; reflexivity|]. right. eexists. split; [reflexivity|].
  rewrite zseq_len. lia.
Qed.

Lemma chain_get_small : forall tip cap s e,
  int64 s -> int64 e -> int64 tip -> 0 <= s -> span_ok s e = true -> 257 <= cap ->
  chain_get tip cap s e <> Died /\ no_panic (chain_get tip cap s e).
Proof.
  intros tip cap s e Hs He Ht H0 Hsp Hcap. unfold span_ok in Hsp. apply andb_prop in Hsp. destruct Hsp as [Ha Hb].
  unfold chain_get.
  destruct (tip <? s) eqn:E1; [split; [discriminate|exact I]|].
  destruct (e <? s) eqn:E2; [split; [discriminate|exact I]|].
  rewrite (wrap64_id (e - s)) by (unfold int64, two63 in *; lia).
  destruct ((max_per_time <=? e - s) || (e - s <? 0)) eqn:E3; [split; [discriminate|exact I]|].
  set (en := if tip <? e then tip else e).
  assert (Hen : s <= en <= e) by (unfold en; destruct (tip <? e) eqn:E4; lia).
  rewrite (wrap64_id (en - s)) by (unfold int64, two63 in *; lia).
  rewrite (wrap64_id (en - s + 1)) by (unfold int64, two63 in *; lia).
  unfold go_make. unfold max_len.
  replace ((en - s + 1 <? 0) || (35184372088832 <? en - s + 1)) with false
    by (symmetry; apply orb_false_intro; lia).
  replace (cap <? en - s + 1) with false by (symmetry; lia).
  destruct (s <? 0); split; try discriminate; exact I.
Qed.

Definition sreq_int64 (r : rd (option (Z * Z))) : Prop :=
  match r with RdMsg (Some (s, e)) => int64 s /\ int64 e | _ => True end.
Definition sreq_new_int64 (r : rd (Z * Z)) : Prop :=
  match r with RdMsg (s, e) => int64 s /\ int64 e | _ => True end.

Lemma serve_range_real : forall tip cap old s e,
  int64 tip -> 257 <= cap -> int64 s -> int64 e ->
  serve_survives (serve_range (chain_get tip cap) old s e) = true
  /\ forall s' e', fst (serve_range (chain_get tip cap) old s e) = Some (s', e') -> 0 <= s' /\ span_ok s' e' = true.
Proof.
  intros tip cap old s e Ht Hcap Hs He.
  unfold serve_range. destruct (range_bad s e) eqn:Er; [split; [reflexivity|cbn; discriminate]|].
  destruct (range_ok s e Hs He Er) as [H0 Hsp].
  destruct (chain_get_small tip cap s e Hs He Ht H0 Hsp Hcap) as [Hd Hp].
  split.
  - unfold serve_survives. destruct (chain_get tip cap s e) as [[|hs]|w|w|]; cbn; try reflexivity; try congruence.
    destruct hs; [reflexivity|]. destruct old; reflexivity.
  - intros s' e' H.
    destruct (chain_get tip cap s e) as [[|hs]|w|w|]; cbn in H; try (injection H as <- <-; split; assumption).
    destruct hs; [cbn in H; injection H as <- <-; split; assumption|].
    destruct old; cbn in H; injection H as <- <-; split; assumption.
Qed.

Lemma serve_old_real : forall tip cap r,
  int64 tip -> 257 <= cap -> sreq_int64 r ->
  serve_survives (serve_old (chain_get tip cap) r) = true
  /\ forall s e, fst (serve_old (chain_get tip cap) r) = Some (s, e) -> 0 <= s /\ span_ok s e = true.
Proof.
  intros tip cap [| |[[s e]|]] Ht Hcap Hi; cbn [serve_old]; try (split; [reflexivity|cbn; discriminate]).
  cbn in Hi. destruct Hi as [Hs He]. apply serve_range_real; assumption.
Qed.

Lemma serve_new_real : forall tip cap r,
  int64 tip -> 257 <= cap -> sreq_new_int64 r ->
  serve_survives (serve_new (chain_get tip cap) r) = true
  /\ forall s e, fst (serve_new (chain_get tip cap) r) = Some (s, e) -> 0 <= s /\ span_ok s e = true.
Proof.
  intros tip cap [| |[s e]] Ht Hcap Hi; cbn [serve_new].
  - split; [reflexivity|cbn; discriminate].
  - apply serve_range_real; try assumption; unfold int64, two63; lia.
  - cbn in Hi. destruct Hi as [Hs He]. apply serve_range_real; assumption.
Qed.

(** the request that used to end the process: start = -2^40, end = 2^63-1 *)
Definition req_wrap : rd (option (Z * Z)) := RdMsg (Some (- 1099511627776, two63 - 1)).

(** ** peer-info handlers *)

Lemma split_nonempty : forall sep s, split sep s <> [].
Proof.
  intros sep s. destruct s as [|c tl]; cbn; [discriminate|].
  destruct (split sep tl) as [|cur rest]; [discriminate|]. destruct (N.eqb c sep); discriminate.
Qed.

Lemma go_nth_in_range : forall A (l : list A) i w, (i < length l)%nat -> exists x, go_nth l i w = Done x.
Proof.
  intros A l i w H. unfold go_nth. destruct (nth_error l i) as [x|] eqn:E; [eauto|].
  apply nth_error_None in E. lia.
Qed.

Lemma parse_ip_total : forall a, exists ip, parse_ip a = Done ip.
Proof.
  intros a. unfold parse_ip. destruct (length (split SLASH a) <? 5)%nat eqn:E; [eauto|].
  apply Nat.ltb_ge in E.
  destruct (go_nth_in_range _ (split SLASH a) 4 W_SPLIT ltac:(lia)) as [p4 H4]. rewrite H4.
  destruct (snd (atoi p4)); [|eauto].
  apply go_nth_in_range. lia.
Qed.

Lemma set_external_total : forall e ext addr, exists r, set_external e ext addr = Done r.
Proof.
  intros e ext addr. unfold set_external. destruct (parse_ip_total addr) as [ip ->].
  destruct (pe_public e ip); eauto.
Qed.

Lemma version_msg_total : forall e ext m, no_panic (snd (version_msg e ext m)).
Proof.
  intros e ext m. unfold version_msg. destruct (negb (vm_version m =? pe_channel e)); [exact I|].
  destruct (parse_ip_total (vm_from m)) as [ip ->].
  destruct (pe_public e ip && negb (pe_maddr e (vm_from m))); [exact I|].
  destruct (set_external_total e ext (vm_recv m)) as [[ext' eff] ->]. exact I.
Qed.

Lemma handle_version_total : forall e ext r, no_panic (snd (handle_version e ext r)).
Proof. intros e ext [| |m]; cbn [handle_version]; try exact I; apply version_msg_total. Qed.

Lemma handle_version_old_total : forall e ext r, no_panic (snd (handle_version_old e ext r)).
Proof. intros e ext [| |[m|]]; cbn [handle_version_old]; try exact I; apply version_msg_total. Qed.

Lemma ver_loop_total : forall vl cv i,
  (i + length vl <= length cv)%nat -> exists b, ver_loop vl cv i = Done b.
Proof.
  induction vl as [|l tl IH]; cbn [ver_loop length]; intros cv i H; [eauto|].
  destruct (go_nth_in_range _ cv i W_VERI ltac:(lia)) as [c ->].
  destruct (fst (atoi c) <? fst (atoi l)); [eauto|]. apply IH. lia.
Qed.

Lemma check_version_limit_total : forall lim ver, exists b, check_version_limit lim ver = Done b.
Proof.
  intros lim ver. unfold check_version_limit. destruct lim as [|c tl]; [eauto|].
  destruct (negb (length (split AT ver) =? 2)%nat) eqn:E; [eauto|].
  apply negb_false_iff, Nat.eqb_eq in E.
  destruct (go_nth_in_range _ (split AT ver) 1 W_VER1 ltac:(lia)) as [v1 ->].
  destruct (length (split DOT v1) <? length (split DOT (c :: tl)))%nat eqn:E2; [eauto|].
  apply Nat.ltb_ge in E2. apply ver_loop_total. lia.
Qed.

Lemma refresh_one_total : forall lim r, no_panic (refresh_one lim r).
Proof.
  intros lim [| |v]; cbn [refresh_one]; try exact I.
  - destruct (check_version_limit_total lim []) as [b ->]. exact I.
  - destruct (check_version_limit_total lim v) as [b ->]. exact I.
Qed.
