(** C33 — property theorems only.
    [step c st p ev] is one event of the light-broadcast component in state
    [st] with mempool content [p]: [Alive st' p' effects] or [Crashed why]
    (the node process is gone).  [run] folds [step] over a history ([None] =
    crashed).  [under_recover ev]: the event is handled inside
    handleBroadcastReceive (deferred recover).  [mem_ok c ev]: the operating
    system can provide a slice with one element per short hash of the light
    block just received, [length (lt_sh lb) <= c_cap c] (addLtBlock sizes its
    allocations with Header.TxCount only after 0 < TxCount <= len(STxHashes)
    was tested; the hash list itself is already in memory, decoded).  This is
    the only guard left; it is a statement about the node's memory, no longer
    about a number the peer writes into a 60-byte message. *)
From Coq Require Import List ZArith NArith Bool Lia.
From C33 Require Import C33.Model C33.ProofsBase C33.ProofsMain C33.ProofsStep C33.ProofsThm.
From C33 Require Import C33.Streams C33.ProofsStreams C33.ProofsServe C33.Store C33.ProofsStore.
Import ListNotations.
Open Scope Z_scope.

(** ** receive paths under recover *)

(** no peer message handled under the recover ends the process: nil header,
    negative / zero / huge counts (TxCount = 2^40 included), counts that
    disagree with the hash list, groups of any length, undecodable or unknown
    peer messages are processed or dropped *)
Theorem C33_recovered_paths_total : forall c st p ev,
  under_recover ev = true -> mem_ok c ev = true ->
  exists st' p' e, step c st p ev = Alive st' p' e.
Proof. exact recovered_total. Qed.
Print Assumptions C33_recovered_paths_total.

(** the guard holds for the light block that used to abort the process
    (TxCount = 2^40, three short hashes); the block is dropped, only the
    duplicate filter remembers its header hash *)
Theorem C33_recovered_guard_example :
  mem_ok cfg0 (ERecvLt 0 1%N 2%N (mkLt (Some (mkHdr (-1) 5 1%N 1%N)) None [1; 2]%N)) = true
  /\ mem_ok cfg0 (ERecvLt 0 1%N 2%N lt_w) = true
  /\ mem_ok cfg0 ev_oom = true
  /\ step cfg0 init pool_w ev_oom = Alive (mkSt [1%N] [] [] 0) pool_w [].
Proof. vm_compute. auto. Qed.
Print Assumptions C33_recovered_guard_example.

(** ** the background loops (no recover) *)

(** no history of peer messages, pool changes and loop iterations ends the
    process - whatever groups the pool returns, with or without a validator
    (c_noval is any) *)
Theorem C33_no_panic_outside_recover : forall c p0 evs,
  forallb (mem_ok c) evs = true -> run c init p0 evs <> None.
Proof. exact no_crash. Qed.
Print Assumptions C33_no_panic_outside_recover.

(** the history that used to kill the pending loop (a 3-slot block whose last
    slot is later answered with a 2-member group) satisfies the guard; the
    group is not expanded and the block stays pending with that slot empty *)
Theorem C33_no_panic_example :
  forallb (mem_ok cfg0) hist_overrun = true /\
  match run cfg0 init pool_w hist_overrun with
  | Some (st, _) => map pd_txs (st_pend st) = [[Some 11; Some 1; None]%N]
  | None => False
  end.
Proof. exact overrun_survives. Qed.
Print Assumptions C33_no_panic_example.

(** with and without a validator the honest history (the block arrives before
    its last transactions, the pending loop completes it) hands the block over
    and the loop goes on *)
Theorem C33_validator_optional_example : forall c, c = cfg0 \/ c = cfg_noval ->
  match run c init [] [ERecvLt 0 1%N 2%N lt_w; ETick 500000000] with
  | Some (st, p) =>
      length (st_pend st) = 1%nat /\
      step c st p (EPool [(2%N, grp2)]) = Alive st [(2%N, grp2)] [] /\
      exists st', step c st [(2%N, grp2)] (ETick 1500000000)
                  = Alive st' [(2%N, grp2)]
                          [Post 2%N (mkBlk 5 1%N 0%N [Some 11; Some 16; Some 17]%N)]
                  /\ st_pend st' = []
  | None => False
  end.
Proof. exact hist_fits_posts. Qed.
Print Assumptions C33_validator_optional_example.

(** the guard is exactly what is needed: every crash of every history is the
    out-of-memory abort at the arrival of a light block whose hash list is
    longer than any slice the operating system can provide *)
Theorem C33_crash_characterisation : forall c p0 evs,
  run c init p0 evs = None ->
  exists pre ev post st p,
    evs = pre ++ ev :: post /\ run c init p0 pre = Some (st, p) /\ oom_on_arrival c st p ev.
Proof. exact crash_characterisation. Qed.
Print Assumptions C33_crash_characterisation.

(** in every reachable state one iteration of pendBlockLoop completes: the
    loop body has no reachable panic site (sTxHashes[i], Txs[index],
    Txs[index+j] are in range, the nil validator is not dereferenced) *)
Theorem C33_loop_never_panics : forall c p0 evs st p now,
  run c init p0 evs = Some (st, p) -> exists st' e, tick_raw c p now st = Ok (st', e).
Proof. exact tick_total. Qed.
Print Assumptions C33_loop_never_panics.

(** addLtBlock does not panic at all, recovered or not, on any light block
    (malformed ones included) for which a slice as long as the hash list can
    be made; 2^45 is Go's own limit for such a slice *)
Theorem C33_light_block_never_panics : forall c p now from pub lb st,
  Z.of_nat (length (lt_sh lb)) <= c_cap c -> Z.of_nat (length (lt_sh lb)) <= max_len ->
  exists st' e, add_lt c p now from pub lb st = Ok (st', e).
Proof. exact add_lt_total. Qed.
Print Assumptions C33_light_block_never_panics.

Theorem C33_light_block_example :
  Z.of_nat (length (lt_sh lt_w)) <= c_cap cfg0 /\ Z.of_nat (length (lt_sh lt_w)) <= max_len
  /\ add_lt cfg0 [(2%N, grp2)] 0 1%N 2%N lt_w init
     = Ok (init, [Post 2%N (mkBlk 5 1%N 0%N [Some 11; Some 16; Some 17]%N)]).
Proof. exact add_lt_total_example. Qed.
Print Assumptions C33_light_block_example.

(** ** stream receive paths (Streams.v) *)

(** downloadBlockFromPeerOld: whatever a peer answers to a block request - no
    stream, a reset, a short / wrong header, an oversized, truncated or
    undecodable frame, a reply without Message, with an empty item list, with
    several items, with a first item that carries nothing, a transaction, or a
    block of another height - the reply is accepted or dropped; there is no
    panic (the caller is a per-height goroutine without recover) *)
Theorem C33_download_reply_never_panics : forall h w,
  match from_peer h w with Panicked _ | Died => False | Done _ | Dropped _ => True end.
Proof. exact from_peer_no_panic. Qed.
Print Assumptions C33_download_reply_never_panics.

(** at the level of Go values the decoder is safe exactly when the first item
    is not a nil pointer; replies decoded from the wire never have one *)
Theorem C33_download_reply_go_level :
  (forall h r, first_item_present r = true ->
     match extract h r with Panicked _ | Died => False | Done _ | Dropped _ => True end)
  /\ (forall h tl, extract h (Some (None :: tl)) = Panicked W_NILITEM)
  /\ (forall m, first_item_present (option_map (map lift_item) m) = true).
Proof. split; [exact extract_guarded|split; [exact extract_nil_item_panics|exact lift_present]]. Qed.
Print Assumptions C33_download_reply_go_level.

(** malformed replies are rejected: a reply is accepted only if its first item
    is a block of the requested height, and that block is what is handed on *)
Theorem C33_download_accepts_only_requested : forall h w b,
  from_peer h w = Done b -> bk_h b = h /\ exists tl, w = WMsg (Some (WIblock b :: tl)).
Proof. exact from_peer_accepts. Qed.
Print Assumptions C33_download_accepts_only_requested.

(** handleEventDownloadBlock: no per-height goroutine (no recover) and no
    re-download in checkTask panics, for every range, task list and script of
    peer replies; the model's fuel is never the reason for giving up *)
Theorem C33_download_job_survives : forall j,
  jr_dead (run_job j) = false /\ jr_aborted (run_job j) = false.
Proof. exact job_never_dies. Qed.
Print Assumptions C33_download_job_survives.

Theorem C33_download_loop_total : forall h wires ts,
  match fst (download_block h wires ts) with Panicked _ | Died => False | Done _ | Dropped _ => True end
  /\ fst (download_block h wires ts) <> Dropped D_FUEL.
Proof. intros. destruct (download_block_spec h wires ts) as (A & B & _). split; assumption. Qed.
Print Assumptions C33_download_loop_total.

(** every block the job hands to the blockchain module was sent by that peer,
    for that height, as the first item of one of its replies *)
Theorem C33_download_job_delivers_sent : forall j d,
  In d (jr_del (run_job j)) -> sent_by (j_script j) d.
Proof. exact job_delivers_sent. Qed.
Print Assumptions C33_download_job_delivers_sent.

(** heights 5..6 from two peers: peer 0 answers height 5 with an empty item
    list and height 6 with a block of height 7, then (second request) with
    nothing; peer 1 answers 5 correctly and 6 only at the second request: 5 is
    delivered by peer 1 in phase one, 6 by peer 1 in phase two *)
Theorem C33_download_job_example :
  let j := mkJob 5 6 [mkTask 0 9; mkTask 1 9]
             [(0%N, 5, [WMsg (Some [])]); (0%N, 6, [WMsg (Some [WIblock (mkB 7 3)]); WMsg None]);
              (1%N, 5, [WMsg (Some [WIblock (mkB 5 1)])]);
              (1%N, 6, [WBadHdr; WMsg (Some [WIblock (mkB 6 2); WItx])])] in
  run_job j = mkJres 0 false false [(5, 1%N, 1%N); (6, 1%N, 2%N)]
                     [(5, [0%N; 1%N]); (6, [0%N; 1%N]); (6, [0%N; 1%N])].
Proof. vm_compute. reflexivity. Qed.
Print Assumptions C33_download_job_example.

(** serving side, whatever the blockchain module answers (as long as it answers):
    both stream handlers survive every request; the only panic is the field
    read through the nil Message of an old-protocol request (wrong header or
    empty message), which the stream wrapper's recover turns into a reset *)
Theorem C33_serve_handlers_total : forall chain,
  (forall s e, chain s e <> Died) ->
  (forall r, serve_survives (serve_old chain r) = true)
  /\ (forall r, serve_survives (serve_new chain r) = true)
  /\ (forall r w, snd (serve_old chain r) = Panicked w -> w = W_NILREQ /\ (r = RdZero \/ r = RdMsg None))
  /\ (forall r, match snd (serve_new chain r) with Panicked _ | Died => False | _ => True end).
Proof.
  intros chain Hc.
  split; [intros r; apply serve_old_survives; exact Hc|].
  split; [intros r; apply serve_new_survives; exact Hc|].
  split; [intros r w; apply serve_old_panic_site; exact Hc|].
  intros r. apply serve_new_no_panic. exact Hc.
Qed.
Print Assumptions C33_serve_handlers_total.

(** ... in front of the real blockchain module (ProcGetBlockDetailsMsg, blocks
    0..tip, memory for 257 pointers): every request with int64 fields, old or
    new protocol, is survived, and every range handed on starts at a
    non-negative height and spans at most 257 blocks (as integers).  Holds since
    both handlers reject Start < 0 before they take End-Start (finding 4,
    repaired: StartHeight = -2^40, EndHeight = 2^63-1 used to pass the wrapped
    test here and in the blockchain module and ended in a fatal allocation) *)
Theorem C33_serve_request : forall tip cap,
  int64 tip -> 257 <= cap ->
  (forall r, sreq_int64 r ->
     serve_survives (serve_old (chain_get tip cap) r) = true
     /\ forall s e, fst (serve_old (chain_get tip cap) r) = Some (s, e) -> 0 <= s /\ span_ok s e = true)
  /\ (forall r, sreq_new_int64 r ->
     serve_survives (serve_new (chain_get tip cap) r) = true
     /\ forall s e, fst (serve_new (chain_get tip cap) r) = Some (s, e) -> 0 <= s /\ span_ok s e = true).
Proof.
  intros tip cap Ht Hcap. split; intros r Hr; [apply serve_old_real|apply serve_new_real]; assumption.
Qed.
Print Assumptions C33_serve_request.

Theorem C33_serve_request_example :
  serve_old (chain_get 10 1000) (RdMsg (Some (3, 200))) = (Some (3, 200), Done [3; 4; 5; 6; 7; 8; 9; 10])
  /\ serve_new (chain_get 10 1000) (RdMsg (3, 200)) = (Some (3, 200), Done [3])
  /\ sreq_int64 req_wrap
  /\ serve_old (chain_get 10 2147483648) req_wrap = (None, Dropped D_RANGE)
  /\ serve_new (chain_get 10 2147483648) (RdMsg (- two63, 5)) = (None, Dropped D_RANGE).
Proof.
  split; [vm_compute; reflexivity|]. split; [vm_compute; reflexivity|].
  split; [cbn; unfold int64, two63; lia|]. split; vm_compute; reflexivity.
Qed.
Print Assumptions C33_serve_request_example.

(** the blockchain module's side of the same range (ProcGetBlockDetailsMsg is also
    reached by the rpc and consensus modules through the queue): for every int64
    request it answers with an error or with 1..1000 blocks - no panic, no
    allocation beyond MaxBlockCountPerTime pointers.  Holds since the count test
    also rejects a negative (= wrapped) End-Start *)
Theorem C33_chain_get_blocks_total : forall tip cap s e,
  int64 s -> int64 e -> int64 tip -> 1000 <= cap ->
  chain_get tip cap s e = Done CErr
  \/ exists hs, chain_get tip cap s e = Done (CBlocks hs) /\ (1 <= length hs <= 1000)%nat.
Proof. exact chain_get_total. Qed.
Print Assumptions C33_chain_get_blocks_total.

Theorem C33_chain_get_blocks_example :
  chain_get 10 2147483648 (- 1099511627776) (two63 - 1) = Done CErr
  /\ chain_get 10 2147483648 (- 4611686018427387904) 4611686018427387904 = Done CErr
  /\ chain_get 10 2147483648 3 200 = Done (CBlocks [3; 4; 5; 6; 7; 8; 9; 10])
  /\ chain_get 2000 2147483648 0 999 = Done (CBlocks (zseq 0 1000))
  /\ chain_get 2000 2147483648 0 1000 = Done CErr.
Proof. vm_compute. repeat split. Qed.
Print Assumptions C33_chain_get_blocks_example.

(** peer-info handlers: for every channel, every pair of library oracles
    (IsPublicIP, NewMultiaddr), every external address and every request
    (undecodable, wrong header, nil Message, any three field values) both
    version handlers reply or drop without a panic; checkVersionLimit, which
    runs on the Version string of a peer's answer in a goroutine without
    recover, returns for every limit and every string *)
Theorem C33_peer_handlers_total :
  (forall e ext r, match snd (handle_version e ext r) with Panicked _ | Died => False | _ => True end)
  /\ (forall e ext r, match snd (handle_version_old e ext r) with Panicked _ | Died => False | _ => True end)
  /\ (forall a, exists ip, parse_ip a = Done ip)
  /\ (forall lim ver, exists b, check_version_limit lim ver = Done b)
  /\ (forall lim r, match refresh_one lim r with Panicked _ | Died => False | _ => True end).
Proof.
  split; [exact handle_version_total|]. split; [exact handle_version_old_total|].
  split; [exact parse_ip_total|]. split; [exact check_version_limit_total|exact refresh_one_total].
Qed.
Print Assumptions C33_peer_handlers_total.

(** "/ip4/8.8.8.8/tcp/13802" read as ip 8.8.8.8; limit 6.8.9 lets x@6.8.10 pass,
    rejects x@6.8 (too few parts), x@6.8.8 and a string with two '@' *)
Theorem C33_peer_handlers_example :
  parse_ip [47;105;112;52;47;56;46;56;46;56;46;56;47;116;99;112;47;49;51;56;48;50]%N = Done [56;46;56;46;56;46;56]%N
  /\ parse_ip [47;105;112;52;47;56;46;56;46;56;46;56;47;116;99;112;47;120]%N = Done []
  /\ check_version_limit [54;46;56;46;57]%N [120;64;54;46;56;46;49;48]%N = Done true
  /\ check_version_limit [54;46;56;46;57]%N [120;64;54;46;56]%N = Done false
  /\ check_version_limit [54;46;56;46;57]%N [120;64;54;46;56;46;56]%N = Done false
  /\ check_version_limit [54;46;56;46;57]%N [120;64;64;54;46;56;46;57]%N = Done false.
Proof. vm_compute. repeat split. Qed.
Print Assumptions C33_peer_handlers_example.

(** p2pstore header requests (handleStreamGetHeaderOld needs no signature,
    handleStreamGetHeader a signature under the requester's own key; neither
    tests the range) in front of ProcGetHeadersMsg, and the same range sent by
    the rpc module: for every int64 range the blockchain module answers with an
    error or with 1..10000 headers - no panic, no allocation beyond
    MaxHeaderCountPerTime pointers; the handlers answer, drop or (nil Message,
    nil Headers, other oneof member: recovered by the stream wrapper) reset.
    Holds since the count test also rejects a negative (= wrapped) End-Start
    (finding 5, repaired: StartHeight = -2^40, EndHeight = 2^63-1 sized the
    reply slice with 2^40 pointers: fatal out of memory) *)
Theorem C33_header_request_total : forall tip cap,
  int64 tip -> 10000 <= cap ->
  (forall s e, int64 s -> int64 e ->
     chain_headers tip cap s e = Done CErr
     \/ exists hs, chain_headers tip cap s e = Done (CBlocks hs) /\ 1 <= Z.of_nat (length hs) <= 10000)
  /\ (forall r, sreq_int64 r ->
        match get_header_old (chain_headers tip cap) r with
        | Done (RHeaders hs) => 1 <= Z.of_nat (length hs) <= 10000
        | Dropped _ => True
        | Panicked w => w = W_NILHREQ /\ (r = RdZero \/ r = RdMsg None)
        | _ => False
        end)
  /\ (forall r, preq_typed r ->
        match get_header (chain_headers tip cap) r with
        | Done (RHeaders hs) => 1 <= Z.of_nat (length hs) <= 10000
        | Done RError | Dropped _ => True
        | Panicked w => w = W_NILHDRS \/ w = W_ASSERT
        | _ => False
        end).
Proof.
  intros tip cap Ht Hcap. split; [|split].
  - intros s e Hs He. apply chain_headers_total; assumption.
  - intros r Hr. apply get_header_old_spec; assumption.
  - intros r Hr. apply get_header_spec; assumption.
Qed.
Print Assumptions C33_header_request_total.

(** GetBlockSequences (rpc GetBlockSequences through the queue): an error or
    1..1000 entries for every int64 range.  Holds since the count test also
    rejects a wrapped End-Start (finding 6, repaired: Start = -65536, End =
    2^63-1 was answered with 65536 nil entries and the whole table, Start =
    -2^40 appended until memory ran out) *)
Theorem C33_block_sequences_total : forall last cap s e,
  int64 s -> int64 e -> int64 last -> 1000 <= cap ->
  chain_seqs last cap s e = Done QErr
  \/ exists a b, chain_seqs last cap s e = Done (QSeqs a b) /\ 0 <= a /\ 0 <= b /\ 1 <= a + b <= 1000.
Proof. exact chain_seqs_total. Qed.
Print Assumptions C33_block_sequences_total.

(** all modelled p2pstore handlers (header old / new, chunk record, fetch chunk,
    shard peers, full node) and the two direct ranges, on every node (chain
    height, last sequence, chunk records, local store, routing table of any
    size; memory for 10000 pointers and for one peerDistance record per peer of
    the table plus a bucket) and for every request whose integer fields have
    their Go types: the process survives, the routing table's lock is never
    left held, the only panics are the three recovered reads, and every reply
    is within the limit of its kind (10000 headers, 1000 sequence entries, the
    chunk records / stored bodies / peers the node has).  Holds for the
    shard-peer handler since it answers Count < 0 with an error and cuts Count
    to the size of the table (finding 7, repaired) *)
Theorem C33_p2pstore_handlers_total : forall e q,
  env_ok e -> streq_typed q ->
  store_survives (store_step e q) = true
  /\ snd (store_step e q) = false
  /\ reply_ok e (fst (store_step e q)).
Proof.
  intros e q He Hq. destruct (store_step_ok e q He Hq) as [Hr Hl].
  split; [eapply reply_ok_survives; exact Hr|]. split; assumption.
Qed.
Print Assumptions C33_p2pstore_handlers_total.

(** the node of the harness (height 3, records 0..2, twelve stored bodies, six
    peers) satisfies the hypotheses; served requests; the three witnesses are
    rejected; what kbucket's NearestPeers does with the counts the handler now
    keeps away from it: -21 panics with the read lock held, 2^31-1 asks for
    more than a 16 GiB process gets; the key format of the local store *)
Theorem C33_p2pstore_example :
  env_ok env_example
  /\ sreq_int64 hreq_wrap
  /\ store_step env_example (QHdrOld hreq_wrap) = (Dropped D_CHAIN, false)
  /\ store_step env_example (QHdr (RdMsg (mkPR true true (MReqBlocks (- 1099511627776) (two63 - 1))))) = (Done RError, false)
  /\ store_step env_example (QHdr (RdMsg (mkPR true true (MReqBlocks 2 9)))) = (Done (RHeaders [2; 3]), false)
  /\ store_step env_example (QHdr (RdMsg (mkPR false false (MReqBlocks 2 9)))) = (Panicked W_NILHDRS, false)
  /\ store_step env_example (QHdr (RdMsg (mkPR true false (MReqBlocks 2 9)))) = (Dropped D_SIGN, false)
  /\ store_step env_example (QHdr (RdMsg (mkPR true true MOther))) = (Panicked W_ASSERT, false)
  /\ store_step env_example (QDirSeq (- 5) 0) = (Done (RSeqs 5 1), false)
  /\ store_step env_example (QDirSeq (- 65536) (two63 - 1)) = (Done RError, false)
  /\ store_step env_example (QRec (RdMsg (mkPR true true (MRecords 0 2)))) = (Done (RRecords 3), false)
  /\ store_step env_example (QRec (RdMsg (mkPR true true (MRecords 0 (two63 - 1))))) = (Done RError, false)
  /\ store_step env_example (QChunk (RdMsg (mkPR true true (MChunk 10 12)))) = (Done (RBodies 3), false)
  /\ store_step env_example (QChunk (RdMsg (mkPR true true (MChunk 12 99)))) = (Done RError, false)
  /\ store_step env_example (QChunk (RdMsg (mkPR true true (MChunk (- two63) (two63 - 1))))) = (Done (RBodies 0), false)
  /\ store_step env_example (QShard (RdMsg (mkPR false false (MPeers false (- 21))))) = (Done RError, false)
  /\ store_step env_example (QShard (RdMsg (mkPR false false (MPeers true 2147483647)))) = (Done (RPeers 6), false)
  /\ store_step env_example (QShard (RdMsg (mkPR false false (MPeers false 3)))) = (Done (RPeers 3), false)
  /\ nearest_peers 6 429496729 (- 21) = (Panicked W_NEGCAP, true)
  /\ nearest_peers 6 429496729 (- 1) = (Panicked W_NEGLEN, false)
  /\ nearest_peers 6 429496729 2147483647 = (Died, false)
  /\ fmt12 (- 5) = [45; 48; 48; 48; 48; 48; 48; 48; 48; 48; 48; 53]%N
  /\ fmt12 1000000000000 = [49; 48; 48; 48; 48; 48; 48; 48; 48; 48; 48; 48; 48]%N.
Proof.
  split; [exact env_example_ok|]. split; [cbn; unfold int64, two63; lia|].
  vm_compute. repeat split.
Qed.
Print Assumptions C33_p2pstore_example.
