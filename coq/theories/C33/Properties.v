(** C33 — property theorems only.
    [step c st p ev] is one event of the light-broadcast component in state
    [st] with mempool content [p]: [Alive st' p' effects] or [Crashed why]
    (the node process is gone).  [run] folds [step] over a history ([None] =
    crashed).  [under_recover ev]: the event is handled inside
    handleBroadcastReceive (deferred recover).  [mem_ok c ev]: the operating
    system can provide a slice with one element per short hash of the light
    block just received, [length (lt_sh lb) <= c_cap c] (addLtBlock sizes its
    allocations with Header.TxCount only after 0 < TxCount <= len(STxHashes)
    was tested; the hash list itself is already in memory, decoded).  This is
    the only guard left; it is a statement about the node's memory, no longer
    about a number the peer writes into a 60-byte message. *)
From Coq Require Import List ZArith NArith Bool Lia.
From C33 Require Import C33.Model C33.ProofsBase C33.ProofsMain C33.ProofsStep C33.ProofsThm.
Import ListNotations.
Open Scope Z_scope.

(** ** receive paths under recover *)

(** no peer message handled under the recover ends the process: nil header,
    negative / zero / huge counts (TxCount = 2^40 included), counts that
    disagree with the hash list, groups of any length, undecodable or unknown
    peer messages are processed or dropped *)
Theorem C33_recovered_paths_total : forall c st p ev,
  under_recover ev = true -> mem_ok c ev = true ->
  exists st' p' e, step c st p ev = Alive st' p' e.
Proof. exact recovered_total. Qed.
Print Assumptions C33_recovered_paths_total.

(** the guard holds for the light block that used to abort the process
    (TxCount = 2^40, three short hashes); the block is dropped, only the
    duplicate filter remembers its header hash *)
Theorem C33_recovered_guard_example :
  mem_ok cfg0 (ERecvLt 0 1%N 2%N (mkLt (Some (mkHdr (-1) 5 1%N 1%N)) None [1; 2]%N)) = true
  /\ mem_ok cfg0 (ERecvLt 0 1%N 2%N lt_w) = true
  /\ mem_ok cfg0 ev_oom = true
  /\ step cfg0 init pool_w ev_oom = Alive (mkSt [1%N] [] [] 0) pool_w [].
Proof. vm_compute. auto. Qed.
Print Assumptions C33_recovered_guard_example.

(** ** the background loops (no recover) *)

(** no history of peer messages, pool changes and loop iterations ends the
    process - whatever groups the pool returns, with or without a validator
    (c_noval is any) *)
Theorem C33_no_panic_outside_recover : forall c p0 evs,
  forallb (mem_ok c) evs = true -> run c init p0 evs <> None.
Proof. exact no_crash. Qed.
Print Assumptions C33_no_panic_outside_recover.

(** the history that used to kill the pending loop (a 3-slot block whose last
    slot is later answered with a 2-member group) satisfies the guard; the
    group is not expanded and the block stays pending with that slot empty *)
Theorem C33_no_panic_example :
  forallb (mem_ok cfg0) hist_overrun = true /\
  match run cfg0 init pool_w hist_overrun with
  | Some (st, _) => map pd_txs (st_pend st) = [[Some 11; Some 1; None]%N]
  | None => False
  end.
Proof. exact overrun_survives. Qed.
Print Assumptions C33_no_panic_example.

(** with and without a validator the honest history (the block arrives before
    its last transactions, the pending loop completes it) hands the block over
    and the loop goes on *)
Theorem C33_validator_optional_example : forall c, c = cfg0 \/ c = cfg_noval ->
  match run c init [] [ERecvLt 0 1%N 2%N lt_w; ETick 500000000] with
  | Some (st, p) =>
      length (st_pend st) = 1%nat /\
      step c st p (EPool [(2%N, grp2)]) = Alive st [(2%N, grp2)] [] /\
      exists st', step c st [(2%N, grp2)] (ETick 1500000000)
                  = Alive st' [(2%N, grp2)]
                          [Post 2%N (mkBlk 5 1%N 0%N [Some 11; Some 16; Some 17]%N)]
                  /\ st_pend st' = []
  | None => False
  end.
Proof. exact hist_fits_posts. Qed.
Print Assumptions C33_validator_optional_example.

(** the guard is exactly what is needed: every crash of every history is the
    out-of-memory abort at the arrival of a light block whose hash list is
    longer than any slice the operating system can provide *)
Theorem C33_crash_characterisation : forall c p0 evs,
  run c init p0 evs = None ->
  exists pre ev post st p,
    evs = pre ++ ev :: post /\ run c init p0 pre = Some (st, p) /\ oom_on_arrival c st p ev.
Proof. exact crash_characterisation. Qed.
Print Assumptions C33_crash_characterisation.

(** in every reachable state one iteration of pendBlockLoop completes: the
    loop body has no reachable panic site (sTxHashes[i], Txs[index],
    Txs[index+j] are in range, the nil validator is not dereferenced) *)
Theorem C33_loop_never_panics : forall c p0 evs st p now,
  run c init p0 evs = Some (st, p) -> exists st' e, tick_raw c p now st = Ok (st', e).
Proof. exact tick_total. Qed.
Print Assumptions C33_loop_never_panics.

(** addLtBlock does not panic at all, recovered or not, on any light block
    (malformed ones included) for which a slice as long as the hash list can
    be made; 2^45 is Go's own limit for such a slice *)
Theorem C33_light_block_never_panics : forall c p now from pub lb st,
  Z.of_nat (length (lt_sh lb)) <= c_cap c -> Z.of_nat (length (lt_sh lb)) <= max_len ->
  exists st' e, add_lt c p now from pub lb st = Ok (st', e).
Proof. exact add_lt_total. Qed.
Print Assumptions C33_light_block_never_panics.

Theorem C33_light_block_example :
  Z.of_nat (length (lt_sh lt_w)) <= c_cap cfg0 /\ Z.of_nat (length (lt_sh lt_w)) <= max_len
  /\ add_lt cfg0 [(2%N, grp2)] 0 1%N 2%N lt_w init
     = Ok (init, [Post 2%N (mkBlk 5 1%N 0%N [Some 11; Some 16; Some 17]%N)]).
Proof. exact add_lt_total_example. Qed.
Print Assumptions C33_light_block_example.
