(** C33 — property theorems only.
    [step c st p ev] is one event of the light-broadcast component in state
    [st] with mempool content [p]: [Alive st' p' effects] or [Crashed why]
    (the node process is gone).  [run] folds [step] over a history ([None] =
    crashed).  [under_recover ev]: the event is handled inside
    handleBroadcastReceive (deferred recover).  [mem_ok c ev]: a light block's
    Header.TxCount is not in the window [c_cap c < TxCount <= 2^45] where Go's
    make neither panics nor can be satisfied by the operating system.
    [fits_hist p0 evs]: every group any pool of the history returns for a short
    hash of any light block of the history fits into that block's TxCount. *)
From Coq Require Import List ZArith NArith Bool Lia.
From C33 Require Import C33.Model C33.ProofsBase C33.ProofsMain C33.ProofsStep C33.ProofsThm.
Import ListNotations.
Open Scope Z_scope.

(** ** receive paths under recover *)

(** full strength: no peer message handled under the recover ends the process *)
Definition C33_recovered_paths_total_full : Prop :=
  forall c st p ev, under_recover ev = true ->
    exists st' p' e, step c st p ev = Alive st' p' e.

(** refuted: Header.TxCount = 2^40 sizes the allocations of addLtBlock; the
    run-time's out-of-memory abort is not a panic *)
Theorem C33_recovered_paths_total_refuted : ~ C33_recovered_paths_total_full.
Proof.
  intros H. destruct (H cfg0 init pool_w ev_oom eq_refl) as [st' [p' [e E]]].
  rewrite oom_crashes in E. discriminate.
Qed.
Print Assumptions C33_recovered_paths_total_refuted.

(** partial (guard: boolean [mem_ok]): every other message - nil header,
    negative / zero / huge counts, counts that disagree with the hash list,
    groups of any length, undecodable or unknown peer messages - is processed
    or dropped *)
Theorem C33_recovered_paths_total : forall c st p ev,
  under_recover ev = true -> mem_ok c ev = true ->
  exists st' p' e, step c st p ev = Alive st' p' e.
Proof. exact recovered_total. Qed.
Print Assumptions C33_recovered_paths_total.

Theorem C33_recovered_guard_example :
  mem_ok cfg0 (ERecvLt 0 1%N 2%N (mkLt (Some (mkHdr (-1) 5 1%N 1%N)) None [1; 2]%N)) = true
  /\ mem_ok cfg0 (ERecvLt 0 1%N 2%N lt_w) = true.
Proof. vm_compute. auto. Qed.
Print Assumptions C33_recovered_guard_example.

(** ** the background loops (no recover) *)

(** full strength: no history of peer messages, pool changes and loop
    iterations ends the process (out-of-memory counts excluded) *)
Definition C33_no_panic_outside_recover_full : Prop :=
  forall c p0 evs, forallb (mem_ok c) evs = true -> run c init p0 evs <> None.

(** refuted: a pending light block of 3 slots whose last slot is later answered
    by the pool with a 2-member group - index out of range in pendBlockLoop *)
Theorem C33_no_panic_outside_recover_refuted : ~ C33_no_panic_outside_recover_full.
Proof. intros H. exact (H cfg0 pool_w hist_overrun overrun_mem_ok overrun_crashes). Qed.
Print Assumptions C33_no_panic_outside_recover_refuted.

(** partial (guards: validation not disabled, boolean [fits_hist]): when groups
    fit, no history crashes *)
Theorem C33_no_panic_outside_recover_partial : forall c p0 evs,
  c_noval c = false ->
  forallb (mem_ok c) evs = true -> fits_hist p0 evs = true -> run c init p0 evs <> None.
Proof. exact no_crash_when_groups_fit. Qed.
Print Assumptions C33_no_panic_outside_recover_partial.

(** the first guard is needed: with disableValidation the validator is nil and
    the pending loop dies right after handing over a block it completed - an
    honest history, the group fits *)
Theorem C33_partial_needs_validation :
  forallb (mem_ok cfg_noval) hist_fits = true /\ fits_hist [] hist_fits = true
  /\ run cfg_noval init [] hist_fits = None.
Proof. exact noval_crashes. Qed.
Print Assumptions C33_partial_needs_validation.

Theorem C33_partial_guard_example :
  c_noval cfg0 = false /\ forallb (mem_ok cfg0) hist_fits = true /\ fits_hist [] hist_fits = true
  /\ run cfg0 init [] hist_fits <> None.
Proof. split; [|split; [|split]]; try (vm_compute; reflexivity). vm_compute. discriminate. Qed.
Print Assumptions C33_partial_guard_example.

(** every crash of every history is one of the three recorded ones: the group
    overrun in an iteration of the pending loop, the out-of-memory abort at the
    arrival of a light block whose TxCount is in the window, or (validation
    disabled) the nil validator in the loop; in particular sTxHashes[i] can
    never be out of range in the loop *)
Theorem C33_crash_characterisation : forall c p0 evs,
  run c init p0 evs = None ->
  exists pre ev post st p,
    evs = pre ++ ev :: post /\ run c init p0 pre = Some (st, p)
    /\ (group_overrun_in_loop c st p ev \/ oom_on_arrival c st p ev \/ nil_validator_in_loop c st p ev).
Proof. exact crash_characterisation. Qed.
Print Assumptions C33_crash_characterisation.

(** in every reachable state one iteration of pendBlockLoop completes or
    panics at pd.block.Txs[index+j] = gtx or (validation disabled) at
    p.val.addBroadcastMsg, nowhere else *)
Theorem C33_loop_panics_only_at_group_expansion : forall c p0 evs st p now,
  run c init p0 evs = Some (st, p) ->
  tick_raw c p now st <> Fatal
  /\ (forall w, tick_raw c p now st = Panic w -> w = W_GROUP \/ (c_noval c = true /\ w = W_NILVAL)).
Proof. exact tick_only_group. Qed.
Print Assumptions C33_loop_panics_only_at_group_expansion.

(** light blocks with 0 < TxCount = |sTxHashes| (within memory) and groups that
    fit do not panic at all in addLtBlock, recovered or not *)
Theorem C33_wellformed_never_panics : forall c p now from pub lb st,
  wellformed c lb = true -> fits p lb = true ->
  exists st' e, add_lt c p now from pub lb st = Ok (st', e).
Proof. exact wellformed_never_panics. Qed.
Print Assumptions C33_wellformed_never_panics.

Theorem C33_wellformed_example :
  wellformed cfg0 lt_w = true /\ fits [(2%N, grp2)] lt_w = true.
Proof. exact wellformed_example. Qed.
Print Assumptions C33_wellformed_example.
