(** C33 — executable model of the libp2p STREAM receive paths:

      - system/p2p/dht/protocol/download/download.go
          downloadBlockFromPeerOld (reply decoding), downloadBlock (retry loop),
        download/handler.go
          handleEventDownloadBlock (per-height goroutines WITHOUT recover, then
          checkTask inside the event handler's recover),
          handleStreamDownloadBlockOld / handleStreamDownloadBlock (serving side,
          under the recover of protocol.HandlerWithClose);
      - blockchain/query_block.go ProcGetBlockDetailsMsg, the consumer of the
        range the serving side forwards (runs under blockchain.processMsg's
        recover; a failed allocation is fatal all the same);
      - system/p2p/dht/protocol/peer/handler.go
          handleStreamVersion / handleStreamVersionOld (+ setExternalAddr,
          parseIPAndPort of peerinfo.go), checkVersionLimit (fed with the Version
          string of a peer's reply, in a goroutine of refreshPeerInfo WITHOUT
          recover).

    Go semantics written out: [s[i]] panics for i >= len s, a field read
    through nil panics, generated getters are nil-safe, int64 arithmetic wraps,
    [make] as in Model.v.  Every path is a total function into [out]:
    [Done v], [Dropped why], [Panicked site] (a Go panic: survived iff the path
    runs under a recover) or [Died] (the run-time's fatal out of memory).
    No proofs here. *)
From Coq Require Import List ZArith NArith Bool.
From C33 Require Import C33.Model.
Import ListNotations.
Open Scope Z_scope.

Inductive out (A : Type) : Type :=
| Done (a : A)
| Dropped (why : N)
| Panicked (site : N)
| Died.
Arguments Done {A} a.
Arguments Dropped {A} why.
Arguments Panicked {A} site.
Arguments Died {A}.

(** what the process does with an outcome of a path with the given recover status *)
Definition survives {A} (recovered : bool) (o : out A) : bool :=
  match o with
  | Done _ | Dropped _ => true
  | Panicked _ => recovered
  | Died => false
  end.

(** panic sites *)
Definition W_ITEMS0  : N := 20%N.  (* resp.Message.Items[0] with len(Items) = 0 *)
Definition W_NILITEM : N := 21%N.  (* Items[0].Value through a nil *InvData *)
Definition W_NILREQ  : N := 22%N.  (* data.Message.StartHeight through a nil Message (serving side) *)
Definition W_SPLIT   : N := 23%N.  (* split[4] / split[2] in parseIPAndPort *)
Definition W_VER1    : N := 24%N.  (* nodeVers[1] in checkVersionLimit *)
Definition W_VERI    : N := 25%N.  (* checkVers[i] in checkVersionLimit *)
Definition W_BLK0    : N := 26%N.  (* blocks.Items[0] on the serving side *)

(** reasons for a drop *)
Definition D_STREAM : N := 1%N.   (* NewStream / WriteStream / ReadStream error *)
Definition D_EMPTY  : N := 2%N.   (* "empty block response from peer" *)
Definition D_INVAL  : N := 3%N.   (* "invalid block data in response" *)
Definition D_HEIGHT : N := 4%N.   (* block height differs from the requested one *)
Definition D_NOPEER : N := 5%N.   (* "no peer for download" *)
Definition D_MAXTRY : N := 6%N.   (* "beyound max try count 50" *)
Definition D_RANGE  : N := 7%N.   (* "wrong parameter" on the serving side *)
Definition D_CHAIN  : N := 8%N.   (* the blockchain module answered with an error / nothing *)
Definition D_BLACK  : N := 9%N.   (* other chain: blacklisted, connection closed *)
Definition D_MADDR  : N := 10%N.  (* AddrFrom is not a multiaddr *)
Definition D_FUEL   : N := 99%N.  (* model fuel exhausted (never: see dl_fuel_enough) *)

(** s[i] *)
Definition go_nth {A} (l : list A) (i : nat) (site : N) : out A :=
  match nth_error l i with Some x => Done x | None => Panicked site end.

(** int64 wrap-around *)
Definition two63 : Z := 9223372036854775808.
Definition wrap64 (z : Z) : Z := (z + two63) mod (2 * two63) - two63.

(** * Download: the reply as Go sees it after ReadStream *)
Record blk := mkB { bk_h : Z; bk_id : N }.

(** InvData.Value: nil interface, *InvData_Tx, a typed nil *InvData_Block,
    *InvData_Block with Block nil or set *)
Inductive ival := IVnone | IVtx | IVnilptr | IVblock (b : option blk).
Definition item := option ival.              (* None = nil *InvData *)
Definition reply := option (list item).      (* resp.Message; None = nil *)

(** download.go:169-179, statement by statement *)
Definition extract (h : Z) (r : reply) : out blk :=
  match r with
  | None => Dropped D_EMPTY
  | Some items =>
      if (length items =? 0)%nat then Dropped D_EMPTY
      else match go_nth items 0 W_ITEMS0 with
           | Panicked s => Panicked s
           | Dropped w => Dropped w
           | Died => Died
           | Done None => Panicked W_NILITEM
           | Done (Some v) =>
               match v with
               | IVblock (Some b) => if bk_h b =? h then Done b else Dropped D_HEIGHT
               | _ => Dropped D_INVAL
               end
           end
  end.

(** what a peer can put on the wire: no stream at all, anything that makes
    ReadStream fail (reset, short header, oversized / truncated / undecodable
    frame), 17 bytes that are not the protocol header (ReadStream then returns
    a NIL error and leaves the message zero), or a frame that decodes.  A
    decoded repeated field has no nil element and a decoded oneof member no nil
    message: the wire cannot produce [None] items, [IVnilptr] or [IVblock None] *)
Inductive witem := WInone | WItx | WIblock (b : blk).
Inductive wire := WNoStream | WErr | WBadHdr | WMsg (m : option (list witem)).

Definition lift_item (w : witem) : item :=
  Some (match w with WInone => IVnone | WItx => IVtx | WIblock b => IVblock (Some b) end).

Definition read_reply (w : wire) : option reply :=
  match w with
  | WNoStream | WErr => None
  | WBadHdr => Some None
  | WMsg m => Some (option_map (map lift_item) m)
  end.

(** downloadBlockFromPeerOld *)
Definition from_peer (h : Z) (w : wire) : out blk :=
  match read_reply w with
  | None => Dropped D_STREAM
  | Some r => extract h r
  end.

(** * downloadBlock: tasks in latency order, each with the height its peer advertises *)
Record task := mkTask { t_peer : N; t_adv : Z }.

(** availbTask (the per-peer task limit, >= 20, is never reached by the jobs
    of at most 20 heights considered here) *)
Fixpoint availb (h : Z) (ts : list task) : option task :=
  match ts with
  | [] => None
  | t :: tl => if t_adv t <? h then availb h tl else Some t
  end.

Definition without (t : task) (ts : list task) : list task :=
  filter (fun x => negb (N.eqb (t_peer x) (t_peer t))) ts.

(** [wires p] = the reply of peer p to this request. Result: outcome, peers asked in order *)
Fixpoint dl_loop (fuel : nat) (h : Z) (wires : N -> wire) (ts : list task) (retry : Z) (asked : list N)
  : out (N * blk) * list N :=
  match fuel with
  | O => (Dropped D_FUEL, asked)
  | S f =>
      match ts with
      | [] => (Dropped D_NOPEER, asked)
      | _ :: _ =>
          if 50 <? retry + 1 then (Dropped D_MAXTRY, asked)
          else match availb h ts with
               | None => (Dropped D_MAXTRY, asked)   (* 400 ms sleeps until the count passes 50 *)
               | Some t =>
                   match from_peer h (wires (t_peer t)) with
                   | Done b => (Done (t_peer t, b), asked ++ [t_peer t])
                   | Dropped _ => dl_loop f h wires (without t ts) (retry + 1) (asked ++ [t_peer t])
                   | Panicked s => (Panicked s, asked ++ [t_peer t])
                   | Died => (Died, asked ++ [t_peer t])
                   end
               end
      end
  end.

Definition download_block (h : Z) (wires : N -> wire) (ts : list task) : out (N * blk) * list N :=
  dl_loop (S (length ts)) h wires ts 0 [].

(** * handleEventDownloadBlock *)
(** script: (peer, height) -> the replies to the 1st, 2nd, ... request; default = stream error *)
Definition script := list (N * Z * list wire).

Fixpoint script_get (s : script) (p : N) (h : Z) : list wire :=
  match s with
  | [] => []
  | (p', h', ws) :: tl => if N.eqb p p' && (h =? h') then ws else script_get tl p h
  end.

Definition wire_at (s : script) (h : Z) (attempt : N -> nat) (p : N) : wire :=
  nth (attempt p) (script_get s p h) WErr.

Record job := mkJob { j_start : Z; j_end : Z; j_tasks : list task; j_script : script }.

(** one delivered block: height, peer, block id *)
Definition delivery := (Z * N * N)%type.

Record jres := mkJres {
  jr_ack : N;                       (* 0 ok, 1 "start>end", 2 "no pid" *)
  jr_dead : bool;                   (* a per-height goroutine panicked: the process is gone *)
  jr_aborted : bool;                (* checkTask panicked: recovered, the handler is abandoned *)
  jr_del : list delivery;
  jr_asked : list (Z * list N)      (* per height: peers asked, phase one then phase two *)
}.

Fixpoint heights (start : Z) (n : nat) : list Z :=
  match n with O => [] | S k => start :: heights (start + 1) k end.

Definition count_in (p : N) (l : list N) : nat := length (filter (N.eqb p) l).

(** phase one: every height in its own goroutine, no recover *)
Fixpoint phase1 (j : job) (hs : list Z) : list (Z * (out (N * blk) * list N)) :=
  match hs with
  | [] => []
  | h :: tl => (h, download_block h (wire_at (j_script j) h (fun _ => O)) (j_tasks j)) :: phase1 j tl
  end.

Definition is_done {A} (o : out A) : bool := match o with Done _ => true | _ => false end.
Definition is_panic {A} (o : out A) : bool := match o with Panicked _ | Died => true | _ => false end.

(** phase two (checkTask): failed heights again, fresh task list, in the handler's own goroutine *)
Fixpoint phase2 (j : job) (failed : list (Z * list N)) : list (Z * (out (N * blk) * list N)) :=
  match failed with
  | [] => []
  | (h, asked1) :: tl =>
      let r := download_block h (wire_at (j_script j) h (fun p => count_in p asked1)) (j_tasks j) in
      if is_panic (fst r) then [(h, r)] else (h, r) :: phase2 j tl
  end.

Definition deliveries (rs : list (Z * (out (N * blk) * list N))) : list delivery :=
  flat_map (fun x => match fst (snd x) with Done (p, b) => [(fst x, p, bk_id b)] | _ => [] end) rs.

Definition run_job (j : job) : jres :=
  if j_end j <? j_start j then mkJres 1 false false [] []
  else match j_tasks j with
  | [] => mkJres 2 false false [] []
  | _ :: _ =>
      let hs := heights (j_start j) (Z.to_nat (j_end j - j_start j + 1)) in
      let r1 := phase1 j hs in
      if existsb (fun x => is_panic (fst (snd x))) r1
      then mkJres 0 true false (deliveries r1) (map (fun x => (fst x, snd (snd x))) r1)
      else
        let failed := flat_map (fun x => if is_done (fst (snd x)) then [] else [(fst x, snd (snd x))]) r1 in
        let r2 := phase2 j failed in
        mkJres 0 false (existsb (fun x => is_panic (fst (snd x))) r2)
               (deliveries r1 ++ deliveries r2)
               (map (fun x => (fst x, snd (snd x))) r1 ++ map (fun x => (fst x, snd (snd x))) r2)
  end.

(** * Serving side: handleStreamDownloadBlockOld / handleStreamDownloadBlock *)

(** result of ReadStream on the serving side: error, wrong 17-byte header
    (nil error, message left zero) or a decoded message *)
Inductive rd (A : Type) : Type := RdErr | RdZero | RdMsg (a : A).
Arguments RdErr {A}.
Arguments RdZero {A}.
Arguments RdMsg {A} a.

(** answer of the blockchain module to EventGetBlocks as the handler sees it:
    an error (also: time-out) or a BlockDetails with these block heights *)
Inductive chain_ans := CErr | CBlocks (hs : list Z).

(** what the handler did: the request it forwarded to the blockchain module (if
    any) and its outcome; [Done hs] = the heights of the blocks written back *)
Definition sres := (option (Z * Z) * out (list Z))%type.

(** req.Start < 0 || req.End < req.Start || req.End-req.Start > 256, in int64
    (the start is tested first: with 0 <= Start <= End the difference cannot wrap) *)
Definition range_bad (s e : Z) : bool := (s <? 0) || (e <? s) || (256 <? wrap64 (e - s)).

(** what the test is meant to say (spec): at most 257 blocks, as integers *)
Definition span_ok (s e : Z) : bool := (0 <=? e - s) && (e - s <=? 256).

Definition serve_range (chain : Z -> Z -> out chain_ans) (old : bool) (s e : Z) : sres :=
  if range_bad s e then (None, Dropped D_RANGE)
  else match chain s e with
       | Died => (Some (s, e), Died)
       | Panicked _ | Dropped _ => (Some (s, e), Dropped D_CHAIN)  (* the module's own recover: an error reply *)
       | Done CErr => (Some (s, e), Dropped D_CHAIN)
       | Done (CBlocks hs) =>
           if (length hs =? 0)%nat then (Some (s, e), Dropped D_CHAIN)
           else if old then (Some (s, e), Done hs)
           else match go_nth hs 0 W_BLK0 with
                | Done b => (Some (s, e), Done [b])
                | Panicked w => (Some (s, e), Panicked w)
                | Dropped w => (Some (s, e), Dropped w)
                | Died => (Some (s, e), Died)
                end
       end.

(** old protocol: MessageGetBlocksReq{Message *P2PGetBlocks}; data.Message.StartHeight
    is a plain field read *)
Definition serve_old (chain : Z -> Z -> out chain_ans) (r : rd (option (Z * Z))) : sres :=
  match r with
  | RdErr => (None, Dropped D_STREAM)
  | RdZero | RdMsg None => (None, Panicked W_NILREQ)
  | RdMsg (Some (s, e)) => serve_range chain true s e
  end.

(** new protocol: ReqBlocks itself is the message *)
Definition serve_new (chain : Z -> Z -> out chain_ans) (r : rd (Z * Z)) : sres :=
  match r with
  | RdErr => (None, Dropped D_STREAM)
  | RdZero => serve_range chain false 0 0
  | RdMsg (s, e) => serve_range chain false s e
  end.

(** blockchain.ProcGetBlockDetailsMsg on a chain whose blocks 0..tip exist;
    [cap] = what the operating system can give to one make (Model.go_make).
    Third test: End-Start >= MaxBlockCountPerTime || End-Start < 0 (Start <= End
    at that point, so a negative int64 difference is a wrapped one) *)
Definition max_per_time : Z := 1000.

Fixpoint zseq (start : Z) (n : nat) : list Z :=
  match n with O => [] | S k => start :: zseq (start + 1) k end.

Definition chain_get (tip cap : Z) (s e : Z) : out chain_ans :=
  if tip <? s then Done CErr
  else if e <? s then Done CErr
  else if (max_per_time <=? wrap64 (e - s)) || (wrap64 (e - s) <? 0) then Done CErr
  else
    let en := if tip <? e then tip else e in
    let count := wrap64 (wrap64 (en - s) + 1) in
    match @go_make N cap count with
    | Panic w => Panicked w
    | Fatal => Died
    | Ok _ =>
        (* for i := start; i <= end; i++ { GetBlock(i) }: heights below 0 do not exist *)
        if s <? 0 then Done CErr else Done (CBlocks (zseq s (Z.to_nat count)))
    end.

(** the node survives a request on the serving side: the stream handler runs
    under protocol.HandlerWithClose's recover *)
Definition serve_survives (r : sres) : bool := survives true (snd r).

(** * Peer-info handlers *)
Definition gostring := list N.

(** strings.Split(s, sep) for a one-byte separator: never empty *)
Fixpoint split (sep : N) (s : gostring) : list gostring :=
  match s with
  | [] => [[]]
  | c :: tl =>
      match split sep tl with
      | cur :: rest => if N.eqb c sep then [] :: cur :: rest else (c :: cur) :: rest
      | [] => [[]]
      end
  end.

Definition is_digit (c : N) : bool := (48 <=? c)%N && (c <=? 57)%N.

(** strconv.Atoi: (value, err == nil); a syntax error gives 0, a range error the clamped value *)
Definition atoi (s : gostring) : Z * bool :=
  match s with
  | [] => (0, false)
  | c :: tl =>
      let neg := N.eqb c 45 in
      let body := if neg || N.eqb c 43 then tl else s in
      match body with
      | [] => (0, false)
      | _ :: _ =>
          if forallb is_digit body then
            let v := fold_left (fun a d => a * 10 + (Z.of_N d - 48)) body 0 in
            if neg then (if two63 <? v then (- two63, false) else (- v, true))
            else (if two63 <=? v then (two63 - 1, false) else (v, true))
          else (0, false)
      end
  end.

Definition SLASH : N := 47%N.
Definition AT : N := 64%N.
Definition DOT : N := 46%N.

(** parseIPAndPort: the ip part ("" when the address has fewer than five
    parts or the fifth is not a number) *)
Definition parse_ip (a : gostring) : out gostring :=
  let sp := split SLASH a in
  if (length sp <? 5)%nat then Done []
  else match go_nth sp 4 W_SPLIT with
       | Done p4 =>
           if snd (atoi p4) then go_nth sp 2 W_SPLIT else Done []
       | Panicked w => Panicked w
       | Dropped w => Dropped w
       | Died => Died
       end.

(** library oracles: utils.IsPublicIP, multiaddr.NewMultiaddr succeeds *)
Record penv := mkPenv { pe_channel : Z; pe_public : gostring -> bool; pe_maddr : gostring -> bool }.

Record vmsg := mkV { vm_version : Z; vm_from : gostring; vm_recv : gostring }.
Definition vzero : vmsg := mkV 0 [] [].

Inductive peff :=
| EBlack                              (* ConnBlackList.Add(remote, 24h) + connection closed *)
| EAddRemote (a : gostring)           (* Peerstore.AddAddr(remote, a, 24h) *)
| EAddSelf (a : option gostring).     (* Peerstore.AddAddr(self, a, 24h); None = a nil multiaddr (the
                                         memory address book logs and skips it) *)

(** setExternalAddr: new external address, effects *)
Definition set_external (e : penv) (ext addr : gostring) : out (gostring * list peff) :=
  match parse_ip addr with
  | Done ip =>
      if pe_public e ip then Done (addr, [EAddSelf (if pe_maddr e addr then Some addr else None)])
      else Done (ext, [])
  | Panicked w => Panicked w
  | Dropped w => Dropped w
  | Died => Died
  end.

(** result of one version request: new external address, effects, outcome
    ([Done a] = a reply whose AddrFrom is [a]) *)
Definition vres := (gostring * list peff * out gostring)%type.

Definition version_msg (e : penv) (ext : gostring) (m : vmsg) : vres :=
  if negb (vm_version m =? pe_channel e) then (ext, [EBlack], Dropped D_BLACK)
  else match parse_ip (vm_from m) with
       | Panicked w => (ext, [], Panicked w)
       | Dropped w => (ext, [], Dropped w)
       | Died => (ext, [], Died)
       | Done ip =>
           if pe_public e ip && negb (pe_maddr e (vm_from m)) then (ext, [], Dropped D_MADDR)
           else
             let eff1 := if pe_public e ip then [EAddRemote (vm_from m)] else [] in
             match set_external e ext (vm_recv m) with
             | Done (ext', eff2) => (ext', eff1 ++ eff2, Done ext')
             | Panicked w => (ext, eff1, Panicked w)
             | Dropped w => (ext, eff1, Dropped w)
             | Died => (ext, eff1, Died)
             end
       end.

(** handleStreamVersion (message = P2PVersion) *)
Definition handle_version (e : penv) (ext : gostring) (r : rd vmsg) : vres :=
  match r with
  | RdErr => (ext, [], Dropped D_STREAM)
  | RdZero => version_msg e ext vzero
  | RdMsg m => version_msg e ext m
  end.

(** handleStreamVersionOld (MessageP2PVersionReq{Message *P2PVersion}, read with
    nil-safe getters only) *)
Definition handle_version_old (e : penv) (ext : gostring) (r : rd (option vmsg)) : vres :=
  match r with
  | RdErr => (ext, [], Dropped D_STREAM)
  | RdZero | RdMsg None => version_msg e ext vzero
  | RdMsg (Some m) => version_msg e ext m
  end.

(** checkVersionLimit(version) with SubConfig.VerLimit = lim *)
Fixpoint ver_loop (vl cv : list gostring) (i : nat) : out bool :=
  match vl with
  | [] => Done true
  | l :: tl =>
      match go_nth cv i W_VERI with
      | Done c => if fst (atoi c) <? fst (atoi l) then Done false else ver_loop tl cv (S i)
      | Panicked w => Panicked w
      | Dropped w => Dropped w
      | Died => Died
      end
  end.

Definition check_version_limit (lim ver : gostring) : out bool :=
  match lim with
  | [] => Done true
  | _ :: _ =>
      let nv := split AT ver in
      if negb (length nv =? 2)%nat then Done false
      else match go_nth nv 1 W_VER1 with
           | Done v1 =>
               let vl := split DOT lim in
               let cv := split DOT v1 in
               if (length cv <? length vl)%nat then Done false else ver_loop vl cv 0
           | Panicked w => Panicked w
           | Dropped w => Dropped w
           | Died => Died
           end
  end.

(** one answer to queryPeerInfo inside refreshPeerInfo's goroutine (no recover):
    [Done true] = PeerInfoManager.Refresh, [Done false] = blacklisted by name *)
Definition refresh_one (lim : gostring) (r : rd gostring) : out bool :=
  match r with
  | RdErr => Dropped D_STREAM
  | RdZero => check_version_limit lim []
  | RdMsg ver => check_version_limit lim ver
  end.
