(** C33 — buildPendBlock / buildPendList / step: shape lemmas and the invariant
    of the pending list. *)
From Coq Require Import List ZArith NArith Bool Lia.
From C33 Require Import C33.Model C33.ProofsBase.
Import ListNotations.
Open Scope Z_scope.

(** every nil slot of a pending block has a short hash *)
Definition nil_in_range (pd : pend) : Prop :=
  forall j, nth_error (pd_txs pd) j = Some None -> (j < length (pd_sh pd))%nat.

Lemma put_members_not_fatal : forall ms txs i, put_members txs i ms <> Fatal.
Proof.
  induction ms as [|m ms IH]; intros txs i; simpl; [discriminate|].
  destruct (set_nth txs i (Some m)); [apply IH|discriminate].
Qed.

Lemma fill_not_fatal : forall p nd txs ok, fill p nd txs ok <> Fatal.
Proof.
  induction nd as [|[index h] nd IH]; intros txs ok; simpl; [discriminate|].
  destruct (nth_error txs index) as [[t|]|]; [apply IH| |discriminate].
  destruct (pool_get h p) as [e|]; [|apply IH].
  destruct (length txs <? index + length (members e))%nat; [apply IH|].
  destruct (set_nth txs index (Some (px_id e))) as [t1|]; [|discriminate].
  pose proof (put_members_not_fatal (members e) t1 index) as H.
  destruct (put_members t1 index (members e)); [apply IH|discriminate|congruence].
Qed.

Lemma build_not_fatal : forall p pd, build p pd <> Fatal.
Proof.
  intros p pd. unfold build. destruct (pd_sh pd); [discriminate|].
  pose proof (need_from_not_fatal (pd_txs pd) 0 (n :: l)) as H1.
  destruct (need_from 0 (pd_txs pd) (n :: l)) as [nd| |]; [|discriminate|congruence].
  pose proof (fill_not_fatal p nd (pd_txs pd) true) as H2.
  destruct (fill p nd (pd_txs pd) true) as [[txs' ok]| |]; [|discriminate|congruence].
  destruct ok; discriminate.
Qed.

(** whatever the block looks like: a failed (not posted) build leaves a block
    whose nil slots all have a short hash, with the same hashes and length *)
Lemma build_shape : forall p pd pd' b e,
  build p pd = Ok (pd', b, e) ->
  pd_sh pd' = pd_sh pd /\ length (pd_txs pd') = length (pd_txs pd)
  /\ (b = false -> nil_in_range pd').
Proof.
  intros p pd pd' b e. unfold build.
  remember (pd_sh pd) as shs eqn:Es. destruct shs as [|s0 shs'].
  - intros H; inversion H; subst. repeat split; auto. discriminate.
  - rewrite Es. destruct (need_from 0 (pd_txs pd) (pd_sh pd)) as [nd| |] eqn:En; try discriminate.
    apply need_from_ok_inv in En as [A F].
    destruct (fill_res p nd (pd_txs pd) true 0%nat (pd_sh pd) F) as [t' [ok' [E [L M]]]].
    rewrite E. destruct ok'; intros H; inversion H; subst; simpl; repeat split; auto; try discriminate.
    intros _ j Hj. simpl in Hj. specialize (A j (M j Hj)). simpl. lia.
Qed.

(** a block whose nil slots all have a short hash is built without a panic *)
Lemma build_ok : forall p pd,
  nil_in_range pd -> exists pd' b e, build p pd = Ok (pd', b, e).
Proof.
  intros p pd R. unfold build. destruct (pd_sh pd) eqn:Es; [eauto|]. rewrite <- Es.
  destruct (need_from_ok (pd_txs pd) 0 (pd_sh pd)) as [nd [En F]].
  { intros j Hj. simpl. apply R. exact Hj. }
  rewrite En.
  destruct (fill_res p nd (pd_txs pd) true 0%nat (pd_sh pd) F) as [t' [ok' [E _]]].
  rewrite E. destruct ok'; eauto.
Qed.

(** * buildPendList *)
Lemma scan_not_fatal : forall p now timeout l, scan p now timeout l <> Fatal.
Proof.
  induction l as [|pd l IH]; simpl; [discriminate|].
  pose proof (build_not_fatal p pd) as H.
  destruct (build p pd) as [[[pd' b] e]| |]; [|discriminate|congruence].
  destruct (scan p now timeout l) as [[[k t] e']| |]; [|discriminate|congruence].
  destruct b; [discriminate|]. destruct (timeout <=? _); discriminate.
Qed.

(** Q: any property of a pending block that depends only on its hashes and length *)
Definition shape_pred (Q : pend -> Prop) : Prop :=
  forall a b, pd_sh a = pd_sh b -> length (pd_txs a) = length (pd_txs b) -> Q b -> Q a.

Lemma scan_keeps : forall (Q : pend -> Prop) p now timeout l keep tmo e,
  shape_pred Q ->
  Forall (fun pd => nil_in_range pd /\ Q pd) l ->
  scan p now timeout l = Ok (keep, tmo, e) ->
  Forall (fun pd => nil_in_range pd /\ Q pd) keep.
Proof.
  intros Q p now timeout l. induction l as [|pd l IH]; intros keep tmo e SQ F H; simpl in H.
  - inversion H; subst. constructor.
  - inversion F as [|x y [R HQ] F']; subst.
    destruct (build p pd) as [[[pd' b] e0]| |] eqn:Eb; try discriminate.
    destruct (scan p now timeout l) as [[[k t] e']| |] eqn:Es; try discriminate.
    specialize (IH k t e' SQ F' eq_refl).
    apply build_shape in Eb as [S1 [S2 S3]].
    destruct b.
    + inversion H; subst. exact IH.
    + destruct (timeout <=? _); inversion H; subst; [exact IH|].
      constructor; [|exact IH]. split; [apply S3; reflexivity|]. eapply SQ; eauto.
Qed.

(** an iteration over blocks whose nil slots all have a short hash completes *)
Lemma scan_ok : forall p now timeout l,
  Forall nil_in_range l -> exists keep tmo e, scan p now timeout l = Ok (keep, tmo, e).
Proof.
  intros p now timeout l. induction l as [|pd l IH]; intros F; simpl; [eauto|].
  inversion F as [|x y R F']; subst.
  destruct (build_ok p pd R) as [pd' [b [e Eb]]]. rewrite Eb.
  destruct (IH F') as [k [t [e' Es]]]. rewrite Es.
  destruct b; [eauto|]. destruct (timeout <=? _); eauto.
Qed.

(** * one step: the pending list keeps its invariant whatever arrives *)
Definition pend_inv (Q : pend -> Prop) (st : state) : Prop :=
  Forall (fun pd => nil_in_range pd /\ Q pd) (st_pend st).

Lemma req_scan_total : forall c st l, exists keep e, req_scan c st l = (keep, e).
Proof. intros. destruct (req_scan c st l); eauto. Qed.

(** the new pending block of an accepted light block *)
Lemma add_lt_inv : forall (Q : pend -> Prop) c p now from pub lb st st' e,
  shape_pred Q ->
  (forall h pd, lt_hdr lb = Some h -> pd_sh pd = lt_sh lb ->
                length (pd_txs pd) = Z.to_nat (h_txcount h) -> Q pd) ->
  pend_inv Q st -> add_lt c p now from pub lb st = Ok (st', e) -> pend_inv Q st'.
Proof.
  intros Q c p now from pub lb st st' e SQ New I H. unfold add_lt in H.
  destruct ((lt_txcount lb <=? 0) || (Z.of_nat (length (lt_sh lb)) <? lt_txcount lb));
    [inversion H; subst st'; exact I|].
  destruct (lt_hdr lb) as [h|] eqn:Eh; [|discriminate].
  unfold go_make in H.
  destruct ((h_txcount h <? 0) || (max_len <? h_txcount h)); [discriminate|].
  destruct (c_cap c <? h_txcount h); [discriminate|].
  destruct (set_nth (repeat None (Z.to_nat (h_txcount h))) 0 (lt_miner lb)) as [txs1|] eqn:E1; [|discriminate].
  match type of H with context [build p ?pd] => remember pd as pd0 eqn:Epd end.
  destruct (build p pd0) as [[[pd' b] e0]| |] eqn:Eb; try discriminate.
  destruct b; inversion H; subst st'; [exact I|].
  unfold pend_inv. simpl. apply Forall_app. split; [exact I|]. constructor; [|constructor].
  apply build_shape in Eb as [S1 [S2 S3]]. split; [apply S3; reflexivity|].
  apply (New h); auto.
  - rewrite S1, Epd. reflexivity.
  - rewrite S2, Epd. simpl. rewrite (set_nth_length _ _ _ _ _ E1). apply repeat_length.
Qed.
