(** C33 — lemmas about the Go-semantics helpers and buildPendBlock's two loops. *)
From Coq Require Import List ZArith NArith Bool Lia.
From C33 Require Import C33.Model.
Import ListNotations.
Open Scope Z_scope.

(** * set_nth *)
Lemma set_nth_some : forall A (l : list A) i v,
  (i < length l)%nat -> exists l', set_nth l i v = Some l'.
Proof.
  induction l as [|x l IH]; intros i v H; simpl in *; [lia|].
  destruct i as [|i]; [eauto|].
  destruct (IH i v) as [l' E]; [lia|]. rewrite E. eauto.
Qed.

Lemma set_nth_none : forall A (l : list A) i v,
  (length l <= i)%nat -> set_nth l i v = None.
Proof.
  induction l as [|x l IH]; intros i v H; simpl in *; [destruct i; reflexivity|].
  destruct i as [|i]; [lia|]. rewrite IH by lia. reflexivity.
Qed.

Lemma set_nth_length : forall A (l l' : list A) i v,
  set_nth l i v = Some l' -> length l' = length l.
Proof.
  induction l as [|x l IH]; intros l' i v H; simpl in *; [destruct i; discriminate|].
  destruct i as [|i].
  - inversion H; reflexivity.
  - destruct (set_nth l i v) eqn:E; [|discriminate]. inversion H; subst. simpl.
    f_equal. eapply IH; eauto.
Qed.

Lemma set_nth_same : forall A (l l' : list A) i v,
  set_nth l i v = Some l' -> nth_error l' i = Some v.
Proof.
  induction l as [|x l IH]; intros l' i v H; simpl in *; [destruct i; discriminate|].
  destruct i as [|i].
  - inversion H; reflexivity.
  - destruct (set_nth l i v) eqn:E; [|discriminate]. inversion H; subst. simpl. eauto.
Qed.

Lemma set_nth_other : forall A (l l' : list A) i j v,
  set_nth l i v = Some l' -> i <> j -> nth_error l' j = nth_error l j.
Proof.
  induction l as [|x l IH]; intros l' i j v H N; simpl in *; [destruct i; discriminate|].
  destruct i as [|i].
  - inversion H; subst. destruct j; [congruence|reflexivity].
  - destruct (set_nth l i v) eqn:E; [|discriminate]. inversion H; subst.
    destruct j as [|j]; [reflexivity|]. simpl. eapply IH; eauto.
Qed.

(** a slot that is nil after a store of a non-nil value was nil before *)
Lemma set_nth_nil_mono : forall (l l' : list (option txid)) i m j,
  set_nth l i (Some m) = Some l' -> nth_error l' j = Some None -> nth_error l j = Some None.
Proof.
  intros l l' i m j H Hn.
  destruct (Nat.eq_dec i j) as [->|N].
  - rewrite (set_nth_same _ _ _ _ _ H) in Hn. discriminate.
  - rewrite (set_nth_other _ _ _ _ _ _ H N) in Hn. exact Hn.
Qed.

(** * put_members *)
Lemma put_members_ok : forall ms txs index,
  (index + length ms <= length txs)%nat ->
  exists txs', put_members txs index ms = Ok txs' /\ length txs' = length txs
               /\ (forall j, nth_error txs' j = Some None -> nth_error txs j = Some None).
Proof.
  induction ms as [|m ms IH]; intros txs index H; simpl in *.
  - exists txs. auto.
  - destruct (set_nth_some _ txs index (Some m)) as [t1 E]; [lia|]. rewrite E.
    pose proof (set_nth_length _ _ _ _ _ E) as L1.
    destruct (IH t1 (S index)) as [t2 [E2 [L2 M2]]]; [lia|].
    exists t2. split; [exact E2|]. split; [lia|].
    intros j Hj. eapply set_nth_nil_mono; eauto.
Qed.

Lemma put_members_res : forall ms txs index,
  (exists txs', put_members txs index ms = Ok txs' /\ length txs' = length txs
                /\ (forall j, nth_error txs' j = Some None -> nth_error txs j = Some None))
  \/ put_members txs index ms = Panic W_GROUP.
Proof.
  induction ms as [|m ms IH]; intros txs index; simpl.
  - left. exists txs. auto.
  - destruct (set_nth txs index (Some m)) as [t1|] eqn:E; [|right; reflexivity].
    pose proof (set_nth_length _ _ _ _ _ E) as L1.
    destruct (IH t1 (S index)) as [[t2 [E2 [L2 M2]]]|P]; [left|right; exact P].
    exists t2. split; [exact E2|]. split; [lia|].
    intros j Hj. eapply set_nth_nil_mono; eauto.
Qed.

(** * need_from *)
Lemma need_from_not_fatal : forall txs i shs, need_from i txs shs <> Fatal.
Proof.
  induction txs as [|[t|] txs IH]; intros i shs; simpl; try discriminate; auto.
  destruct (nth_error shs i); [|discriminate].
  specialize (IH (S i) shs). destruct (need_from (S i) txs shs); congruence.
Qed.

Lemma need_from_panic : forall txs i shs w, need_from i txs shs = Panic w -> w = W_SHASH.
Proof.
  induction txs as [|[t|] txs IH]; intros i shs w; simpl; try discriminate; eauto.
  destruct (nth_error shs i); [|intros H; inversion H; reflexivity].
  specialize (IH (S i) shs). destruct (need_from (S i) txs shs); try discriminate.
  intros H; inversion H; subst. eauto.
Qed.

(** entries of the result: valid positions with their short hash *)
Definition nd_ok (lo hi : nat) (shs : list N) (ih : nat * N) : Prop :=
  nth_error shs (fst ih) = Some (snd ih) /\ (lo <= fst ih < hi)%nat.

Lemma need_from_ok : forall txs i shs,
  (forall j, nth_error txs j = Some None -> (i + j < length shs)%nat) ->
  exists nd, need_from i txs shs = Ok nd /\ Forall (nd_ok i (i + length txs) shs) nd.
Proof.
  induction txs as [|[t|] txs IH]; intros i shs H; simpl.
  - exists []. auto.
  - destruct (IH (S i) shs) as [nd [E F]].
    { intros j Hj. specialize (H (S j) Hj). lia. }
    exists nd. split; [exact E|]. eapply Forall_impl; [|exact F].
    intros [a b] [A B]; split; simpl in *; [exact A|lia].
  - assert (Hi : (i < length shs)%nat) by (specialize (H 0%nat eq_refl); lia).
    destruct (nth_error shs i) as [h|] eqn:En; [|apply nth_error_None in En; lia].
    destruct (IH (S i) shs) as [nd [E F]].
    { intros j Hj. specialize (H (S j) Hj). lia. }
    rewrite E. exists ((i, h) :: nd). split; [reflexivity|]. constructor.
    + split; simpl; [exact En|lia].
    + eapply Forall_impl; [|exact F]. intros [a b] [A B]; split; simpl in *; [exact A|lia].
Qed.

(** if the first loop succeeds, every nil slot has a short hash *)
Lemma need_from_ok_inv : forall txs i shs nd,
  need_from i txs shs = Ok nd ->
  (forall j, nth_error txs j = Some None -> (i + j < length shs)%nat)
  /\ Forall (nd_ok i (i + length txs) shs) nd.
Proof.
  induction txs as [|[t|] txs IH]; intros i shs nd H; simpl in *.
  - inversion H; subst. split; [intros [|j]; discriminate|constructor].
  - destruct (IH _ _ _ H) as [A F]. split.
    + intros [|j] Hj; simpl in Hj; [discriminate|]. specialize (A j Hj). lia.
    + eapply Forall_impl; [|exact F]. intros [a b] [X Y]; split; simpl in *; [exact X|lia].
  - destruct (nth_error shs i) as [h|] eqn:En; [|discriminate].
    destruct (need_from (S i) txs shs) as [r| |] eqn:E; try discriminate.
    inversion H; subst. destruct (IH _ _ _ E) as [A F]. split.
    + intros [|j] Hj; simpl in Hj.
      * assert (nth_error shs i <> None) by congruence. apply nth_error_Some in H0. lia.
      * specialize (A j Hj). lia.
    + constructor; [split; simpl; [exact En|lia]|].
      eapply Forall_impl; [|exact F]. intros [a b] [X Y]; split; simpl in *; [exact X|lia].
Qed.

(** * fill *)
Definition nil_mono (txs' txs : list (option txid)) : Prop :=
  forall j, nth_error txs' j = Some None -> nth_error txs j = Some None.

(** the second loop completes (same length, nil slots only shrink) provided its
    indices are valid: the bound test keeps every group inside the slice *)
Lemma fill_res : forall p nd txs ok lo shs,
  Forall (nd_ok lo (length txs) shs) nd ->
  exists txs' ok', fill p nd txs ok = Ok (txs', ok') /\ length txs' = length txs /\ nil_mono txs' txs.
Proof.
  induction nd as [|[index h] nd IH]; intros txs ok lo shs F; simpl.
  - exists txs, ok. split; [reflexivity|]. split; [reflexivity|]. intros j Hj; exact Hj.
  - inversion F as [|x l [Hs Hr] F']; subst. simpl in *.
    destruct (nth_error txs index) as [[t|]|] eqn:En.
    + eapply IH; eauto.
    + destruct (pool_get h p) as [e|]; [|eapply IH; eauto].
      destruct (length txs <? index + length (members e))%nat eqn:Eb; [eapply IH; eauto|].
      apply Nat.ltb_ge in Eb.
      destruct (set_nth_some _ txs index (Some (px_id e))) as [t1 E1]; [lia|]. rewrite E1.
      pose proof (set_nth_length _ _ _ _ _ E1) as L1.
      destruct (put_members_ok (members e) t1 index) as [t2 [E2 [L2 M2]]]; [lia|].
      rewrite E2.
      destruct (IH t2 ok lo shs) as [t3 [ok' [E3 [L3 M3]]]].
      { rewrite L2, L1. exact F'. }
      exists t3, ok'. split; [exact E3|]. split; [lia|].
      intros j Hj. eapply set_nth_nil_mono; [exact E1|]. apply M2. apply M3. exact Hj.
    + apply nth_error_None in En. lia.
Qed.
