(** C33 — proofs about the stream receive paths of Streams.v *)
From Coq Require Import List ZArith NArith Bool Lia.
From C33 Require Import C33.Model C33.Streams.
Import ListNotations.
Open Scope Z_scope.

(** ** the reply decoder *)

Definition no_panic {A} (o : out A) : Prop :=
  match o with Panicked _ | Died => False | _ => True end.

Lemma is_panic_false : forall A (o : out A), is_panic o = false <-> no_panic o.
Proof. intros A [a|w|s|]; cbn; intuition discriminate. Qed.

(** Go level: the first item, if there is one, is not a nil pointer *)
Definition first_item_present (r : reply) : bool :=
  match r with
  | Some (None :: _) => false
  | _ => true
  end.

Lemma extract_guarded : forall h r, first_item_present r = true -> no_panic (extract h r).
Proof.
  intros h [items|]; cbn; [|intros _; exact I].
  destruct items as [|[v|] tl]; cbn; intros Hg; try exact I; try discriminate.
  destruct v as [| | |[b|]]; cbn; try exact I.
  destruct (bk_h b =? h); exact I.
Qed.

Lemma extract_nil_item_panics : forall h tl, extract h (Some (None :: tl)) = Panicked W_NILITEM.
Proof. reflexivity. Qed.

Lemma lift_present : forall m, first_item_present (option_map (map lift_item) m) = true.
Proof. intros [[|w tl]|]; reflexivity. Qed.

Lemma from_peer_no_panic : forall h w, no_panic (from_peer h w).
Proof.
  intros h w. unfold from_peer. destruct w as [| | |m]; cbn; try exact I.
  apply extract_guarded, lift_present.
Qed.

(** a reply is accepted only when its first item is a block of the requested height *)
Lemma from_peer_accepts : forall h w b,
  from_peer h w = Done b ->
  bk_h b = h /\ exists tl, w = WMsg (Some (WIblock b :: tl)).
Proof.
  intros h w b. unfold from_peer. destruct w as [| | |[items|]]; cbn; try discriminate.
  destruct items as [|[| |b'] tl]; cbn; try discriminate.
  destruct (bk_h b' =? h) eqn:E; [|discriminate].
  intros H; injection H as <-. split; [lia|]. exists tl. reflexivity.
Qed.

Lemma from_peer_cases : forall h w,
  (exists b, from_peer h w = Done b) \/ (exists d, from_peer h w = Dropped d).
Proof.
  intros h w. pose proof (from_peer_no_panic h w) as H.
  destruct (from_peer h w) as [b|d|s|]; cbn in H; try contradiction; eauto.
Qed.

(** ** the retry loop *)

Lemma availb_in : forall h ts t, availb h ts = Some t -> In t ts.
Proof.
  induction ts as [|x tl IH]; cbn; intros t H; [discriminate|].
  destruct (t_adv x <? h); [right; auto|left; congruence].
Qed.

Lemma filter_len_le : forall A (f : A -> bool) l, (length (filter f l) <= length l)%nat.
Proof. induction l as [|x tl IH]; cbn; [lia|]. destruct (f x); cbn; lia. Qed.

Lemma without_shorter : forall t ts, In t ts -> (length (without t ts) < length ts)%nat.
Proof.
  intros t ts. unfold without. induction ts as [|x tl IH]; cbn; intros Hin; [contradiction|].
  destruct Hin as [->|Hin].
  - rewrite N.eqb_refl. cbn.
    pose proof (filter_len_le _ (fun x => negb (t_peer x =? t_peer t)%N) tl). lia.
  - specialize (IH Hin). destruct (negb (t_peer x =? t_peer t)%N); cbn; lia.
Qed.

Lemma dl_loop_spec : forall fuel h wires ts retry asked,
  (length ts < fuel)%nat ->
  no_panic (fst (dl_loop fuel h wires ts retry asked))
  /\ fst (dl_loop fuel h wires ts retry asked) <> Dropped D_FUEL
  /\ forall p b, fst (dl_loop fuel h wires ts retry asked) = Done (p, b) -> from_peer h (wires p) = Done b.
Proof.
  induction fuel as [|f IH]; intros h wires ts retry asked Hlen; [lia|].
  cbn [dl_loop]. destruct ts as [|t0 tl].
  { cbn. repeat split; try exact I; discriminate. }
  destruct (50 <? retry + 1).
  { cbn. repeat split; try exact I; discriminate. }
  destruct (availb h (t0 :: tl)) as [t|] eqn:Ea.
  2:{ cbn. repeat split; try exact I; discriminate. }
  destruct (from_peer_cases h (wires (t_peer t))) as [[b Hb]|[d Hd]].
  - rewrite Hb. cbn. repeat split; try exact I; try discriminate.
    intros p b' H. injection H as <- <-. exact Hb.
  - rewrite Hd. apply IH.
    pose proof (without_shorter t (t0 :: tl) (availb_in _ _ _ Ea)). lia.
Qed.

Lemma download_block_spec : forall h wires ts,
  no_panic (fst (download_block h wires ts))
  /\ fst (download_block h wires ts) <> Dropped D_FUEL
  /\ forall p b, fst (download_block h wires ts) = Done (p, b) -> from_peer h (wires p) = Done b.
Proof. intros. unfold download_block. apply dl_loop_spec. lia. Qed.

(** ** the job *)

Lemma phase1_no_panic : forall j hs,
  existsb (fun x => is_panic (fst (snd x))) (phase1 j hs) = false.
Proof.
  induction hs as [|h tl IH]; cbn; [reflexivity|].
  rewrite IH, orb_false_r. apply is_panic_false.
  apply (download_block_spec h _ (j_tasks j)).
Qed.

Lemma phase2_no_panic : forall j failed,
  existsb (fun x => is_panic (fst (snd x))) (phase2 j failed) = false.
Proof.
  induction failed as [|[h a] tl IH]; cbn [phase2]; [reflexivity|].
  pose proof (download_block_spec h (wire_at (j_script j) h (fun p => count_in p a)) (j_tasks j)) as (Hn & _ & _).
  apply is_panic_false in Hn. rewrite Hn. cbn [existsb snd fst]. rewrite Hn, IH. reflexivity.
Qed.

Lemma job_never_dies : forall j, jr_dead (run_job j) = false /\ jr_aborted (run_job j) = false.
Proof.
  intros j. unfold run_job.
  destruct (j_end j <? j_start j); [split; reflexivity|].
  destruct (j_tasks j) as [|t tl] eqn:Et; [split; reflexivity|].
  rewrite phase1_no_panic. cbn [jr_dead jr_aborted]. split; [reflexivity|apply phase2_no_panic].
Qed.

(** a delivered block was sent for that height by that peer, as the first item of a reply *)
Definition sent_by (s : script) (d : delivery) : Prop :=
  match d with
  | (h, p, id) => exists n tl, nth n (script_get s p h) WErr = WMsg (Some (WIblock (mkB h id) :: tl))
  end.

Lemma deliveries_in : forall rs d,
  In d (deliveries rs) ->
  exists h p b al, In (h, (Done (p, b), al)) rs /\ d = (h, p, bk_id b).
Proof.
  induction rs as [|[h [o al]] tl IH]; cbn; intros d Hin; [contradiction|].
  apply in_app_or in Hin. destruct Hin as [Hin|Hin].
  - destruct o as [[p b]|w|s|]; cbn in Hin; try contradiction.
    destruct Hin as [<-|[]]. exists h, p, b, al. split; [left; reflexivity|reflexivity].
  - destruct (IH d Hin) as (h' & p & b & al' & Hi & He). exists h', p, b, al'. split; [right; exact Hi|exact He].
Qed.

Lemma accepted_sent : forall s h att p b,
  from_peer h (wire_at s h att p) = Done b -> sent_by s (h, p, bk_id b).
Proof.
  intros s h att p b H. apply from_peer_accepts in H. destruct H as [Hh [tl Hw]].
  unfold wire_at in Hw. cbn. exists (att p), tl. rewrite Hw. destruct b as [bh bid]. cbn in *. subst. reflexivity.
Qed.

Lemma phase1_sent : forall j hs h p b al,
  In (h, (Done (p, b), al)) (phase1 j hs) -> sent_by (j_script j) (h, p, bk_id b).
Proof.
  induction hs as [|h0 tl IH]; cbn [phase1 In]; intros h p b al Hin; [contradiction|].
  destruct Hin as [Heq|Hin]; [|eapply IH; eauto].
  injection Heq as <- Hr.
  pose proof (download_block_spec h0 (wire_at (j_script j) h0 (fun _ => O)) (j_tasks j)) as (_ & _ & Hd).
  eapply accepted_sent. apply Hd. rewrite Hr. reflexivity.
Qed.

Lemma phase2_sent : forall j failed h p b al,
  In (h, (Done (p, b), al)) (phase2 j failed) -> sent_by (j_script j) (h, p, bk_id b).
Proof.
  induction failed as [|[h0 a0] tl IH]; cbn [phase2 In]; intros h p b al Hin; [contradiction|].
  set (att := fun p0 => count_in p0 a0) in *.
  pose proof (download_block_spec h0 (wire_at (j_script j) h0 att) (j_tasks j)) as (_ & _ & Hd).
  destruct (is_panic (fst (download_block h0 (wire_at (j_script j) h0 att) (j_tasks j)))).
  - destruct Hin as [Heq|[]]. injection Heq as <- Hr.
    eapply accepted_sent. apply Hd. rewrite Hr. reflexivity.
  - destruct Hin as [Heq|Hin]; [|eapply IH; eauto].
    injection Heq as <- Hr.
    eapply accepted_sent. apply Hd. rewrite Hr. reflexivity.
Qed.

Lemma job_delivers_sent : forall j d, In d (jr_del (run_job j)) -> sent_by (j_script j) d.
Proof.
  intros j d. unfold run_job.
  destruct (j_end j <? j_start j); [cbn; contradiction|].
  destruct (j_tasks j) as [|t tl] eqn:Et; [cbn; contradiction|].
  rewrite phase1_no_panic. cbn [jr_del].
  intros Hin. apply in_app_or in Hin. destruct Hin as [Hin|Hin];
    apply deliveries_in in Hin; destruct Hin as (h & p & b & al & Hi & ->).
  - eapply phase1_sent; eauto.
  - eapply phase2_sent; eauto.
Qed.
