(** C33 — proofs about the p2pstore stream handlers and the blockchain
    functions behind them (Store.v) *)
From Coq Require Import List ZArith NArith Bool Lia.
From C33 Require Import C33.Model C33.Streams C33.Store C33.ProofsStreams C33.ProofsServe.
Import ListNotations.
Open Scope Z_scope.

Definition int32 (z : Z) : Prop := - 2147483648 <= z < 2147483648.

(** ** ProcGetHeadersMsg: an error or 1..10000 headers for every int64 range *)
Lemma chain_headers_total : forall tip cap s e,
  int64 s -> int64 e -> int64 tip -> max_hdr_per_time <= cap ->
  chain_headers tip cap s e = Done CErr
  \/ exists hs, chain_headers tip cap s e = Done (CBlocks hs) /\ 1 <= Z.of_nat (length hs) <= 10000.
Proof.
  intros tip cap s e Hs He Ht Hcap. unfold chain_headers.
  destruct (e <? s) eqn:E2; [left; reflexivity|].
  destruct ((max_hdr_per_time <=? wrap64 (e - s)) || (wrap64 (e - s) <? 0)) eqn:E3; [left; reflexivity|].
  destruct (tip <? s) eqn:E1; [left; reflexivity|].
  apply orb_false_elim in E3. destruct E3 as [E3 E4]. unfold max_hdr_per_time in *.
  destruct (wrap64_diff s e Hs He ltac:(lia)) as [Hw|Hw]; [|lia].
  rewrite Hw in E3.
  set (en := if tip <? e then tip else e).
  assert (Hen : s <= en <= e) by (unfold en; destruct (tip <? e) eqn:E5; lia).
  rewrite (wrap64_id (en - s)) by (unfold int64, two63 in *; lia).
  rewrite (wrap64_id (en - s + 1)) by (unfold int64, two63 in *; lia).
  replace (en - s + 1 <? 1) with false by (symmetry; lia).
  unfold go_make. unfold max_len.
  replace ((en - s + 1 <? 0) || (35184372088832 <? en - s + 1)) with false
    by (symmetry; apply orb_false_intro; lia).
  replace (cap <? en - s + 1) with false by (symmetry; lia).
  destruct (s <? 0); [left; reflexivity|]. right. eexists. split; [reflexivity|].
  rewrite zseq_len. lia.
Qed.

(** ** GetBlockSequences: an error or 1..1000 entries for every int64 range *)
Lemma chain_seqs_total : forall last cap s e,
  int64 s -> int64 e -> int64 last -> max_per_time <= cap ->
  chain_seqs last cap s e = Done QErr
  \/ exists a b, chain_seqs last cap s e = Done (QSeqs a b) /\ 0 <= a /\ 0 <= b /\ 1 <= a + b <= 1000.
Proof.
  intros last cap s e Hs He Hl Hcap. unfold chain_seqs.
  destruct (last <? s) eqn:E1; [left; reflexivity|].
  destruct (e <? s) eqn:E2; [left; reflexivity|].
  destruct ((max_per_time <=? wrap64 (e - s)) || (wrap64 (e - s) <? 0)) eqn:E3; [left; reflexivity|].
  apply orb_false_elim in E3. destruct E3 as [E3 E4]. unfold max_per_time in *.
  destruct (wrap64_diff s e Hs He ltac:(lia)) as [Hw|Hw]; [|lia].
  rewrite Hw in E3.
  set (en := if last <? e then last else e).
  assert (Hen : s <= en <= e) by (unfold en; destruct (last <? e) eqn:E5; lia).
  replace (cap <? en - s + 1) with false by (symmetry; lia).
  right. do 2 eexists. split; [reflexivity|].
  destruct (s <? 0) eqn:E6; lia.
Qed.

(** ** GetChunkRecord *)
Lemma chain_records_bound : forall nrec s e n,
  chain_records nrec s e = Some n -> 1 <= n <= nrec.
Proof.
  intros nrec s e n. unfold chain_records.
  destruct (e <? s) eqn:E1; [discriminate|].
  destruct ((0 <=? s) && (e <? nrec)) eqn:E2; [|discriminate].
  apply andb_prop in E2. destruct E2 as [Ea Eb]. intros H; injection H as <-. lia.
Qed.

(** ** the local chunk store *)
Lemma filter_len_le : forall A (f : A -> bool) l, (length (filter f l) <= length l)%nat.
Proof.
  induction l as [|x tl IH]; cbn; [lia|]. destruct (f x); cbn; lia.
Qed.

Lemma load_chunk_bound : forall db s e n,
  load_chunk db s e = Some n -> 0 <= n <= Z.of_nat (length db).
Proof.
  intros db s e n. unfold load_chunk.
  set (k := length (filter (in_key_range s (wrap64 (e + 1))) db)).
  assert (Hk : (k <= length db)%nat) by apply filter_len_le.
  destruct (Z.of_nat k =? wrap64 (wrap64 (e - s) + 1)); [|discriminate].
  intros H; injection H as <-. lia.
Qed.

(** ** requests whose integer fields have their Go types *)
Definition mem_typed (m : pmember) : Prop :=
  match m with
  | MReqBlocks s e | MRecords s e | MChunk s e => int64 s /\ int64 e
  | MPeers _ c => int32 c
  | MNone | MOther => True
  end.

Definition preq_typed (r : rd p2preq) : Prop :=
  match r with RdMsg m => mem_typed (pr_mem m) | _ => True end.

Definition streq_typed (q : streq) : Prop :=
  match q with
  | QHdrOld r => sreq_int64 r
  | QHdr r | QRec r | QChunk r | QShard r => preq_typed r
  | QFull => True
  | QDirHdr s e | QDirSeq s e => int64 s /\ int64 e
  end.

Definition env_ok (e : stenv) : Prop :=
  int64 (se_tip e) /\ int64 (se_last e) /\ 0 <= se_npeers e
  /\ max_hdr_per_time <= se_cap e /\ se_npeers e + bucket_size <= se_capp e.

(** what the requester may get: never the end of the process; a reply within
    the limits of its kind; the panics are the three recovered reads *)
Definition reply_ok (e : stenv) (o : out reply) : Prop :=
  match o with
  | Died => False
  | Panicked w => w = W_NILHREQ \/ w = W_NILHDRS \/ w = W_ASSERT
  | Dropped _ => True
  | Done RError | Done RNode => True
  | Done (RHeaders hs) => 1 <= Z.of_nat (length hs) <= 10000
  | Done (RSeqs a b) => 0 <= a /\ 0 <= b /\ 1 <= a + b <= 1000
  | Done (RRecords n) => 1 <= n <= se_nrec e
  | Done (RBodies n) => 0 <= n <= Z.of_nat (length (se_db e))
  | Done (RPeers n) => 0 <= n <= se_npeers e
  end.

Lemma headers_reply_ok : forall e s t on_err,
  env_ok e -> int64 s -> int64 t -> reply_ok e on_err ->
  reply_ok e (headers_reply (chain_headers (se_tip e) (se_cap e) s t) on_err).
Proof.
  intros e s t on_err (Ht & _ & _ & Hcap & _) Hs Hts Herr.
  destruct (chain_headers_total (se_tip e) (se_cap e) s t Hs Hts Ht Hcap) as [->|(hs & -> & Hl)]; cbn; assumption.
Qed.

Lemma with_auth_ok : forall e f r,
  (forall m, preq_typed (RdMsg (mkPR true true m)) -> reply_ok e (f m)) ->
  preq_typed r -> reply_ok e (with_auth f r).
Proof.
  intros e f r Hf Hr. unfold with_auth.
  destruct r as [| |[h sg m]]; cbn; [exact I|auto|].
  unfold authenticate; cbn. destruct h; cbn; [|auto]. destruct sg; cbn; [|exact I].
  apply Hf. exact Hr.
Qed.

Lemma get_header_old_ok : forall e r,
  env_ok e -> sreq_int64 r -> reply_ok e (get_header_old (chain_headers (se_tip e) (se_cap e)) r).
Proof.
  intros e [| |[[s t]|]] He Hr; cbn [get_header_old]; try exact I; try (cbn; auto).
  destruct Hr as [Hs Ht]. apply headers_reply_ok; try assumption. exact I.
Qed.

Lemma get_header_ok : forall e r,
  env_ok e -> preq_typed r -> reply_ok e (get_header (chain_headers (se_tip e) (se_cap e)) r).
Proof.
  intros e r He Hr. unfold get_header. apply with_auth_ok; [|exact Hr].
  intros m Hm. destruct m as [|s t|s t|s t|k c|]; try (cbn; auto). destruct Hm as [Hs Ht].
  apply headers_reply_ok; try assumption. exact I.
Qed.

Lemma get_chunk_record_ok : forall e r,
  preq_typed r -> reply_ok e (get_chunk_record (se_nrec e) r).
Proof.
  intros e r Hr. unfold get_chunk_record. apply with_auth_ok; [|exact Hr].
  intros m Hm. destruct m as [|s t|s t|s t|k c|]; try (cbn; auto).
  destruct (chain_records (se_nrec e) s t) as [n|] eqn:E; [|exact I].
  cbn. eapply chain_records_bound; eassumption.
Qed.

Lemma fetch_chunk_ok : forall e r,
  preq_typed r -> reply_ok e (fetch_chunk (se_db e) r).
Proof.
  intros e r Hr. unfold fetch_chunk. apply with_auth_ok; [|exact Hr].
  intros m Hm. destruct m as [|s t|s t|s t|k c|]; try (cbn; auto).
  destruct (load_chunk (se_db e) s t) as [n|] eqn:E; [|exact I].
  cbn. eapply load_chunk_bound; eassumption.
Qed.

(** NearestPeers is only reached with a count between 1 and the size of the table *)
Lemma shard_peers_ok : forall e r,
  env_ok e -> preq_typed r ->
  reply_ok e (fst (shard_peers (se_npeers e) (se_capp e) r)) /\ snd (shard_peers (se_npeers e) (se_capp e) r) = false.
Proof.
  intros e r (_ & _ & Hn & _ & Hc) Hr. unfold shard_peers, bucket_size in *.
  destruct r as [| |[h sg m]]; cbn; [split; [exact I|reflexivity]|split; [auto|reflexivity]|].
  destruct m as [|s t|s t|s t|k c|]; cbn; try (split; [auto|reflexivity]).
  destruct (c <? 0) eqn:E1; [split; [exact I|reflexivity]|].
  destruct (c =? 0) eqn:E2; [split; [cbn; lia|reflexivity]|].
  unfold nearest_peers, bucket_size.
  replace (Z.min c (se_npeers e) + 20 <? 0) with false by (symmetry; lia).
  replace (se_capp e <? Z.min c (se_npeers e) + 20) with false by (symmetry; lia).
  replace (Z.min c (se_npeers e) <? 0) with false by (symmetry; lia).
  split; [cbn; lia|reflexivity].
Qed.

Lemma store_step_ok : forall e q,
  env_ok e -> streq_typed q ->
  reply_ok e (fst (store_step e q)) /\ snd (store_step e q) = false.
Proof.
  intros e q He Hq. destruct q as [r|r|r|r|r| |s t|s t]; cbn [store_step fst snd].
  - split; [apply get_header_old_ok; assumption|reflexivity].
  - split; [apply get_header_ok; assumption|reflexivity].
  - split; [apply get_chunk_record_ok; assumption|reflexivity].
  - split; [apply fetch_chunk_ok; assumption|reflexivity].
  - apply shard_peers_ok; assumption.
  - split; [exact I|reflexivity].
  - destruct Hq as [Hs Ht]. split; [|reflexivity]. apply headers_reply_ok; try assumption. exact I.
  - destruct Hq as [Hs Ht]. split; [|reflexivity].
    destruct He as (_ & Hl & _ & Hcap & _). unfold max_hdr_per_time in Hcap.
    destruct (chain_seqs_total (se_last e) (se_cap e) s t Hs Ht Hl ltac:(unfold max_per_time; lia))
      as [->|(a & b & -> & Hb)]; cbn; [exact I|exact Hb].
Qed.

Lemma reply_ok_survives : forall e r, reply_ok e (fst r) -> store_survives r = true.
Proof.
  intros e [o l] H. unfold store_survives. cbn in *. destruct o; try reflexivity. contradiction.
Qed.

(** ** the two header handlers, stated on their own *)
Lemma get_header_old_spec : forall tip cap r,
  int64 tip -> max_hdr_per_time <= cap -> sreq_int64 r ->
  match get_header_old (chain_headers tip cap) r with
  | Done (RHeaders hs) => 1 <= Z.of_nat (length hs) <= 10000
  | Dropped _ => True
  | Panicked w => w = W_NILHREQ /\ (r = RdZero \/ r = RdMsg None)
  | _ => False
  end.
Proof.
  intros tip cap [| |[[s t]|]] Ht Hcap Hr; cbn [get_header_old]; try exact I; try (split; auto).
  destruct Hr as [Hs Hts].
  destruct (chain_headers_total tip cap s t Hs Hts Ht Hcap) as [->|(hs & -> & Hl)]; cbn; [exact I|exact Hl].
Qed.

Lemma get_header_spec : forall tip cap r,
  int64 tip -> max_hdr_per_time <= cap -> preq_typed r ->
  match get_header (chain_headers tip cap) r with
  | Done (RHeaders hs) => 1 <= Z.of_nat (length hs) <= 10000
  | Done RError | Dropped _ => True
  | Panicked w => w = W_NILHDRS \/ w = W_ASSERT
  | _ => False
  end.
Proof.
  intros tip cap r Ht Hcap Hr. unfold get_header, with_auth.
  destruct r as [| |[h sg m]]; cbn; [exact I|auto|].
  unfold authenticate; cbn. destruct h; cbn; [|auto]. destruct sg; cbn; [|exact I].
  destruct m as [|s t|s t|s t|k c|]; cbn; auto.
  destruct Hr as [Hs Hts].
  destruct (chain_headers_total tip cap s t Hs Hts Ht Hcap) as [->|(hs & -> & Hl)]; cbn; [exact I|exact Hl].
Qed.

(** the ranges that used to pass the wrapped tests *)
Definition hreq_wrap : rd (option (Z * Z)) := RdMsg (Some (- 1099511627776, two63 - 1)).
Definition env_example : stenv :=
  mkSE 3 3 3 [0; 1; 2; 3; 4; 7; 10; 11; 12; 99; 100; 999999999999] 6 2147483648 429496729.

Lemma env_example_ok : env_ok env_example.
Proof. unfold env_ok, env_example, int64, two63, max_hdr_per_time, bucket_size; cbn. lia. Qed.
