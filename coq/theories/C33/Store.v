(** C33 — executable model of the p2pstore stream handlers that hand
    peer-controlled integers to the blockchain module, the local chunk store
    or the routing table, and of the blockchain functions behind them:

      - system/p2p/dht/protocol/p2pstore/handler.go
          handleStreamGetHeaderOld (plain stream handler),
          handleStreamGetHeader, handleStreamGetChunkRecord (under
          protocol.HandlerWithAuthAndSign), handleStreamFetchChunk (own
          ReadStreamAndAuthenticate, bodies then a closing response),
          handleStreamFetchShardPeers (protocol.HandlerWithRW, no signature),
          handleStreamIsFullNode (protocol.HandlerWithWrite: reads nothing);
        every one of them registered through protocol.RegisterStreamHandler, i.e.
        under the recover of protocol.HandlerWithClose;
      - system/p2p/dht/protocol/wrapper.go AuthenticateMessage (t.Headers.Sign is a
        plain field read through Headers);
      - system/p2p/dht/protocol/p2pstore/store.go loadChunk (key range of the
        local store, keys "chunk-%012d");
      - blockchain/query_block.go ProcGetHeadersMsg (EventGetHeaders: the two
        header handlers and the rpc module),
        blockchain/sequences.go GetBlockSequences (EventGetBlockSequences: rpc),
        blockchain/chunkshard.go GetChunkRecord (EventGetChunkRecord);
      - go-libp2p-kbucket RoutingTable.NearestPeers as far as the count is
        concerned: make([]peerDistance, 0, count+bucketsize) while the table's
        read lock is held (no defer).

    Outcomes as in Streams.v.  No proofs here. *)
From Coq Require Import List ZArith NArith Bool.
From C33 Require Import C33.Model C33.Streams.
Import ListNotations.
Open Scope Z_scope.

(** panic sites *)
Definition W_NILHDRS : N := 30%N.  (* t.Headers.Sign with Headers nil (AuthenticateMessage) *)
Definition W_ASSERT  : N := 31%N.  (* req.Request.( *types.P2PRequest_X ): another member or none *)
Definition W_NILHREQ : N := 32%N.  (* req.Message.StartHeight through a nil Message (handleStreamGetHeaderOld) *)
Definition W_NEGCAP  : N := 33%N.  (* make(.., 0, count+bucketsize) with a negative capacity (NearestPeers) *)
Definition W_NEGLEN  : N := 34%N.  (* pds.peers[:count] with a negative count (NearestPeers, after RUnlock) *)

(** reasons for a drop *)
Definition D_SIGN : N := 11%N.     (* the signature does not verify: nothing is written *)

(** * the blockchain module *)

Definition max_hdr_per_time : Z := 10000.

(** ProcGetHeadersMsg on a chain whose blocks 0..tip exist.  Second test:
    End-Start >= MaxHeaderCountPerTime || End-Start < 0 (Start <= End at that
    point, so a negative int64 difference is a wrapped one) *)
Definition chain_headers (tip cap : Z) (s e : Z) : out chain_ans :=
  if e <? s then Done CErr
  else if (max_hdr_per_time <=? wrap64 (e - s)) || (wrap64 (e - s) <? 0) then Done CErr
  else if tip <? s then Done CErr
  else
    let en := if tip <? e then tip else e in
    let count := wrap64 (wrap64 (en - s) + 1) in
    if count <? 1 then Done CErr
    else match @go_make N cap count with
         | Panic w => Panicked w
         | Fatal => Died
         | Ok _ =>
             (* for i := start; i <= end; i++ { GetBlockHeaderByHeight(i) }: heights below 0 do not exist *)
             if s <? 0 then Done CErr else Done (CBlocks (zseq s (Z.to_nat count)))
         end.

(** GetBlockSequences; [last] = the last recorded sequence (-1: nothing
    recorded).  The reply has one entry per sequence from Start to
    min(End, last), nil for the sequences that do not exist (those below 0);
    the entries are appended one by one: [cap] bounds what append can get.
    Third test: End-Start >= MaxBlockCountPerTime || End-Start < 0 *)
Inductive seq_ans := QErr | QSeqs (n_nil n_set : Z).

Definition chain_seqs (last cap : Z) (s e : Z) : out seq_ans :=
  if last <? s then Done QErr
  else if e <? s then Done QErr
  else if (max_per_time <=? wrap64 (e - s)) || (wrap64 (e - s) <? 0) then Done QErr
  else
    let en := if last <? e then last else e in
    let n := en - s + 1 in
    if cap <? n then Died
    else
      let n_nil := if s <? 0 then Z.min 0 (en + 1) - s else 0 in
      Done (QSeqs n_nil (n - n_nil)).

(** GetChunkRecord with the records 0..nrec-1 present: the loop from Start to
    End returns ErrNotFound at the first missing record (so it runs at most
    nrec+1 times whatever End is); [Some n] = n records *)
Definition chain_records (nrec : Z) (s e : Z) : option Z :=
  if e <? s then None
  else if (0 <=? s) && (e <? nrec) then Some (e - s + 1)
  else None.

(** * requests *)

(** the oneof member of a decoded P2PRequest *)
Inductive pmember :=
| MNone                                   (* nothing on the wire: nil interface *)
| MReqBlocks (s e : Z)
| MRecords (s e : Z)
| MChunk (s e : Z)
| MPeers (haskey : bool) (count : Z)      (* ReqPeers{ReferKey, Count int32} *)
| MOther.                                 (* pid, peerInfo, provider, chunkInfoList *)

(** Headers present?, does Headers.Sign verify under the remote peer's key
    (library oracle)?, member *)
Record p2preq := mkPR { pr_hdrs : bool; pr_sig : bool; pr_mem : pmember }.
Definition pzero : p2preq := mkPR false false MNone.

(** what the requester reads *)
Inductive reply :=
| RError                    (* a response with Error set *)
| RHeaders (hs : list Z)    (* heights of the headers *)
| RRecords (n : Z)
| RBodies (n : Z)           (* n body frames, then the closing response *)
| RNode
| RPeers (n : Z)            (* CloserPeers *)
| RSeqs (n_nil n_set : Z).  (* reply to EventGetBlockSequences (no stream) *)

Definition p2p_read (r : rd p2preq) : option p2preq :=
  match r with RdErr => None | RdZero => Some pzero | RdMsg m => Some m end.

(** AuthenticateMessage *)
Definition authenticate (m : p2preq) : out unit :=
  if negb (pr_hdrs m) then Panicked W_NILHDRS
  else if pr_sig m then Done tt else Dropped D_SIGN.

(** protocol.HandlerWithAuthAndSign / ReadStreamAndAuthenticate in front of [f] *)
Definition with_auth (f : pmember -> out reply) (r : rd p2preq) : out reply :=
  match p2p_read r with
  | None => Dropped D_STREAM
  | Some m =>
      match authenticate m with
      | Done _ => f (pr_mem m)
      | Panicked w => Panicked w
      | Dropped w => Dropped w
      | Died => Died
      end
  end.

(** the reply of the blockchain module as the header handlers see it: a panic
    inside the module is recovered there and answered with an error *)
Definition headers_reply (a : out chain_ans) (on_err : out reply) : out reply :=
  match a with
  | Died => Died
  | Done (CBlocks hs) => Done (RHeaders hs)
  | _ => on_err
  end.

(** handleStreamGetHeaderOld: MessageHeaderReq{Message *P2PGetHeaders}; no range
    test, no signature; an error of the module: nothing is written *)
Definition get_header_old (chain : Z -> Z -> out chain_ans) (r : rd (option (Z * Z))) : out reply :=
  match r with
  | RdErr => Dropped D_STREAM
  | RdZero | RdMsg None => Panicked W_NILHREQ
  | RdMsg (Some (s, e)) => headers_reply (chain s e) (Dropped D_CHAIN)
  end.

(** handleStreamGetHeader *)
Definition get_header (chain : Z -> Z -> out chain_ans) : rd p2preq -> out reply :=
  with_auth (fun m => match m with
                      | MReqBlocks s e => headers_reply (chain s e) (Done RError)
                      | _ => Panicked W_ASSERT
                      end).

(** handleStreamGetChunkRecord *)
Definition get_chunk_record (nrec : Z) : rd p2preq -> out reply :=
  with_auth (fun m => match m with
                      | MRecords s e =>
                          match chain_records nrec s e with Some n => Done (RRecords n) | None => Done RError end
                      | _ => Panicked W_ASSERT
                      end).

(** ** the local chunk store *)

(** fmt.Sprintf("%012d", h): sign, then zeros up to a total width of 12 *)
Fixpoint digits_fuel (fuel : nat) (z : Z) (acc : list N) : list N :=
  match fuel with
  | O => acc
  | S f => let acc' := Z.to_N (48 + z mod 10) :: acc in
           if z <? 10 then acc' else digits_fuel f (z / 10) acc'
  end.
Definition digits (z : Z) : list N := digits_fuel 20 z [].

Definition fmt12 (h : Z) : list N :=
  let neg := h <? 0 in
  let ds := digits (Z.abs h) in
  let width := (if neg then 11 else 12)%nat in
  (if neg then [45%N] else []) ++ repeat 48%N (width - length ds) ++ ds.

(** bytes.Compare a b < 0 *)
Fixpoint bytes_ltb (a b : list N) : bool :=
  match a, b with
  | _, [] => false
  | [], _ :: _ => true
  | x :: a', y :: b' => if (x <? y)%N then true else if (y <? x)%N then false else bytes_ltb a' b'
  end.

(** loadChunk: the bodies whose key lies in [key(Start), key(End+1)), End+1 in
    int64; ErrLength unless their number is End-Start+1 (int64) *)
Definition in_key_range (s e1 : Z) (h : Z) : bool :=
  negb (bytes_ltb (fmt12 h) (fmt12 s)) && bytes_ltb (fmt12 h) (fmt12 e1).

Definition load_chunk (db : list Z) (s e : Z) : option Z :=
  let n := Z.of_nat (length (filter (in_key_range s (wrap64 (e + 1))) db)) in
  if n =? wrap64 (wrap64 (e - s) + 1) then Some n else None.

(** handleStreamFetchChunk: the type assertion comes before the deferred
    closing write *)
Definition fetch_chunk (db : list Z) : rd p2preq -> out reply :=
  with_auth (fun m => match m with
                      | MChunk s e =>
                          match load_chunk db s e with Some n => Done (RBodies n) | None => Done RError end
                      | _ => Panicked W_ASSERT
                      end).

(** ** the routing table *)

Definition bucket_size : Z := 20.

(** RoutingTable.NearestPeers(id, count) on a table of [npeers] peers; [capp] =
    number of 40-byte peerDistance records one make can get.  Second
    component: the table's read lock was left held (the panic comes between
    RLock and RUnlock, there is no defer) - every later writer, and every
    reader behind it, waits for ever *)
Definition nearest_peers (npeers capp count : Z) : out Z * bool :=
  if count + bucket_size <? 0 then (Panicked W_NEGCAP, true)
  else if capp <? count + bucket_size then (Died, false)
  else if count <? 0 then (Panicked W_NEGLEN, false)
  else (Done (Z.min count npeers), false).

(** handleStreamFetchShardPeers (Count is an int32): Count = 0 lists the table;
    Count < 0 is answered with an error; Count is cut to the table's size
    before NearestPeers sizes its slice with it *)
Definition shard_peers (npeers capp : Z) (r : rd p2preq) : out reply * bool :=
  match p2p_read r with
  | None => (Dropped D_STREAM, false)
  | Some m =>
      match pr_mem m with
      | MPeers _ count =>
          if count <? 0 then (Done RError, false)
          else if count =? 0 then (Done (RPeers npeers), false)
          else
            match nearest_peers npeers capp (Z.min count npeers) with
            | (Done n, l) => (Done (RPeers n), l)
            | (Panicked w, l) => (Panicked w, l)
            | (Dropped w, l) => (Dropped w, l)
            | (Died, l) => (Died, l)
            end
      | _ => (Panicked W_ASSERT, false)
      end
  end.

(** * one request to the node *)
Inductive streq :=
| QHdrOld (r : rd (option (Z * Z)))
| QHdr (r : rd p2preq)
| QRec (r : rd p2preq)
| QChunk (r : rd p2preq)
| QShard (r : rd p2preq)
| QFull                        (* whatever is sent: the handler does not read *)
| QDirHdr (s e : Z)            (* EventGetHeaders straight to the module, as rpc GetHeaders does *)
| QDirSeq (s e : Z).           (* EventGetBlockSequences, as rpc GetBlockSequences does *)

Record stenv := mkSE {
  se_tip : Z; se_last : Z; se_nrec : Z; se_db : list Z; se_npeers : Z;
  se_cap : Z;       (* 8-byte elements one allocation can get *)
  se_capp : Z       (* 40-byte elements *)
}.

Definition store_step (e : stenv) (q : streq) : out reply * bool :=
  match q with
  | QHdrOld r => (get_header_old (chain_headers (se_tip e) (se_cap e)) r, false)
  | QHdr r => (get_header (chain_headers (se_tip e) (se_cap e)) r, false)
  | QRec r => (get_chunk_record (se_nrec e) r, false)
  | QChunk r => (fetch_chunk (se_db e) r, false)
  | QShard r => shard_peers (se_npeers e) (se_capp e) r
  | QFull => (Done RNode, false)
  | QDirHdr s t => (headers_reply (chain_headers (se_tip e) (se_cap e) s t) (Done RError), false)
  | QDirSeq s t =>
      (match chain_seqs (se_last e) (se_cap e) s t with
       | Died => Died
       | Done (QSeqs a b) => Done (RSeqs a b)
       | _ => Done RError
       end, false)
  end.

(** every stream handler runs under HandlerWithClose's recover; the direct
    requests under blockchain.processMsg's *)
Definition store_survives (r : out reply * bool) : bool := survives true (fst r).
