(** C33 — correspondence cases: one history of events fed to the real
    light-broadcast component, with what the implementation showed after each
    event: whether the process (resp. the loop body) survived, the blocks
    handed to the blockchain module, the peer messages published, the length
    of the pending list and of the block-request list.

    spec oracle: the node survives every event (property text: no peer input,
    in any order, crashes the node or stops a background loop).
    No known-finding codes: the three findings of this property (group
    overrun in the pending loop, Header.TxCount sizing the allocations of
    addLtBlock, nil validator under disableValidation) are repaired in the
    code and in the model; an implementation that dies anywhere is a
    violation. *)
From Coq Require Import List ZArith NArith Bool String.
From C33 Require Import Lib.Harness C33.Model.
Import ListNotations.
Open Scope Z_scope.

(** observables after one event *)
Record obs := mkObs {
  o_alive : bool;
  o_posts : list eff;      (* messages to the blockchain module, in order *)
  o_msgs : list eff;       (* peer messages published, in order *)
  o_pend : Z;              (* pendBlockList.Len() *)
  o_reqs : Z               (* blockRequestList.Len() *)
}.

(** [Case]: per-event observations (loops driven one iteration at a time);
    [CaseLive]: the real loop goroutines in a child process - the index of the
    event during which the process died (if it did) and the accumulated
    observations of the whole history *)
Inductive case :=
| Case (c : config) (p0 : pool) (steps : list (event * obs))
| CaseLive (c : config) (p0 : pool) (evs : list event) (crash : option nat) (final : obs).

Definition slot_eqb := option_eqb N.eqb.

Definition block_eqb (a b : block) : bool :=
  Z.eqb (b_height a) (b_height b) && N.eqb (b_rest a) (b_rest b) && N.eqb (b_main a) (b_main b)
  && list_eqb slot_eqb (b_txs a) (b_txs b).

Definition eff_eqb (a b : eff) : bool :=
  match a, b with
  | Post p x, Post q y => N.eqb p q && block_eqb x y
  | Req p h, Req q k => N.eqb p q && Z.eqb h k
  | Resp p h, Resp q k => N.eqb p q && Z.eqb h k
  | _, _ => false
  end.

Definition is_post (e : eff) : bool :=
  match e with Post _ _ => true | _ => false end.

Definition obs_agree (st : state) (e : list eff) (o : obs) : bool :=
  o_alive o
  && list_eqb eff_eqb (filter is_post e) (o_posts o)
  && list_eqb eff_eqb (filter (fun x => negb (is_post x)) e) (o_msgs o)
  && Z.eqb (Z.of_nat (List.length (st_pend st))) (o_pend o)
  && Z.eqb (Z.of_nat (List.length (st_reqs st))) (o_reqs o).

(** fold over the history; stops at the first event the implementation did not survive *)
Fixpoint check_steps (c : config) (st : state) (p : pool) (l : list (event * obs)) : verdict :=
  match l with
  | [] => ok_verdict
  | (ev, o) :: tl =>
      match step c st p ev with
      | Alive st' p' e =>
          if o_alive o then
            match check_steps c st' p' tl with
            | (m, s, k) => (obs_agree st' e o && m, s, k)
            end
          else (false, false, 0%N)            (* the implementation died where the model survives *)
      | Crashed why =>
          if o_alive o then (false, true, 0%N)  (* the model dies where the implementation survives *)
          else (match tl with [] => true | _ => false end, false, 0%N)
      end
  end.

(** live: run the model over the whole history *)
Inductive lres :=
| LDone (st : state) (e : list eff)
| LCrash (i : nat) (ev : event) (why : N).

Fixpoint run_live (c : config) (st : state) (p : pool) (evs : list event) (i : nat) (acc : list eff) : lres :=
  match evs with
  | [] => LDone st acc
  | ev :: tl =>
      match step c st p ev with
      | Alive st' p' e => run_live c st' p' tl (S i) (acc ++ e)
      | Crashed why => LCrash i ev why
      end
  end.

Definition check_live (c : config) (p0 : pool) (evs : list event) (crash : option nat) (final : obs) : verdict :=
  match run_live c init p0 evs 0 [], crash with
  | LDone st e, None => (obs_agree st e final, true, 0%N)
  | LDone _ _, Some _ => (false, false, 0%N)
  | LCrash _ _ _, None => (false, true, 0%N)
  | LCrash i ev why, Some j => (Nat.eqb i j, false, 0%N)
  end.

Definition check_case (cs : case) : verdict :=
  match cs with
  | Case c p0 steps => check_steps c init p0 steps
  | CaseLive c p0 evs crash final => check_live c p0 evs crash final
  end.

(** * compact wire format *)
Definition slots (s : string) : list (option txid) :=
  map (fun x => if N.eqb x 0 then None else Some x) (hx s).

(** light block with a header; miner 0 = nil MinerTx *)
Definition L (txcount height : Z) (hash rest miner : N) (sh : string) : ltblock :=
  mkLt (Some (mkHdr txcount height hash rest)) (if N.eqb miner 0 then None else Some miner) (hx sh).
(** light block with a nil header *)
Definition L0 (miner : N) (sh : string) : ltblock :=
  mkLt None (if N.eqb miner 0 then None else Some miner) (hx sh).
(** pool entry *)
Definition X (k id : N) (gc : Z) (hdr : string) : N * ptx := (k, mkPtx id gc (hx hdr)).
(** posted block *)
Definition B (pub : N) (height : Z) (rest main : N) (txs : string) : eff :=
  Post pub (mkBlk height rest main (slots txs)).
Definition BK (height : Z) (rest main : N) (txs : string) : block :=
  mkBlk height rest main (slots txs).
(** virtual clock of the harness: deliveries at whole seconds, ticks half a second later *)
Definition R (t : Z) (from pub : N) (lb : ltblock) : event := ERecvLt (t * 1000000000) from pub lb.
Definition K (t : Z) : event := ETick (t * 1000000000 + 500000000).
Definition O (alive : bool) (posts msgs : list eff) (pend reqs : Z) : obs :=
  mkObs alive posts msgs pend reqs.
