(** C33 — correspondence cases: one history of events fed to the real
    light-broadcast component, with what the implementation showed after each
    event: whether the process (resp. the loop body) survived, the blocks
    handed to the blockchain module, the peer messages published, the length
    of the pending list and of the block-request list.

    spec oracle: the node survives every event (property text: no peer input,
    in any order, crashes the node or stops a background loop).
    No known-finding codes: the seven findings of this property (group
    overrun in the pending loop, Header.TxCount sizing the allocations of
    addLtBlock, nil validator under disableValidation, wrapping int64 range
    test of the download serving handlers / ProcGetBlockDetailsMsg, the same
    test in ProcGetHeadersMsg behind the p2pstore header handlers and in
    GetBlockSequences, the peer's Count handed to NearestPeers by the
    shard-peer handler) are repaired in the code and in the model; an
    implementation that dies anywhere is a violation. *)
From Coq Require Import List ZArith NArith Bool String.
From C33 Require Import Lib.Harness C33.Model C33.Streams C33.Store.
Import ListNotations.
Open Scope Z_scope.

(** observables after one event *)
Record obs := mkObs {
  o_alive : bool;
  o_posts : list eff;      (* messages to the blockchain module, in order *)
  o_msgs : list eff;       (* peer messages published, in order *)
  o_pend : Z;              (* pendBlockList.Len() *)
  o_reqs : Z               (* blockRequestList.Len() *)
}.

(** [Case]: per-event observations (loops driven one iteration at a time);
    [CaseLive]: the real loop goroutines in a child process - the index of the
    event during which the process died (if it did) and the accumulated
    observations of the whole history *)
(** stream paths (Streams.v), all run in child processes against real libp2p hosts:
    [CaseDl]: one download job against scripted serving peers - acknowledgement,
      survival, blocks handed to the blockchain module (height, peer, id) and
      the number of requests every peer saw per height;
    [CaseSrv]: requests sent to the node's two download stream handlers, the
      blockchain module being a stub with blocks 0..tip (mode 1: answers with an
      empty list, 2: with an error) - per request what the stub was asked and
      what the requester read (blocks / end of stream / reset);
    [CaseSrvLive]: the same handlers in front of the REAL blockchain module, and
      ranges sent to that module directly through the queue as the rpc module
      does ([SDirect]) - index of the request the process did not survive;
    [CaseVer]: requests to the two version handlers - what the requester read,
      the reply's AddrFrom, address-book and blacklist effects; [pubs]/[maddrs]:
      the strings utils.IsPublicIP resp. multiaddr.NewMultiaddr accept;
    [CaseLim]: replies to the node's peer-info queries, VerLimit = lim -
      0 = PeerInfoManager.Refresh, 1 = blacklisted, 2 = nothing *)
Inductive sreq := SOld (r : rd (option (Z * Z))) | SNew (r : rd (Z * Z)) | SDirect (s e : Z).
Inductive sobs := SBlocks (hs : list Z) | SEof | SReset.
Inductive vreq := VNew (r : rd vmsg) | VOld (r : rd (option vmsg)).
Record vobs := mkVobs { vo_class : Z; vo_from : gostring; vo_eff : list peff }.
(** [CaseStore]: requests to the p2pstore stream handlers of a node host in
    front of a REAL test node (blockchain module, local chunk store with the
    bodies [se_db], routing table of [se_npeers] peers), and ranges sent to the
    blockchain module directly as the rpc module does; per completed request
    what the requester read and whether a writer on the routing table was
    found blocked afterwards (the harness stops the case there); index of the
    request the process did not survive *)
Inductive stobs := OReset | OEof | OReply (r : reply).

Inductive case :=
| Case (c : config) (p0 : pool) (steps : list (event * obs))
| CaseLive (c : config) (p0 : pool) (evs : list event) (crash : option nat) (final : obs)
| CaseDl (j : job) (ack : Z) (alive : bool) (del : list delivery) (reqs : list (N * Z * nat))
| CaseSrv (tip mode : Z) (steps : list (sreq * (option (Z * Z) * sobs))) (alive : bool)
| CaseSrvLive (tip : Z) (reqs : list sreq) (crash : option nat)
| CaseVer (channel : Z) (pubs maddrs : list gostring) (steps : list (vreq * vobs)) (alive : bool)
| CaseLim (lim : gostring) (steps : list (rd gostring * Z)) (alive : bool)
| CaseStore (e : stenv) (reqs : list streq) (obs : list (stobs * bool)) (crash : option nat).

Definition slot_eqb := option_eqb N.eqb.

Definition block_eqb (a b : block) : bool :=
  Z.eqb (b_height a) (b_height b) && N.eqb (b_rest a) (b_rest b) && N.eqb (b_main a) (b_main b)
  && list_eqb slot_eqb (b_txs a) (b_txs b).

Definition eff_eqb (a b : eff) : bool :=
  match a, b with
  | Post p x, Post q y => N.eqb p q && block_eqb x y
  | Req p h, Req q k => N.eqb p q && Z.eqb h k
  | Resp p h, Resp q k => N.eqb p q && Z.eqb h k
  | _, _ => false
  end.

Definition is_post (e : eff) : bool :=
  match e with Post _ _ => true | _ => false end.

Definition obs_agree (st : state) (e : list eff) (o : obs) : bool :=
  o_alive o
  && list_eqb eff_eqb (filter is_post e) (o_posts o)
  && list_eqb eff_eqb (filter (fun x => negb (is_post x)) e) (o_msgs o)
  && Z.eqb (Z.of_nat (List.length (st_pend st))) (o_pend o)
  && Z.eqb (Z.of_nat (List.length (st_reqs st))) (o_reqs o).

(** fold over the history; stops at the first event the implementation did not survive *)
Fixpoint check_steps (c : config) (st : state) (p : pool) (l : list (event * obs)) : verdict :=
  match l with
  | [] => ok_verdict
  | (ev, o) :: tl =>
      match step c st p ev with
      | Alive st' p' e =>
          if o_alive o then
            match check_steps c st' p' tl with
            | (m, s, k) => (obs_agree st' e o && m, s, k)
            end
          else (false, false, 0%N)            (* the implementation died where the model survives *)
      | Crashed why =>
          if o_alive o then (false, true, 0%N)  (* the model dies where the implementation survives *)
          else (match tl with [] => true | _ => false end, false, 0%N)
      end
  end.

(** live: run the model over the whole history *)
Inductive lres :=
| LDone (st : state) (e : list eff)
| LCrash (i : nat) (ev : event) (why : N).

Fixpoint run_live (c : config) (st : state) (p : pool) (evs : list event) (i : nat) (acc : list eff) : lres :=
  match evs with
  | [] => LDone st acc
  | ev :: tl =>
      match step c st p ev with
      | Alive st' p' e => run_live c st' p' tl (S i) (acc ++ e)
      | Crashed why => LCrash i ev why
      end
  end.

Definition check_live (c : config) (p0 : pool) (evs : list event) (crash : option nat) (final : obs) : verdict :=
  match run_live c init p0 evs 0 [], crash with
  | LDone st e, None => (obs_agree st e final, true, 0%N)
  | LDone _ _, Some _ => (false, false, 0%N)
  | LCrash _ _ _, None => (false, true, 0%N)
  | LCrash i ev why, Some j => (Nat.eqb i j, false, 0%N)
  end.

(** * stream paths *)

(** ** download job.  spec oracle: the process survived, and every block handed to the
    blockchain module was sent by that peer for that height as the first item of a reply *)
Definition delivery_eqb (a b : delivery) : bool :=
  match a, b with
  | (h, p, i), (h', p', i') => (h =? h') && N.eqb p p' && N.eqb i i'
  end.
Definition same_dels (a b : list delivery) : bool :=
  Nat.eqb (List.length a) (List.length b)
  && forallb (fun d => existsb (delivery_eqb d) b) a && forallb (fun d => existsb (delivery_eqb d) a) b.

(** requests the serving peers saw: a peer without the protocol (first scripted
    answer [WNoStream]) is asked by the node but never sees a request *)
Definition reachable (s : script) (h : Z) (p : N) : bool :=
  match script_get s p h with WNoStream :: _ => false | _ => true end.
Definition req_count (r : jres) (p : N) (h : Z) : nat :=
  fold_left (fun acc x => if fst x =? h then (acc + count_in p (snd x))%nat else acc) (jr_asked r) 0%nat.
Definition total_asked (s : script) (r : jres) : nat :=
  fold_left (fun acc x => (acc + List.length (filter (reachable s (fst x)) (snd x)))%nat) (jr_asked r) 0%nat.
Definition reqs_agree (s : script) (r : jres) (reqs : list (N * Z * nat)) : bool :=
  forallb (fun q => match q with (p, h, c) => reachable s h p && Nat.eqb (req_count r p h) c end) reqs
  && Nat.eqb (total_asked s r) (fold_left (fun a q => (a + snd q)%nat) reqs 0%nat).

Definition sent_wire (h : Z) (id : N) (w : wire) : bool :=
  match w with
  | WMsg (Some (WIblock b :: _)) => (bk_h b =? h) && N.eqb (bk_id b) id
  | _ => false
  end.
Definition sent_by_b (s : script) (d : delivery) : bool :=
  match d with (h, p, id) => existsb (sent_wire h id) (script_get s p h) end.

Definition check_dl (j : job) (ack : Z) (alive : bool) (del : list delivery) (reqs : list (N * Z * nat)) : verdict :=
  let r := run_job j in
  (Bool.eqb alive (negb (jr_dead r)) && (ack =? Z.of_N (jr_ack r)) && same_dels del (jr_del r) && reqs_agree (j_script j) r reqs,
   alive && forallb (sent_by_b (j_script j)) del, 0%N).

(** ** serving side.  spec oracle: the process survived and every range handed to the
    blockchain module spans at most the handler's own limit (0 <= End-Start <= 256 as
    integers). *)
Definition stub_chain (tip mode : Z) (s e : Z) : out chain_ans :=
  if mode =? 1 then Done (CBlocks [])
  else if mode =? 2 then Done CErr
  else if (s <? 0) || (tip <? s) || (e <? s) || (1000 <=? e - s) then Done CErr
  else Done (CBlocks (zseq s (Z.to_nat ((if tip <? e then tip else e) - s + 1)))).

Definition serve (chain : Z -> Z -> out chain_ans) (q : sreq) : sres :=
  match q with
  | SOld r => serve_old chain r
  | SNew r => serve_new chain r
  | SDirect s e =>   (* EventGetBlocks straight to the blockchain module; a panic there is recovered by the module *)
      (Some (s, e), match chain s e with
                    | Died => Died
                    | Done (CBlocks hs) => Done hs
                    | _ => Dropped D_CHAIN
                    end)
  end.


Definition fwd_eqb (a b : option (Z * Z)) : bool :=
  match a, b with
  | None, None => true
  | Some (s, e), Some (s', e') => (s =? s') && (e =? e')
  | _, _ => false
  end.
Definition sobs_agree (o : out (list Z)) (b : sobs) : bool :=
  match o, b with
  | Done hs, SBlocks hs' => list_eqb Z.eqb hs hs'
  | Dropped _, SEof => true
  | Panicked _, SReset => true
  | _, _ => false
  end.

Fixpoint check_srv_steps (chain : Z -> Z -> out chain_ans) (l : list (sreq * (option (Z * Z) * sobs))) : verdict :=
  match l with
  | [] => ok_verdict
  | (q, (fwd, so)) :: tl =>
      let r := serve chain q in
      let m := fwd_eqb (fst r) fwd && sobs_agree (snd r) so in
      let s := match fwd with Some (a, b) => span_ok a b | None => true end in
      match check_srv_steps chain tl with
      | (m', s', _) => (m && m', s && s', 0%N)
      end
  end.

Definition check_srv (tip mode : Z) (steps : list (sreq * (option (Z * Z) * sobs))) (alive : bool) : verdict :=
  match check_srv_steps (stub_chain tip mode) steps with
  | (m, s, k) => if alive then (m, s, k) else (false, false, 0%N)
  end.

(** real blockchain module: 2^31 pointers is more than the child (RLIMIT_AS 16 GiB) gets *)
Definition cap_live : Z := 2147483648.

Fixpoint first_death (chain : Z -> Z -> out chain_ans) (reqs : list sreq) (i : nat) : option (nat * sreq) :=
  match reqs with
  | [] => None
  | q :: tl => if serve_survives (serve chain q) then first_death chain tl (S i) else Some (i, q)
  end.

Definition check_srv_live (tip : Z) (reqs : list sreq) (crash : option nat) : verdict :=
  match first_death (chain_get tip cap_live) reqs 0, crash with
  | None, None => ok_verdict
  | None, Some _ => (false, false, 0%N)
  | Some _, None => (false, true, 0%N)
  | Some (i, _), Some j => (Nat.eqb i j, false, 0%N)
  end.

(** ** version handlers.  spec oracle: the process survived *)
Definition peff_eqb (a b : peff) : bool :=
  match a, b with
  | EBlack, EBlack => true
  | EAddRemote x, EAddRemote y => bytes_eqb x y
  | EAddSelf x, EAddSelf y => option_eqb bytes_eqb x y
  | _, _ => false
  end.

Definition vclass (o : out gostring) : Z * gostring :=
  match o with
  | Done a => (0, a)
  | Dropped w => if N.eqb w D_BLACK then (3, []) else (1, [])
  | Panicked _ => (2, [])
  | Died => (9, [])
  end.

Fixpoint check_ver_steps (e : penv) (ext : gostring) (l : list (vreq * vobs)) : bool :=
  match l with
  | [] => true
  | (q, o) :: tl =>
      match (match q with VNew r => handle_version e ext r | VOld r => handle_version_old e ext r end) with
      | (ext', eff, out) =>
          (fst (vclass out) =? vo_class o) && bytes_eqb (snd (vclass out)) (vo_from o)
          && list_eqb peff_eqb eff (vo_eff o) && check_ver_steps e ext' tl
      end
  end.

Definition check_ver (channel : Z) (pubs maddrs : list gostring) (steps : list (vreq * vobs)) (alive : bool) : verdict :=
  let e := mkPenv channel (fun s => existsb (bytes_eqb s) pubs) (fun s => existsb (bytes_eqb s) maddrs) in
  (alive && check_ver_steps e [] steps, alive, 0%N).

(** ** version limit.  spec oracle: the process survived *)
Definition lim_class (o : out bool) : Z :=
  match o with Done true => 0 | Done false => 1 | Dropped _ => 2 | _ => 9 end.

Definition check_lim (lim : gostring) (steps : list (rd gostring * Z)) (alive : bool) : verdict :=
  (alive && forallb (fun x => lim_class (refresh_one lim (fst x)) =? snd x) steps, alive, 0%N).

(** ** p2pstore handlers.  spec oracle (on what the implementation showed): the
    process survived every request, no request left the routing table blocked,
    and no reply is longer than the limit of its kind (10000 headers, 1000
    sequence entries) *)
Definition reply_eqb (a b : reply) : bool :=
  match a, b with
  | RError, RError | RNode, RNode => true
  | RHeaders x, RHeaders y => list_eqb Z.eqb x y
  | RRecords x, RRecords y | RBodies x, RBodies y | RPeers x, RPeers y => x =? y
  | RSeqs x1 x2, RSeqs y1 y2 => (x1 =? y1) && (x2 =? y2)
  | _, _ => false
  end.

Definition stobs_agree (o : out reply) (b : stobs) : bool :=
  match o, b with
  | Done r, OReply r' => reply_eqb r r'
  | Dropped _, OEof => true
  | Panicked _, OReset => true
  | _, _ => false
  end.

Definition reply_bounded (b : stobs) : bool :=
  match b with
  | OReply (RHeaders hs) => Z.of_nat (List.length hs) <=? 10000
  | OReply (RSeqs x y) => x + y <=? 1000
  | _ => true
  end.

(** agreement, spec, index of the request the model does not survive *)
Fixpoint run_store (e : stenv) (reqs : list streq) (obs : list (stobs * bool)) (i : nat)
  : bool * bool * option nat :=
  match reqs with
  | [] => (match obs with [] => true | _ => false end, true, None)
  | q :: tl =>
      let r := store_step e q in
      if store_survives r then
        match obs with
        | [] => match run_store e tl [] (S i) with (_, _, d) => (true, true, d) end
        | (o, stuck) :: otl =>
            let m := stobs_agree (fst r) o && Bool.eqb (snd r) stuck in
            if stuck then (m && match otl with [] => true | _ => false end, false, None)
            else match run_store e tl otl (S i) with
                 | (m', s', d) => (m && m', reply_bounded o && s', d)
                 end
        end
      else (match obs with [] => true | _ => false end, true, Some i)
  end.

Definition check_store (e : stenv) (reqs : list streq) (obs : list (stobs * bool)) (crash : option nat) : verdict :=
  match run_store e reqs obs 0, crash with
  | (m, s, None), None =>
      (m && (Nat.eqb (List.length obs) (List.length reqs) || existsb snd obs), s, 0%N)
  | (_, _, None), Some _ => (false, false, 0%N)
  | (_, s, Some _), None => (false, s, 0%N)
  | (m, _, Some i), Some j => (m && Nat.eqb i j, false, 0%N)
  end.

Definition check_case (cs : case) : verdict :=
  match cs with
  | Case c p0 steps => check_steps c init p0 steps
  | CaseLive c p0 evs crash final => check_live c p0 evs crash final
  | CaseDl j ack alive del reqs => check_dl j ack alive del reqs
  | CaseSrv tip mode steps alive => check_srv tip mode steps alive
  | CaseSrvLive tip reqs crash => check_srv_live tip reqs crash
  | CaseVer ch pubs maddrs steps alive => check_ver ch pubs maddrs steps alive
  | CaseLim lim steps alive => check_lim lim steps alive
  | CaseStore e reqs obs crash => check_store e reqs obs crash
  end.

(** * compact wire format *)
Definition slots (s : string) : list (option txid) :=
  map (fun x => if N.eqb x 0 then None else Some x) (hx s).

(** light block with a header; miner 0 = nil MinerTx *)
Definition L (txcount height : Z) (hash rest miner : N) (sh : string) : ltblock :=
  mkLt (Some (mkHdr txcount height hash rest)) (if N.eqb miner 0 then None else Some miner) (hx sh).
(** light block with a nil header *)
Definition L0 (miner : N) (sh : string) : ltblock :=
  mkLt None (if N.eqb miner 0 then None else Some miner) (hx sh).
(** pool entry *)
Definition X (k id : N) (gc : Z) (hdr : string) : N * ptx := (k, mkPtx id gc (hx hdr)).
(** posted block *)
Definition B (pub : N) (height : Z) (rest main : N) (txs : string) : eff :=
  Post pub (mkBlk height rest main (slots txs)).
Definition BK (height : Z) (rest main : N) (txs : string) : block :=
  mkBlk height rest main (slots txs).
(** virtual clock of the harness: deliveries at whole seconds, ticks half a second later *)
Definition R (t : Z) (from pub : N) (lb : ltblock) : event := ERecvLt (t * 1000000000) from pub lb.
Definition K (t : Z) : event := ETick (t * 1000000000 + 500000000).
Definition O (alive : bool) (posts msgs : list eff) (pend reqs : Z) : obs :=
  mkObs alive posts msgs pend reqs.

(** stream cases *)
Definition T (p adv : Z) : task := mkTask (Z.to_N p) adv.
Definition SC (p h : Z) (ws : list wire) : N * Z * list wire := (Z.to_N p, h, ws).
Definition we : wire := WErr.
Definition wn : wire := WNoStream.
Definition wb : wire := WBadHdr.
Definition w0 : wire := WMsg None.
Definition wm (items : list witem) : wire := WMsg (Some items).
Definition ib (h id : Z) : witem := WIblock (mkB h (Z.to_N id)).
Definition D (h p id : Z) : delivery := (h, Z.to_N p, Z.to_N id).
Definition Q (p h c : Z) : N * Z * nat := (Z.to_N p, h, Z.to_nat c).
Definition V (ver : Z) (from recv : gostring) : vmsg := mkV ver from recv.
Definition VO (class : Z) (from : gostring) (eff : list peff) : vobs := mkVobs class from eff.

(** p2pstore cases: P2PRequest with Headers?, valid signature?, member *)
Definition PR (h s : bool) (m : pmember) : rd p2preq := RdMsg (mkPR h s m).
Definition SE (tip last nrec : Z) (db : list Z) (npeers : Z) : stenv :=
  mkSE tip last nrec db npeers 2147483648 429496729.
Definition OR (r : reply) (stuck : bool) : stobs * bool := (OReply r, stuck).
