(** C33 — executable model of the peer-facing index / allocation / dereference
    logic of the light-block broadcast component
    (system/p2p/dht/protocol/broadcast/{lightbroadcast,broadcast}.go), followed
    line by line, with Go's run-time semantics explicit:

      - [make([]T, n)] panics for n < 0 and for n * sizeof(T) > maxAlloc
        (2^48 on linux/amd64: n > 2^45 for 8-byte elements); a length that
        passes this test but that the operating system cannot provide ends in
        the run-time's "fatal error: out of memory", which NO recover catches;
      - [s[i]] and [s[i] = v] panic for i >= len s;
      - a field read through a nil pointer panics; generated protobuf getters
        are nil-safe.

    Every function returns a [res]: [Ok v], [Panic why] (a Go panic, which a
    deferred recover turns into a drop) or [Fatal] (process death regardless
    of recover).  Whether a path runs under a recover is part of [step].

    Transactions are identities ([txid]); the mempool answer to a short-hash
    query is a function of the current [pool] (short hash id -> pool-level
    transaction).  C34 refines the pool to the mempool's short-hash index.
    No proofs here. *)
From Coq Require Import List ZArith NArith Bool.
Import ListNotations.
Open Scope Z_scope.

(** * Go results *)
Inductive res (A : Type) : Type :=
| Ok (a : A)
| Panic (why : N)
| Fatal.
Arguments Ok {A} a.
Arguments Panic {A} why.
Arguments Fatal {A}.

(** panic sites *)
Definition W_NILHDR : N := 1%N.   (* block.SetHeader(nil): header.Version *)
Definition W_MAKE   : N := 2%N.   (* makeslice: len out of range *)
Definition W_MINER  : N := 3%N.   (* block.Txs[0] with TxCount = 0 *)
Definition W_SHASH  : N := 4%N.   (* pd.sTxHashes[i], i >= len *)
Definition W_GROUP  : N := 5%N.   (* pd.block.Txs[index+j], group longer than the remaining slots
                                     (excluded by the bound test in front of the expansion) *)
Definition W_INDEX  : N := 6%N.   (* pd.block.Txs[index] (never reached: index comes from the same slice) *)
Definition W_NILVAL : N := 7%N.   (* postBlockChain: p.val.addBroadcastMsg with p.val == nil (disableValidation);
                                     no longer a panic site: both call sites test p.val != nil *)

(** 2^45: largest length of a slice of 8-byte elements that [make] does not reject *)
Definition max_len : Z := 35184372088832.

(** [make([]*T, n)] with at most [cap] elements obtainable from the OS *)
Definition go_make {A} (cap n : Z) : res (list (option A)) :=
  if (n <? 0) || (max_len <? n) then Panic W_MAKE
  else if cap <? n then Fatal
  else Ok (repeat None (Z.to_nat n)).

Fixpoint set_nth {A} (l : list A) (i : nat) (v : A) : option (list A) :=
  match l, i with
  | [], _ => None
  | _ :: tl, O => Some (v :: tl)
  | x :: tl, S i' =>
      match set_nth tl i' v with Some tl' => Some (x :: tl') | None => None end
  end.

(** * Data *)
Definition txid := N.

(** pool-level transaction as the mempool returns it: its identity, its
    GroupCount and the members its Header decodes to ([] when it does not decode) *)
Record ptx := mkPtx { px_id : txid; px_gc : Z; px_hdr : list txid }.

(** Transaction.GetTxGroup followed by the nil-safe GetTxs *)
Definition members (p : ptx) : list txid :=
  if (px_gc p <? 0) || (px_gc p =? 1) || (20 <? px_gc p) then []
  else if 0 <? px_gc p then px_hdr p else [].

(** short hash id -> pool-level transaction (first match) *)
Definition pool := list (N * ptx).

Fixpoint pool_get (k : N) (p : pool) : option ptx :=
  match p with
  | [] => None
  | (k', v) :: tl => if N.eqb k k' then Some v else pool_get k tl
  end.

(** Header of a light block: TxCount, Height, Hash (as sent, never recomputed)
    and the identity of the remaining copied fields *)
Record header := mkHdr { h_txcount : Z; h_height : Z; h_hash : N; h_rest : N }.
Record ltblock := mkLt { lt_hdr : option header; lt_miner : option txid; lt_sh : list N }.

(** block under reconstruction / posted to the blockchain module;
    [b_main] = identity of (MainHash, MainHeight), 0 = unset *)
Record block := mkBlk { b_height : Z; b_rest : N; b_main : N; b_txs : list (option txid) }.

Record pend := mkPend {
  pd_from : N; pd_pub : N; pd_ts : Z;        (* fromPeer, publisher, receiveTimeStamp (ns) *)
  pd_height : Z; pd_rest : N; pd_hash : N;   (* block header fields, blockHash *)
  pd_txs : list (option txid);               (* block.Txs *)
  pd_sh : list N                             (* sTxHashes *)
}.

Inductive eff :=
| Post (pub : N) (b : block)        (* EventBroadcastAddBlock to the blockchain module (rebuilt light block,
                                       or the block of a blockResp peer message) *)
| Req (peer : N) (height : Z)       (* blockReq peer message published to [peer] *)
| Resp (peer : N) (height : Z).     (* blockResp peer message published to [peer] *)

(** * buildPendBlock *)

(** first loop: indices of nil slots with their short hashes *)
Fixpoint need_from (i : nat) (txs : list (option txid)) (shs : list N) : res (list (nat * N)) :=
  match txs with
  | [] => Ok []
  | Some _ :: tl => need_from (S i) tl shs
  | None :: tl =>
      match nth_error shs i with
      | None => Panic W_SHASH
      | Some h =>
          match need_from (S i) tl shs with
          | Ok r => Ok ((i, h) :: r)
          | Panic w => Panic w
          | Fatal => Fatal
          end
      end
  end.

(** for j, gtx := range group.GetTxs() { Txs[index+j] = gtx } *)
Fixpoint put_members (txs : list (option txid)) (index : nat) (ms : list txid)
  : res (list (option txid)) :=
  match ms with
  | [] => Ok txs
  | m :: tl =>
      match set_nth txs index (Some m) with
      | None => Panic W_GROUP
      | Some txs' => put_members txs' (S index) tl
      end
  end.

(** second loop over notExistTxIndices with the mempool's answers *)
Fixpoint fill (p : pool) (nd : list (nat * N)) (txs : list (option txid)) (ok : bool)
  : res (list (option txid) * bool) :=
  match nd with
  | [] => Ok (txs, ok)
  | (index, h) :: tl =>
      match nth_error txs index with
      | None => Panic W_INDEX
      | Some (Some _) => fill p tl txs ok
      | Some None =>
          match pool_get h p with
          | None => fill p tl txs false
          | Some e =>
              (* index+len(group.GetTxs()) > len(pd.block.GetTxs()): the group does not fit,
                 the slot stays nil and the build fails like for a missing transaction *)
              if (length txs <? index + length (members e))%nat then fill p tl txs false
              else
              match set_nth txs index (Some (px_id e)) with
              | None => Panic W_INDEX
              | Some txs1 =>
                  match put_members txs1 index (members e) with
                  | Ok txs2 => fill p tl txs2 ok
                  | Panic w => Panic w
                  | Fatal => Fatal
                  end
              end
          end
      end
  end.

Definition pd_set_txs (pd : pend) (txs : list (option txid)) : pend :=
  mkPend (pd_from pd) (pd_pub pd) (pd_ts pd) (pd_height pd) (pd_rest pd) (pd_hash pd) txs (pd_sh pd).

Definition pd_block (pd : pend) : block := mkBlk (pd_height pd) (pd_rest pd) 0%N (pd_txs pd).

(** result: the (mutated) pending block, buildPendBlock's return value, effects *)
Definition build (p : pool) (pd : pend) : res (pend * bool * list eff) :=
  match pd_sh pd with
  | [] => Ok (pd, true, [])
  | _ :: _ =>
      match need_from 0 (pd_txs pd) (pd_sh pd) with
      | Panic w => Panic w
      | Fatal => Fatal
      | Ok nd =>
          match fill p nd (pd_txs pd) true with
          | Panic w => Panic w
          | Fatal => Fatal
          | Ok (txs', ok) =>
              let pd' := pd_set_txs pd txs' in
              if ok then Ok (pd', true, [Post (pd_pub pd) (pd_block pd')])
              else Ok (pd', false, [])
          end
      end
  end.

(** * State of the component *)
Record state := mkSt {
  st_filter : list N;        (* blockFilter: header hashes seen *)
  st_pend : list pend;       (* pendBlockList *)
  st_reqs : list (N * Z);    (* blockRequestList *)
  st_height : Z              (* currHeight *)
}.
Definition init : state := mkSt [] [] [] 0.

(** configuration / environment: elements the OS can provide to one [make],
    LtBlockPendTimeout (ms), heights for which the local GetBlocks fails,
    disableValidation (then broadcastProtocol.val is nil: postBlockChain and
    postMempool skip the validator's feedback list; nothing in the model
    depends on the bit any more, it stays part of the recorded configuration) *)
Record config := mkCfg { c_cap : Z; c_timeout : Z; c_nochain : list Z; c_noval : bool }.

Fixpoint mem_n (x : N) (l : list N) : bool :=
  match l with [] => false | y :: tl => N.eqb x y || mem_n x tl end.
Fixpoint mem_z (x : Z) (l : list Z) : bool :=
  match l with [] => false | y :: tl => Z.eqb x y || mem_z x tl end.

(** ltBlock.GetHeader().GetTxCount(): nil-safe getters *)
Definition lt_txcount (lb : ltblock) : Z :=
  match lt_hdr lb with Some h => h_txcount h | None => 0 end.

(** * addLtBlock (raw, as called inside handleBroadcastReceive) *)
Definition add_lt (c : config) (p : pool) (now : Z) (from pub : N) (lb : ltblock) (st : state)
  : res (state * list eff) :=
  (* txCount <= 0 || txCount > len(STxHashes): dropped before anything is sized by the count *)
  if (lt_txcount lb <=? 0) || (Z.of_nat (length (lt_sh lb)) <? lt_txcount lb) then Ok (st, []) else
  match lt_hdr lb with
  | None => Panic W_NILHDR
  | Some h =>
      match go_make (c_cap c) (h_txcount h) with
      | Panic w => Panic w
      | Fatal => Fatal
      | Ok txs0 =>
          match set_nth txs0 0 (lt_miner lb) with
          | None => Panic W_MINER
          | Some txs1 =>
              let pd := mkPend from pub now (h_height h) (h_rest h) (h_hash h) txs1 (lt_sh lb) in
              match build p pd with
              | Panic w => Panic w
              | Fatal => Fatal
              | Ok (pd', true, e) => Ok (st, e)
              | Ok (pd', false, e) =>
                  Ok (mkSt (st_filter st) (st_pend st ++ [pd']) (st_reqs st) (st_height st), e)
              end
          end
      end
  end.

(** hash of a nil header is the empty string: id 0 *)
Definition lt_hash (lb : ltblock) : N :=
  match lt_hdr lb with Some h => h_hash h | None => 0%N end.

(** the light-block branch of handleBroadcastReceive, before the recover is applied *)
Definition recv_lt_raw (c : config) (p : pool) (now : Z) (from pub : N) (lb : ltblock) (st : state)
  : state * res (state * list eff) :=
  if mem_n (lt_hash lb) (st_filter st) then (st, Ok (st, []))
  else
    let st1 := mkSt (lt_hash lb :: st_filter st) (st_pend st) (st_reqs st) (st_height st) in
    (st1, add_lt c p now from pub lb st1).

(** * buildPendList and the body of pendBlockLoop *)
Fixpoint scan (p : pool) (now timeout : Z) (l : list pend)
  : res (list pend * list pend * list eff) :=
  match l with
  | [] => Ok ([], [], [])
  | pd :: tl =>
      let pend_time := Z.quot (now - pd_ts pd) 1000000 in
      match build p pd with
      | Panic w => Panic w
      | Fatal => Fatal
      | Ok (pd', built, e) =>
          match scan p now timeout tl with
          | Panic w => Panic w
          | Fatal => Fatal
          | Ok (keep, tmo, e') =>
              if built then Ok (keep, tmo, e ++ e')
              else if timeout <=? pend_time then Ok (keep, pd' :: tmo, e ++ e')
              else Ok (pd' :: keep, tmo, e ++ e')
          end
      end
  end.

Fixpoint requests (height : Z) (tmo : list pend) : list eff :=
  match tmo with
  | [] => []
  | pd :: tl =>
      if height <? pd_height pd then Req (pd_from pd) (pd_height pd) :: requests height tl
      else requests height tl
  end.

Definition tick_raw (c : config) (p : pool) (now : Z) (st : state) : res (state * list eff) :=
  match scan p now (c_timeout c) (st_pend st) with
  | Panic w => Panic w
  | Fatal => Fatal
  | Ok (keep, tmo, e) =>
      Ok (mkSt (st_filter st) keep (st_reqs st) (st_height st), e ++ requests (st_height st) tmo)
  end.

(** * Peer messages (handlePeerMsg) and the block-request list *)

(** handleBlockReq: false = keep waiting *)
Definition handle_req (c : config) (st : state) (from : N) (height : Z) : bool * list eff :=
  if st_height st <? height then (false, [])
  else if mem_z height (c_nochain c) then (true, [])
  else (true, [Resp from height]).

(** addBlockRequest *)
Definition add_req (c : config) (st : state) (from : N) (height : Z) : state * list eff :=
  if height <=? 0 then (st, [])
  else
    match handle_req c st from height with
    | (true, e) => (st, e)
    | (false, e) =>
        (mkSt (st_filter st) (st_pend st) (st_reqs st ++ [(from, height)]) (st_height st), e)
    end.

(** handleBlockReqList: one iteration of blockRequestLoop *)
Fixpoint req_scan (c : config) (st : state) (l : list (N * Z)) : list (N * Z) * list eff :=
  match l with
  | [] => ([], [])
  | (from, height) :: tl =>
      match handle_req c st from height, req_scan c st tl with
      | (true, e), (keep, e') => (keep, e ++ e')
      | (false, e), (keep, e') => ((from, height) :: keep, e ++ e')
      end
  end.

(** * Events and the step function *)
Inductive event :=
| ERecvLt (now : Z) (from pub : N) (lb : ltblock)  (* handleBroadcastReceive, light-block topic (under recover) *)
| ETick (now : Z)                                  (* one iteration of pendBlockLoop (NO recover) *)
| EPool (p : pool)                                 (* the mempool content changes *)
| EHeight (h : Z)                                  (* EventAddBlock: currHeight := h *)
| EPeerReq (from : N) (decodes : bool) (height : Z)        (* peer topic, blockReqMsgID *)
| EPeerResp (pub : N) (decodes hasmsg : bool) (blk : block) (* peer topic, blockRespMsgID *)
| EPeerOther                                               (* peer topic, unknown MsgID *)
| EReqTick.                                        (* one iteration of blockRequestLoop (NO recover) *)

(** [Crashed why]: the process is gone; why = panic site, 0 = fatal out of memory *)
Inductive sres :=
| Alive (st : state) (p : pool) (e : list eff)
| Crashed (why : N).

Definition step (c : config) (st : state) (p : pool) (ev : event) : sres :=
  match ev with
  | ERecvLt now from pub lb =>
      match recv_lt_raw c p now from pub lb st with
      | (_, Ok (st2, e)) => Alive st2 p e
      | (st1, Panic _) => Alive st1 p []      (* deferred recover in handleBroadcastReceive *)
      | (_, Fatal) => Crashed 0%N
      end
  | ETick now =>
      match tick_raw c p now st with
      | Ok (st', e) => Alive st' p e
      | Panic w => Crashed w
      | Fatal => Crashed 0%N
      end
  | EPool p' => Alive st p' []
  | EHeight h => Alive (mkSt (st_filter st) (st_pend st) (st_reqs st) h) p []
  | EPeerReq from decodes height =>
      if decodes then let (st', e) := add_req c st from height in Alive st' p e
      else Alive st p []
  | EPeerResp pub decodes hasmsg blk =>
      if decodes && hasmsg then Alive st p [Post pub blk] else Alive st p []
  | EPeerOther => Alive st p []
  | EReqTick =>
      let (keep, e) := req_scan c st (st_reqs st) in
      Alive (mkSt (st_filter st) (st_pend st) keep (st_height st)) p e
  end.

(** run a history; [None] = crashed somewhere *)
Fixpoint run (c : config) (st : state) (p : pool) (evs : list event) : option (state * pool) :=
  match evs with
  | [] => Some (st, p)
  | ev :: tl =>
      match step c st p ev with
      | Alive st' p' _ => run c st' p' tl
      | Crashed _ => None
      end
  end.
