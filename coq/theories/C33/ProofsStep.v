(** C33 — histories: receive paths are total under recover (up to the
    out-of-memory window), the pending loop can only die on a group overrun,
    and it never dies when groups fit. *)
From Coq Require Import List ZArith NArith Bool Lia.
From C33 Require Import C33.Model C33.ProofsBase C33.ProofsMain.
Import ListNotations.
Open Scope Z_scope.

(** events handled inside handleBroadcastReceive (deferred recover) *)
Definition under_recover (ev : event) : bool :=
  match ev with
  | ERecvLt _ _ _ _ | EPeerReq _ _ _ | EPeerResp _ _ _ _ | EPeerOther => true
  | _ => false
  end.

(** the light block's TxCount is not in the window where make neither panics
    nor succeeds: cap < TxCount <= 2^45 *)
Definition mem_ok (c : config) (ev : event) : bool :=
  match ev with
  | ERecvLt _ _ _ lb =>
      match lt_hdr lb with
      | Some h => negb ((c_cap c <? h_txcount h) && (h_txcount h <=? max_len))
      | None => true
      end
  | _ => true
  end.

Lemma add_lt_fatal : forall c p now from pub lb st,
  add_lt c p now from pub lb st = Fatal ->
  exists h, lt_hdr lb = Some h /\ c_cap c < h_txcount h <= max_len.
Proof.
  intros c p now from pub lb st H. unfold add_lt in H.
  destruct (lt_hdr lb) as [h|]; [|discriminate]. exists h. split; [reflexivity|].
  unfold go_make in H.
  destruct ((h_txcount h <? 0) || (max_len <? h_txcount h)) eqn:E1; [discriminate|].
  apply orb_false_iff in E1 as [_ E1]. apply Z.ltb_ge in E1.
  destruct (c_cap c <? h_txcount h) eqn:E2.
  - apply Z.ltb_lt in E2. lia.
  - destruct (set_nth _ 0 (lt_miner lb)); [|discriminate].
    match type of H with context [build p ?pd] => pose proof (build_not_fatal p pd) as NF;
      destruct (build p pd) as [[[pd' b] e0]| |] end; try discriminate; [|congruence].
    destruct b; discriminate.
Qed.

Lemma recovered_total : forall c st p ev,
  under_recover ev = true -> mem_ok c ev = true ->
  exists st' p' e, step c st p ev = Alive st' p' e.
Proof.
  intros c st p ev U M. destruct ev; simpl in *; try discriminate.
  - unfold recv_lt_raw. destruct (mem_n (lt_hash lb) (st_filter st)); [eauto|].
    match goal with |- context [add_lt ?a ?b ?c0 ?d ?e ?f ?g] => destruct (add_lt a b c0 d e f g) as [[s e0]| |] eqn:E end; eauto.
    apply add_lt_fatal in E as [h [Eh R]]. rewrite Eh in M.
    apply negb_true_iff, andb_false_iff in M as [M|M]; [apply Z.ltb_ge in M|apply Z.leb_gt in M]; lia.
  - destruct decodes; [|eauto]. destruct (add_req c st from height). eauto.
  - destruct (decodes && hasmsg); eauto.
  - eauto.
Qed.

(** * the invariant along a history *)
Lemma step_inv : forall (Q : pend -> Prop) c st p ev st' p' e,
  shape_pred Q ->
  (forall now from pub lb h pd, ev = ERecvLt now from pub lb -> lt_hdr lb = Some h ->
     pd_sh pd = lt_sh lb -> length (pd_txs pd) = Z.to_nat (h_txcount h) -> Q pd) ->
  pend_inv Q st -> step c st p ev = Alive st' p' e -> pend_inv Q st'.
Proof.
  intros Q c st p ev st' p' e SQ New I H. destruct ev; simpl in H.
  - unfold recv_lt_raw in H. destruct (mem_n (lt_hash lb) (st_filter st)).
    + inversion H; subst; exact I.
    + match type of H with context [add_lt ?a ?b ?c0 ?d ?e ?f ?g] => destruct (add_lt a b c0 d e f g) as [[s e0]| |] eqn:E end.
      * inversion H; subst. refine (add_lt_inv Q _ _ _ _ _ _ _ _ _ SQ _ _ E).
        -- intros h pd A B C. eapply New; eauto.
        -- exact I.
      * inversion H; subst. exact I.
      * discriminate.
  - unfold tick_raw in H. destruct (scan (c_noval c) p now (c_timeout c) (st_pend st)) as [[[k t] e0]| |] eqn:Es; try discriminate.
    inversion H; subst. unfold pend_inv; simpl. eapply scan_keeps; eauto.
  - inversion H; subst; exact I.
  - inversion H; subst; exact I.
  - destruct decodes; [|inversion H; subst; exact I].
    unfold add_req in H. destruct (height <=? 0); [inversion H; subst; exact I|].
    destruct (handle_req c st from height) as [[|] e0]; inversion H; subst; exact I.
  - destruct (decodes && hasmsg); inversion H; subst; exact I.
  - inversion H; subst; exact I.
  - destruct (req_scan c st (st_reqs st)). inversion H; subst; exact I.
Qed.

Definition QTrue (pd : pend) : Prop := True.
Lemma QTrue_shape : shape_pred QTrue.
Proof. intros a b _ _ _. exact I. Qed.

Lemma run_inv_true : forall c evs st p st' p',
  pend_inv QTrue st -> run c st p evs = Some (st', p') -> pend_inv QTrue st'.
Proof.
  induction evs as [|ev evs IH]; intros st p st' p' I H; simpl in H.
  - inversion H; subst; exact I.
  - destruct (step c st p ev) as [s1 p1 e1|w] eqn:E; [|discriminate].
    eapply IH; [|exact H]. eapply step_inv; [exact QTrue_shape| |exact I|exact E].
    intros; exact Logic.I.
Qed.

Lemma init_inv : forall Q, pend_inv Q init.
Proof. intros Q. constructor. Qed.

(** in every reachable state an iteration of the pending loop either completes
    or panics at the group-expansion statement or (validation disabled) on the
    nil validator *)
Lemma tick_only_group : forall c p0 evs st p now,
  run c init p0 evs = Some (st, p) ->
  tick_raw c p now st <> Fatal
  /\ (forall w, tick_raw c p now st = Panic w -> w = W_GROUP \/ (c_noval c = true /\ w = W_NILVAL)).
Proof.
  intros c p0 evs st p now H.
  pose proof (run_inv_true c evs init p0 st p (init_inv _) H) as I.
  unfold tick_raw. pose proof (scan_not_fatal (c_noval c) p now (c_timeout c) (st_pend st)) as NF.
  destruct (scan (c_noval c) p now (c_timeout c) (st_pend st)) as [[[k t] e0]| |] eqn:Es; [|split|congruence]; try discriminate.
  - split; [discriminate|]. intros w Hw; discriminate.
  - intros w0 Hw; inversion Hw; subst. eapply scan_panic_kind; [|exact Es].
    eapply Forall_impl; [|exact I]. intros a [A _]; exact A.
Qed.

(** * groups that fit *)
Fixpoint fits_b (p : pool) (shs : list N) (i : nat) (n : Z) : bool :=
  match shs with
  | [] => true
  | k :: tl =>
      (match pool_get k p with
       | Some e => Z.of_nat i + Z.of_nat (length (members e)) <=? n
       | None => true
       end) && fits_b p tl (S i) n
  end.

Definition fits (p : pool) (lb : ltblock) : bool :=
  match lt_hdr lb with
  | None => true
  | Some h => fits_b p (lt_sh lb) 0 (h_txcount h)
  end.

Lemma fits_b_spec : forall p shs i n, fits_b p shs i n = true ->
  forall j k e, nth_error shs j = Some k -> pool_get k p = Some e ->
                Z.of_nat (i + j) + Z.of_nat (length (members e)) <= n.
Proof.
  induction shs as [|s shs IH]; intros i n H j k e Hj Hp; [destruct j; discriminate|].
  simpl in H. apply andb_true_iff in H as [H1 H2]. destruct j as [|j]; simpl in Hj.
  - inversion Hj; subst. rewrite Hp in H1. apply Z.leb_le in H1. lia.
  - specialize (IH _ _ H2 j k e Hj Hp). lia.
Qed.

Lemma fits_fits_at : forall p lb h, fits p lb = true -> lt_hdr lb = Some h ->
  fits_at p (lt_sh lb) (Z.to_nat (h_txcount h)).
Proof.
  intros p lb h F Eh. unfold fits in F. rewrite Eh in F. intros i k e A B.
  pose proof (fits_b_spec _ _ _ _ F i k e A B). lia.
Qed.

Definition lts_of (evs : list event) : list ltblock :=
  flat_map (fun ev => match ev with ERecvLt _ _ _ lb => [lb] | _ => [] end) evs.
Definition pools_of (p0 : pool) (evs : list event) : list pool :=
  p0 :: flat_map (fun ev => match ev with EPool p => [p] | _ => [] end) evs.

(** every pool of the history fits every light block of the history *)
Definition fits_hist (p0 : pool) (evs : list event) : bool :=
  forallb (fun p => forallb (fits p) (lts_of evs)) (pools_of p0 evs).

Definition QFits (PS : list pool) (pd : pend) : Prop := forall p, In p PS -> pd_fits p pd.
Lemma QFits_shape : forall PS, shape_pred (QFits PS).
Proof.
  intros PS a b S L H p Hp. specialize (H p Hp). unfold pd_fits in *. rewrite S, L. exact H.
Qed.

Lemma run_fits : forall c PS evs st p,
  c_noval c = false ->
  pend_inv (QFits PS) st -> In p PS ->
  (forall p', In (EPool p') evs -> In p' PS) ->
  (forall now f pb lb q, In (ERecvLt now f pb lb) evs -> In q PS -> fits q lb = true) ->
  (forall ev, In ev evs -> mem_ok c ev = true) ->
  run c st p evs <> None.
Proof.
  induction evs as [|ev evs IH]; intros st p NV I Hp HP HL HM; simpl; [discriminate|].
  assert (exists st' p' e, step c st p ev = Alive st' p' e /\ In p' PS) as [st' [p' [e [E Hp']]]].
  { destruct ev; simpl.
    - destruct (recovered_total c st p (ERecvLt now from pub lb) eq_refl (HM _ (or_introl eq_refl)))
        as [s1 [p1 [e1 E]]]. simpl in E. exists s1, p, e1.
      destruct (recv_lt_raw c p now from pub lb st) as [sa [[sb eb]| |]]; inversion E; subst; auto.
    - unfold tick_raw. rewrite NV. destruct (scan_fits_ok p now (c_timeout c) (st_pend st)) as [k [t [e0 Es]]].
      { eapply Forall_impl; [|exact I]. intros a [A B]. split; [exact A|apply B; exact Hp]. }
      rewrite Es. eauto.
    - exists st, p0, []. split; [reflexivity|]. apply HP. left; reflexivity.
    - eauto.
    - destruct decodes; [destruct (add_req c st from height)|]; eauto.
    - destruct (decodes && hasmsg); eauto.
    - eauto.
    - destruct (req_scan c st (st_reqs st)); eauto. }
  rewrite E. apply IH; auto.
  - eapply step_inv; [apply QFits_shape| |exact I|exact E].
    intros now from pub lb h pd Eev Eh S L q Hq. subst ev.
    unfold pd_fits. rewrite S, L. apply fits_fits_at; [|exact Eh].
    eapply HL; [left; reflexivity|exact Hq].
  - intros q Hq. apply HP. right; exact Hq.
  - intros now f pb lb q A B. eapply HL; [right; exact A|exact B].
  - intros ev0 A. apply HM. right; exact A.
Qed.

Lemma in_pools_of : forall p0 evs p, In (EPool p) evs -> In p (pools_of p0 evs).
Proof.
  intros p0 evs p H. right. apply in_flat_map. exists (EPool p). split; [exact H|left; reflexivity].
Qed.

Lemma in_lts_of : forall evs now f pb lb, In (ERecvLt now f pb lb) evs -> In lb (lts_of evs).
Proof.
  intros evs now f pb lb H. apply in_flat_map. exists (ERecvLt now f pb lb). split; [exact H|left; reflexivity].
Qed.

Lemma no_crash_when_groups_fit : forall c p0 evs,
  c_noval c = false ->
  forallb (mem_ok c) evs = true -> fits_hist p0 evs = true -> run c init p0 evs <> None.
Proof.
  intros c p0 evs NV HM HF. unfold fits_hist in HF. rewrite forallb_forall in HF.
  apply (run_fits c (pools_of p0 evs)).
  - exact NV.
  - apply init_inv.
  - left; reflexivity.
  - intros p' H. apply in_pools_of; exact H.
  - intros now f pb lb q A B. specialize (HF q B). rewrite forallb_forall in HF.
    apply HF. eapply in_lts_of; eauto.
  - rewrite forallb_forall in HM. exact HM.
Qed.
