(** C33 — histories: receive paths are total under recover (given memory for a
    slice as long as the received hash list), an iteration of the pending loop
    always completes, no history ends the process. *)
From Coq Require Import List ZArith NArith Bool Lia.
From C33 Require Import C33.Model C33.ProofsBase C33.ProofsMain.
Import ListNotations.
Open Scope Z_scope.

(** events handled inside handleBroadcastReceive (deferred recover) *)
Definition under_recover (ev : event) : bool :=
  match ev with
  | ERecvLt _ _ _ _ | EPeerReq _ _ _ | EPeerResp _ _ _ _ | EPeerOther => true
  | _ => false
  end.

(** the operating system can provide a slice with one element per short hash
    of the light block the node has just decoded (addLtBlock sizes its three
    allocations with TxCount only after TxCount <= len(STxHashes) was tested) *)
Definition mem_ok (c : config) (ev : event) : bool :=
  match ev with
  | ERecvLt _ _ _ lb => Z.of_nat (length (lt_sh lb)) <=? c_cap c
  | _ => true
  end.

Lemma add_lt_fatal : forall c p now from pub lb st,
  add_lt c p now from pub lb st = Fatal ->
  c_cap c < lt_txcount lb <= Z.of_nat (length (lt_sh lb)).
Proof.
  intros c p now from pub lb st H. unfold add_lt in H.
  destruct ((lt_txcount lb <=? 0) || (Z.of_nat (length (lt_sh lb)) <? lt_txcount lb)) eqn:E0; [discriminate|].
  apply orb_false_iff in E0 as [_ E0]. apply Z.ltb_ge in E0.
  unfold lt_txcount in *.
  destruct (lt_hdr lb) as [h|]; [|discriminate].
  unfold go_make in H.
  destruct ((h_txcount h <? 0) || (max_len <? h_txcount h)) eqn:E1; [discriminate|].
  destruct (c_cap c <? h_txcount h) eqn:E2.
  - apply Z.ltb_lt in E2. lia.
  - destruct (set_nth _ 0 (lt_miner lb)); [|discriminate].
    match type of H with context [build p ?pd] => pose proof (build_not_fatal p pd) as NF;
      destruct (build p pd) as [[[pd' b] e0]| |] end; try discriminate; [|congruence].
    destruct b; discriminate.
Qed.

Lemma recovered_total : forall c st p ev,
  under_recover ev = true -> mem_ok c ev = true ->
  exists st' p' e, step c st p ev = Alive st' p' e.
Proof.
  intros c st p ev U M. destruct ev; simpl in *; try discriminate.
  - unfold recv_lt_raw. destruct (mem_n (lt_hash lb) (st_filter st)); [eauto|].
    match goal with |- context [add_lt ?a ?b ?c0 ?d ?e ?f ?g] => destruct (add_lt a b c0 d e f g) as [[s e0]| |] eqn:E end; eauto.
    apply add_lt_fatal in E. apply Z.leb_le in M. lia.
  - destruct decodes; [|eauto]. destruct (add_req c st from height). eauto.
  - destruct (decodes && hasmsg); eauto.
  - eauto.
Qed.

(** * the invariant along a history *)
Lemma step_inv : forall (Q : pend -> Prop) c st p ev st' p' e,
  shape_pred Q ->
  (forall now from pub lb h pd, ev = ERecvLt now from pub lb -> lt_hdr lb = Some h ->
     pd_sh pd = lt_sh lb -> length (pd_txs pd) = Z.to_nat (h_txcount h) -> Q pd) ->
  pend_inv Q st -> step c st p ev = Alive st' p' e -> pend_inv Q st'.
Proof.
  intros Q c st p ev st' p' e SQ New I H. destruct ev; simpl in H.
  - unfold recv_lt_raw in H. destruct (mem_n (lt_hash lb) (st_filter st)).
    + inversion H; subst; exact I.
    + match type of H with context [add_lt ?a ?b ?c0 ?d ?e ?f ?g] => destruct (add_lt a b c0 d e f g) as [[s e0]| |] eqn:E end.
      * inversion H; subst. refine (add_lt_inv Q _ _ _ _ _ _ _ _ _ SQ _ _ E).
        -- intros h pd A B C. eapply New; eauto.
        -- exact I.
      * inversion H; subst. exact I.
      * discriminate.
  - unfold tick_raw in H. destruct (scan p now (c_timeout c) (st_pend st)) as [[[k t] e0]| |] eqn:Es; try discriminate.
    inversion H; subst. unfold pend_inv; simpl. eapply scan_keeps; eauto.
  - inversion H; subst; exact I.
  - inversion H; subst; exact I.
  - destruct decodes; [|inversion H; subst; exact I].
    unfold add_req in H. destruct (height <=? 0); [inversion H; subst; exact I|].
    destruct (handle_req c st from height) as [[|] e0]; inversion H; subst; exact I.
  - destruct (decodes && hasmsg); inversion H; subst; exact I.
  - inversion H; subst; exact I.
  - destruct (req_scan c st (st_reqs st)). inversion H; subst; exact I.
Qed.

Definition QTrue (pd : pend) : Prop := True.
Lemma QTrue_shape : shape_pred QTrue.
Proof. intros a b _ _ _. exact I. Qed.

Lemma run_inv_true : forall c evs st p st' p',
  pend_inv QTrue st -> run c st p evs = Some (st', p') -> pend_inv QTrue st'.
Proof.
  induction evs as [|ev evs IH]; intros st p st' p' I H; simpl in H.
  - inversion H; subst; exact I.
  - destruct (step c st p ev) as [s1 p1 e1|w] eqn:E; [|discriminate].
    eapply IH; [|exact H]. eapply step_inv; [exact QTrue_shape| |exact I|exact E].
    intros; exact Logic.I.
Qed.

Lemma init_inv : forall Q, pend_inv Q init.
Proof. intros Q. constructor. Qed.

Lemma inv_nil_in_range : forall st, pend_inv QTrue st -> Forall nil_in_range (st_pend st).
Proof. intros st I. eapply Forall_impl; [|exact I]. intros a [A _]; exact A. Qed.

(** with the invariant an iteration of the pending loop completes *)
Lemma tick_ok_inv : forall c st p now,
  pend_inv QTrue st -> exists st' e, tick_raw c p now st = Ok (st', e).
Proof.
  intros c st p now I. unfold tick_raw.
  destruct (scan_ok p now (c_timeout c) (st_pend st) (inv_nil_in_range st I)) as [k [t [e Es]]].
  rewrite Es. eauto.
Qed.

(** in every reachable state an iteration of the pending loop completes: the
    loop body has no panic site left *)
Lemma tick_total : forall c p0 evs st p now,
  run c init p0 evs = Some (st, p) -> exists st' e, tick_raw c p now st = Ok (st', e).
Proof.
  intros c p0 evs st p now H. apply tick_ok_inv.
  exact (run_inv_true c evs init p0 st p (init_inv _) H).
Qed.

(** * no history ends the process *)
Lemma step_alive : forall c st p ev,
  pend_inv QTrue st -> mem_ok c ev = true -> exists st' p' e, step c st p ev = Alive st' p' e.
Proof.
  intros c st p ev I M. destruct ev.
  - apply recovered_total; [reflexivity|exact M].
  - simpl. destruct (tick_ok_inv c st p now I) as [st' [e E]]. rewrite E. eauto.
  - simpl. eauto.
  - simpl. eauto.
  - apply recovered_total; [reflexivity|exact M].
  - apply recovered_total; [reflexivity|exact M].
  - apply recovered_total; [reflexivity|exact M].
  - simpl. destruct (req_scan c st (st_reqs st)); eauto.
Qed.

Lemma run_alive : forall c evs st p,
  pend_inv QTrue st -> forallb (mem_ok c) evs = true -> run c st p evs <> None.
Proof.
  induction evs as [|ev evs IH]; intros st p I HM; simpl; [discriminate|].
  simpl in HM. apply andb_true_iff in HM as [M HM].
  destruct (step_alive c st p ev I M) as [st' [p' [e E]]]. rewrite E.
  apply IH; [|exact HM].
  eapply step_inv; [exact QTrue_shape| |exact I|exact E]. intros; exact Logic.I.
Qed.

Lemma no_crash : forall c p0 evs,
  forallb (mem_ok c) evs = true -> run c init p0 evs <> None.
Proof. intros c p0 evs HM. apply run_alive; [apply init_inv|exact HM]. Qed.
