(** C14 — the abstract statement: after a block's local-index updates and then its
    removal the local DB is observably what it was.  "Observably" = equal after
    [norm], which drops what no query can see: a counter key holding 0 (the code
    decrements back to an explicit 0 instead of deleting; every reader treats
    absent as 0) and the mvcc version key lists (written by AddMVCC, read only
    by the DelMVCC of the same version, never deleted).  Executable: it is the
    violation oracle of the correspondence check. *)
From Coq Require Import List NArith ZArith Bool.
From C33 Require Import Lib.Harness Lib.Bytes Lib.OMap C14.Model.
Import ListNotations.
Open Scope Z_scope.

Definition is_counter_key (k : list N) : bool := is_prefix P_count k || is_prefix P_coins k.
Definition is_zero (v : val) : bool := match v with VInt 0 => true | _ => false end.

Definition keep (e : list N * val) : bool :=
  negb (is_prefix P_mkl (fst e)) && negb (is_counter_key (fst e) && is_zero (snd e)).

Definition norm (m : db) : db := filter keep m.

(** an index entry proper: neither a counter nor a version key list *)
Definition plain (k : list N) : bool := negb (is_prefix P_mkl k) && negb (is_counter_key k).
Definition obs_eq (m1 m2 : db) : Prop := norm m1 = norm m2.

(** * hypotheses of the theorem, as boolean predicates *)

(** counter keys hold counters *)
Definition counters_wf (m : db) : bool :=
  forallb (fun e => negb (is_counter_key (fst e)) || match snd e with VInt _ => true | _ => false end) m.

(** the index entries a block adds (everything except the counters and the version key list) *)
Fixpoint tx_keys (c : cfg) (h i : Z) (txs : list tx) : list (list N) :=
  match txs with
  | [] => []
  | t :: tl =>
      let pos := heightstr h i in
      (if c_addrfee c && nonempty (t_from t) then [feedir_key (t_from t) pos] else [])
      ++ (if c_addrindex c && nonempty (t_from t) then [dir_key (t_from t) 1%N pos; addr_key (t_from t) pos] else [])
      ++ (if c_addrindex c && nonempty (t_to t) then [dir_key (t_to t) 2%N pos; addr_key (t_to t) pos] else [])
      ++ (if c_txindex c then [tx_key (t_hash t); stx_key (t_hash t)] else [])
      ++ tx_keys c h (i + 1) tl
  end.

Definition block_keys (c : cfg) (b : blk) : list (list N) :=
  tx_keys c (b_height b) 0 (b_txs b)
  ++ (if c_fee c then [total_key (b_hash b)] else [])
  ++ (if c_mvcc c then hash_key (b_state b) :: ver_key (b_height b)
                       :: map (fun kv => gkey (fst kv) (b_height b)) (b_kvs b) else []).

(** the block is new: none of its index entries exists yet (fresh transaction hashes, fresh
    positions, fresh block hash, fresh version) *)
Definition fresh (c : cfg) (m : db) (b : blk) : bool :=
  forallb (fun k => negb (mem k m)) (block_keys c b).

(** no coins transaction with a local effect failed.  Not a hypothesis of any theorem any more
    (Coins.ExecLocal now skips failed transactions like ExecDelLocal does); it only labels the
    harness streams: runs where it is false are the ones that exercise the receipt test. *)
Definition local_ok_tx (t : tx) : bool :=
  match coins_target t with None => true | Some _ => t_rty t =? ExecOk end.
Definition all_local_ok (b : blk) : bool := forallb local_ok_tx (b_txs b).

(** * decidable equality of maps (for the oracle) *)
Definition val_eqb (a b : val) : bool :=
  match a, b with
  | VTxRes h i t r bt, VTxRes h' i' t' r' bt' => (h =? h') && (i =? i') && bytes_eqb t t' && (r =? r') && (bt =? bt')
  | VOne, VOne => true
  | VInfo t h i, VInfo t' h' i' => bytes_eqb t t' && (h =? h') && (i =? i')
  | VFeeInfo t h i f r fr to ex, VFeeInfo t' h' i' f' r' fr' to' ex' =>
      bytes_eqb t t' && (h =? h') && (i =? i') && (f =? f') && (r =? r')
      && bytes_eqb fr fr' && bytes_eqb to to' && bytes_eqb ex ex'
  | VInt z, VInt z' => z =? z'
  | VTotal f c, VTotal f' c' => (f =? f') && (c =? c')
  | VRaw x, VRaw y => bytes_eqb x y
  | VKeys x, VKeys y => list_eqb bytes_eqb x y
  | VOther x, VOther y => bytes_eqb x y
  | _, _ => false
  end.

Definition entry_eqb (a b : list N * val) : bool := bytes_eqb (fst a) (fst b) && val_eqb (snd a) (snd b).
Definition db_eqb (a b : db) : bool := list_eqb entry_eqb a b.

Definition obs_eqb (m1 m2 : db) : bool := db_eqb (norm m1) (norm m2).
