(** C14 — proofs, part 1: the former refutation witness, now a positive example. *)
From Coq Require Import String List NArith ZArith Bool Lia.
From C33 Require Import Lib.Harness Lib.Bytes Lib.OMap C14.Model C14.Spec.
Import ListNotations.
Open Scope Z_scope.

Definition all_on : cfg := mkCfg true true true true true true.
Definition node_cfg : cfg := mkCfg true true true false true true.

(** the run that refuted the statement before Coins.ExecLocal looked at the receipt: one failed
    self-transfer of 5 (receipt ExecPack) on an empty local DB.  The transaction now leaves the
    receiver total alone when the block is connected, and remove after connect is observably
    the identity on it. *)
Definition w_addr : list N := bs "1Aqq"%string.
Definition w_tx : tx := mkTx (bs "hash-of-tx-0001"%string) w_addr w_addr 100000 1 (bs "coins"%string) KTransfer 5.
Definition w_blk : blk := mkBlk 1 1 (bs "B1"%string) (bs "B0"%string) [w_tx] (bs "S1"%string) None [].

Lemma failed_transfer_no_local_effect : exists kA kD,
  exec_add node_cfg [] w_blk = Some kA /\ exec_del node_cfg (write_all kA []) w_blk = Some kD /\
  all_local_ok w_blk = false /\
  get (coins_key w_addr) (write_all kA []) = None /\
  get (tx_key (t_hash w_tx)) (write_all kA []) <> None /\
  obs_eq (write_all kD (write_all kA [])) [].
Proof.
  destruct (exec_add node_cfg [] w_blk) as [kA|] eqn:EA; [|vm_compute in EA; discriminate].
  destruct (exec_del node_cfg (write_all kA []) w_blk) as [kD|] eqn:ED;
    [|vm_compute in EA; inversion EA; subst kA; vm_compute in ED; discriminate].
  exists kA, kD. split; [reflexivity|]. split; [exact ED|]. split; [vm_compute; reflexivity|].
  vm_compute in EA. inversion EA; subst kA. clear EA.
  vm_compute in ED. inversion ED; subst kD. clear ED.
  split; [vm_compute; reflexivity|]. split; [vm_compute; discriminate|].
  vm_compute. reflexivity.
Qed.
