(** C14 — proofs, part 1: the refutation witness and non-vacuity examples. *)
From Coq Require Import String List NArith ZArith Bool Lia.
From C33 Require Import Lib.Harness Lib.Bytes Lib.OMap C14.Model C14.Spec.
Import ListNotations.
Open Scope Z_scope.

Definition all_on : cfg := mkCfg true true true true true true.
Definition node_cfg : cfg := mkCfg true true true false true true.

(** the unrestricted statement *)
Definition C14_del_after_add_full : Prop :=
  forall c m b kA kD,
    sorted m -> counters_wf m = true -> fresh c m b = true ->
    exec_add c m b = Some kA -> exec_del c (write_all kA m) b = Some kD ->
    obs_eq (write_all kD (write_all kA m)) m.

(** witness: one failed self-transfer of 5 (receipt ExecPack) on an empty local DB *)
Definition w_addr : list N := bs "1Aqq"%string.
Definition w_tx : tx := mkTx (bs "hash-of-tx-0001"%string) w_addr w_addr 100000 1 (bs "coins"%string) KTransfer 5.
Definition w_blk : blk := mkBlk 1 1 (bs "B1"%string) (bs "B0"%string) [w_tx] (bs "S1"%string) None [].

Lemma del_after_add_refuted : ~ C14_del_after_add_full.
Proof.
  intro H.
  destruct (exec_add node_cfg [] w_blk) as [kA|] eqn:EA; [|vm_compute in EA; discriminate].
  destruct (exec_del node_cfg (write_all kA []) w_blk) as [kD|] eqn:ED;
    [|vm_compute in EA; inversion EA; subst kA; vm_compute in ED; discriminate].
  specialize (H node_cfg [] w_blk kA kD I eq_refl eq_refl EA ED).
  vm_compute in EA. inversion EA; subst kA. clear EA.
  vm_compute in ED. inversion ED; subst kD. clear ED.
  vm_compute in H. discriminate.
Qed.
