(** C14 — executable model of the local-index production of chain33's executor
    when a block is connected (procExecAddBlock) and removed (procExecDelBlock):
    the plugins txindex, addrindex (with the read-modify-write per-address
    counter through the executor's local cache), addrfeeindex, fee (running
    totals by block hash), mvcc (common/db/mvcc.go AddMVCC/DelMVCC), the coins
    executor's ExecLocal / ExecDelLocal (receiver totals), and the store writer
    of blockchain/blockstore.go AddTxs/DelTxs (nil value = delete).

    The local DB is an ordered byte-string map ([Lib.OMap]).  Keys are the real
    byte strings.  Values are tagged records: the protobuf encoding itself is
    not modelled, only which fields a value carries.  No proofs in this file. *)
From Coq Require Import String List NArith ZArith Bool.
From C33 Require Import Lib.Harness Lib.Bytes Lib.OMap.
Import ListNotations.
Open Scope Z_scope.

(** * values *)
Inductive val :=
| VTxRes (height index : Z) (txh : list N) (rty : Z) (btime : Z)   (* types.TxResult *)
| VOne                                                              (* "1" under STX: *)
| VInfo (txh : list N) (height index : Z)                           (* types.ReplyTxInfo *)
| VFeeInfo (txh : list N) (height index fee rty : Z) (from to exec : list N) (* types.AddrTxFeeInfo *)
| VInt (z : Z)                                                      (* types.Int64 *)
| VTotal (fee cnt : Z)                                              (* types.TotalFee *)
| VRaw (b : list N)                                                 (* raw bytes *)
| VKeys (ks : list (list N))                                        (* LocalDBSet of keys *)
| VOther (b : list N).                                              (* anything else *)

Definition db := omap val.

(** a KeyValue as returned to the store: [None] = nil value *)
Definition kvw : Type := (list N * option val)%type.

(** blockchain/blockstore.go AddTxs / DelTxs: nil value deletes, anything else is stored *)
Definition write_kv (d : db) (kv : kvw) : db :=
  match snd kv with
  | None => del (fst kv) d
  | Some v => put (fst kv) v d
  end.
Definition write_all (kvs : list kvw) (d : db) : db := fold_left write_kv kvs d.

(** * transactions and blocks (what the index code looks at) *)
Inductive tkind :=
| KNoLocal      (* executor without ExecLocal_/ExecDelLocal_ for the action: none, manage Modify *)
| KTransfer     (* coins Transfer: receiver = tx.GetRealToAddr() *)
| KToExec       (* coins TransferToExec: receiver = tx.GetRealToAddr() *)
| KWithdraw.    (* coins Withdraw: receiver = tx.From() *)

Record tx := mkTx {
  t_hash : list N;      (* tx.Hash() *)
  t_from : list N;      (* tx.From() *)
  t_to : list N;        (* tx.GetRealToAddr() *)
  t_fee : Z;
  t_rty : Z;            (* receipt.Ty: 1 = ExecPack, 2 = ExecOk *)
  t_exec : list N;      (* tx.Execer *)
  t_kind : tkind;
  t_amount : Z }.

Record blk := mkBlk {
  b_height : Z;
  b_time : Z;
  b_hash : list N;
  b_parent : list N;
  b_txs : list tx;
  b_state : list N;                               (* Block.StateHash *)
  b_prev : option (list N);                       (* BlockDetail.PrevStatusHash *)
  b_kvs : list (list N * option (list N)) }.      (* BlockDetail.KV, the state writes *)

(** which plugins are enabled (executor.New: pluginEnable) *)
Record cfg := mkCfg {
  c_addrfee : bool; c_addrindex : bool; c_fee : bool; c_mvcc : bool; c_txindex : bool;
  c_execlocal : bool }.      (* not disableExecLocal *)

Definition ExecOk : Z := 2.

(** * keys *)
Definition colon : N := 58%N.
Definition dot : N := 46%N.
Definition P_tx : list N := Eval compute in bs "TX:"%string.
Definition P_stx : list N := Eval compute in bs "STX:"%string.
Definition P_addr : list N := Eval compute in bs "TxAddrHash:"%string.
Definition P_dir : list N := Eval compute in bs "TxAddrDirHash:"%string.
Definition P_feedir : list N := Eval compute in bs "TxFeeAddrDirHash:"%string.
Definition P_count : list N := Eval compute in bs "AddrTxsCount:"%string.
Definition P_total : list N := Eval compute in bs "TotalFeeKey:"%string.
Definition P_coins : list N := Eval compute in bs "LODB-coins-Addr:"%string.
Definition P_mvcc : list N := Eval compute in bs ".-mvcc-."%string.
Definition P_meta : list N := Eval compute in bs ".-mvcc-.m."%string.
Definition P_data : list N := Eval compute in bs ".-mvcc-.d."%string.
Definition P_mver : list N := Eval compute in bs ".-mvcc-.m.version."%string.
Definition P_mkl : list N := Eval compute in bs ".-mvcc-.m.versionkl."%string.

(** [n] decimal digits, most significant first (fmt %0nd of a non-negative number below 10^n) *)
Fixpoint pad_aux (i : nat) (n : Z) : list N :=
  match i with
  | O => []
  | S j => pad_aux j (n / 10) ++ [Z.to_N (48 + n mod 10)]
  end.

Definition MaxTxsPerBlock : Z := 100000.
(** fmt.Sprintf("%018d", height*MaxTxsPerBlock+index) *)
Definition heightstr (h i : Z) : list N := pad_aux 18 (h * MaxTxsPerBlock + i).
(** mvcc pad(version): 20 digits *)
Definition pad20 (v : Z) : list N := pad_aux 20 v.

Definition tx_key (h : list N) : list N := P_tx ++ h.                       (* CalcTxKey, quickIndex on *)
Definition stx_key (h : list N) : list N := P_stx ++ firstn 8 h.            (* CalcTxShortKey *)
Definition addr_key (a pos : list N) : list N := P_addr ++ a ++ colon :: pos.          (* CalcTxAddrHashKey *)
Definition dir_key (a : list N) (flag : N) (pos : list N) : list N :=
  P_dir ++ a ++ colon :: (48 + flag)%N :: colon :: pos.                      (* CalcTxAddrDirHashKey, flag 1|2 *)
Definition feedir_key (a pos : list N) : list N :=
  P_feedir ++ a ++ colon :: 49%N :: colon :: pos.                            (* CalcTxFeeAddrDirHashKey, TxIndexFrom *)
Definition count_key (a : list N) : list N := P_count ++ a.                 (* CalcAddrTxsCountKey *)
Definition total_key (bh : list N) : list N := P_total ++ bh.               (* TotalFeeKey *)
Definition coins_key (a : list N) : list N := P_coins ++ a.                 (* coins calcAddrKey *)
Definition gkey (k : list N) (v : Z) : list N := P_data ++ k ++ dot :: pad20 v.  (* mvcc GetKey *)
Definition hash_key (h : list N) : list N := P_meta ++ h.
Definition ver_key (v : Z) : list N := P_mver ++ pad20 v.
Definition kl_key (v : Z) : list N := P_mkl ++ pad20 v.

Definition nonempty (a : list N) : bool := match a with [] => false | _ => true end.

(** * the executor's LocalDB seen through Get: the committed map with the cached
      Sets applied (a cached nil reads as not-found, like a deleted key) *)

(** getAddrTxsCount / getAddrReciver: absent or empty = 0; [None] = undecodable *)
Definition cnt (vw : db) (k : list N) : option Z :=
  match get k vw with
  | None => Some 0
  | Some (VInt z) => Some z
  | Some _ => None
  end.

(** updateAddrTxsCount / updateAddrReciver: read, add, Set in the cache, return the KV;
    on a read error nothing is set and no KV is produced *)
Definition bump (k : list N) (d : Z) (vw : db) : db * list kvw :=
  match cnt vw k with
  | None => (vw, [])
  | Some c => (put k (VInt (c + d)) vw, [(k, Some (VInt (c + d)))])
  end.

(** * plugin addrindex *)
Definition addrindex_side (add : bool) (a : list N) (flag : N) (pos : list N) (info : option val)
           (vw : db) : db * list kvw :=
  if nonempty a then
    let '(vw', c) := bump (count_key a) (if add then 1 else -1) vw in
    (vw', [(dir_key a flag pos, info); (addr_key a pos, info)] ++ c)
  else (vw, []).

Definition addrindex_tx (add : bool) (h i : Z) (t : tx) (vw : db) : db * list kvw :=
  let pos := heightstr h i in
  let info := if add then Some (VInfo (t_hash t) h i) else None in
  let '(vw1, l1) := addrindex_side add (t_from t) 1%N pos info vw in
  let '(vw2, l2) := addrindex_side add (t_to t) 2%N pos info vw1 in
  (vw2, l1 ++ l2).

Fixpoint addrindex_txs (add : bool) (h i : Z) (txs : list tx) (vw : db) : db * list kvw :=
  match txs with
  | [] => (vw, [])
  | t :: tl =>
      let '(vw1, l1) := addrindex_tx add h i t vw in
      let '(vw2, l2) := addrindex_txs add h (i + 1) tl vw1 in
      (vw2, l1 ++ l2)
  end.

(** * plugin addrfeeindex *)
Fixpoint addrfee_txs (add : bool) (h i : Z) (txs : list tx) : list kvw :=
  match txs with
  | [] => []
  | t :: tl =>
      (if nonempty (t_from t) then
         [(feedir_key (t_from t) (heightstr h i),
           if add then Some (VFeeInfo (t_hash t) h i (t_fee t) (t_rty t) (t_from t) (t_to t) (t_exec t))
           else None)]
       else []) ++ addrfee_txs add h (i + 1) tl
  end.

(** * plugin txindex (quickIndex on, no eth hash) *)
Fixpoint txindex_txs (add : bool) (h bt i : Z) (txs : list tx) : list kvw :=
  match txs with
  | [] => []
  | t :: tl =>
      [(tx_key (t_hash t), if add then Some (VTxRes h i (t_hash t) (t_rty t) bt) else None);
       (stx_key (t_hash t), if add then Some VOne else None)]
      ++ txindex_txs add h bt (i + 1) tl
  end.

(** * plugin fee *)
Definition sum_fee (txs : list tx) : Z := fold_left (fun s t => s + t_fee t) txs 0.

(** saveFee: [None] = the parent's total cannot be decoded (ExecLocal returns an error) *)
Definition fee_add (vw : db) (b : blk) : option (list kvw) :=
  let base :=
    match get (total_key (b_parent b)) vw with
    | None => Some (0, 0)
    | Some (VTotal f c) => Some (f, c)
    | Some _ => None
    end in
  match base with
  | None => None
  | Some (f, c) =>
      Some [(total_key (b_hash b), Some (VTotal (f + sum_fee (b_txs b)) (c + Z.of_nat (length (b_txs b)))))]
  end.
Definition fee_del (b : blk) : list kvw := [(total_key (b_hash b), None)].

(** * plugin mvcc (common/db/mvcc.go on the executor's LocalDB) *)
Definition get_version (vw : db) (h : list N) : option Z :=
  match get (hash_key h) vw with
  | Some (VInt z) => if z <? 0 then None else Some z
  | _ => None
  end.

Definition val_empty (v : val) : bool :=
  match v with
  | VRaw [] => true | VInt 0 => true | VKeys [] => true | VTotal 0 0 => true | VOther [] => true
  | _ => false
  end.

(** GetMaxVersion: kvdb.List(".-mvcc-.m.version.", nil, 1, DESC) then GetVersion(hash) *)
Definition get_max_version (vw : db) : option Z :=
  match last (filter (fun e => is_prefix P_mver (fst e) && negb (val_empty (snd e))) vw) with
  | Some (_, VRaw h) => get_version vw h
  | _ => None
  end.

(** AddMVCC; [None] = error (the plugin panics, the block is not connected) *)
Definition mvcc_add (vw : db) (b : blk) : option (list kvw) :=
  let v := b_height b in
  let chain_ok :=
    if 0 <? v then
      match b_prev b, get (ver_key (v - 1)) vw with
      | Some p, Some (VRaw vh) => bytes_eqb vh p
      | _, _ => false
      end
    else true in
  if chain_ok && (0 <=? v) then
    Some ([(hash_key (b_state b), Some (VInt v)); (ver_key v, Some (VRaw (b_state b)))]
          ++ map (fun kv => (gkey (fst kv) v, option_map VRaw (snd kv))) (b_kvs b)
          ++ [(kl_key v, Some (VKeys (map fst (b_kvs b))))])
  else None.

(** DelMVCC(hash, version, strict = true) *)
Definition mvcc_del (vw : db) (b : blk) : option (list kvw) :=
  let v := b_height b in
  match get (kl_key v) vw with
  | Some (VKeys ks) =>
      match get_max_version vw with
      | Some mv =>
          if mv =? v then
            match get_version vw (b_state b) with
            | Some vdb =>
                if vdb =? v then
                  Some ([(hash_key (b_state b), None); (ver_key v, None)]
                        ++ map (fun k => (gkey k v, None)) ks)
                else None
            | None => None
            end
          else None
      | None => None
      end
  | _ => None
  end.

(** * coins ExecLocal / ExecDelLocal *)
Definition coins_target (t : tx) : option (list N) :=
  match t_kind t with
  | KNoLocal => None
  | KTransfer | KToExec => Some (t_to t)
  | KWithdraw => Some (t_from t)
  end.

(** Coins.ExecLocal: its own wrapper; nothing for a failed tx (receipt other than ExecOk),
    the same test as callLocal below *)
Definition coins_local_tx (t : tx) (vw : db) : db * list kvw :=
  match coins_target t with
  | None => (vw, [])
  | Some a => if t_rty t =? ExecOk then bump (coins_key a) (t_amount t) vw else (vw, [])
  end.

(** DriverBase.ExecDelLocal -> callLocal: CheckReceiptExecOk, nothing for a failed tx *)
Definition coins_dellocal_tx (t : tx) (vw : db) : db * list kvw :=
  match coins_target t with
  | None => (vw, [])
  | Some a => if t_rty t =? ExecOk then bump (coins_key a) (- t_amount t) vw else (vw, [])
  end.

Fixpoint coins_local (txs : list tx) (vw : db) : db * list kvw :=
  match txs with
  | [] => (vw, [])
  | t :: tl =>
      let '(vw1, l1) := coins_local_tx t vw in
      let '(vw2, l2) := coins_local tl vw1 in
      (vw2, l1 ++ l2)
  end.

(** the removal loop runs from the last transaction to the first: call with [rev txs] *)
Fixpoint coins_dellocal (rtxs : list tx) (vw : db) : db * list kvw :=
  match rtxs with
  | [] => (vw, [])
  | t :: tl =>
      let '(vw1, l1) := coins_dellocal_tx t vw in
      let '(vw2, l2) := coins_dellocal tl vw1 in
      (vw2, l1 ++ l2)
  end.

(** * procExecAddBlock: plugins in sorted-name order (addrfeeindex, addrindex, fee, mvcc,
      stat, txindex), each plugin's KVs Set in the cache before the next one runs; then
      ExecLocal per transaction in block order.  [None] = error / panic. *)
Definition exec_add (c : cfg) (m : db) (b : blk) : option (list kvw) :=
  let h := b_height b in
  let l1 := if c_addrfee c then addrfee_txs true h 0 (b_txs b) else [] in
  let vw1 := write_all l1 m in
  let l2 := if c_addrindex c then snd (addrindex_txs true h 0 (b_txs b) vw1) else [] in
  let vw2 := write_all l2 vw1 in
  match (if c_fee c then fee_add vw2 b else Some []) with
  | None => None
  | Some l3 =>
      let vw3 := write_all l3 vw2 in
      match (if c_mvcc c then mvcc_add vw3 b else Some []) with
      | None => None
      | Some l4 =>
          let vw4 := write_all l4 vw3 in
          let l6 := if c_txindex c then txindex_txs true h (b_time b) 0 (b_txs b) else [] in
          let vw6 := write_all l6 vw4 in
          let l7 := if c_execlocal c then snd (coins_local (b_txs b) vw6) else [] in
          Some (l1 ++ l2 ++ l3 ++ l4 ++ l6 ++ l7)
      end
  end.

(** * procExecDelBlock: same plugin order; plugin KVs are not Set in the cache (only the
      counter updates Set themselves); ExecDelLocal per transaction in reverse order. *)
Definition exec_del (c : cfg) (m : db) (b : blk) : option (list kvw) :=
  let h := b_height b in
  let l1 := if c_addrfee c then addrfee_txs false h 0 (b_txs b) else [] in
  let '(vw2, l2) := if c_addrindex c then addrindex_txs false h 0 (b_txs b) m else (m, []) in
  let l3 := if c_fee c then fee_del b else [] in
  match (if c_mvcc c then mvcc_del vw2 b else Some []) with
  | None => None
  | Some l4 =>
      let l6 := if c_txindex c then txindex_txs false h (b_time b) 0 (b_txs b) else [] in
      let l7 := if c_execlocal c then snd (coins_dellocal (rev (b_txs b)) vw2) else [] in
      Some (l1 ++ l2 ++ l3 ++ l4 ++ l6 ++ l7)
  end.

(** connect / remove a block on the store *)
Definition connect (c : cfg) (m : db) (b : blk) : option db :=
  option_map (fun l => write_all l m) (exec_add c m b).
Definition remove (c : cfg) (m : db) (b : blk) : option db :=
  option_map (fun l => write_all l m) (exec_del c m b).

(** * the queries answered from the local DB *)
Definition entries_with (p : list N) (m : db) : list (list N * val) :=
  filter (fun e => is_prefix p (fst e)) m.

Definition q_tx (m : db) (h : list N) : option val := get (tx_key h) m.                 (* GetTx / QueryTx *)
Definition q_addr_txs (m : db) (a : list N) : list (list N * val) :=                   (* GetTxsByAddr flag 0 *)
  entries_with (P_addr ++ a ++ [colon]) m.
Definition q_addr_dir_txs (m : db) (a : list N) (flag : N) : list (list N * val) :=    (* GetTxsByAddr flag 1|2 *)
  entries_with (P_dir ++ a ++ colon :: (48 + flag)%N :: [colon]) m.
Definition q_addr_fees (m : db) (a : list N) : list (list N * val) :=                  (* GetTxsFeeByAddr *)
  entries_with (P_feedir ++ a ++ colon :: 49%N :: [colon]) m.
Definition q_count (m : db) (k : list N) : Z :=                                         (* GetAddrTxsCount / GetAddrReciver *)
  match get k m with Some (VInt z) => z | _ => 0 end.
Definition q_addr_count (m : db) (a : list N) : Z := q_count m (count_key a).
Definition q_coins_recv (m : db) (a : list N) : Z := q_count m (coins_key a).
Definition q_total_fee (m : db) (bh : list N) : option val := get (total_key bh) m.    (* TotalFeeKey:hash *)
(** every multi-version read (GetV, GetVersion, GetVersionHash, GetMaxVersion) looks only at
    entries under ".-mvcc-.d." and ".-mvcc-.m." that are not version key lists *)
Definition q_mvcc_entries (m : db) : list (list N * val) :=
  filter (fun e => is_prefix P_mvcc (fst e) && negb (is_prefix P_mkl (fst e))) m.
