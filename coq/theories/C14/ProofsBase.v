(** C14 — proofs, part 1: generic facts about KV lists applied to an ordered map,
    the normaliser, and read-modify-write counter runs. *)
From Coq Require Import String List NArith ZArith Bool Lia.
From C33 Require Import Lib.Harness Lib.Bytes Lib.OMap C14.Model C14.Spec.
Import ListNotations.
Open Scope Z_scope.

(** * write_kv / write_all *)
Lemma write_kv_sorted m kv : sorted m -> sorted (write_kv m kv).
Proof. intro S. unfold write_kv. destruct (snd kv); [apply put_sorted|apply del_sorted]; exact S. Qed.

Lemma write_all_sorted l : forall m, sorted m -> sorted (write_all l m).
Proof.
  induction l as [|kv l IH]; intros m S; simpl; [exact S|].
  apply IH, write_kv_sorted, S.
Qed.

Lemma write_all_app a b m : write_all (a ++ b) m = write_all b (write_all a m).
Proof. unfold write_all. apply fold_left_app. Qed.

Lemma get_write_kv k m kv : sorted m ->
  get k (write_kv m kv) = if beqb k (fst kv) then snd kv else get k m.
Proof.
  intro S. unfold write_kv. destruct kv as [k' [v|]]; simpl.
  - apply get_put.
  - apply get_del, S.
Qed.

Definition touches (k : list N) (l : list kvw) : bool := existsb (fun kv => beqb k (fst kv)) l.

Lemma touches_app k a b : touches k (a ++ b) = touches k a || touches k b.
Proof. unfold touches. apply existsb_app. Qed.

Lemma get_write_all_untouched k l : forall m, sorted m -> touches k l = false ->
  get k (write_all l m) = get k m.
Proof.
  induction l as [|kv l IH]; intros m S T; simpl; [reflexivity|].
  simpl in T. apply orb_false_iff in T as [T1 T2].
  rewrite IH by (auto using write_kv_sorted). rewrite get_write_kv by exact S. rewrite T1. reflexivity.
Qed.

(** every write to [k] in [l] is a delete, and there is one: the key is gone *)
Lemma get_write_all_deleted k l : forall m, sorted m -> touches k l = true ->
  (forall kv, In kv l -> fst kv = k -> snd kv = None) ->
  get k (write_all l m) = None.
Proof.
  induction l as [|kv l IH]; intros m S T H; simpl in *; [discriminate|].
  destruct (touches k l) eqn:Tl.
  - apply IH; auto using write_kv_sorted.
  - rewrite get_write_all_untouched by (auto using write_kv_sorted).
    rewrite orb_false_r in T. rewrite get_write_kv by exact S. rewrite T.
    apply H; [left; reflexivity|]. apply beqb_eq in T. auto.
Qed.

Lemma touches_In k l : touches k l = true <-> In k (map fst l).
Proof.
  unfold touches. rewrite existsb_exists. split.
  - intros [kv [I E]]. apply beqb_eq in E. subst. apply in_map, I.
  - intro I. apply in_map_iff in I as [kv [E I]]. exists kv. split; [exact I|]. apply beqb_eq. auto.
Qed.

(** keys of a list all satisfy [P]; a key outside [P] is untouched *)
Definition keys_in (P : list N -> bool) (l : list kvw) : Prop := forall kv, In kv l -> P (fst kv) = true.

Lemma keys_in_app P a b : keys_in P a -> keys_in P b -> keys_in P (a ++ b).
Proof. intros A B kv I. apply in_app_or in I as [I|I]; auto. Qed.

Lemma keys_in_nil P : keys_in P [].
Proof. intros kv []. Qed.

Lemma keys_in_untouched P l k : keys_in P l -> P k = false -> touches k l = false.
Proof.
  intros K F. destruct (touches k l) eqn:T; [|reflexivity].
  apply touches_In, in_map_iff in T as [kv [E I]]. apply K in I. congruence.
Qed.

(** * prefixes *)
Lemma is_prefix_comparable p q k :
  is_prefix p k = true -> is_prefix q k = true -> is_prefix p q = true \/ is_prefix q p = true.
Proof.
  revert q k; induction p as [|x p IH]; intros q k Hp Hq; [left; reflexivity|].
  destruct q as [|y q]; [right; reflexivity|].
  destruct k as [|z k]; simpl in *; [discriminate|].
  apply andb_true_iff in Hp as [E1 Hp], Hq as [E2 Hq].
  apply N.eqb_eq in E1, E2. subst. rewrite N.eqb_refl. simpl. eauto.
Qed.

Lemma prefix_disjoint p q k :
  is_prefix p q = false -> is_prefix q p = false -> is_prefix p k = true -> is_prefix q k = false.
Proof.
  intros A B Hp. destruct (is_prefix q k) eqn:Hq; [|reflexivity].
  destruct (is_prefix_comparable p q k Hp Hq); congruence.
Qed.

(** * the normaliser *)
Lemma get_filter (f : list N * val -> bool) k : forall m, sorted m ->
  get k (filter f m) = match get k m with Some v => if f (k, v) then Some v else None | None => None end.
Proof.
  induction m as [|[k' v'] m IH]; intro S; simpl; [reflexivity|].
  destruct S as [L S].
  destruct (beqb k k') eqn:E.
  - apply beqb_eq in E. subst k'. destruct (f (k, v')) eqn:F; simpl.
    + rewrite beqb_refl. reflexivity.
    + rewrite IH by exact S. rewrite get_lb_none by exact L. reflexivity.
  - destruct (f (k', v')); simpl; [rewrite E|]; apply IH, S.
Qed.

Lemma get_norm k m : sorted m ->
  get k (norm m) = match get k m with Some v => if keep (k, v) then Some v else None | None => None end.
Proof. apply get_filter. Qed.

Lemma norm_sorted m : sorted m -> sorted (norm m).
Proof. apply sorted_filter. Qed.

(** observational equality from a per-key statement *)
Definition same_obs (a b : option val) (k : list N) : Prop :=
  match a with Some v => if keep (k, v) then Some v else None | None => None end
  = match b with Some v => if keep (k, v) then Some v else None | None => None end.

Lemma obs_eq_by_key m1 m2 : sorted m1 -> sorted m2 ->
  (forall k, same_obs (get k m1) (get k m2) k) -> obs_eq m1 m2.
Proof.
  intros S1 S2 H. unfold obs_eq. apply sorted_ext; auto using norm_sorted.
  intro k. rewrite !get_norm by assumption. apply H.
Qed.

(** * counter runs *)
Definition cntz (vw : db) (k : list N) : Z := match get k vw with Some (VInt z) => z | _ => 0 end.

(** the key holds a counter or nothing *)
Definition ctr_ok (vw : db) (k : list N) : Prop := get k vw = None \/ exists z, get k vw = Some (VInt z).

Definition cops : Type := list (list N * Z).
Definition run_ops (o : cops) (vw : db) : db :=
  fold_left (fun vw op => fst (bump (fst op) (snd op) vw)) o vw.

Definition op_touch (k : list N) (o : cops) : bool := existsb (fun op => beqb k (fst op)) o.
Fixpoint op_sum (k : list N) (o : cops) : Z :=
  match o with
  | [] => 0
  | op :: tl => (if beqb k (fst op) then snd op else 0) + op_sum k tl
  end.

Lemma bump_ok k d vw : ctr_ok vw k ->
  bump k d vw = (put k (VInt (cntz vw k + d)) vw, [(k, Some (VInt (cntz vw k + d)))]).
Proof.
  intros [H|[z H]]; unfold bump, cnt, cntz; rewrite H; reflexivity.
Qed.

Lemma ctr_ok_put k k' z vw : ctr_ok vw k -> ctr_ok (put k' (VInt z) vw) k.
Proof.
  intro H. unfold ctr_ok. rewrite get_put. destruct (beqb k k'); [right; eauto|exact H].
Qed.

Lemma run_ops_sorted o : forall vw, sorted vw -> sorted (run_ops o vw).
Proof.
  induction o as [|[k0 d] o IH]; intros vw S; simpl; [exact S|].
  apply IH. unfold bump. destruct (cnt vw k0); simpl; [apply put_sorted|]; exact S.
Qed.

Lemma cntz_put k k0 z vw : cntz (put k0 (VInt z) vw) k = if beqb k k0 then z else cntz vw k.
Proof. unfold cntz. rewrite get_put. destruct (beqb k k0); reflexivity. Qed.

Lemma op_sum_untouched k o : op_touch k o = false -> op_sum k o = 0.
Proof.
  induction o as [|op o IH]; simpl; [reflexivity|]. intro T.
  apply orb_false_iff in T as [T1 T2]. rewrite T1, IH by exact T2. reflexivity.
Qed.

Lemma run_ops_get k o : forall vw,
  (forall op, In op o -> ctr_ok vw (fst op)) ->
  get k (run_ops o vw) =
    if op_touch k o then Some (VInt (cntz vw k + op_sum k o)) else get k vw.
Proof.
  induction o as [|[k0 d] o IH]; intros vw W; simpl; [reflexivity|].
  assert (W0 : ctr_ok vw k0) by (apply (W (k0, d)); left; reflexivity).
  rewrite (bump_ok k0 d vw W0). simpl.
  rewrite IH.
  2:{ intros op I. apply ctr_ok_put, W. right. exact I. }
  rewrite cntz_put, get_put.
  destruct (beqb k k0) eqn:E; simpl.
  - apply beqb_eq in E. subst k0.
    destruct (op_touch k o) eqn:T; apply (f_equal Some), (f_equal VInt); [lia|].
    rewrite (op_sum_untouched k o T). lia.
  - destruct (op_touch k o); [|reflexivity]. apply (f_equal Some), (f_equal VInt). lia.
Qed.

Lemma run_ops_get_other k o vw : op_touch k o = false -> get k (run_ops o vw) = get k vw.
Proof.
  revert vw; induction o as [|[k0 d] o IH]; intros vw T; simpl in *; [reflexivity|].
  apply orb_false_iff in T as [T1 T2]. rewrite IH by exact T2.
  unfold bump. destruct (cnt vw k0); simpl; [|reflexivity]. rewrite get_put, T1. reflexivity.
Qed.

Lemma run_ops_app a b vw : run_ops (a ++ b) vw = run_ops b (run_ops a vw).
Proof. unfold run_ops. apply fold_left_app. Qed.

Lemma op_sum_app k a b : op_sum k (a ++ b) = op_sum k a + op_sum k b.
Proof. induction a as [|op a IH]; simpl; [reflexivity|]. rewrite IH. lia. Qed.

Lemma op_touch_app k a b : op_touch k (a ++ b) = op_touch k a || op_touch k b.
Proof. unfold op_touch. apply existsb_app. Qed.

Lemma op_sum_rev k o : op_sum k (rev o) = op_sum k o.
Proof. induction o as [|op o IH]; simpl; [reflexivity|]. rewrite op_sum_app, IH. simpl. lia. Qed.

Lemma op_touch_rev k o : op_touch k (rev o) = op_touch k o.
Proof.
  induction o as [|op o IH]; simpl; [reflexivity|]. rewrite op_touch_app, IH. simpl.
  rewrite orb_false_r. apply orb_comm.
Qed.

Definition neg_ops (o : cops) : cops := map (fun op => (fst op, - snd op)) o.

Lemma op_sum_neg k o : op_sum k (neg_ops o) = - op_sum k o.
Proof. induction o as [|op o IH]; simpl; [reflexivity|]. rewrite IH. destruct (beqb k (fst op)); lia. Qed.

Lemma op_touch_neg k o : op_touch k (neg_ops o) = op_touch k o.
Proof. induction o as [|op o IH]; simpl; [reflexivity|]. rewrite IH. reflexivity. Qed.

Lemma op_touch_In k o : op_touch k o = true <-> In k (map fst o).
Proof.
  unfold op_touch. rewrite existsb_exists. split.
  - intros [op [I E]]. apply beqb_eq in E. subst. apply in_map, I.
  - intro I. apply in_map_iff in I as [op [E I]]. exists op. split; [exact I|]. apply beqb_eq. auto.
Qed.
