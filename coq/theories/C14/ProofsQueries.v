(** C14 — proofs, part 4: no query can tell a local DB from its normal form, hence
    observational equality restores every query answer; non-vacuity. *)
From Coq Require Import String List NArith ZArith Bool Lia.
From C33 Require Import Lib.Harness Lib.Bytes Lib.OMap C14.Model C14.Spec
     C14.ProofsBase C14.ProofsPlugins C14.ProofsMain.
Import ListNotations.
Open Scope Z_scope.

Lemma filter_filter_imp {A} (f g : A -> bool) l :
  (forall x, f x = true -> g x = true) -> filter f (filter g l) = filter f l.
Proof.
  intro H. induction l as [|x l IH]; simpl; [reflexivity|].
  destruct (g x) eqn:G; simpl.
  - rewrite IH. reflexivity.
  - destruct (f x) eqn:F; [|exact IH]. apply H in F. congruence.
Qed.

Lemma keep_plain k v : plain k = true -> keep (k, v) = true.
Proof.
  unfold plain, keep. simpl. intro P. apply andb_true_iff in P as [P1 P2].
  rewrite P1. apply negb_true_iff in P2. rewrite P2. reflexivity.
Qed.

Lemma get_norm_plain k m : sorted m -> plain k = true -> get k (norm m) = get k m.
Proof.
  intros S P. rewrite get_norm by exact S. destruct (get k m); [|reflexivity].
  rewrite keep_plain by exact P. reflexivity.
Qed.

Lemma entries_norm p m :
  (forall k, is_prefix p k = true -> plain k = true) -> entries_with p (norm m) = entries_with p m.
Proof.
  intro H. unfold entries_with, norm. apply filter_filter_imp.
  intros [k v] E. cbn [fst] in E. apply keep_plain, H, E.
Qed.

Lemma under_other p q k : other_prefix p -> is_prefix p q = true -> is_prefix q k = true -> plain k = true.
Proof.
  intros O Hq Hk. apply (other_prefix_class p k O). eapply is_prefix_trans; eassumption.
Qed.

Lemma q_count_norm m k : sorted m -> is_counter_key k = true -> is_prefix P_mkl k = false ->
  q_count (norm m) k = q_count m k.
Proof.
  intros S C K. unfold q_count. rewrite get_norm by exact S.
  destruct (get k m) as [v|]; [|reflexivity].
  unfold keep. cbn [fst snd]. rewrite K, C. cbn [negb andb].
  destruct v; try reflexivity. destruct z; reflexivity.
Qed.

(** every modelled query gives the same answer on a map and on its normal form *)
Lemma queries_invariant m : sorted m ->
  (forall h, q_tx (norm m) h = q_tx m h) /\
  (forall a, q_addr_txs (norm m) a = q_addr_txs m a) /\
  (forall a f, q_addr_dir_txs (norm m) a f = q_addr_dir_txs m a f) /\
  (forall a, q_addr_fees (norm m) a = q_addr_fees m a) /\
  (forall a, q_addr_count (norm m) a = q_addr_count m a) /\
  (forall a, q_coins_recv (norm m) a = q_coins_recv m a) /\
  (forall bh, q_total_fee (norm m) bh = q_total_fee m bh) /\
  q_mvcc_entries (norm m) = q_mvcc_entries m.
Proof.
  intro S. repeat split.
  - intro h. apply get_norm_plain; [exact S|].
    apply (other_prefix_class P_tx); [apply op_tx|apply pre_tx].
  - intro a. apply entries_norm. intros k. apply (under_other P_addr); [apply op_addr|apply is_prefix_app].
  - intros a f. apply entries_norm. intros k. apply (under_other P_dir); [apply op_dir|apply is_prefix_app].
  - intro a. apply entries_norm. intros k. apply (under_other P_feedir); [apply op_feedir|apply is_prefix_app].
  - intro a. apply q_count_norm; [exact S| |].
    + apply Qcount_counter, count_key_Q.
    + eapply prefix_disjoint; [| |apply (count_key_Q a)]; reflexivity.
  - intro a. apply q_count_norm; [exact S| |].
    + apply Qcoins_counter, coins_key_Q.
    + eapply prefix_disjoint; [| |apply (coins_key_Q a)]; reflexivity.
  - intro bh. apply get_norm_plain; [exact S|].
    apply (other_prefix_class P_total); [apply op_total|apply pre_total].
  - unfold q_mvcc_entries, norm. apply filter_filter_imp. intros [k v] E. cbn [fst] in E.
    apply andb_true_iff in E as [E1 E2]. apply keep_plain. unfold plain.
    rewrite E2. cbn [andb]. destruct (Qmvcc_class k E1) as [X Y].
    unfold is_counter_key. unfold Qcount, Qcoins in *. rewrite X, Y. reflexivity.
Qed.

(** hence observationally equal maps answer every query alike *)
Lemma obs_eq_queries m1 m2 : sorted m1 -> sorted m2 -> obs_eq m1 m2 ->
  (forall h, q_tx m1 h = q_tx m2 h) /\
  (forall a, q_addr_txs m1 a = q_addr_txs m2 a) /\
  (forall a f, q_addr_dir_txs m1 a f = q_addr_dir_txs m2 a f) /\
  (forall a, q_addr_fees m1 a = q_addr_fees m2 a) /\
  (forall a, q_addr_count m1 a = q_addr_count m2 a) /\
  (forall a, q_coins_recv m1 a = q_coins_recv m2 a) /\
  (forall bh, q_total_fee m1 bh = q_total_fee m2 bh) /\
  q_mvcc_entries m1 = q_mvcc_entries m2.
Proof.
  intros S1 S2 E. unfold obs_eq in E.
  destruct (queries_invariant m1 S1) as [A1 [A2 [A3 [A4 [A5 [A6 [A7 A8]]]]]]].
  destruct (queries_invariant m2 S2) as [B1 [B2 [B3 [B4 [B5 [B6 [B7 B8]]]]]]].
  repeat split; intros.
  - rewrite <- A1, <- B1, E. reflexivity.
  - rewrite <- A2, <- B2, E. reflexivity.
  - rewrite <- A3, <- B3, E. reflexivity.
  - rewrite <- A4, <- B4, E. reflexivity.
  - rewrite <- A5, <- B5, E. reflexivity.
  - rewrite <- A6, <- B6, E. reflexivity.
  - rewrite <- A7, <- B7, E. reflexivity.
  - rewrite <- A8, <- B8, E. reflexivity.
Qed.

Lemma del_after_add_queries c m b kA kD :
  sorted m -> counters_wf m = true -> fresh c m b = true ->
  exec_add c m b = Some kA -> exec_del c (write_all kA m) b = Some kD ->
  let m2 := write_all kD (write_all kA m) in
  (forall h, q_tx m2 h = q_tx m h) /\
  (forall a, q_addr_txs m2 a = q_addr_txs m a) /\
  (forall a f, q_addr_dir_txs m2 a f = q_addr_dir_txs m a f) /\
  (forall a, q_addr_fees m2 a = q_addr_fees m a) /\
  (forall a, q_addr_count m2 a = q_addr_count m a) /\
  (forall a, q_coins_recv m2 a = q_coins_recv m a) /\
  (forall bh, q_total_fee m2 bh = q_total_fee m bh) /\
  q_mvcc_entries m2 = q_mvcc_entries m.
Proof.
  intros S W F EA ED m2. apply obs_eq_queries.
  - apply write_all_sorted, write_all_sorted, S.
  - exact S.
  - eapply del_after_add_obs_id; eassumption.
Qed.

(** exactly, not only up to [norm]: every index entry proper is restored, and so is every
    address counter (the latter even when the block's index entries are not new) *)
Lemma index_entries_exact c m b kA kD :
  sorted m -> fresh c m b = true ->
  exec_add c m b = Some kA -> exec_del c (write_all kA m) b = Some kD ->
  forall k, plain k = true -> get k (write_all kD (write_all kA m)) = get k m.
Proof. apply plain_restore. Qed.

Lemma addr_counts_restored c m b kA kD :
  sorted m -> counters_wf m = true ->
  exec_add c m b = Some kA -> exec_del c (write_all kA m) b = Some kD ->
  forall a, q_addr_count (write_all kD (write_all kA m)) a = q_addr_count m a.
Proof.
  intros S W EA ED a. apply (count_restore c m b kA kD S W EA ED). apply count_key_Q.
Qed.

(** without the mvcc plugin the removal never fails *)
Lemma del_total_without_mvcc c m b : c_mvcc c = false -> exists kD, exec_del c m b = Some kD.
Proof.
  intro E. unfold exec_del. rewrite E.
  destruct (if c_addrindex c then addrindex_txs false (b_height b) 0 (b_txs b) m else (m, [])).
  eauto.
Qed.

(** * non-vacuity: every plugin on, a block at height 1 on top of a non-empty local DB with a
      transfer between two addresses that already have counters, a transaction without local
      effect, a failed transfer (receipt ExecPack), and state writes *)
Definition ex_cfg : cfg := mkCfg true true true true true true.
Definition ex_S0 : list N := bs "state-hash-0"%string.
Definition ex_S1 : list N := bs "state-hash-1"%string.
Definition ex_A : list N := bs "1AddrA"%string.
Definition ex_B : list N := bs "1AddrB"%string.
Definition ex_m : db :=
  write_all [(count_key ex_A, Some (VInt 3)); (coins_key ex_B, Some (VInt 40));
             (hash_key ex_S0, Some (VInt 0)); (ver_key 0, Some (VRaw ex_S0));
             (total_key (bs "B0"%string), Some (VTotal 0 1));
             (kl_key 0, Some (VKeys []))] [].
Definition ex_b : blk :=
  mkBlk 1 100 (bs "B1"%string) (bs "B0"%string)
        [mkTx (bs "txhash-000001"%string) ex_A ex_B 100000 2 (bs "coins"%string) KTransfer 7;
         mkTx (bs "txhash-000002"%string) ex_B ex_B 100000 2 (bs "none"%string) KNoLocal 0;
         mkTx (bs "txhash-000003"%string) ex_B ex_A 100000 1 (bs "coins"%string) KTransfer 9]
        ex_S1 (Some ex_S0) [(bs "mavl-coins-bty-A"%string, Some (bs "acc"%string)); (bs "k2"%string, None)].

Lemma main_hyps_satisfiable : exists kA kD,
  sorted ex_m /\ counters_wf ex_m = true /\ fresh ex_cfg ex_m ex_b = true /\
  exec_add ex_cfg ex_m ex_b = Some kA /\ exec_del ex_cfg (write_all kA ex_m) ex_b = Some kD /\
  all_local_ok ex_b = false /\ (length kA > 10)%nat /\ write_all kA ex_m <> ex_m /\
  write_all kD (write_all kA ex_m) <> ex_m.
Proof.
  destruct (exec_add ex_cfg ex_m ex_b) as [kA|] eqn:EA; [|vm_compute in EA; discriminate].
  destruct (exec_del ex_cfg (write_all kA ex_m) ex_b) as [kD|] eqn:ED;
    [|vm_compute in EA; inversion EA; subst kA; vm_compute in ED; discriminate].
  exists kA, kD.
  split; [apply sortedb_iff; vm_compute; reflexivity|].
  split; [vm_compute; reflexivity|]. split; [vm_compute; reflexivity|].
  split; [reflexivity|]. split; [exact ED|]. split; [vm_compute; reflexivity|].
  vm_compute in EA. inversion EA; subst kA. clear EA.
  vm_compute in ED. inversion ED; subst kD. clear ED.
  split; [vm_compute; lia|]. split; vm_compute; discriminate.
Qed.
