(** C14 — property theorems only. *)
From Coq Require Import List NArith ZArith Bool.
From C33 Require Import Lib.Bytes Lib.OMap C14.Model C14.Spec C14.Proofs C14.ProofsMain C14.ProofsQueries.
Import ListNotations.
Open Scope Z_scope.

(** Removing a block right after connecting it restores the local DB up to what no query can
    see (counter keys left at an explicit 0, mvcc version key lists) — for every plugin
    configuration, every sorted local DB whose counter keys hold counters, every block whose
    index entries are new, whatever the receipts of its transactions are. *)
Theorem C14_del_after_add_obs_id : forall c m b kA kD,
  sorted m -> counters_wf m = true -> fresh c m b = true ->
  exec_add c m b = Some kA -> exec_del c (write_all kA m) b = Some kD ->
  obs_eq (write_all kD (write_all kA m)) m.
Proof. exact del_after_add_obs_id. Qed.
Print Assumptions C14_del_after_add_obs_id.

(** The run that used to refute it (a failed coins self-transfer, receipt ExecPack): the block's
    index entries are written, the receiver total is not touched, and removal restores the
    local DB. *)
Theorem C14_failed_transfer_no_local_effect : exists kA kD,
  exec_add node_cfg [] w_blk = Some kA /\ exec_del node_cfg (write_all kA []) w_blk = Some kD /\
  all_local_ok w_blk = false /\
  get (coins_key w_addr) (write_all kA []) = None /\
  get (tx_key (t_hash w_tx)) (write_all kA []) <> None /\
  obs_eq (write_all kD (write_all kA [])) [].
Proof. exact failed_transfer_no_local_effect. Qed.
Print Assumptions C14_failed_transfer_no_local_effect.

(** No modelled query (tx by hash, per-address lists, fee lists, per-address count, coins receiver
    total, fee total by block hash, the entries every multi-version read looks at) distinguishes a
    local DB from its normal form. *)
Theorem C14_queries_invariant : forall m, sorted m ->
  (forall h, q_tx (norm m) h = q_tx m h) /\
  (forall a, q_addr_txs (norm m) a = q_addr_txs m a) /\
  (forall a f, q_addr_dir_txs (norm m) a f = q_addr_dir_txs m a f) /\
  (forall a, q_addr_fees (norm m) a = q_addr_fees m a) /\
  (forall a, q_addr_count (norm m) a = q_addr_count m a) /\
  (forall a, q_coins_recv (norm m) a = q_coins_recv m a) /\
  (forall bh, q_total_fee (norm m) bh = q_total_fee m bh) /\
  q_mvcc_entries (norm m) = q_mvcc_entries m.
Proof. exact queries_invariant. Qed.
Print Assumptions C14_queries_invariant.

(** Hence every query answer is restored. *)
Theorem C14_del_after_add_queries : forall c m b kA kD,
  sorted m -> counters_wf m = true -> fresh c m b = true ->
  exec_add c m b = Some kA -> exec_del c (write_all kA m) b = Some kD ->
  let m2 := write_all kD (write_all kA m) in
  (forall h, q_tx m2 h = q_tx m h) /\
  (forall a, q_addr_txs m2 a = q_addr_txs m a) /\
  (forall a f, q_addr_dir_txs m2 a f = q_addr_dir_txs m a f) /\
  (forall a, q_addr_fees m2 a = q_addr_fees m a) /\
  (forall a, q_addr_count m2 a = q_addr_count m a) /\
  (forall a, q_coins_recv m2 a = q_coins_recv m a) /\
  (forall bh, q_total_fee m2 bh = q_total_fee m bh) /\
  q_mvcc_entries m2 = q_mvcc_entries m.
Proof. exact del_after_add_queries. Qed.
Print Assumptions C14_del_after_add_queries.

(** Exactly, not only up to the normal form: every index entry proper (transaction by hash and
    short hash, address lists, fee lists, fee totals, multi-version data and version entries) is
    restored, and so is every per-address transaction count. *)
Theorem C14_index_entries_exact : forall c m b kA kD,
  sorted m -> fresh c m b = true ->
  exec_add c m b = Some kA -> exec_del c (write_all kA m) b = Some kD ->
  forall k, plain k = true -> get k (write_all kD (write_all kA m)) = get k m.
Proof. exact index_entries_exact. Qed.
Print Assumptions C14_index_entries_exact.

Theorem C14_addr_counts_restored : forall c m b kA kD,
  sorted m -> counters_wf m = true ->
  exec_add c m b = Some kA -> exec_del c (write_all kA m) b = Some kD ->
  forall a, q_addr_count (write_all kD (write_all kA m)) a = q_addr_count m a.
Proof. exact addr_counts_restored. Qed.
Print Assumptions C14_addr_counts_restored.

(** The hypotheses are satisfiable by a non-trivial state: every plugin on (mvcc included), a
    block at height 1 with a transfer, a transaction without local effect, a failed transfer
    (so [all_local_ok] is false) and state writes, on a
    local DB that already has counters, totals and version 0; the intermediate and the final map
    differ from the initial one (explicit counters / key list stay). *)
Theorem C14_hyps_satisfiable : exists kA kD,
  sorted ex_m /\ counters_wf ex_m = true /\ fresh ex_cfg ex_m ex_b = true /\
  exec_add ex_cfg ex_m ex_b = Some kA /\ exec_del ex_cfg (write_all kA ex_m) ex_b = Some kD /\
  all_local_ok ex_b = false /\ (length kA > 10)%nat /\ write_all kA ex_m <> ex_m /\
  write_all kD (write_all kA ex_m) <> ex_m.
Proof. exact main_hyps_satisfiable. Qed.
Print Assumptions C14_hyps_satisfiable.

(** Without the mvcc plugin the removal list is always produced (exec_del cannot fail). *)
Theorem C14_del_total_without_mvcc : forall c m b,
  c_mvcc c = false -> exists kD, exec_del c m b = Some kD.
Proof. exact del_total_without_mvcc. Qed.
Print Assumptions C14_del_total_without_mvcc.
