(** C14 — correspondence cases: blocks connected on a node (or AddMVCC/DelMVCC driven
    directly) and then removed, with full dumps of the local-index key ranges
    and the answers of the queries before and after.  Byte strings are given
    once in a per-case table and referenced by index. *)
From Coq Require Import List NArith ZArith Bool.
From C33 Require Import Lib.Harness Lib.Bytes Lib.OMap C14.Spec.
From C33 Require Export C14.Model.
Import ListNotations.
Open Scope Z_scope.

(** table entries: a leaf byte string, or the concatenation of earlier entries *)
Inductive tent := L (b : list N) | C (ps : list Z).

Inductive cval :=
| CTxRes (h i : Z) (t : Z) (rty bt : Z)
| COne
| CInfo (t : Z) (h i : Z)
| CFeeInfo (t : Z) (h i fee rty : Z) (from to exec : Z)
| CInt (z : Z)
| CTotal (f c : Z)
| CRaw (b : Z)
| CKeys (ks : list Z)
| COther (b : Z).

Inductive ctx := CTx (hash from to : Z) (fee rty : Z) (exec : Z) (kind : Z) (amount : Z).
Inductive cblk := CBlk (height time : Z) (hash parent : Z) (txs : list ctx) (state : Z)
                       (prev : option Z) (kvs : list (Z * option Z)).

(** answers for one address: count, receiver total, tx lists for flag 0/1/2 (ascending:
    tx, height, index), fee list (tx, height, index, fee) *)
Inductive caddr := CAddr (a : Z) (count recv : Z) (l0 l1 l2 : list (Z * Z * Z)) (lf : list (Z * Z * Z * Z)).

Record cquery := mkQ {
  q_addrs : list caddr;
  q_txs : list (Z * option (Z * Z));          (* tx hash -> (height, index) if found *)
  q_totals : list (Z * option (Z * Z)) }.     (* block hash -> (fee, count) *)

Inductive case :=
| CRun (tbl : list tent) (cf : cfg)
       (d0 : list (Z * cval))                  (* dump before *)
       (blocks : list cblk)                    (* connected in this order *)
       (dumps : list (list (Z * option cval))) (* dump after each connect, as the changes to the previous dump *)
       (dend : list (Z * option cval))         (* dump after all of them were removed (last first), as the changes to [d0] *)
       (q0 qend : cquery)                      (* query answers before / after *)
       (guarded : bool).                       (* harness' stream label: no failed coins tx with a local effect (checked here) *)

Fixpoint list_eqb2 {A B} (eqb : A -> B -> bool) (a : list A) (b : list B) : bool :=
  match a, b with
  | [], [] => true
  | x :: a', y :: b' => eqb x y && list_eqb2 eqb a' b'
  | _, _ => false
  end.

Section Resolve.
Variable tbl : list (list N).
Definition tb (i : Z) : list N := nth (Z.to_nat i) tbl [].

Definition rval (v : cval) : val :=
  match v with
  | CTxRes h i t r bt => VTxRes h i (tb t) r bt
  | COne => VOne
  | CInfo t h i => VInfo (tb t) h i
  | CFeeInfo t h i f r fr to ex => VFeeInfo (tb t) h i f r (tb fr) (tb to) (tb ex)
  | CInt z => VInt z
  | CTotal f c => VTotal f c
  | CRaw b => VRaw (tb b)
  | CKeys ks => VKeys (map tb ks)
  | COther b => VOther (tb b)
  end.

Definition rdump (d : list (Z * cval)) : db := map (fun e => (tb (fst e), rval (snd e))) d.

(** a dump given as the entries that changed (Some = new value, None = gone) *)
Definition patch (m : db) (d : list (Z * option cval)) : db :=
  fold_left (fun m e => match snd e with
                        | Some v => put (tb (fst e)) (rval v) m
                        | None => del (tb (fst e)) m
                        end) d m.

Definition rkind (k : Z) : tkind :=
  match k with 1 => KTransfer | 2 => KToExec | 3 => KWithdraw | _ => KNoLocal end.

Definition rtx (t : ctx) : tx :=
  match t with
  | CTx h f to fee rty ex k am => mkTx (tb h) (tb f) (tb to) fee rty (tb ex) (rkind k) am
  end.

Definition rblk (b : cblk) : blk :=
  match b with
  | CBlk h t bh ph txs st prev kvs =>
      mkBlk h t (tb bh) (tb ph) (map rtx txs) (tb st) (option_map tb prev)
            (map (fun kv => (tb (fst kv), option_map tb (snd kv))) kvs)
  end.

(** * the model's answers on a dump, in the shape of the harness' answers *)
Definition info3 (e : list N * val) : option (list N * Z * Z) :=
  match snd e with VInfo t h i => Some (t, h, i) | _ => None end.
Definition fee4 (e : list N * val) : option (list N * Z * Z * Z) :=
  match snd e with VFeeInfo t h i f _ _ _ _ => Some (t, h, i, f) | _ => None end.

Definition t3_eqb (x : option (list N * Z * Z)) (y : Z * Z * Z) : bool :=
  match x, y with Some (t, h, i), (t', h', i') => bytes_eqb t (tb t') && (h =? h') && (i =? i') | None, _ => false end.
Definition t4_eqb (x : option (list N * Z * Z * Z)) (y : Z * Z * Z * Z) : bool :=
  match x, y with
  | Some (t, h, i, f), (t', h', i', f') => bytes_eqb t (tb t') && (h =? h') && (i =? i') && (f =? f')
  | None, _ => false
  end.

Definition addr_ok (m : db) (q : caddr) : bool :=
  match q with
  | CAddr a count recv l0 l1 l2 lf =>
      (q_addr_count m (tb a) =? count) && (q_coins_recv m (tb a) =? recv)
      && list_eqb2 t3_eqb (map info3 (q_addr_txs m (tb a))) l0
      && list_eqb2 t3_eqb (map info3 (q_addr_dir_txs m (tb a) 1%N)) l1
      && list_eqb2 t3_eqb (map info3 (q_addr_dir_txs m (tb a) 2%N)) l2
      && list_eqb2 t4_eqb (map fee4 (q_addr_fees m (tb a))) lf
  end.

Definition zz_eqb (a b : option (Z * Z)) : bool :=
  option_eqb (fun x y => (fst x =? fst y) && (snd x =? snd y)) a b.

Definition tx_ok (m : db) (q : Z * option (Z * Z)) : bool :=
  zz_eqb (match q_tx m (tb (fst q)) with Some (VTxRes h i _ _ _) => Some (h, i) | _ => None end) (snd q).
Definition total_ok (m : db) (q : Z * option (Z * Z)) : bool :=
  zz_eqb (match q_total_fee m (tb (fst q)) with Some (VTotal f c) => Some (f, c) | _ => None end) (snd q).

Definition queries_ok (m : db) (q : cquery) : bool :=
  forallb (addr_ok m) (q_addrs q) && forallb (tx_ok m) (q_txs q) && forallb (total_ok m) (q_totals q).

(** * equality of two answer sets (spec side: only the implementation's answers) *)
Definition l3_eqb := list_eqb (fun x y : Z * Z * Z => Z.eqb (fst (fst x)) (fst (fst y)) && (snd (fst x) =? snd (fst y)) && (snd x =? snd y)).
Definition l4_eqb := list_eqb (fun x y : Z * Z * Z * Z =>
  Z.eqb (fst (fst (fst x))) (fst (fst (fst y))) && (snd (fst (fst x)) =? snd (fst (fst y)))
  && (snd (fst x) =? snd (fst y)) && (snd x =? snd y)).
Definition caddr_eqb (x y : caddr) : bool :=
  match x, y with
  | CAddr a c r l0 l1 l2 lf, CAddr a' c' r' l0' l1' l2' lf' =>
      Z.eqb a a' && (c =? c') && (r =? r') && l3_eqb l0 l0' && l3_eqb l1 l1' && l3_eqb l2 l2' && l4_eqb lf lf'
  end.
Definition nzz_eqb (x y : Z * option (Z * Z)) : bool := Z.eqb (fst x) (fst y) && zz_eqb (snd x) (snd y).
Definition cquery_eqb (x y : cquery) : bool :=
  list_eqb caddr_eqb (q_addrs x) (q_addrs y)
  && list_eqb nzz_eqb (q_txs x) (q_txs y) && list_eqb nzz_eqb (q_totals x) (q_totals y).
End Resolve.

Definition resolve (t : list tent) : list (list N) :=
  fold_left (fun acc e => acc ++ [match e with
                                  | L b => b
                                  | C ps => concat (map (fun i => nth (Z.to_nat i) acc []) ps)
                                  end]) t [].

Fixpoint patches (T : list (list N)) (m : db) (ds : list (list (Z * option cval))) : list db :=
  match ds with
  | [] => []
  | d :: tl => let m' := patch T m d in m' :: patches T m' tl
  end.

(** * folding the model over the run *)
Fixpoint connect_all (cf : cfg) (m : db) (bs : list blk) (dumps : list db) : option db :=
  match bs, dumps with
  | [], [] => Some m
  | b :: bs', d :: dumps' =>
      match connect cf m b with
      | Some m' => if db_eqb m' d then connect_all cf m' bs' dumps' else None
      | None => None
      end
  | _, _ => None
  end.

Fixpoint remove_all (cf : cfg) (m : db) (rbs : list blk) : option db :=
  match rbs with
  | [] => Some m
  | b :: tl => match remove cf m b with Some m' => remove_all cf m' tl | None => None end
  end.

Definition check_case (c : case) : verdict :=
  match c with
  | CRun tbl cf d0 blocks dumps dend q0 qend guarded =>
      let T := resolve tbl in
      let m0 := rdump T d0 in
      let bs := map (rblk T) blocks in
      let mend := patch T m0 dend in
      let ds := patches T m0 dumps in
      let sorted_ok := sortedb m0 in
      let model :=
        match connect_all cf m0 bs ds with
        | Some m1 => match remove_all cf m1 (rev bs) with Some m2 => db_eqb m2 mend | None => false end
        | None => false
        end in
      let qmodel := queries_ok T m0 q0 && queries_ok T mend qend in
      let guard := forallb all_local_ok bs in
      let spec := obs_eqb mend m0 && cquery_eqb q0 qend in
      let m_ok := sorted_ok && model && qmodel && Bool.eqb guard guarded in
      mk_verdict m_ok spec
  end.
