(** C14 — proofs, part 2: what each plugin's KV list touches, that its removal list
    deletes exactly the index entries its add list wrote, and that the counter KVs
    follow the executor's cached view. *)
From Coq Require Import String List NArith ZArith Bool Lia.
From C33 Require Import Lib.Harness Lib.Bytes Lib.OMap C14.Model C14.Spec C14.ProofsBase.
Import ListNotations.
Open Scope Z_scope.

(** * key classes *)
Definition Qcount (k : list N) : bool := is_prefix P_count k.
Definition Qcoins (k : list N) : bool := is_prefix P_coins k.

Lemma count_key_Q a : Qcount (count_key a) = true.
Proof. apply is_prefix_app. Qed.
Lemma coins_key_Q a : Qcoins (coins_key a) = true.
Proof. apply is_prefix_app. Qed.

Lemma Qcount_not_coins k : Qcount k = true -> Qcoins k = false.
Proof. apply prefix_disjoint; reflexivity. Qed.
Lemma Qcoins_not_count k : Qcoins k = true -> Qcount k = false.
Proof. apply prefix_disjoint; reflexivity. Qed.
Lemma Qcount_not_plain k : Qcount k = true -> plain k = false.
Proof. intro H. unfold plain, is_counter_key. fold (Qcount k). rewrite H. apply andb_false_r. Qed.
Lemma Qcoins_not_plain k : Qcoins k = true -> plain k = false.
Proof. intro H. unfold plain, is_counter_key. fold (Qcoins k). rewrite H, orb_true_r. apply andb_false_r. Qed.

(** a key under prefix [p] where [p] is incomparable with the counter and key-list prefixes *)
Definition other_prefix (p : list N) : Prop :=
  (is_prefix p P_count = false /\ is_prefix P_count p = false) /\
  (is_prefix p P_coins = false /\ is_prefix P_coins p = false) /\
  (is_prefix p P_mkl = false /\ is_prefix P_mkl p = false).

Lemma other_prefix_class p k : other_prefix p -> is_prefix p k = true ->
  Qcount k = false /\ Qcoins k = false /\ plain k = true.
Proof.
  intros [[A1 A2] [[B1 B2] [C1 C2]]] H.
  assert (E1 : is_prefix P_count k = false) by (eapply prefix_disjoint; eauto).
  assert (E2 : is_prefix P_coins k = false) by (eapply prefix_disjoint; eauto).
  assert (E3 : is_prefix P_mkl k = false) by (eapply prefix_disjoint; eauto).
  unfold Qcount, Qcoins, plain, is_counter_key. rewrite E1, E2, E3. auto.
Qed.

Lemma op_feedir : other_prefix P_feedir. Proof. repeat split; reflexivity. Qed.
Lemma op_dir : other_prefix P_dir. Proof. repeat split; reflexivity. Qed.
Lemma op_addr : other_prefix P_addr. Proof. repeat split; reflexivity. Qed.
Lemma op_tx : other_prefix P_tx. Proof. repeat split; reflexivity. Qed.
Lemma op_stx : other_prefix P_stx. Proof. repeat split; reflexivity. Qed.
Lemma op_total : other_prefix P_total. Proof. repeat split; reflexivity. Qed.
Lemma op_data : other_prefix P_data. Proof. repeat split; reflexivity. Qed.
Lemma op_mver : other_prefix P_mver. Proof. repeat split; reflexivity. Qed.

Lemma pre_feedir a pos : is_prefix P_feedir (feedir_key a pos) = true. Proof. apply is_prefix_app. Qed.
Lemma pre_dir a f pos : is_prefix P_dir (dir_key a f pos) = true. Proof. apply is_prefix_app. Qed.
Lemma pre_addr a pos : is_prefix P_addr (addr_key a pos) = true. Proof. apply is_prefix_app. Qed.
Lemma pre_tx h : is_prefix P_tx (tx_key h) = true. Proof. apply is_prefix_app. Qed.
Lemma pre_stx h : is_prefix P_stx (stx_key h) = true. Proof. apply is_prefix_app. Qed.
Lemma pre_total h : is_prefix P_total (total_key h) = true. Proof. apply is_prefix_app. Qed.
Lemma pre_data k v : is_prefix P_data (gkey k v) = true. Proof. apply is_prefix_app. Qed.
Lemma pre_mver v : is_prefix P_mver (ver_key v) = true. Proof. apply is_prefix_app. Qed.

(** the keys of a list are neither counters nor key lists *)
Definition others (l : list kvw) : Prop :=
  forall kv, In kv l -> Qcount (fst kv) = false /\ Qcoins (fst kv) = false /\ plain (fst kv) = true.

Lemma others_app a b : others a -> others b -> others (a ++ b).
Proof. intros A B kv I. apply in_app_or in I as [I|I]; auto. Qed.
Lemma others_nil : others []. Proof. intros kv []. Qed.

Lemma others_untouched l k : others l -> plain k = false -> touches k l = false.
Proof.
  intros O F. destruct (touches k l) eqn:T; [|reflexivity].
  apply touches_In, in_map_iff in T as [kv [E I]]. apply O in I as [_ [_ P]]. congruence.
Qed.

(** * F1 / F2: the shape of removal lists on index entries *)
Section Shape.
Variable c : cfg.
Variable b : blk.

Definition F1 (l : list kvw) : Prop :=
  forall kv, In kv l -> plain (fst kv) = true -> snd kv = None /\ In (fst kv) (block_keys c b).
Definition F2 (lA lD : list kvw) : Prop :=
  forall kv, In kv lA -> plain (fst kv) = true -> In (fst kv) (map fst lD).

Lemma F1_app a d : F1 a -> F1 d -> F1 (a ++ d).
Proof. intros A D kv I. apply in_app_or in I as [I|I]; auto. Qed.
Lemma F1_nil : F1 []. Proof. intros kv []. Qed.
Lemma F2_app a a' d d' : F2 a d -> F2 a' d' -> F2 (a ++ a') (d ++ d').
Proof.
  intros X Y kv I P. rewrite map_app. apply in_or_app.
  apply in_app_or in I as [I|I]; [left; apply X|right; apply Y]; auto.
Qed.
Lemma F2_nil d : F2 [] d. Proof. intros kv []. Qed.
End Shape.

(** * addrfeeindex *)
Lemma addrfee_others add h txs : forall i, others (addrfee_txs add h i txs).
Proof.
  induction txs as [|t txs IH]; intro i; simpl; [apply others_nil|].
  apply others_app; [|apply IH].
  destruct (nonempty (t_from t)); [|apply others_nil].
  intros kv [<-|[]]. simpl. apply (other_prefix_class P_feedir); [apply op_feedir|apply pre_feedir].
Qed.

Lemma in_tx_keys_tail c h i t txs k : In k (tx_keys c h (i + 1) txs) -> In k (tx_keys c h i (t :: txs)).
Proof. intro H. simpl. repeat (apply in_or_app; right). exact H. Qed.

Lemma addrfee_del_shape c h txs : c_addrfee c = true -> forall i kv,
  In kv (addrfee_txs false h i txs) -> snd kv = None /\ In (fst kv) (tx_keys c h i txs).
Proof.
  intro E. induction txs as [|t txs IH]; intros i kv I; simpl in I; [destruct I|].
  apply in_app_or in I as [I|I].
  - destruct (nonempty (t_from t)) eqn:N; [|destruct I]. destruct I as [<-|[]]. simpl. split; [reflexivity|].
    rewrite E, N. simpl. left. reflexivity.
  - destruct (IH _ _ I) as [A B]. split; [exact A|]. apply in_tx_keys_tail, B.
Qed.

Lemma addrfee_same_keys h txs : forall i,
  map fst (addrfee_txs true h i txs) = map fst (addrfee_txs false h i txs).
Proof.
  induction txs as [|t txs IH]; intro i; simpl; [reflexivity|].
  rewrite !map_app, IH. destruct (nonempty (t_from t)); reflexivity.
Qed.

(** * txindex *)
Lemma txindex_others add h bt txs : forall i, others (txindex_txs add h bt i txs).
Proof.
  induction txs as [|t txs IH]; intro i; simpl; [apply others_nil|].
  intros kv [<-|[<-|I]]; simpl.
  - apply (other_prefix_class P_tx); [apply op_tx|apply pre_tx].
  - apply (other_prefix_class P_stx); [apply op_stx|apply pre_stx].
  - apply (IH (i + 1)), I.
Qed.

Lemma txindex_del_shape c h bt txs : c_txindex c = true -> forall i kv,
  In kv (txindex_txs false h bt i txs) -> snd kv = None /\ In (fst kv) (tx_keys c h i txs).
Proof.
  intro E. induction txs as [|t txs IH]; intros i kv I; simpl in I; [destruct I|].
  destruct I as [<-|[<-|I]]; simpl.
  - split; [reflexivity|]. rewrite E. do 3 (apply in_or_app; right). left. reflexivity.
  - split; [reflexivity|]. rewrite E. do 3 (apply in_or_app; right). right. left. reflexivity.
  - destruct (IH _ _ I) as [A B]. split; [exact A|]. apply in_tx_keys_tail, B.
Qed.

Lemma txindex_same_keys h bt txs : forall i,
  map fst (txindex_txs true h bt i txs) = map fst (txindex_txs false h bt i txs).
Proof.
  induction txs as [|t txs IH]; intro i; simpl; [reflexivity|]. rewrite IH. reflexivity.
Qed.

(** same keys, removal list all-None: F1 and F2 *)
Lemma shape_F1 c b l : (forall kv, In kv l -> snd kv = None /\ In (fst kv) (block_keys c b)) -> F1 c b l.
Proof. intros H kv I _. apply H, I. Qed.

Lemma same_keys_F2 lA lD : map fst lA = map fst lD -> F2 lA lD.
Proof. intros E kv I _. rewrite <- E. apply in_map, I. Qed.

(** * addrindex *)
Definition side_ops (d : Z) (a : list N) : cops := if nonempty a then [(count_key a, d)] else [].
Definition ai_ops (d : Z) (txs : list tx) : cops :=
  flat_map (fun t => side_ops d (t_from t) ++ side_ops d (t_to t)) txs.
Definition delta (add : bool) : Z := if add then 1 else -1.

Lemma side_view add a f pos info vw :
  fst (addrindex_side add a f pos info vw) = run_ops (side_ops (delta add) a) vw.
Proof.
  unfold addrindex_side, side_ops, delta. destruct (nonempty a); [|reflexivity].
  simpl. destruct (bump (count_key a) (if add then 1 else -1) vw). reflexivity.
Qed.

Lemma ai_view add h txs : forall i vw,
  fst (addrindex_txs add h i txs vw) = run_ops (ai_ops (delta add) txs) vw.
Proof.
  induction txs as [|t txs IH]; intros i vw; simpl; [reflexivity|].
  unfold addrindex_tx.
  pose proof (side_view add (t_from t) 1%N (heightstr h i)
                (if add then Some (VInfo (t_hash t) h i) else None) vw) as E1.
  destruct (addrindex_side add (t_from t) 1%N (heightstr h i) _ vw) as [vw1 l1]. simpl in E1.
  pose proof (side_view add (t_to t) 2%N (heightstr h i)
                (if add then Some (VInfo (t_hash t) h i) else None) vw1) as E2.
  destruct (addrindex_side add (t_to t) 2%N (heightstr h i) _ vw1) as [vw2 l2]. simpl in E2.
  pose proof (IH (i + 1) vw2) as E3.
  destruct (addrindex_txs add h (i + 1) txs vw2) as [vw3 l3]. simpl in *.
  rewrite !run_ops_app. subst. reflexivity.
Qed.

(** the view and the map being written agree on the keys of class [Q], which hold counters *)
Definition Agree (Q : list N -> bool) (m0 vw : db) : Prop :=
  sorted m0 /\ sorted vw /\ forall k, Q k = true -> get k m0 = get k vw /\ ctr_ok vw k.

Lemma agree_other Q m0 vw l : Agree Q m0 vw -> (forall kv, In kv l -> Q (fst kv) = false) ->
  Agree Q (write_all l m0) vw.
Proof.
  intros [S0 [S1 H]] O. split; [apply write_all_sorted, S0|]. split; [exact S1|].
  intros k Qk. destruct (H k Qk) as [E W]. split; [|exact W].
  rewrite get_write_all_untouched; [exact E|exact S0|].
  destruct (touches k l) eqn:T; [|reflexivity].
  apply touches_In, in_map_iff in T as [kv [Ek I]]. apply O in I. congruence.
Qed.

Lemma agree_bump Q m0 vw k0 d : Agree Q m0 vw -> Q k0 = true ->
  Agree Q (write_all (snd (bump k0 d vw)) m0) (fst (bump k0 d vw)).
Proof.
  intros [S0 [S1 H]] Q0. destruct (H k0 Q0) as [_ W0].
  rewrite (bump_ok k0 d vw W0). unfold write_all, write_kv. simpl.
  split; [apply put_sorted, S0|]. split; [apply put_sorted, S1|].
  intros k Qk. destruct (H k Qk) as [E W]. rewrite !get_put. split.
  - destruct (beqb k k0); [reflexivity|exact E].
  - apply ctr_ok_put, W.
Qed.

Lemma side_agree add a f pos info m0 vw : Agree Qcount m0 vw ->
  Agree Qcount (write_all (snd (addrindex_side add a f pos info vw)) m0)
        (fst (addrindex_side add a f pos info vw)).
Proof.
  intro A. unfold addrindex_side. destruct (nonempty a); [|exact A].
  destruct (bump (count_key a) (if add then 1 else -1) vw) as [vw' cc] eqn:B. cbn [fst snd].
  rewrite write_all_app.
  assert (A1 : Agree Qcount (write_all [(dir_key a f pos, info); (addr_key a pos, info)] m0) vw).
  { apply agree_other; [exact A|]. intros kv [<-|[<-|[]]]; simpl.
    - apply (other_prefix_class P_dir); [apply op_dir|apply pre_dir].
    - apply (other_prefix_class P_addr); [apply op_addr|apply pre_addr]. }
  pose proof (agree_bump Qcount _ vw (count_key a) (if add then 1 else -1) A1 (count_key_Q a)) as A2.
  rewrite B in A2. exact A2.
Qed.

Lemma ai_agree add h txs : forall i m0 vw, Agree Qcount m0 vw ->
  Agree Qcount (write_all (snd (addrindex_txs add h i txs vw)) m0) (fst (addrindex_txs add h i txs vw)).
Proof.
  induction txs as [|t txs IH]; intros i m0 vw A; simpl; [exact A|].
  unfold addrindex_tx.
  pose proof (side_agree add (t_from t) 1%N (heightstr h i)
                (if add then Some (VInfo (t_hash t) h i) else None) m0 vw A) as A1.
  destruct (addrindex_side add (t_from t) 1%N (heightstr h i) _ vw) as [vw1 l1]. simpl in A1.
  pose proof (side_agree add (t_to t) 2%N (heightstr h i)
                (if add then Some (VInfo (t_hash t) h i) else None) _ vw1 A1) as A2.
  destruct (addrindex_side add (t_to t) 2%N (heightstr h i) _ vw1) as [vw2 l2]. simpl in A2.
  pose proof (IH (i + 1) _ vw2 A2) as A3.
  destruct (addrindex_txs add h (i + 1) txs vw2) as [vw3 l3]. simpl in *.
  rewrite !write_all_app. exact A3.
Qed.

(** keys of the addrindex list: positions or counters *)
Definition ai_class (k : list N) : bool := is_prefix P_dir k || is_prefix P_addr k || Qcount k.

Lemma bump_keys Q k d vw : Q k = true -> keys_in Q (snd (bump k d vw)).
Proof.
  intro H. unfold bump. destruct (cnt vw k); simpl; [|apply keys_in_nil].
  intros kv [<-|[]]. exact H.
Qed.

Lemma ai_class_count a : ai_class (count_key a) = true.
Proof. unfold ai_class. rewrite count_key_Q. apply orb_true_r. Qed.

Lemma side_keys add a f pos info vw :
  keys_in ai_class (snd (addrindex_side add a f pos info vw)).
Proof.
  unfold addrindex_side. destruct (nonempty a); [|apply keys_in_nil].
  pose proof (bump_keys ai_class (count_key a) (if add then 1 else -1) vw (ai_class_count a)) as K.
  destruct (bump (count_key a) (if add then 1 else -1) vw) as [vw' cc]. cbn [fst snd] in *.
  apply keys_in_app; [|exact K].
  intros kv [<-|[<-|[]]]; cbn [fst]; unfold ai_class.
  - rewrite pre_dir. reflexivity.
  - rewrite pre_addr, orb_true_r. reflexivity.
Qed.

Lemma ai_keys add h txs : forall i vw, keys_in ai_class (snd (addrindex_txs add h i txs vw)).
Proof.
  induction txs as [|t txs IH]; intros i vw; simpl; [apply keys_in_nil|].
  unfold addrindex_tx.
  pose proof (side_keys add (t_from t) 1%N (heightstr h i)
                (if add then Some (VInfo (t_hash t) h i) else None) vw) as K1.
  destruct (addrindex_side add (t_from t) 1%N (heightstr h i) _ vw) as [vw1 l1].
  pose proof (side_keys add (t_to t) 2%N (heightstr h i)
                (if add then Some (VInfo (t_hash t) h i) else None) vw1) as K2.
  destruct (addrindex_side add (t_to t) 2%N (heightstr h i) _ vw1) as [vw2 l2].
  pose proof (IH (i + 1) vw2) as K3.
  destruct (addrindex_txs add h (i + 1) txs vw2) as [vw3 l3]. simpl in *.
  repeat apply keys_in_app; assumption.
Qed.

Lemma ai_class_not_coins k : ai_class k = true -> Qcoins k = false.
Proof.
  unfold ai_class. intro H. apply orb_true_iff in H as [H|H]; [apply orb_true_iff in H as [H|H]|].
  - apply (other_prefix_class P_dir k op_dir H).
  - apply (other_prefix_class P_addr k op_addr H).
  - apply Qcount_not_coins, H.
Qed.

(** index entries of the removal list: all None, all among the block's keys; and every index
    entry of the add list is in the removal list *)
Lemma side_plain add a f pos info vw kv :
  In kv (snd (addrindex_side add a f pos info vw)) -> plain (fst kv) = true ->
  nonempty a = true /\ snd kv = info /\ (fst kv = dir_key a f pos \/ fst kv = addr_key a pos).
Proof.
  unfold addrindex_side. destruct (nonempty a); [|intros []].
  unfold bump. destruct (cnt vw (count_key a)); simpl; intros I P;
    repeat (destruct I as [<-|I]; [simpl in *; auto|]); try destruct I.
  rewrite (Qcount_not_plain _ (count_key_Q a)) in P. discriminate.
Qed.

Lemma side_has add a f pos info vw : nonempty a = true ->
  In (dir_key a f pos) (map fst (snd (addrindex_side add a f pos info vw))) /\
  In (addr_key a pos) (map fst (snd (addrindex_side add a f pos info vw))).
Proof.
  intro N. unfold addrindex_side. rewrite N.
  destruct (bump (count_key a) (if add then 1 else -1) vw). simpl. auto.
Qed.

Lemma tx_keys_from c h i t txs k : c_addrindex c = true -> nonempty (t_from t) = true ->
  (k = dir_key (t_from t) 1%N (heightstr h i) \/ k = addr_key (t_from t) (heightstr h i)) ->
  In k (tx_keys c h i (t :: txs)).
Proof.
  intros E N K. cbn [tx_keys]. rewrite E, N. cbn [andb].
  apply in_or_app. right. apply in_or_app. left.
  destruct K as [-> | ->]; [left|right; left]; reflexivity.
Qed.

Lemma tx_keys_to c h i t txs k : c_addrindex c = true -> nonempty (t_to t) = true ->
  (k = dir_key (t_to t) 2%N (heightstr h i) \/ k = addr_key (t_to t) (heightstr h i)) ->
  In k (tx_keys c h i (t :: txs)).
Proof.
  intros E N K. cbn [tx_keys]. rewrite E, N. cbn [andb].
  do 2 (apply in_or_app; right). apply in_or_app. left.
  destruct K as [-> | ->]; [left|right; left]; reflexivity.
Qed.

Lemma ai_del_shape c h txs : c_addrindex c = true -> forall i vw kv,
  In kv (snd (addrindex_txs false h i txs vw)) -> plain (fst kv) = true ->
  snd kv = None /\ In (fst kv) (tx_keys c h i txs).
Proof.
  intro E. induction txs as [|t txs IH]; intros i vw kv I P; simpl in I; [destruct I|].
  unfold addrindex_tx in I.
  destruct (addrindex_side false (t_from t) 1%N (heightstr h i) None vw) as [vw1 l1] eqn:S1.
  destruct (addrindex_side false (t_to t) 2%N (heightstr h i) None vw1) as [vw2 l2] eqn:S2.
  destruct (addrindex_txs false h (i + 1) txs vw2) as [vw3 l3] eqn:S3. simpl in I.
  rewrite <- app_assoc in I. apply in_app_or in I as [I|I]; [|apply in_app_or in I as [I|I]].
  - assert (I' : In kv (snd (addrindex_side false (t_from t) 1%N (heightstr h i) None vw))) by (rewrite S1; exact I).
    destruct (side_plain _ _ _ _ _ _ _ I' P) as [N [V K]]. split; [exact V|].
    apply tx_keys_from; assumption.
  - assert (I' : In kv (snd (addrindex_side false (t_to t) 2%N (heightstr h i) None vw1))) by (rewrite S2; exact I).
    destruct (side_plain _ _ _ _ _ _ _ I' P) as [N [V K]]. split; [exact V|].
    apply tx_keys_to; assumption.
  - assert (I' : In kv (snd (addrindex_txs false h (i + 1) txs vw2))) by (rewrite S3; exact I).
    destruct (IH _ _ _ I' P) as [A B]. split; [exact A|]. apply in_tx_keys_tail, B.
Qed.

Lemma ai_F2 h txs : forall i vwA vwD kv,
  In kv (snd (addrindex_txs true h i txs vwA)) -> plain (fst kv) = true ->
  In (fst kv) (map fst (snd (addrindex_txs false h i txs vwD))).
Proof.
  induction txs as [|t txs IH]; intros i vwA vwD kv I P; simpl in I; [destruct I|].
  simpl. unfold addrindex_tx in *.
  destruct (addrindex_side true (t_from t) 1%N (heightstr h i) _ vwA) as [va1 la1] eqn:SA1.
  destruct (addrindex_side true (t_to t) 2%N (heightstr h i) _ va1) as [va2 la2] eqn:SA2.
  destruct (addrindex_txs true h (i + 1) txs va2) as [va3 la3] eqn:SA3.
  pose proof (side_has false (t_from t) 1%N (heightstr h i) None vwD) as H1.
  destruct (addrindex_side false (t_from t) 1%N (heightstr h i) None vwD) as [vd1 ld1] eqn:SD1.
  pose proof (side_has false (t_to t) 2%N (heightstr h i) None vd1) as H2.
  destruct (addrindex_side false (t_to t) 2%N (heightstr h i) None vd1) as [vd2 ld2] eqn:SD2.
  pose proof (IH (i + 1) va2 vd2 kv) as H3. rewrite SA3 in H3.
  destruct (addrindex_txs false h (i + 1) txs vd2) as [vd3 ld3] eqn:SD3.
  simpl in *. rewrite !map_app. rewrite <- app_assoc in I.
  apply in_app_or in I as [I|I]; [|apply in_app_or in I as [I|I]].
  - assert (I' : In kv (snd (addrindex_side true (t_from t) 1%N (heightstr h i)
                               (Some (VInfo (t_hash t) h i)) vwA))) by (rewrite SA1; exact I).
    destruct (side_plain _ _ _ _ _ _ _ I' P) as [N [_ K]]. destruct (H1 N) as [X Y].
    apply in_or_app. left. apply in_or_app. left. destruct K as [-> | ->]; assumption.
  - assert (I' : In kv (snd (addrindex_side true (t_to t) 2%N (heightstr h i)
                               (Some (VInfo (t_hash t) h i)) va1))) by (rewrite SA2; exact I).
    destruct (side_plain _ _ _ _ _ _ _ I' P) as [N [_ K]]. destruct (H2 N) as [X Y].
    apply in_or_app. left. apply in_or_app. right. destruct K as [-> | ->]; assumption.
  - apply in_or_app. right. apply H3; assumption.
Qed.

(** * coins *)
Definition coins_ops_tx (t : tx) : cops :=
  match coins_target t with
  | Some a => if t_rty t =? ExecOk then [(coins_key a, t_amount t)] else []
  | None => []
  end.
Definition coins_ops (txs : list tx) : cops := flat_map coins_ops_tx txs.
Definition coins_del_ops_tx (t : tx) : cops :=
  match coins_target t with
  | Some a => if t_rty t =? ExecOk then [(coins_key a, - t_amount t)] else []
  | None => []
  end.
Definition coins_del_ops (rtxs : list tx) : cops := flat_map coins_del_ops_tx rtxs.

Lemma coins_view txs : forall vw, fst (coins_local txs vw) = run_ops (coins_ops txs) vw.
Proof.
  induction txs as [|t txs IH]; intro vw; simpl; [reflexivity|].
  unfold coins_local_tx, coins_ops_tx.
  destruct (coins_target t) as [a|]; simpl.
  - destruct (t_rty t =? ExecOk); simpl.
    + destruct (bump (coins_key a) (t_amount t) vw) as [vw1 l1] eqn:B.
      pose proof (IH vw1) as E. destruct (coins_local txs vw1) as [vw2 l2]. simpl in *.
      try rewrite B. simpl. exact E.
    + pose proof (IH vw) as E. destruct (coins_local txs vw) as [vw2 l2]. exact E.
  - pose proof (IH vw) as E. destruct (coins_local txs vw) as [vw2 l2]. exact E.
Qed.

Lemma coins_del_view rtxs : forall vw, fst (coins_dellocal rtxs vw) = run_ops (coins_del_ops rtxs) vw.
Proof.
  induction rtxs as [|t txs IH]; intro vw; simpl; [reflexivity|].
  unfold coins_dellocal_tx, coins_del_ops_tx.
  destruct (coins_target t) as [a|]; simpl.
  - destruct (t_rty t =? ExecOk); simpl.
    + destruct (bump (coins_key a) (- t_amount t) vw) as [vw1 l1] eqn:B.
      pose proof (IH vw1) as E. destruct (coins_dellocal txs vw1) as [vw2 l2]. simpl in *.
      try rewrite B. simpl. exact E.
    + pose proof (IH vw) as E. destruct (coins_dellocal txs vw) as [vw2 l2]. exact E.
  - pose proof (IH vw) as E. destruct (coins_dellocal txs vw) as [vw2 l2]. exact E.
Qed.

Lemma coins_agree txs : forall m0 vw, Agree Qcoins m0 vw ->
  Agree Qcoins (write_all (snd (coins_local txs vw)) m0) (fst (coins_local txs vw)).
Proof.
  induction txs as [|t txs IH]; intros m0 vw A; simpl; [exact A|].
  unfold coins_local_tx. destruct (coins_target t) as [a|].
  - destruct (t_rty t =? ExecOk).
    + pose proof (agree_bump Qcoins m0 vw (coins_key a) (t_amount t) A (coins_key_Q a)) as A1.
      destruct (bump (coins_key a) (t_amount t) vw) as [vw1 l1]. simpl in A1.
      pose proof (IH _ vw1 A1) as A2. destruct (coins_local txs vw1) as [vw2 l2]. simpl in *.
      rewrite write_all_app. exact A2.
    + pose proof (IH m0 vw A) as A2. destruct (coins_local txs vw) as [vw2 l2]. exact A2.
  - pose proof (IH m0 vw A) as A2. destruct (coins_local txs vw) as [vw2 l2]. exact A2.
Qed.

Lemma coins_del_agree rtxs : forall m0 vw, Agree Qcoins m0 vw ->
  Agree Qcoins (write_all (snd (coins_dellocal rtxs vw)) m0) (fst (coins_dellocal rtxs vw)).
Proof.
  induction rtxs as [|t txs IH]; intros m0 vw A; simpl; [exact A|].
  unfold coins_dellocal_tx. destruct (coins_target t) as [a|].
  - destruct (t_rty t =? ExecOk).
    + pose proof (agree_bump Qcoins m0 vw (coins_key a) (- t_amount t) A (coins_key_Q a)) as A1.
      destruct (bump (coins_key a) (- t_amount t) vw) as [vw1 l1]. simpl in A1.
      pose proof (IH _ vw1 A1) as A2. destruct (coins_dellocal txs vw1) as [vw2 l2]. simpl in *.
      rewrite write_all_app. exact A2.
    + pose proof (IH m0 vw A) as A2. destruct (coins_dellocal txs vw) as [vw2 l2]. exact A2.
  - pose proof (IH m0 vw A) as A2. destruct (coins_dellocal txs vw) as [vw2 l2]. exact A2.
Qed.

Lemma coins_keys txs : forall vw, keys_in Qcoins (snd (coins_local txs vw)).
Proof.
  induction txs as [|t txs IH]; intro vw; simpl; [apply keys_in_nil|].
  unfold coins_local_tx. destruct (coins_target t) as [a|].
  - destruct (t_rty t =? ExecOk).
    + pose proof (bump_keys Qcoins (coins_key a) (t_amount t) vw (coins_key_Q a)) as K1.
      destruct (bump (coins_key a) (t_amount t) vw) as [vw1 l1].
      pose proof (IH vw1) as K2. destruct (coins_local txs vw1) as [vw2 l2]. simpl in *.
      apply keys_in_app; assumption.
    + pose proof (IH vw) as K2. destruct (coins_local txs vw) as [vw2 l2]. exact K2.
  - pose proof (IH vw) as K2. destruct (coins_local txs vw) as [vw2 l2]. exact K2.
Qed.

Lemma coins_del_keys rtxs : forall vw, keys_in Qcoins (snd (coins_dellocal rtxs vw)).
Proof.
  induction rtxs as [|t txs IH]; intro vw; simpl; [apply keys_in_nil|].
  unfold coins_dellocal_tx. destruct (coins_target t) as [a|].
  - destruct (t_rty t =? ExecOk).
    + pose proof (bump_keys Qcoins (coins_key a) (- t_amount t) vw (coins_key_Q a)) as K1.
      destruct (bump (coins_key a) (- t_amount t) vw) as [vw1 l1].
      pose proof (IH vw1) as K2. destruct (coins_dellocal txs vw1) as [vw2 l2]. simpl in *.
      apply keys_in_app; assumption.
    + pose proof (IH vw) as K2. destruct (coins_dellocal txs vw) as [vw2 l2]. exact K2.
  - pose proof (IH vw) as K2. destruct (coins_dellocal txs vw) as [vw2 l2]. exact K2.
Qed.

(** the removal ops are the negated add ops, in reverse order (both skip failed transactions) *)
Lemma coins_del_ops_neg txs : coins_del_ops (rev txs) = neg_ops (rev (coins_ops txs)).
Proof.
  induction txs as [|t txs IH]; simpl; [reflexivity|].
  unfold coins_del_ops, coins_ops in *. rewrite flat_map_app. simpl. rewrite app_nil_r.
  rewrite IH. rewrite rev_app_distr. unfold neg_ops. rewrite map_app. f_equal.
  unfold coins_del_ops_tx, coins_ops_tx.
  destruct (coins_target t); [|reflexivity]. destruct (t_rty t =? ExecOk); reflexivity.
Qed.
