(** C14 — proofs, part 3: removal after connect restores the local DB observably. *)
From Coq Require Import String List NArith ZArith Bool Lia.
From C33 Require Import Lib.Harness Lib.Bytes Lib.OMap C14.Model C14.Spec C14.ProofsBase C14.ProofsPlugins.
Import ListNotations.
Open Scope Z_scope.

(** * a counter segment inside a KV list *)
Lemma counter_segment (Q : list N -> bool) (pre post L : list kvw) (o : cops) (M VW VW' : db) k :
  sorted M -> sorted VW -> Q k = true ->
  (forall kv, In kv pre -> Q (fst kv) = false) -> touches k post = false ->
  (forall k', Q k' = true -> get k' VW = get k' M /\ ctr_ok M k') ->
  (forall m0, Agree Q m0 VW -> Agree Q (write_all L m0) VW') -> VW' = run_ops o VW ->
  (forall op, In op o -> Q (fst op) = true) ->
  get k (write_all (pre ++ L ++ post) M) =
    if op_touch k o then Some (VInt (cntz M k + op_sum k o)) else get k M.
Proof.
  intros SM SV Qk Hpre Hpost HV HL HV' Ho.
  rewrite !write_all_app.
  assert (A0 : Agree Q M VW).
  { split; [exact SM|]. split; [exact SV|]. intros k' Qk'. destruct (HV k' Qk') as [E W].
    split; [symmetry; exact E|]. unfold ctr_ok in *. rewrite E. exact W. }
  assert (A1 : Agree Q (write_all pre M) VW) by (apply agree_other; assumption).
  apply HL in A1. destruct A1 as [S1 [S2 H1]].
  rewrite get_write_all_untouched by assumption.
  destruct (H1 k Qk) as [E _]. rewrite E, HV'.
  rewrite run_ops_get.
  - destruct (HV k Qk) as [E2 _]. unfold cntz. rewrite E2. reflexivity.
  - intros op I. destruct (HV (fst op) (Ho op I)) as [E2 W]. unfold ctr_ok in *. rewrite E2. exact W.
Qed.

(** * helpers *)
Lemma counters_wf_ok m k : counters_wf m = true -> is_counter_key k = true -> ctr_ok m k.
Proof.
  intros W C. unfold ctr_ok. destruct (get k m) as [v|] eqn:E; [|left; reflexivity].
  apply get_Some_In in E. unfold counters_wf in W. rewrite forallb_forall in W.
  specialize (W _ E). simpl in W. rewrite C in W. simpl in W.
  destruct v; try discriminate. right. eauto.
Qed.

Lemma fresh_none c m b k : fresh c m b = true -> In k (block_keys c b) -> get k m = None.
Proof.
  unfold fresh. rewrite forallb_forall. intros F I. specialize (F _ I).
  unfold mem in F. destruct (get k m); [discriminate|reflexivity].
Qed.

Lemma ai_ops_keys d txs op : In op (ai_ops d txs) -> Qcount (fst op) = true.
Proof.
  unfold ai_ops. rewrite in_flat_map. intros [t [_ I]].
  apply in_app_or in I as [I|I]; unfold side_ops in I;
    [destruct (nonempty (t_from t))|destruct (nonempty (t_to t))]; try destruct I as [<-|[]]; try destruct I;
    apply count_key_Q.
Qed.

Lemma coins_ops_keys txs op : In op (coins_ops txs) -> Qcoins (fst op) = true.
Proof.
  unfold coins_ops. rewrite in_flat_map. intros [t [_ I]]. unfold coins_ops_tx in I.
  destruct (coins_target t); [|destruct I]. destruct (t_rty t =? ExecOk); [|destruct I].
  destruct I as [<-|[]]. apply coins_key_Q.
Qed.

Lemma coins_del_ops_keys txs op : In op (coins_del_ops txs) -> Qcoins (fst op) = true.
Proof.
  unfold coins_del_ops. rewrite in_flat_map. intros [t [_ I]]. unfold coins_del_ops_tx in I.
  destruct (coins_target t); [|destruct I]. destruct (t_rty t =? ExecOk); [|destruct I].
  destruct I as [<-|[]]. apply coins_key_Q.
Qed.

Lemma ai_ops_neg txs : ai_ops (-1) txs = neg_ops (ai_ops 1 txs).
Proof.
  unfold ai_ops, neg_ops. induction txs as [|t txs IH]; simpl; [reflexivity|].
  rewrite map_app, IH. f_equal. rewrite map_app. unfold side_ops.
  destruct (nonempty (t_from t)), (nonempty (t_to t)); reflexivity.
Qed.

Lemma ops_untouched (Q : list N -> bool) o k :
  (forall op, In op o -> Q (fst op) = true) -> Q k = false -> op_touch k o = false.
Proof.
  intros H F. destruct (op_touch k o) eqn:T; [|reflexivity].
  apply op_touch_In, in_map_iff in T as [op [E I]]. apply H in I. congruence.
Qed.

(** * fee and mvcc lists *)
Lemma fee_add_inv vw b l : fee_add vw b = Some l -> exists v, l = [(total_key (b_hash b), Some v)].
Proof.
  unfold fee_add. destruct (get (total_key (b_parent b)) vw) as [[]|]; try discriminate;
    intro H; inversion H; eauto.
Qed.

Definition mvcc_add_list (b : blk) : list kvw :=
  [(hash_key (b_state b), Some (VInt (b_height b))); (ver_key (b_height b), Some (VRaw (b_state b)))]
  ++ map (fun kv => (gkey (fst kv) (b_height b), option_map VRaw (snd kv))) (b_kvs b)
  ++ [(kl_key (b_height b), Some (VKeys (map fst (b_kvs b))))].

Lemma mvcc_add_inv vw b l : mvcc_add vw b = Some l -> l = mvcc_add_list b.
Proof.
  unfold mvcc_add. match goal with |- (if ?c then _ else _) = _ -> _ => destruct c end; [|discriminate].
  intro H. inversion H. reflexivity.
Qed.

Definition mvcc_del_list (b : blk) (ks : list (list N)) : list kvw :=
  [(hash_key (b_state b), None); (ver_key (b_height b), None)] ++ map (fun k => (gkey k (b_height b), None)) ks.

Lemma mvcc_del_inv vw b l : mvcc_del vw b = Some l ->
  exists ks, get (kl_key (b_height b)) vw = Some (VKeys ks) /\ l = mvcc_del_list b ks.
Proof.
  unfold mvcc_del. destruct (get (kl_key (b_height b)) vw) as [[]|]; try discriminate.
  destruct (get_max_version vw); [|discriminate].
  destruct (z =? b_height b); [|discriminate].
  destruct (get_version vw (b_state b)); [|discriminate].
  destruct (z0 =? b_height b); [|discriminate].
  intro H. inversion H. eauto.
Qed.

Definition Qmvcc (k : list N) : bool := is_prefix P_mvcc k.

Lemma Qmvcc_class k : Qmvcc k = true -> Qcount k = false /\ Qcoins k = false.
Proof. intro H. split; eapply prefix_disjoint; try exact H; reflexivity. Qed.

Lemma mvcc_add_keys b : keys_in Qmvcc (mvcc_add_list b).
Proof.
  intros kv I. unfold mvcc_add_list in I. simpl in I.
  destruct I as [<-|[<-|I]]; [reflexivity|reflexivity|].
  apply in_app_or in I as [I|[<-|[]]]; [|reflexivity].
  apply in_map_iff in I as [x [<- _]]. reflexivity.
Qed.

Lemma mvcc_del_keys b ks : keys_in Qmvcc (mvcc_del_list b ks).
Proof.
  intros kv I. unfold mvcc_del_list in I. simpl in I.
  destruct I as [<-|[<-|I]]; [reflexivity|reflexivity|].
  apply in_map_iff in I as [x [<- _]]. reflexivity.
Qed.

Lemma kl_key_pre v : is_prefix P_mkl (kl_key v) = true.
Proof. apply is_prefix_app. Qed.
Lemma kl_key_not_plain v : plain (kl_key v) = false.
Proof. unfold plain. rewrite kl_key_pre. reflexivity. Qed.

Lemma get_write_all_last k x l m : sorted m -> get k (write_all (l ++ [(k, Some x)]) m) = Some x.
Proof.
  intro S. rewrite write_all_app. simpl. rewrite get_write_kv by (apply write_all_sorted, S).
  simpl. rewrite beqb_refl. reflexivity.
Qed.

Lemma others_notQ l Q : others l -> (Q = Qcount \/ Q = Qcoins) -> forall kv, In kv l -> Q (fst kv) = false.
Proof. intros O [-> | ->] kv I; apply O in I; tauto. Qed.

Lemma keys_in_notQ P Q l : keys_in P l -> (forall k, P k = true -> Q k = false) ->
  forall kv, In kv l -> Q (fst kv) = false.
Proof. intros K H kv I. apply H, K, I. Qed.

Lemma notQ_app (Q : list N -> bool) (a d : list kvw) :
  (forall kv, In kv a -> Q (fst kv) = false) -> (forall kv, In kv d -> Q (fst kv) = false) ->
  forall kv, In kv (a ++ d) -> Q (fst kv) = false.
Proof. intros X Y kv I. apply in_app_or in I as [I|I]; auto. Qed.

Lemma notQ_untouched (Q : list N -> bool) l k :
  (forall kv, In kv l -> Q (fst kv) = false) -> Q k = true -> touches k l = false.
Proof.
  intros H Qk. destruct (touches k l) eqn:T; [|reflexivity].
  apply touches_In, in_map_iff in T as [kv [E I]]. apply H in I. congruence.
Qed.

Lemma ai_class_notQcoins k : ai_class k = true -> Qcoins k = false.
Proof. apply ai_class_not_coins. Qed.

Lemma Qcoins_keys_notQcount l : keys_in Qcoins l -> forall kv, In kv l -> Qcount (fst kv) = false.
Proof. intros K kv I. apply Qcoins_not_count, K, I. Qed.

Lemma Qmvcc_keys_notQ l : keys_in Qmvcc l ->
  (forall kv, In kv l -> Qcount (fst kv) = false) /\ (forall kv, In kv l -> Qcoins (fst kv) = false).
Proof. intro K. split; intros kv I; apply K in I; apply Qmvcc_class in I; tauto. Qed.

(** * the main theorem *)
Section Main.
Variables (c : cfg) (m : db) (b : blk) (kA kD : list kvw).
Hypothesis Sm : sorted m.
Hypothesis Wf : counters_wf m = true.
Hypothesis Fr : fresh c m b = true.
Hypothesis EA : exec_add c m b = Some kA.
Hypothesis ED : exec_del c (write_all kA m) b = Some kD.

Let h := b_height b.
Let txs := b_txs b.
Let m1 := write_all kA m.
Let m2 := write_all kD m1.

(** the pieces of the add list *)
Let A1 := if c_addrfee c then addrfee_txs true h 0 txs else [].
Let V1 := write_all A1 m.
Let A2 := if c_addrindex c then snd (addrindex_txs true h 0 txs V1) else [].
Let A6 := if c_txindex c then txindex_txs true h (b_time b) 0 txs else [].

Lemma add_shape : exists A3 A4 V6,
  kA = A1 ++ A2 ++ A3 ++ A4 ++ A6 ++ (if c_execlocal c then snd (coins_local txs V6) else []) /\
  V6 = write_all (A1 ++ A2 ++ A3 ++ A4 ++ A6) m /\
  ((c_fee c = false /\ A3 = []) \/ (c_fee c = true /\ exists v, A3 = [(total_key (b_hash b), Some v)])) /\
  A4 = (if c_mvcc c then mvcc_add_list b else []).
Proof.
  pose proof EA as E. unfold exec_add in E. fold h txs A1 V1 A2 in E.
  destruct (if c_fee c then fee_add (write_all A2 V1) b else Some []) as [A3|] eqn:E3; [|discriminate].
  destruct (if c_mvcc c then mvcc_add (write_all A3 (write_all A2 V1)) b else Some []) as [A4|] eqn:E4; [|discriminate].
  fold A6 in E. inversion E as [E']. clear E.
  exists A3, A4, (write_all A6 (write_all A4 (write_all A3 (write_all A2 V1)))).
  split; [reflexivity|]. split.
  - unfold V1. rewrite !write_all_app. reflexivity.
  - split.
    + destruct (c_fee c); [|inversion E3; left; split; reflexivity].
      right. split; [reflexivity|]. eapply fee_add_inv, E3.
    + destruct (c_mvcc c); [|inversion E4; reflexivity].
      eapply mvcc_add_inv, E4.
Qed.

Let D1 := if c_addrfee c then addrfee_txs false h 0 txs else [].
Let RD := if c_addrindex c then addrindex_txs false h 0 txs m1 else (m1, []).
Let D3 := if c_fee c then fee_del b else [].
Let D6 := if c_txindex c then txindex_txs false h (b_time b) 0 txs else [].

Lemma del_shape : exists D4,
  kD = D1 ++ snd RD ++ D3 ++ D4 ++ D6 ++ (if c_execlocal c then snd (coins_dellocal (rev txs) (fst RD)) else []) /\
  ((c_mvcc c = false /\ D4 = []) \/ (c_mvcc c = true /\ exists ks, get (kl_key h) (fst RD) = Some (VKeys ks) /\ D4 = mvcc_del_list b ks)).
Proof.
  pose proof ED as E. unfold exec_del in E. fold h txs m1 D1 RD D3 in E.
  destruct RD as [vw2 D2] eqn:ER.
  destruct (if c_mvcc c then mvcc_del vw2 b else Some []) as [D4|] eqn:E4; [|discriminate].
  fold D6 in E. inversion E as [E']. clear E.
  exists D4. split; [reflexivity|].
  destruct (c_mvcc c); [|inversion E4; left; split; reflexivity].
  right. split; [reflexivity|]. apply mvcc_del_inv in E4. exact E4.
Qed.

Lemma S1 : sorted m1. Proof. apply write_all_sorted, Sm. Qed.
Lemma S2 : sorted m2. Proof. apply write_all_sorted, S1. Qed.

(** classes of the pieces *)
Lemma A1_others : others A1.
Proof. unfold A1. destruct (c_addrfee c); [apply addrfee_others|apply others_nil]. Qed.
Lemma D1_others : others D1.
Proof. unfold D1. destruct (c_addrfee c); [apply addrfee_others|apply others_nil]. Qed.
Lemma A6_others : others A6.
Proof. unfold A6. destruct (c_txindex c); [apply txindex_others|apply others_nil]. Qed.
Lemma D6_others : others D6.
Proof. unfold D6. destruct (c_txindex c); [apply txindex_others|apply others_nil]. Qed.
Lemma D3_others : others D3.
Proof.
  unfold D3, fee_del. destruct (c_fee c); [|apply others_nil].
  intros kv [<-|[]]. apply (other_prefix_class P_total); [apply op_total|apply pre_total].
Qed.
Lemma A2_keys : keys_in ai_class A2.
Proof. unfold A2. destruct (c_addrindex c); [apply ai_keys|apply keys_in_nil]. Qed.
Lemma D2_keys : keys_in ai_class (snd RD).
Proof. unfold RD. destruct (c_addrindex c); [apply ai_keys|apply keys_in_nil]. Qed.

Lemma A3_notQ (A3 : list kvw) Q : ((c_fee c = false /\ A3 = []) \/ (c_fee c = true /\ exists v, A3 = [(total_key (b_hash b), Some v)])) ->
  (Q = Qcount \/ Q = Qcoins) -> forall kv, In kv A3 -> Q (fst kv) = false.
Proof.
  intros [[_ ->]|[_ [v ->]]] HQ kv I; [destruct I|]. destruct I as [<-|[]].
  pose proof (other_prefix_class P_total (total_key (b_hash b)) op_total (pre_total _)) as [X [Y _]].
  destruct HQ as [-> | ->]; assumption.
Qed.

Lemma A4_notQ (A4 : list kvw) Q : A4 = (if c_mvcc c then mvcc_add_list b else []) ->
  (Q = Qcount \/ Q = Qcoins) -> forall kv, In kv A4 -> Q (fst kv) = false.
Proof.
  intros -> HQ kv I. destruct (c_mvcc c); [|destruct I].
  destruct (Qmvcc_keys_notQ _ (mvcc_add_keys b)) as [X Y]. destruct HQ as [-> | ->]; auto.
Qed.

Lemma D4_notQ (D4 : list kvw) Q : ((c_mvcc c = false /\ D4 = []) \/ (c_mvcc c = true /\ exists ks, get (kl_key h) (fst RD) = Some (VKeys ks) /\ D4 = mvcc_del_list b ks)) ->
  (Q = Qcount \/ Q = Qcoins) -> forall kv, In kv D4 -> Q (fst kv) = false.
Proof.
  intros [[_ ->]|[_ [ks [_ ->]]]] HQ kv I; [destruct I|].
  destruct (Qmvcc_keys_notQ _ (mvcc_del_keys b ks)) as [X Y]. destruct HQ as [-> | ->]; auto.
Qed.

Lemma coinsA_keys V : keys_in Qcoins (if c_execlocal c then snd (coins_local txs V) else []).
Proof. destruct (c_execlocal c); [apply coins_keys|apply keys_in_nil]. Qed.
Lemma coinsD_keys V : keys_in Qcoins (if c_execlocal c then snd (coins_dellocal (rev txs) V) else []).
Proof. destruct (c_execlocal c); [apply coins_del_keys|apply keys_in_nil]. Qed.

(** counters of the base map *)
Lemma m_ctr k : is_counter_key k = true -> ctr_ok m k.
Proof. apply counters_wf_ok, Wf. Qed.
Lemma Qcount_counter k : Qcount k = true -> is_counter_key k = true.
Proof. unfold is_counter_key, Qcount. intros ->. reflexivity. Qed.
Lemma Qcoins_counter k : Qcoins k = true -> is_counter_key k = true.
Proof. unfold is_counter_key, Qcoins. intros ->. apply orb_true_r. Qed.

Let oA := if c_addrindex c then ai_ops 1 txs else [].
Let cA := if c_execlocal c then coins_ops txs else [].

(** ** address counters after the add list *)
Lemma count_after_add k : Qcount k = true ->
  get k m1 = if op_touch k oA then Some (VInt (cntz m k + op_sum k oA)) else get k m.
Proof.
  intro Qk. destruct add_shape as [A3 [A4 [V6 [EkA [_ [H3 H4]]]]]].
  unfold m1. rewrite EkA.
  assert (V1get : forall k', Qcount k' = true -> get k' V1 = get k' m /\ ctr_ok m k').
  { intros k' Qk'. split; [|apply m_ctr, Qcount_counter, Qk'].
    unfold V1. apply get_write_all_untouched; [exact Sm|].
    apply (notQ_untouched Qcount); [|exact Qk']. apply others_notQ; [apply A1_others|auto]. }
  assert (Post : touches k (A3 ++ A4 ++ A6 ++ (if c_execlocal c then snd (coins_local txs V6) else [])) = false).
  { apply (notQ_untouched Qcount); [|exact Qk'||exact Qk].
    repeat apply notQ_app.
    - apply A3_notQ; auto.
    - apply A4_notQ; auto.
    - apply others_notQ; [apply A6_others|auto].
    - apply Qcoins_keys_notQcount, coinsA_keys. }
  unfold oA, A2. destruct (c_addrindex c).
  - apply (counter_segment Qcount A1 _ _ (ai_ops 1 txs) m V1 (fst (addrindex_txs true h 0 txs V1))); auto.
    + apply write_all_sorted, Sm.
    + apply others_notQ; [apply A1_others|auto].
    + intros m0 Ag. apply ai_agree, Ag.
    + apply (ai_view true).
    + apply ai_ops_keys.
  - simpl. rewrite write_all_app. rewrite get_write_all_untouched.
    + apply get_write_all_untouched; [exact Sm|].
      apply (notQ_untouched Qcount); [|exact Qk]. apply others_notQ; [apply A1_others|auto].
    + apply write_all_sorted, Sm.
    + exact Post.
Qed.

(** ** receiver totals after the add list *)
Lemma coins_after_add k : Qcoins k = true ->
  get k m1 = if op_touch k cA then Some (VInt (cntz m k + op_sum k cA)) else get k m.
Proof.
  intro Qk. destruct add_shape as [A3 [A4 [V6 [EkA [EV6 [H3 H4]]]]]].
  unfold m1. rewrite EkA.
  assert (Pre : forall kv, In kv (A1 ++ A2 ++ A3 ++ A4 ++ A6) -> Qcoins (fst kv) = false).
  { repeat apply notQ_app.
    - apply others_notQ; [apply A1_others|auto].
    - apply (keys_in_notQ ai_class); [apply A2_keys|apply ai_class_notQcoins].
    - apply A3_notQ; auto.
    - apply A4_notQ; auto.
    - apply others_notQ; [apply A6_others|auto]. }
  assert (V6get : forall k', Qcoins k' = true -> get k' V6 = get k' m /\ ctr_ok m k').
  { intros k' Qk'. split; [|apply m_ctr, Qcoins_counter, Qk'].
    rewrite EV6. apply get_write_all_untouched; [exact Sm|].
    apply (notQ_untouched Qcoins); assumption. }
  replace (A1 ++ A2 ++ A3 ++ A4 ++ A6 ++ (if c_execlocal c then snd (coins_local txs V6) else []))
    with ((A1 ++ A2 ++ A3 ++ A4 ++ A6) ++ (if c_execlocal c then snd (coins_local txs V6) else []) ++ [])
    by (rewrite app_nil_r, <- !app_assoc; reflexivity).
  unfold cA. destruct (c_execlocal c).
  - apply (counter_segment Qcoins _ [] _ (coins_ops txs) m V6 (fst (coins_local txs V6))); auto.
    + rewrite EV6. apply write_all_sorted, Sm.
    + intros m0 Ag. apply coins_agree, Ag.
    + apply coins_view.
    + apply coins_ops_keys.
  - simpl. rewrite app_nil_r. apply get_write_all_untouched; [exact Sm|].
    apply (notQ_untouched Qcoins); assumption.
Qed.

(** after the add list every counter key still holds a counter *)
Lemma m1_ctr k : is_counter_key k = true -> ctr_ok m1 k.
Proof.
  intro C. unfold is_counter_key in C. apply orb_true_iff in C as [C|C].
  - unfold ctr_ok. rewrite (count_after_add k C). destruct (op_touch k oA); [right; eauto|].
    apply m_ctr, Qcount_counter, C.
  - unfold ctr_ok. rewrite (coins_after_add k C). destruct (op_touch k cA); [right; eauto|].
    apply m_ctr, Qcoins_counter, C.
Qed.

Let oD := if c_addrindex c then ai_ops (-1) txs else [].
Let cD := if c_execlocal c then coins_del_ops (rev txs) else [].

Lemma RD_view : fst RD = run_ops oD m1.
Proof. unfold RD, oD. destruct (c_addrindex c); [apply (ai_view false)|reflexivity]. Qed.

(** ** address counters after the removal list *)
Lemma count_after_del k : Qcount k = true ->
  get k m2 = if op_touch k oD then Some (VInt (cntz m1 k + op_sum k oD)) else get k m1.
Proof.
  intro Qk. destruct del_shape as [D4 [EkD H4]].
  unfold m2. rewrite EkD.
  assert (Post : touches k (D3 ++ D4 ++ D6 ++ (if c_execlocal c then snd (coins_dellocal (rev txs) (fst RD)) else [])) = false).
  { apply (notQ_untouched Qcount); [|exact Qk].
    repeat apply notQ_app.
    - apply others_notQ; [apply D3_others|auto].
    - apply D4_notQ; auto.
    - apply others_notQ; [apply D6_others|auto].
    - apply Qcoins_keys_notQcount, coinsD_keys. }
  pose proof m1_ctr as M1C.
  unfold oD, RD in *. destruct (c_addrindex c).
  - apply (counter_segment Qcount D1 _ _ (ai_ops (-1) txs) m1 m1 (fst (addrindex_txs false h 0 txs m1))); auto using S1.
    + apply others_notQ; [apply D1_others|auto].
    + intros k' Qk'. split; [reflexivity|]. apply M1C, Qcount_counter, Qk'.
    + intros m0 Ag. apply ai_agree, Ag.
    + apply (ai_view false).
    + apply ai_ops_keys.
  - simpl. rewrite write_all_app. rewrite get_write_all_untouched.
    + apply get_write_all_untouched; [exact S1|].
      apply (notQ_untouched Qcount); [|exact Qk]. apply others_notQ; [apply D1_others|auto].
    + apply write_all_sorted, S1.
    + exact Post.
Qed.

(** ** receiver totals after the removal list *)
Lemma coins_after_del k : Qcoins k = true ->
  get k m2 = if op_touch k cD then Some (VInt (cntz m1 k + op_sum k cD)) else get k m1.
Proof.
  intro Qk. destruct del_shape as [D4 [EkD H4]].
  unfold m2. rewrite EkD.
  assert (Pre : forall kv, In kv (D1 ++ snd RD ++ D3 ++ D4 ++ D6) -> Qcoins (fst kv) = false).
  { repeat apply notQ_app.
    - apply others_notQ; [apply D1_others|auto].
    - apply (keys_in_notQ ai_class); [apply D2_keys|apply ai_class_notQcoins].
    - apply others_notQ; [apply D3_others|auto].
    - apply D4_notQ; auto.
    - apply others_notQ; [apply D6_others|auto]. }
  assert (Vget : forall k', Qcoins k' = true -> get k' (fst RD) = get k' m1 /\ ctr_ok m1 k').
  { intros k' Qk'. split; [|apply m1_ctr, Qcoins_counter, Qk'].
    rewrite RD_view. apply run_ops_get_other.
    apply (ops_untouched Qcount); [|apply Qcoins_not_count, Qk'].
    unfold oD. destruct (c_addrindex c); [apply ai_ops_keys|intros op []]. }
  replace (D1 ++ snd RD ++ D3 ++ D4 ++ D6 ++ (if c_execlocal c then snd (coins_dellocal (rev txs) (fst RD)) else []))
    with ((D1 ++ snd RD ++ D3 ++ D4 ++ D6) ++ (if c_execlocal c then snd (coins_dellocal (rev txs) (fst RD)) else []) ++ [])
    by (rewrite app_nil_r, <- !app_assoc; reflexivity).
  unfold cD. destruct (c_execlocal c).
  - apply (counter_segment Qcoins _ [] _ (coins_del_ops (rev txs)) m1 (fst RD) (fst (coins_dellocal (rev txs) (fst RD)))); auto using S1.
    + rewrite RD_view. apply run_ops_sorted, S1.
    + intros m0 Ag. apply coins_del_agree, Ag.
    + apply coins_del_view.
    + apply coins_del_ops_keys.
  - simpl. rewrite app_nil_r. apply get_write_all_untouched; [exact S1|].
    apply (notQ_untouched Qcoins); assumption.
Qed.

(** ** index entries *)
Lemma tx_keys_block k : In k (tx_keys c h 0 txs) -> In k (block_keys c b).
Proof. intro I. unfold block_keys. apply in_or_app. left. exact I. Qed.

Lemma kl_in_m1 : c_mvcc c = true -> get (kl_key h) m1 = Some (VKeys (map fst (b_kvs b))).
Proof.
  intro Mv. destruct add_shape as [A3 [A4 [V6 [EkA [_ [H3 H4]]]]]].
  rewrite Mv in H4. unfold m1. rewrite EkA.
  replace (A1 ++ A2 ++ A3 ++ A4 ++ A6 ++ (if c_execlocal c then snd (coins_local txs V6) else []))
    with ((A1 ++ A2 ++ A3 ++ A4) ++ (A6 ++ (if c_execlocal c then snd (coins_local txs V6) else [])))
    by (rewrite <- !app_assoc; reflexivity).
  rewrite write_all_app. rewrite get_write_all_untouched.
  - rewrite H4. unfold mvcc_add_list.
    replace (A1 ++ A2 ++ A3 ++ [(hash_key (b_state b), Some (VInt (b_height b))); (ver_key (b_height b), Some (VRaw (b_state b)))]
             ++ map (fun kv => (gkey (fst kv) (b_height b), option_map VRaw (snd kv))) (b_kvs b)
             ++ [(kl_key (b_height b), Some (VKeys (map fst (b_kvs b))))])
      with ((A1 ++ A2 ++ A3 ++ [(hash_key (b_state b), Some (VInt (b_height b))); (ver_key (b_height b), Some (VRaw (b_state b)))]
             ++ map (fun kv => (gkey (fst kv) (b_height b), option_map VRaw (snd kv))) (b_kvs b))
            ++ [(kl_key (b_height b), Some (VKeys (map fst (b_kvs b))))])
      by (rewrite <- !app_assoc; reflexivity).
    apply get_write_all_last, Sm.
  - apply write_all_sorted, Sm.
  - rewrite touches_app. apply orb_false_iff. split.
    + apply others_untouched; [apply A6_others|apply kl_key_not_plain].
    + apply (keys_in_untouched Qcoins); [apply coinsA_keys|reflexivity].
Qed.

Lemma kl_in_RD : c_mvcc c = true -> get (kl_key h) (fst RD) = Some (VKeys (map fst (b_kvs b))).
Proof.
  intro Mv. rewrite RD_view, run_ops_get_other; [apply kl_in_m1, Mv|].
  apply (ops_untouched Qcount); [|reflexivity].
  unfold oD. destruct (c_addrindex c); [apply ai_ops_keys|intros op []].
Qed.

Lemma F1_kD : F1 c b kD.
Proof.
  destruct del_shape as [D4 [EkD H4]]. rewrite EkD.
  repeat apply F1_app.
  - unfold D1. destruct (c_addrfee c) eqn:E; [|apply F1_nil]. apply shape_F1. intros kv I.
    destruct (addrfee_del_shape c h txs E 0 kv I) as [X Y]. split; [exact X|apply tx_keys_block, Y].
  - unfold RD. destruct (c_addrindex c) eqn:E; [|apply F1_nil]. intros kv I P.
    destruct (ai_del_shape c h txs E 0 m1 kv I P) as [X Y]. split; [exact X|apply tx_keys_block, Y].
  - unfold D3, fee_del. destruct (c_fee c) eqn:E; [|apply F1_nil]. apply shape_F1. intros kv [<-|[]].
    split; [reflexivity|]. unfold block_keys. rewrite E. apply in_or_app. right. apply in_or_app. left. left. reflexivity.
  - destruct H4 as [[_ ->]|[Mv [ks [Gk ->]]]]; [apply F1_nil|]. apply shape_F1. intros kv I.
    rewrite (kl_in_RD Mv) in Gk. inversion Gk; subst ks. clear Gk.
    unfold block_keys. rewrite Mv. unfold mvcc_del_list in I. simpl in I.
    destruct I as [<-|[<-|I]].
    + split; [reflexivity|]. do 2 (apply in_or_app; right). left. reflexivity.
    + split; [reflexivity|]. do 2 (apply in_or_app; right). right. left. reflexivity.
    + apply in_map_iff in I as [k0 [<- I]]. split; [reflexivity|].
      do 2 (apply in_or_app; right). right. right.
      apply in_map_iff in I as [kv0 [<- I]]. apply in_map_iff. exists kv0. split; [reflexivity|exact I].
  - unfold D6. destruct (c_txindex c) eqn:E; [|apply F1_nil]. apply shape_F1. intros kv I.
    destruct (txindex_del_shape c h (b_time b) txs E 0 kv I) as [X Y]. split; [exact X|apply tx_keys_block, Y].
  - intros kv I P. exfalso. pose proof (coinsD_keys (fst RD) kv I) as Q.
    rewrite (Qcoins_not_plain _ Q) in P. discriminate.
Qed.

Lemma F2_kA_kD : F2 kA kD.
Proof.
  destruct add_shape as [A3 [A4 [V6 [EkA [_ [H3 H4]]]]]].
  destruct del_shape as [D4 [EkD H4']]. rewrite EkA, EkD.
  repeat apply F2_app.
  - unfold A1, D1. destruct (c_addrfee c); [|apply F2_nil]. apply same_keys_F2, addrfee_same_keys.
  - unfold A2, RD. destruct (c_addrindex c); [|apply F2_nil]. intros kv I P. eapply ai_F2; eassumption.
  - unfold D3, fee_del. destruct H3 as [[_ ->]|[E [v ->]]]; [apply F2_nil|]. rewrite E.
    intros kv [<-|[]] _. left. reflexivity.
  - rewrite H4. destruct H4' as [[Mv ->]|[Mv [ks [Gk ->]]]]; [rewrite Mv; apply F2_nil|].
    rewrite Mv. rewrite (kl_in_RD Mv) in Gk. inversion Gk; subst ks. clear Gk.
    intros kv I P. unfold mvcc_add_list in I. unfold mvcc_del_list. simpl in I. simpl.
    destruct I as [<-|[<-|I]]; [left; reflexivity|right; left; reflexivity|].
    apply in_app_or in I as [I|[<-|[]]].
    + right. right. apply in_map_iff in I as [kv0 [<- I]]. simpl.
      rewrite map_map. apply in_map_iff. exists (fst kv0). split; [reflexivity|]. apply in_map, I.
    + simpl in P. rewrite kl_key_not_plain in P. discriminate.
  - unfold A6, D6. destruct (c_txindex c); [|apply F2_nil]. apply same_keys_F2, txindex_same_keys.
  - intros kv I P. exfalso. pose proof (coinsA_keys V6 kv I) as Q.
    rewrite (Qcoins_not_plain _ Q) in P. discriminate.
Qed.

Lemma plain_restore k : plain k = true -> get k m2 = get k m.
Proof.
  intro P. unfold m2. destruct (touches k kD) eqn:T.
  - assert (I : exists kv, In kv kD /\ fst kv = k).
    { apply touches_In, in_map_iff in T as [kv [E I]]. eauto. }
    destruct I as [kv [I E]]. subst k.
    destruct (F1_kD kv I P) as [_ B]. rewrite (fresh_none c m b _ Fr B).
    apply get_write_all_deleted; [apply S1|exact T|].
    intros kv' I' E'. rewrite <- E' in P. apply (F1_kD kv' I' P).
  - rewrite get_write_all_untouched by (auto using S1).
    unfold m1. apply get_write_all_untouched; [exact Sm|].
    destruct (touches k kA) eqn:TA; [|reflexivity].
    apply touches_In, in_map_iff in TA as [kv [E I]]. subst k.
    pose proof (F2_kA_kD kv I P) as X. apply touches_In in X. congruence.
Qed.

(** ** the address counters come back (whatever the receipts) *)
Lemma count_restore k : Qcount k = true -> cntz m2 k = cntz m k.
Proof.
  intro Q. pose proof (count_after_add k Q) as E1. pose proof (count_after_del k Q) as E2.
  assert (T : op_touch k oD = op_touch k oA).
  { unfold oA, oD. destruct (c_addrindex c); [rewrite ai_ops_neg; apply op_touch_neg|reflexivity]. }
  assert (Sg : op_sum k oD = - op_sum k oA).
  { unfold oA, oD. destruct (c_addrindex c); [rewrite ai_ops_neg; apply op_sum_neg|reflexivity]. }
  rewrite T, Sg in E2. unfold cntz at 1. rewrite E2.
  destruct (op_touch k oA).
  - unfold cntz at 1. rewrite E1. lia.
  - unfold cntz. rewrite E1. reflexivity.
Qed.

(** ** the counters come back *)
Lemma counter_back k (oa od : cops) :
  get k m1 = (if op_touch k oa then Some (VInt (cntz m k + op_sum k oa)) else get k m) ->
  get k m2 = (if op_touch k od then Some (VInt (cntz m1 k + op_sum k od)) else get k m1) ->
  op_touch k od = op_touch k oa -> op_sum k od = - op_sum k oa ->
  is_counter_key k = true ->
  same_obs (get k m2) (get k m) k.
Proof.
  intros E1 E2 T Sg C. rewrite E2, T. destruct (op_touch k oa) eqn:Ta.
  - unfold cntz at 1. rewrite E1, Sg.
    replace (cntz m k + op_sum k oa + - op_sum k oa) with (cntz m k) by lia.
    unfold same_obs, cntz. destruct (m_ctr k C) as [N|[z N]]; rewrite N.
    + unfold keep. simpl. rewrite C. simpl. rewrite andb_false_r. reflexivity.
    + reflexivity.
  - rewrite E1. reflexivity.
Qed.

Lemma del_after_add_obs_id : obs_eq m2 m.
Proof.
  apply obs_eq_by_key; [apply S2|exact Sm|]. intro k.
  destruct (is_prefix P_mkl k) eqn:K.
  { unfold same_obs, keep. destruct (get k m2), (get k m); cbn [fst snd]; rewrite ?K; reflexivity. }
  destruct (is_counter_key k) eqn:C.
  - pose proof C as C'. unfold is_counter_key in C'. apply orb_true_iff in C' as [Q|Q].
    + apply (counter_back k oA oD (count_after_add k Q) (count_after_del k Q)); [| |exact C];
        unfold oA, oD; destruct (c_addrindex c); try reflexivity.
      * rewrite ai_ops_neg. apply op_touch_neg.
      * rewrite ai_ops_neg. apply op_sum_neg.
    + apply (counter_back k cA cD (coins_after_add k Q) (coins_after_del k Q)); [| |exact C];
        unfold cA, cD; destruct (c_execlocal c); try reflexivity.
      * unfold txs. rewrite coins_del_ops_neg, op_touch_neg. apply op_touch_rev.
      * unfold txs. rewrite coins_del_ops_neg, op_sum_neg, op_sum_rev. reflexivity.
  - assert (P : plain k = true) by (unfold plain; rewrite K, C; reflexivity).
    rewrite (plain_restore k P). reflexivity.
Qed.
End Main.
