(** C30 — property theorems only. *)
From Coq Require Import List ZArith NArith Bool.
From C33 Require Import C30.Model C30.Spec C30.Proofs C30.ProofsExpire C30.ProofsRefute.
Import ListNotations.
Open Scope Z_scope.

(** What AddTxsToBlock appends: the units (single transactions / whole groups) of a
    prefix of the pool output, minus the units with a blocked member when the fork is active. *)
Theorem C30_taken_is_unblocked_prefix : forall fork_on maxtx max pool cnt size, exists k,
  add_loop fork_on maxtx max cnt size pool
  = concat (filter (fun u => negb (fork_on && unit_blocked u)) (firstn k (units pool))).
Proof. exact add_loop_char. Qed.
Print Assumptions C30_taken_is_unblocked_prefix.

Theorem C30_count_le : forall e height init_count init_size pool,
  (init_count <=? max_tx_at e height) = true ->
  init_count + Z.of_nat (length (add_txs_to_block e height init_count init_size pool)) <= max_tx_at e height.
Proof. exact atb_count_le. Qed.
Print Assumptions C30_count_le.

Theorem C30_count_le_any_limits : forall fork_on maxtx max pool cnt size,
  (cnt <=? maxtx) = true ->
  cnt + Z.of_nat (length (add_loop fork_on maxtx max cnt size pool)) <= maxtx.
Proof. exact count_le. Qed.
Print Assumptions C30_count_le_any_limits.

Theorem C30_count_over_limit_adds_nothing : forall e height init_count init_size pool,
  (init_count <=? max_tx_at e height) = false ->
  add_txs_to_block e height init_count init_size pool = [].
Proof. exact atb_count_over. Qed.
Print Assumptions C30_count_over_limit_adds_nothing.

Theorem C30_count_le_unguarded_refuted : ~ count_le_unguarded.
Proof. exact count_le_unguarded_refuted. Qed.
Print Assumptions C30_count_le_unguarded_refuted.

Theorem C30_size_le : forall e height init_count init_size pool,
  (init_size <=? max_block_size - size_margin) = true ->
  init_size + sum_sizes (add_txs_to_block e height init_count init_size pool)
  <= max_block_size - size_margin.
Proof. exact atb_size_le. Qed.
Print Assumptions C30_size_le.

Theorem C30_size_le_any_limits : forall fork_on maxtx max pool cnt size,
  add_loop fork_on maxtx max cnt size pool = [] \/
  size + sum_sizes (add_loop fork_on maxtx max cnt size pool) <= max.
Proof. exact add_loop_size. Qed.
Print Assumptions C30_size_le_any_limits.

Theorem C30_size_le_encoded_partial : forall e height init_count init_size pool,
  (0 <=? init_count) && (init_count <=? max_tx_at e height) = true ->
  (0 <=? init_size) && (init_size <=? max_block_size - size_margin) = true ->
  sizes_nonneg pool = true ->
  (5 * max_tx_at e height <=? size_margin) = true ->
  enc_size init_size (add_txs_to_block e height init_count init_size pool) <= max_block_size.
Proof. exact atb_enc_le. Qed.
Print Assumptions C30_size_le_encoded_partial.

Theorem C30_size_le_encoded_unguarded_refuted : ~ enc_le_unguarded.
Proof. exact enc_le_unguarded_refuted. Qed.
Print Assumptions C30_size_le_encoded_unguarded_refuted.

Theorem C30_groups_atomic : forall fork_on maxtx max pool cnt size,
  exists us, subseq us (units pool) /\ add_loop fork_on maxtx max cnt size pool = concat us.
Proof. exact groups_atomic. Qed.
Print Assumptions C30_groups_atomic.

Theorem C30_order_preserved : forall fork_on maxtx max pool cnt size,
  subseq (add_loop fork_on maxtx max cnt size pool) (expanded pool).
Proof. exact order_preserved. Qed.
Print Assumptions C30_order_preserved.

Theorem C30_blocked_skipped : forall fork_on maxtx max pool cnt size,
  fork_on = true ->
  exists us, subseq us (units pool)
    /\ add_loop fork_on maxtx max cnt size pool = concat us
    /\ forall u, In u us -> unit_blocked u = false.
Proof. exact blocked_skipped. Qed.
Print Assumptions C30_blocked_skipped.

Theorem C30_blocked_member_never_taken : forall fork_on maxtx max pool cnt size x,
  fork_on = true -> In x (add_loop fork_on maxtx max cnt size pool) -> i_blocked x = false.
Proof. exact no_blocked_member. Qed.
Print Assumptions C30_blocked_member_never_taken.

Theorem C30_expire_removes_whole_groups : forall e h bt ss,
  forallb wf_seg ss = true ->
  check_tx_expire e h bt (concat ss)
  = Some (concat (filter (fun s => negb (is_expire e h bt s)) ss)).
Proof. exact expire_whole_groups. Qed.
Print Assumptions C30_expire_removes_whole_groups.

Theorem C30_expire_complete_partial : forall e h bt ss,
  forallb wf_seg ss = true -> forallb (forallb plain_hdr) ss = true ->
  check_tx_expire e h bt (concat ss)
  = Some (concat (filter (fun s => negb (existsb (spec_expired e h bt) s)) ss)).
Proof. exact expire_whole_groups_spec. Qed.
Print Assumptions C30_expire_complete_partial.

Theorem C30_expire_subseq : forall e h bt l out,
  check_tx_expire e h bt l = Some out -> subseq out l.
Proof. exact expire_subseq. Qed.
Print Assumptions C30_expire_subseq.

Theorem C30_expire_fuel_enough : forall e h bt l, cte_loop (length l) e h bt l <> CteFuel.
Proof. exact expire_no_fuel. Qed.
Print Assumptions C30_expire_fuel_enough.

Theorem C30_expire_trailing_group_refuted : ~ expire_complete_full.
Proof. exact expire_complete_refuted. Qed.
Print Assumptions C30_expire_trailing_group_refuted.

Theorem C30_expire_parsable_header_refuted : ~ expire_complete_wf_full.
Proof. exact expire_parsable_header_refuted. Qed.
Print Assumptions C30_expire_parsable_header_refuted.

Theorem C30_expire_negative_groupcount_refuted : ~ expire_total_full.
Proof. exact expire_total_refuted. Qed.
Print Assumptions C30_expire_negative_groupcount_refuted.
