(** C30 — the abstract spec: what the property text demands of a produced block,
    as definitions (for the theorems) and as executable oracles that are run on
    the implementation's own outputs. *)
From Coq Require Import List ZArith NArith Bool.
From C33 Require Import Lib.Harness C30.Model.
Import ListNotations.
Open Scope Z_scope.

(** ** Subsequences *)
Inductive subseq {A : Type} : list A -> list A -> Prop :=
| ss_nil : subseq [] []
| ss_skip x l1 l2 : subseq l1 l2 -> subseq l1 (x :: l2)
| ss_take x l1 l2 : subseq l1 l2 -> subseq (x :: l1) (x :: l2).

(** ** Units of a pool output: what may enter a block only as a whole *)

(** A pool entry is a single transaction, a decodable group (all its members),
    or nothing that can be included (GetTxGroup fails). *)
Definition unit_of (t : tx) : list (list itx) :=
  match get_tx_group t with
  | GErr => []
  | GNone => [[t_in t]]
  | GSome l => [l]
  end.

Definition units (pool : list tx) : list (list itx) := flat_map unit_of pool.

(** the expanded input *)
Definition expanded (pool : list tx) : list itx := concat (units pool).

Definition unit_blocked (u : list itx) : bool := existsb i_blocked u.

Definition sizes_nonneg (pool : list tx) : bool :=
  forallb (fun x => 0 <=? i_size x) (expanded pool).

(** ** Expiry, spec level: the transaction's own Expire field against the
    height / block time (nothing expires at height 0 or block time 0). *)
Definition spec_expired (e : env) (h bt : Z) (t : tx) : bool :=
  (h >? 0) && (bt >? 0) && itx_expired e h bt (t_in t).

(** A segment of an expanded transaction list: one plain transaction
    (GroupCount 0) or a complete group whose head carries the group length. *)
Definition wf_seg (s : list tx) : bool :=
  match s with
  | [] => false
  | t :: tl =>
      ((i_gc (t_in t) =? 0) && match tl with [] => true | _ => false end)
      || (i_gc (t_in t) =? Z.of_nat (length s))
  end.

(** ** Executable oracles on implementation outputs (lists of ids) *)

Fixpoint strip_prefix (p out : list N) : option (list N) :=
  match p with
  | [] => Some out
  | a :: p' =>
      match out with
      | b :: out' => if N.eqb a b then strip_prefix p' out' else None
      | [] => None
      end
  end.

(** Greedy decomposition of [out] into whole units taken in order; the flags
    say which units were taken.  (Ids are distinct in generated cases, so greedy
    is complete.) *)
Fixpoint greedy {A : Type} (ids : A -> list N) (us : list A) (out : list N) : option (list bool) :=
  match us with
  | [] => match out with [] => Some [] | _ => None end
  | u :: tl =>
      match ids u with
      | [] => option_map (cons false) (greedy ids tl out)
      | _ :: _ =>
          match strip_prefix (ids u) out with
          | Some out' => option_map (cons true) (greedy ids tl out')
          | None => option_map (cons false) (greedy ids tl out)
          end
      end
  end.

Fixpoint select {A : Type} (us : list A) (fl : list bool) : list A :=
  match us, fl with
  | u :: us', true :: fl' => u :: select us' fl'
  | _ :: us', false :: fl' => select us' fl'
  | _, _ => []
  end.

Fixpoint reject {A : Type} (us : list A) (fl : list bool) : list A :=
  match us, fl with
  | u :: us', false :: fl' => u :: reject us' fl'
  | _ :: us', true :: fl' => reject us' fl'
  | _, _ => []
  end.

Definition ids_eqb : list N -> list N -> bool := list_eqb N.eqb.

(** Result of the AddTxsToBlock oracle: every clause separately. *)
Record add_verdict := mk_av {
  av_shape   : bool;  (* block = initial ++ returned; returned = whole units in pool order *)
  av_count   : bool;  (* count limit *)
  av_sum     : bool;  (* sum of sizes + initial size <= MaxBlockSize - margin *)
  av_enc     : bool;  (* real encoded block size <= MaxBlockSize *)
  av_blocked : bool   (* no unit with a blocked member once the fork is active *)
}.

Definition add_oracle (maxtx : Z) (fork_on : bool) (init_count init_size : Z) (pool : list tx)
    (init_ids impl_block impl_ret : list N) (impl_size : Z) : add_verdict :=
  let bound := max_block_size - size_margin in
  match strip_prefix init_ids impl_block with
  | None => mk_av false false false false false
  | Some app =>
      match greedy (map i_id) (units pool) app with
      | None => mk_av false false false false false
      | Some fl =>
          let chosen := select (units pool) fl in
          mk_av (ids_eqb app impl_ret)
                (if init_count <=? maxtx then init_count + Z.of_nat (length app) <=? maxtx
                 else match app with [] => true | _ => false end)
                (if init_size <=? bound then init_size + sum_sizes (concat chosen) <=? bound
                 else match app with [] => true | _ => false end)
                (if init_size <=? bound then impl_size <=? max_block_size else true)
                (if fork_on then forallb (fun u => negb (unit_blocked u)) chosen else true)
      end
  end.

(** CheckTxExpire oracle on ground-truth segments. *)
Record exp_verdict := mk_ev {
  ev_nopanic : bool;
  ev_shape   : bool;  (* output = whole segments, in order *)
  ev_dropped : bool;  (* no kept segment contains an expired transaction *)
  ev_kept    : bool   (* every dropped segment contains an expired transaction *)
}.

Definition tx_ids (s : list tx) : list N := map (fun t => i_id (t_in t)) s.

Definition exp_oracle (e : env) (h bt : Z) (segs : list (list tx)) (impl : option (list N)) : exp_verdict :=
  match impl with
  | None => mk_ev false true true true
  | Some out =>
      match greedy tx_ids segs out with
      | None => mk_ev true false false false
      | Some fl =>
          mk_ev true true
            (forallb (fun s => negb (existsb (spec_expired e h bt) s)) (select segs fl))
            (forallb (fun s => existsb (spec_expired e h bt) s) (reject segs fl))
      end
  end.
