(** C30 — instances for [add_txs_to_block], refutation witnesses, non-vacuity examples. *)
From Coq Require Import List ZArith NArith Bool Lia.
From C33 Require Import Lib.Harness C30.Model C30.Spec C30.Proofs C30.ProofsExpire.
Import ListNotations.
Open Scope Z_scope.

(** ** instances *)

Lemma atb_count_le e height ic isz pool :
  (ic <=? max_tx_at e height) = true ->
  ic + Z.of_nat (length (add_txs_to_block e height ic isz pool)) <= max_tx_at e height.
Proof. apply count_le. Qed.

Lemma atb_count_over e height ic isz pool :
  (ic <=? max_tx_at e height) = false -> add_txs_to_block e height ic isz pool = [].
Proof. apply count_over_nothing. Qed.

Lemma atb_size_le e height ic isz pool :
  (isz <=? max_block_size - size_margin) = true ->
  isz + sum_sizes (add_txs_to_block e height ic isz pool) <= max_block_size - size_margin.
Proof. apply size_le. Qed.

Lemma atb_enc_le e height ic isz pool :
  (0 <=? ic) && (ic <=? max_tx_at e height) = true ->
  (0 <=? isz) && (isz <=? max_block_size - size_margin) = true ->
  sizes_nonneg pool = true ->
  (5 * max_tx_at e height <=? size_margin) = true ->
  enc_size isz (add_txs_to_block e height ic isz pool) <= max_block_size.
Proof.
  intros Hc Hs Hn Hg. apply andb_true_iff in Hc as [Hc0 Hc]. apply andb_true_iff in Hs as [Hs0 Hs].
  apply Z.leb_le in Hc0, Hs0.
  pose proof (enc_le (is_fork height (e_blfork e)) (max_tx_at e height) (max_block_size - size_margin)
                size_margin pool ic isz Hc0 Hc Hs0 Hs) as E.
  unfold add_txs_to_block.
  assert (max_block_size - size_margin < 268435456) as Hm by (unfold max_block_size, size_margin; lia).
  specialize (E Hm Hn Hg). lia.
Qed.

(** ** refutations (unguarded statements) *)

Definition env0 (maxtx : Z) : env := mk_env maxtx [] 0 false true 0 200 600.

Definition plain (id : N) (size : Z) : tx := mk_tx (mk_itx id size 0 false 0) false HNil.

(** an initial block already over the count limit stays over it *)
Definition count_le_unguarded : Prop :=
  forall e height ic isz pool,
    ic + Z.of_nat (length (add_txs_to_block e height ic isz pool)) <= max_tx_at e height.

Lemma count_le_unguarded_refuted : ~ count_le_unguarded.
Proof. intros H. specialize (H (env0 3) 1 5 100 [plain 1%N 10]). vm_compute in H. apply H. reflexivity. Qed.

(** without the guard 5*MaxTxNumber <= 100000 the encoded block can exceed MaxBlockSize *)
Definition enc_le_unguarded : Prop :=
  forall e height ic isz pool,
    (0 <=? ic) && (ic <=? max_tx_at e height) = true ->
    (0 <=? isz) && (isz <=? max_block_size - size_margin) = true ->
    sizes_nonneg pool = true ->
    enc_size isz (add_txs_to_block e height ic isz pool) <= max_block_size.

Definition many (t : tx) (n : positive) : list tx := Pos.iter (fun acc => t :: acc) [] n.

Definition enc_witness_pool : list tx := many (plain 1%N 497) 40000.

Lemma enc_witness :
  ((0 <=? 0) && (0 <=? max_tx_at (env0 40000) 3))
  && ((0 <=? 2) && (2 <=? max_block_size - size_margin))
  && sizes_nonneg enc_witness_pool
  && (max_block_size <? enc_size 2 (add_txs_to_block (env0 40000) 3 0 2 enc_witness_pool)) = true.
Proof. vm_compute. reflexivity. Qed.

Lemma enc_le_unguarded_refuted : ~ enc_le_unguarded.
Proof.
  intros H. pose proof enc_witness as W.
  apply andb_true_iff in W as [W W4]. apply andb_true_iff in W as [W W3]. apply andb_true_iff in W as [W1 W2].
  specialize (H (env0 40000) 3 0 2 enc_witness_pool W1 W2 W3).
  apply Z.ltb_lt in W4. apply (Z.lt_irrefl max_block_size). eapply Z.lt_le_trans; [exact W4|exact H].
Qed.

(** CheckTxExpire: expired members of a trailing group that runs past the end stay *)
Definition expire_complete_full : Prop :=
  forall e h bt l out, check_tx_expire e h bt l = Some out ->
    forall t, In t out -> spec_expired e h bt t = false.

Definition gtx (id : N) (gc exp : Z) (hd : hdr) : tx := mk_tx (mk_itx id 10 gc false exp) true hd.

Lemma expire_complete_refuted : ~ expire_complete_full.
Proof.
  intros H.
  specialize (H (env0 10) 10 10 [gtx 1%N 3 5 HBad] [gtx 1%N 3 5 HBad] eq_refl (gtx 1%N 3 5 HBad) (or_introl eq_refl)).
  vm_compute in H. discriminate.
Qed.

(** ... and on well-formed input, expired members whose Header parses as protobuf stay *)
Definition expire_complete_wf_full : Prop :=
  forall e h bt ss, forallb wf_seg ss = true ->
    check_tx_expire e h bt (concat ss)
    = Some (concat (filter (fun s => negb (existsb (spec_expired e h bt) s)) ss)).

Lemma expire_parsable_header_refuted : ~ expire_complete_wf_full.
Proof.
  intros H.
  specialize (H (env0 10) 1000 1000 [[gtx 1%N 2 999 (HTxs []); gtx 2%N 2 0 (HTxs [])]] eq_refl).
  vm_compute in H. discriminate.
Qed.

(** negative GroupCount panics *)
Definition expire_total_full : Prop := forall e h bt l, check_tx_expire e h bt l <> None.

Lemma expire_total_refuted : ~ expire_total_full.
Proof. intros H. apply (H (env0 10) 10 10 [gtx 1%N (-1) 0 HNil]). reflexivity. Qed.

(** ** non-vacuity *)

Definition grp2 (a b : N) (sa sb : Z) (blk : bool) : tx :=
  mk_tx (mk_itx a sa 2 false 0) true
        (HTxs [mk_itx a sa 2 false 0; mk_itx b sb 2 blk 0]).

(** a group straddling the count limit is left out as a whole, and ends the block *)
Example ex_count_straddle :
  map i_id (add_txs_to_block (env0 3) 1 0 2 [plain 1%N 10; plain 2%N 10; grp2 3%N 4%N 10 10 false; plain 5%N 10])
  = [1%N; 2%N].
Proof. reflexivity. Qed.

(** the limits are reached exactly *)
Example ex_count_exact :
  map i_id (add_txs_to_block (env0 4) 1 0 2 [plain 1%N 10; plain 2%N 10; grp2 3%N 4%N 10 10 false; plain 5%N 10])
  = [1%N; 2%N; 3%N; 4%N].
Proof. reflexivity. Qed.

Example ex_size_exact :
  map i_id (add_txs_to_block (env0 100) 1 0 19899970 [plain 1%N 10; grp2 2%N 3%N 10 10 false; plain 4%N 1]) = [1%N; 2%N; 3%N]
  /\ map i_id (add_txs_to_block (env0 100) 1 0 19899971 [plain 1%N 10; grp2 2%N 3%N 10 10 false; plain 4%N 1]) = [1%N].
Proof. split; reflexivity. Qed.

(** blocked member: whole group skipped, later entries still taken (fork active); taken before the fork *)
Example ex_blocked :
  map i_id (add_txs_to_block (mk_env 10 [] 5 false true 0 200 600) 5 0 2 [grp2 1%N 2%N 10 10 true; plain 3%N 10]) = [3%N]
  /\ map i_id (add_txs_to_block (mk_env 10 [] 5 false true 0 200 600) 4 0 2 [grp2 1%N 2%N 10 10 true; plain 3%N 10]) = [1%N; 2%N; 3%N].
Proof. split; reflexivity. Qed.

(** the guards of the encoded-size theorem are satisfiable by a non-trivial state *)
Example ex_enc_guard :
  let e := env0 10000 in
  let pool := [plain 1%N 300; grp2 2%N 3%N 200 100 false] in
  (0 <=? 1) && (1 <=? max_tx_at e 7) = true /\
  (0 <=? 19899000) && (19899000 <=? max_block_size - size_margin) = true /\
  sizes_nonneg pool = true /\ (5 * max_tx_at e 7 <=? size_margin) = true /\
  length (add_txs_to_block e 7 1 19899000 pool) = 3%nat.
Proof. repeat split; reflexivity. Qed.

(** MaxTxNumber by height *)
Example ex_max_tx_at :
  let e := mk_env 3 [(10, 5); (20, 7)] 0 false true 0 200 600 in
  map (max_tx_at e) [0; 9; 10; 19; 20; 21] = [3; 3; 5; 5; 7; 7].
Proof. reflexivity. Qed.

(** expiry: a well-formed list; the expired group goes as a whole, the rest stays in order *)
Example ex_expire :
  let ss := [[mk_tx (mk_itx 1%N 10 0 false 0) false HNil];
             [gtx 2%N 2 0 HBad; gtx 3%N 2 999 HBad];
             [gtx 4%N 2 0 HBad; gtx 5%N 2 1001 HBad];
             [mk_tx (mk_itx 6%N 10 0 false 1000) false HNil]] in
  forallb wf_seg ss = true /\ forallb (forallb plain_hdr) ss = true /\
  option_map tx_ids (check_tx_expire (env0 10) 1000 1600000000 (concat ss)) = Some [1%N; 4%N; 5%N].
Proof. repeat split; reflexivity. Qed.
