(** C30 — executable model of block assembly in system/consensus/base.go
    ([AddTxsToBlock], [CheckTxExpire], [isExpire]) together with the helpers it
    calls: [Transaction.GetTxGroup], [Transaction.IsExpire]/[isExpire],
    [Transactions.IsExpire] (types/tx.go), the fork gate of
    [CheckTxBlockedAccount] (types/account_blacklist.go, types/fork.go [IsFork]),
    and [Chain33Config.GetP(h).MaxTxNumber] (types/config.go, config_mver.go).

    Transactions are abstract records.  What the code reads of a transaction:
    its protobuf [Size()], [GroupCount], [Expire], whether [Header]/[Next] are
    set and what [Header] decodes to, and whether the blacklist core check hits
    it.  Those are the fields below.  No proofs in this file. *)
From Coq Require Import List ZArith NArith Bool.
Import ListNotations.
Open Scope Z_scope.

(** ** Transactions *)

(** The part of a transaction that exists for every transaction (also for the
    members obtained by decoding a group header). *)
Record itx := mk_itx {
  i_id      : N;     (* label (the harness uses the Nonce field) *)
  i_size    : Z;     (* types.Size(tx) *)
  i_gc      : Z;     (* GroupCount (int32) *)
  i_blocked : bool;  (* checkTxBlockedAccountCore(tx) != nil *)
  i_expire  : Z      (* Expire *)
}.

(** [Header]: nil, bytes that [types.Decode(.., &Transactions{})] rejects, or
    bytes (possibly empty, non-nil) decoding to the given members. *)
Inductive hdr := HNil | HBad | HTxs (l : list itx).

Record tx := mk_tx {
  t_in   : itx;
  t_next : bool;   (* Next != nil *)
  t_hdr  : hdr
}.

Definition hdr_is_nil (h : hdr) : bool :=
  match h with HNil => true | _ => false end.

(** [Transaction.GetTxGroup]: error / (nil,nil) / a group. *)
Inductive grp := GErr | GNone | GSome (l : list itx).

Definition get_tx_group (t : tx) : grp :=
  let gc := i_gc (t_in t) in
  if (gc <? 0) || (gc =? 1) || (gc >? 20) then GErr
  else if gc >? 0 then
    match t_hdr t with
    | HNil => GSome []          (* Decode(nil) succeeds with an empty message *)
    | HBad => GErr
    | HTxs l => GSome l
    end
  else if t_next t || negb (hdr_is_nil (t_hdr t)) then GErr
  else GNone.

(** ** Configuration *)

Record env := mk_env {
  e_base    : Z;             (* mver.consensus.maxTxNumber *)
  e_vers    : list (Z * Z);  (* (fork height, mver.consensus.<Fork>.maxTxNumber), in fork-name order *)
  e_blfork  : Z;             (* height of ForkAccountBlacklist *)
  e_para    : bool;          (* cfg.IsPara() *)
  e_txh_on  : bool;          (* cfg.IsEnable("TxHeight") *)
  e_txhfork : Z;             (* height of ForkTxHeight *)
  e_low     : Z;             (* types.LowAllowPackHeight *)
  e_high    : Z              (* types.HighAllowPackHeight *)
}.

Definition max_block_size : Z := 20000000.   (* types.MaxBlockSize *)
Definition size_margin    : Z := 100000.     (* the literal in AddTxsToBlock *)
Definition expire_bound   : Z := 1000000000. (* types.ExpireBound *)
Definition tx_height_flag : Z := 4611686018427387904. (* 1 << 62 *)

(** [Forks.IsFork] *)
Definition is_fork (h f : Z) : bool := (h =? -1) || (f <=? h).

(** [versionList.GetForkName] + [mversion.Get]: the entry with the greatest fork
    height <= h (on equal fork heights the later fork name wins, as [addItem]
    replaces "in alphabetical order"); without such an entry the base key. *)
Fixpoint lookup_ver (vers : list (Z * Z)) (h : Z) (best : option (Z * Z)) : option (Z * Z) :=
  match vers with
  | [] => best
  | (f, v) :: tl =>
      if f <=? h then
        match best with
        | Some (bf, _) => if bf <=? f then lookup_ver tl h (Some (f, v)) else lookup_ver tl h best
        | None => lookup_ver tl h (Some (f, v))
        end
      else lookup_ver tl h best
  end.

(** [cfg.GetP(height).MaxTxNumber] *)
Definition max_tx_at (e : env) (h : Z) : Z :=
  match lookup_ver (e_vers e) h None with
  | Some (_, v) => v
  | None => e_base e
  end.

(** ** AddTxsToBlock *)

Definition sum_sizes (l : list itx) : Z := fold_right (fun x a => i_size x + a) 0 l.

(** The loop.  [cnt] = currentCount, [size] = size; the result is [addedTx]
    (and [block.Txs] = initial transactions ++ result).  [return addedTx] in
    the loop body = [[]] here (nothing more is added). *)
Fixpoint add_loop (fork_on : bool) (maxtx max : Z) (cnt size : Z) (pool : list tx) : list itx :=
  match pool with
  | [] => []
  | t :: rest =>
      match get_tx_group t with
      | GErr => add_loop fork_on maxtx max cnt size rest
      | GNone =>
          if fork_on && i_blocked (t_in t) then add_loop fork_on maxtx max cnt size rest
          else
            let cnt' := cnt + 1 in
            if cnt' >? maxtx then []
            else
              let size' := size + i_size (t_in t) in
              if size' >? max then []
              else t_in t :: add_loop fork_on maxtx max cnt' size' rest
      | GSome l =>
          if fork_on && existsb i_blocked l then add_loop fork_on maxtx max cnt size rest
          else
            let cnt' := cnt + Z.of_nat (length l) in
            if cnt' >? maxtx then []
            else
              let size' := size + sum_sizes l in
              if size' >? max then []
              else l ++ add_loop fork_on maxtx max cnt' size' rest
      end
  end.

(** [bc.AddTxsToBlock(block, txs)] for a block at [height] that already holds
    [init_count] transactions and has [block.Size() = init_size]. *)
Definition add_txs_to_block (e : env) (height init_count init_size : Z) (pool : list tx) : list itx :=
  add_loop (is_fork height (e_blfork e)) (max_tx_at e height)
           (max_block_size - size_margin) init_count init_size pool.

(** Protobuf framing of one entry of the repeated field [txs = 7]: one tag byte
    and the varint length. *)
Definition varint_len (n : Z) : Z :=
  if n <? 128 then 1 else if n <? 16384 then 2 else if n <? 2097152 then 3
  else if n <? 268435456 then 4 else 5.

Definition frame (sz : Z) : Z := 1 + varint_len sz.

(** [block.Size()] after appending [added] to a block of size [init_size]. *)
Definition enc_size (init_size : Z) (added : list itx) : Z :=
  init_size + fold_right (fun x a => frame (i_size x) + i_size x + a) 0 added.

(** ** Expiry *)

(** [types.GetTxHeight] *)
Definition get_tx_height (e : env) (valid h : Z) : Z :=
  if e_para e then -1
  else if (e_txh_on e && is_fork h (e_txhfork e)) && (valid >? tx_height_flag)
       then valid - tx_height_flag
       else -1.

(** [Transaction.isExpire] *)
Definition itx_expired (e : env) (h bt : Z) (x : itx) : bool :=
  let valid := i_expire x in
  if valid =? 0 then false
  else if valid <=? expire_bound then valid <=? h
  else
    let th := get_tx_height e valid h in
    if th >? 0 then negb ((th - e_low e <=? h) && (h <=? th + e_high e))
    else valid <=? bt.

(** [Transaction.IsExpire]: a decodable header makes it the group's answer. *)
Definition tx_expired (e : env) (h bt : Z) (t : tx) : bool :=
  match get_tx_group t with
  | GSome l => existsb (itx_expired e h bt) l
  | _ => itx_expired e h bt (t_in t)
  end.

(** [isExpire(cfg, txs, height, blocktime)] of base.go *)
Definition is_expire (e : env) (h bt : Z) (l : list tx) : bool :=
  existsb (fun t => (h >? 0) && (bt >? 0) && tx_expired e h bt t) l.

(** [CheckTxExpire].  The marking loop yields for every position [Some t]
    (kept) or [None] (set to nil); a negative GroupCount makes the slice
    expression [txs[i:i+groupCount]] panic. *)
Inductive cte_res := CtePanic | CteFuel | CteOk (l : list (option tx)).

Definition cte_cons (pre : list (option tx)) (r : cte_res) : cte_res :=
  match r with CteOk l => CteOk (pre ++ l) | other => other end.

Fixpoint cte_loop (fuel : nat) (e : env) (h bt : Z) (l : list tx) : cte_res :=
  match l with
  | [] => CteOk []
  | t :: rest =>
      match fuel with
      | O => CteFuel
      | S fuel' =>
          let gc := i_gc (t_in t) in
          if gc =? 0 then
            cte_cons [if is_expire e h bt [t] then None else Some t] (cte_loop fuel' e h bt rest)
          else if Z.of_nat (length l) <? gc then
            cte_cons [Some t] (cte_loop fuel' e h bt rest)
          else if gc <? 0 then CtePanic
          else
            let n := Z.to_nat gc in
            let g := firstn n l in
            cte_cons (if is_expire e h bt g then map (fun _ => None) g else map Some g)
                     (cte_loop fuel' e h bt (skipn n l))
      end
  end.

Fixpoint compact (l : list (option tx)) : list tx :=
  match l with
  | [] => []
  | Some t :: tl => t :: compact tl
  | None :: tl => compact tl
  end.

(** [bc.CheckTxExpire(txs, height, blocktime)]: [None] = panic. *)
Definition check_tx_expire (e : env) (h bt : Z) (l : list tx) : option (list tx) :=
  match cte_loop (length l) e h bt l with
  | CteOk m => Some (compact m)
  | _ => None
  end.
