(** C30 — proofs about AddTxsToBlock (Model.add_loop). *)
From Coq Require Import List ZArith NArith Bool Lia.
From C33 Require Import Lib.Harness C30.Model C30.Spec.
Import ListNotations.
Open Scope Z_scope.

(** ** subsequences *)

Lemma subseq_refl {A} (l : list A) : subseq l l.
Proof. induction l; [apply ss_nil|apply ss_take; assumption]. Qed.

Lemma subseq_nil_l {A} (l : list A) : subseq [] l.
Proof. induction l; [apply ss_nil|apply ss_skip; assumption]. Qed.

Lemma subseq_trans {A} (a b c : list A) : subseq a b -> subseq b c -> subseq a c.
Proof.
  intros Hab Hbc. revert a Hab.
  induction Hbc as [|x l1 l2 H IH|x l1 l2 H IH]; intros a Hab.
  - exact Hab.
  - apply ss_skip. apply IH. exact Hab.
  - inversion Hab; subst.
    + apply ss_skip. apply IH. assumption.
    + apply ss_take. apply IH. assumption.
Qed.

Lemma subseq_filter {A} (f : A -> bool) (l : list A) : subseq (filter f l) l.
Proof.
  induction l as [|x l IH]; simpl.
  - apply ss_nil.
  - destruct (f x); [apply ss_take|apply ss_skip]; exact IH.
Qed.

Lemma subseq_firstn {A} (k : nat) (l : list A) : subseq (firstn k l) l.
Proof.
  revert l. induction k as [|k IH]; intros l; simpl.
  - apply subseq_nil_l.
  - destruct l as [|x l]; [apply ss_nil|]. apply ss_take. apply IH.
Qed.

Lemma subseq_app_skip {A} (p a b : list A) : subseq a b -> subseq a (p ++ b).
Proof. induction p; simpl; intros H; [exact H|]. apply ss_skip. auto. Qed.

Lemma subseq_app_take {A} (p a b : list A) : subseq a b -> subseq (p ++ a) (p ++ b).
Proof. induction p; simpl; intros H; [exact H|]. apply ss_take. auto. Qed.

Lemma subseq_concat {A} (a b : list (list A)) : subseq a b -> subseq (concat a) (concat b).
Proof.
  induction 1; simpl.
  - apply ss_nil.
  - apply subseq_app_skip. assumption.
  - apply subseq_app_take. assumption.
Qed.

Lemma subseq_In {A} (a b : list A) x : subseq a b -> In x a -> In x b.
Proof.
  induction 1; simpl; intros Hin; auto.
  destruct Hin; auto.
Qed.

Lemma subseq_length {A} (a b : list A) : subseq a b -> (length a <= length b)%nat.
Proof. induction 1; simpl; lia. Qed.

(** ** sums *)

Lemma sum_sizes_app a b : sum_sizes (a ++ b) = sum_sizes a + sum_sizes b.
Proof. induction a; simpl; [reflexivity|]. unfold sum_sizes in *. simpl. lia. Qed.

Lemma sum_sizes_cons x l : sum_sizes (x :: l) = i_size x + sum_sizes l.
Proof. reflexivity. Qed.

(** ** what is taken: the unblocked units of a prefix of the pool *)

Definition keep_unit (fork_on : bool) (u : list itx) : bool := negb (fork_on && unit_blocked u).

Lemma units_cons t rest : units (t :: rest) = unit_of t ++ units rest.
Proof. reflexivity. Qed.

Lemma add_loop_char fork_on maxtx max pool : forall cnt size, exists k,
  add_loop fork_on maxtx max cnt size pool
  = concat (filter (keep_unit fork_on) (firstn k (units pool))).
Proof.
  induction pool as [|t rest IH]; intros cnt size.
  - exists O. reflexivity.
  - cbn [add_loop]. rewrite units_cons. unfold unit_of.
    destruct (get_tx_group t) as [| |l] eqn:G.
    + destruct (IH cnt size) as [k Hk]. exists k. exact Hk.
    + destruct (fork_on && i_blocked (t_in t)) eqn:B.
      * destruct (IH cnt size) as [k Hk]. exists (S k). cbn [app firstn filter].
        unfold keep_unit at 1, unit_blocked. cbn [existsb]. rewrite orb_false_r, B. exact Hk.
      * destruct (cnt + 1 >? maxtx); [exists O; reflexivity|].
        destruct (size + i_size (t_in t) >? max); [exists O; reflexivity|].
        destruct (IH (cnt + 1) (size + i_size (t_in t))) as [k Hk]. exists (S k).
        cbn [app firstn filter]. unfold keep_unit at 1, unit_blocked. cbn [existsb].
        rewrite orb_false_r, B. cbn [negb concat app]. rewrite Hk. reflexivity.
    + destruct (fork_on && existsb i_blocked l) eqn:B.
      * destruct (IH cnt size) as [k Hk]. exists (S k). cbn [app firstn filter].
        unfold keep_unit at 1, unit_blocked. rewrite B. exact Hk.
      * destruct (cnt + Z.of_nat (length l) >? maxtx); [exists O; reflexivity|].
        destruct (size + sum_sizes l >? max); [exists O; reflexivity|].
        destruct (IH (cnt + Z.of_nat (length l)) (size + sum_sizes l)) as [k Hk]. exists (S k).
        cbn [app firstn filter]. unfold keep_unit at 1, unit_blocked. rewrite B.
        cbn [negb concat]. rewrite Hk. reflexivity.
Qed.

(** ** count and size *)

Lemma add_loop_count fork_on maxtx max pool : forall cnt size,
  let added := add_loop fork_on maxtx max cnt size pool in
  added = [] \/ cnt + Z.of_nat (length added) <= maxtx.
Proof.
  induction pool as [|t rest IH]; intros cnt size; cbn zeta.
  - left. reflexivity.
  - cbn [add_loop].
    destruct (get_tx_group t) as [| |l] eqn:G.
    + apply IH.
    + destruct (fork_on && i_blocked (t_in t)); [apply IH|].
      destruct (cnt + 1 >? maxtx) eqn:C; [left; reflexivity|].
      destruct (size + i_size (t_in t) >? max); [left; reflexivity|].
      right. cbn [length]. destruct (IH (cnt + 1) (size + i_size (t_in t))) as [E|E].
      * cbn zeta in E. rewrite E. cbn [length]. lia.
      * cbn zeta in E. lia.
    + destruct (fork_on && existsb i_blocked l); [apply IH|].
      destruct (cnt + Z.of_nat (length l) >? maxtx) eqn:C; [left; reflexivity|].
      destruct (size + sum_sizes l >? max); [left; reflexivity|].
      right. rewrite app_length.
      destruct (IH (cnt + Z.of_nat (length l)) (size + sum_sizes l)) as [E|E].
      * cbn zeta in E. rewrite E. cbn [length]. lia.
      * cbn zeta in E. lia.
Qed.

Lemma add_loop_size fork_on maxtx max pool : forall cnt size,
  let added := add_loop fork_on maxtx max cnt size pool in
  added = [] \/ size + sum_sizes added <= max.
Proof.
  induction pool as [|t rest IH]; intros cnt size; cbn zeta.
  - left. reflexivity.
  - cbn [add_loop].
    destruct (get_tx_group t) as [| |l] eqn:G.
    + apply IH.
    + destruct (fork_on && i_blocked (t_in t)); [apply IH|].
      destruct (cnt + 1 >? maxtx); [left; reflexivity|].
      destruct (size + i_size (t_in t) >? max) eqn:C; [left; reflexivity|].
      right. rewrite sum_sizes_cons.
      destruct (IH (cnt + 1) (size + i_size (t_in t))) as [E|E]; cbn zeta in E.
      * rewrite E. cbn. lia.
      * lia.
    + destruct (fork_on && existsb i_blocked l); [apply IH|].
      destruct (cnt + Z.of_nat (length l) >? maxtx); [left; reflexivity|].
      destruct (size + sum_sizes l >? max) eqn:C; [left; reflexivity|].
      right. rewrite sum_sizes_app.
      destruct (IH (cnt + Z.of_nat (length l)) (size + sum_sizes l)) as [E|E]; cbn zeta in E.
      * rewrite E. cbn. lia.
      * lia.
Qed.

Lemma count_le fork_on maxtx max pool cnt size :
  (cnt <=? maxtx) = true ->
  cnt + Z.of_nat (length (add_loop fork_on maxtx max cnt size pool)) <= maxtx.
Proof.
  intros H. destruct (add_loop_count fork_on maxtx max pool cnt size) as [E|E]; cbn zeta in E.
  - rewrite E. cbn. lia.
  - exact E.
Qed.

Lemma count_over_nothing fork_on maxtx max pool cnt size :
  (cnt <=? maxtx) = false -> add_loop fork_on maxtx max cnt size pool = [].
Proof.
  intros H. destruct (add_loop_count fork_on maxtx max pool cnt size) as [E|E]; cbn zeta in E.
  - exact E.
  - destruct (add_loop fork_on maxtx max cnt size pool); [reflexivity|]. cbn [length] in E. lia.
Qed.

Lemma size_le fork_on maxtx max pool cnt size :
  (size <=? max) = true ->
  size + sum_sizes (add_loop fork_on maxtx max cnt size pool) <= max.
Proof.
  intros H. destruct (add_loop_size fork_on maxtx max pool cnt size) as [E|E]; cbn zeta in E.
  - rewrite E. cbn. lia.
  - exact E.
Qed.

(** an over-full initial block: nothing (non-empty) is added as long as sizes are not negative *)
Lemma In_expanded_cons x t rest : In x (expanded rest) -> In x (expanded (t :: rest)).
Proof. unfold expanded. rewrite units_cons, concat_app. intros H. apply in_or_app. right. exact H. Qed.

Lemma added_in_expanded fork_on maxtx max pool cnt size x :
  In x (add_loop fork_on maxtx max cnt size pool) -> In x (expanded pool).
Proof.
  destruct (add_loop_char fork_on maxtx max pool cnt size) as [k Hk]. rewrite Hk.
  intros H. unfold expanded.
  eapply subseq_In; [|exact H]. apply subseq_concat.
  eapply subseq_trans; [apply subseq_filter|apply subseq_firstn].
Qed.

(** ** encoded size *)

Definition frames (l : list itx) : Z := fold_right (fun x a => frame (i_size x) + a) 0 l.

Lemma enc_size_split init l : enc_size init l = init + sum_sizes l + frames l.
Proof.
  unfold enc_size, sum_sizes, frames. induction l as [|x l IH]; simpl; [lia|].
  lia.
Qed.

Lemma frame_le5 s : 0 <= s < 268435456 -> frame s <= 5.
Proof.
  intros H. unfold frame, varint_len.
  destruct (s <? 128); [lia|]. destruct (s <? 16384); [lia|]. destruct (s <? 2097152); [lia|].
  destruct (s <? 268435456) eqn:E; [lia|]. apply Z.ltb_ge in E. lia.
Qed.

Lemma frames_le l : (forall x, In x l -> 0 <= i_size x < 268435456) ->
  frames l <= 5 * Z.of_nat (length l).
Proof.
  induction l as [|x l IH]; intros H; [cbn; lia|].
  unfold frames in *. cbn [fold_right length].
  assert (frame (i_size x) <= 5) by (apply frame_le5, H; left; reflexivity).
  assert (fold_right (fun x a => frame (i_size x) + a) 0 l <= 5 * Z.of_nat (length l))
    by (apply IH; intros y Hy; apply H; right; exact Hy).
  lia.
Qed.

Lemma member_le_sum l : (forall x, In x l -> 0 <= i_size x) ->
  forall x, In x l -> i_size x <= sum_sizes l.
Proof.
  induction l as [|y l IH]; intros Hn x Hin; [destruct Hin|].
  rewrite sum_sizes_cons.
  assert (0 <= sum_sizes l).
  { clear -Hn. induction l as [|z l IH]; [cbn; lia|]. rewrite sum_sizes_cons.
    assert (0 <= i_size z) by (apply Hn; right; left; reflexivity).
    assert (0 <= sum_sizes l) by (apply IH; intros w Hw; apply Hn; destruct Hw; [left|right; right]; auto).
    lia. }
  assert (0 <= i_size y) by (apply Hn; left; reflexivity).
  destruct Hin as [->|Hin]; [lia|].
  assert (i_size x <= sum_sizes l) by (apply IH; auto; intros w Hw; apply Hn; right; exact Hw).
  lia.
Qed.

Lemma enc_le fork_on maxtx max margin pool cnt size :
  0 <= cnt -> (cnt <=? maxtx) = true ->
  0 <= size -> (size <=? max) = true ->
  max < 268435456 ->
  sizes_nonneg pool = true ->
  (5 * maxtx <=? margin) = true ->
  enc_size size (add_loop fork_on maxtx max cnt size pool) <= max + margin.
Proof.
  intros Hc0 Hc Hs0 Hs Hmax Hnn Hg.
  set (added := add_loop fork_on maxtx max cnt size pool).
  rewrite enc_size_split.
  assert (Hcount : cnt + Z.of_nat (length added) <= maxtx) by (apply count_le; exact Hc).
  assert (Hsum : size + sum_sizes added <= max) by (apply size_le; exact Hs).
  assert (Hpos : forall x, In x added -> 0 <= i_size x).
  { intros x Hx. apply added_in_expanded in Hx. unfold sizes_nonneg in Hnn.
    rewrite forallb_forall in Hnn. specialize (Hnn x Hx). apply Z.leb_le in Hnn. exact Hnn. }
  assert (Hfr : frames added <= 5 * Z.of_nat (length added)).
  { apply frames_le. intros x Hx. split; [apply Hpos; exact Hx|].
    pose proof (member_le_sum added Hpos x Hx). lia. }
  apply Z.leb_le in Hg. lia.
Qed.

(** ** blocked *)

Lemma blocked_skipped fork_on maxtx max pool cnt size :
  fork_on = true ->
  exists us, subseq us (units pool)
    /\ add_loop fork_on maxtx max cnt size pool = concat us
    /\ forall u, In u us -> unit_blocked u = false.
Proof.
  intros ->. destruct (add_loop_char true maxtx max pool cnt size) as [k Hk].
  exists (filter (keep_unit true) (firstn k (units pool))). split; [|split].
  - eapply subseq_trans; [apply subseq_filter|apply subseq_firstn].
  - exact Hk.
  - intros u Hu. apply filter_In in Hu as [_ Hu]. unfold keep_unit in Hu. cbn in Hu.
    destruct (unit_blocked u); [discriminate|reflexivity].
Qed.

Lemma groups_atomic fork_on maxtx max pool cnt size :
  exists us, subseq us (units pool) /\ add_loop fork_on maxtx max cnt size pool = concat us.
Proof.
  destruct (add_loop_char fork_on maxtx max pool cnt size) as [k Hk].
  exists (filter (keep_unit fork_on) (firstn k (units pool))). split.
  - eapply subseq_trans; [apply subseq_filter|apply subseq_firstn].
  - exact Hk.
Qed.

Lemma order_preserved fork_on maxtx max pool cnt size :
  subseq (add_loop fork_on maxtx max cnt size pool) (expanded pool).
Proof.
  destruct (groups_atomic fork_on maxtx max pool cnt size) as [us [Hs ->]].
  apply subseq_concat. exact Hs.
Qed.

Lemma no_blocked_member fork_on maxtx max pool cnt size x :
  fork_on = true -> In x (add_loop fork_on maxtx max cnt size pool) -> i_blocked x = false.
Proof.
  intros Hf Hx. destruct (blocked_skipped fork_on maxtx max pool cnt size Hf) as [us [_ [E Hb]]].
  rewrite E in Hx. apply in_concat in Hx as [u [Hu Hxu]].
  specialize (Hb u Hu). unfold unit_blocked in Hb.
  destruct (i_blocked x) eqn:Bx; [|reflexivity].
  assert (existsb i_blocked u = true) by (apply existsb_exists; exists x; auto). congruence.
Qed.
