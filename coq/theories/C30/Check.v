(** C30 — correspondence cases: inputs plus what the Go implementation returned. *)
From Coq Require Import List ZArith NArith Bool.
From C33 Require Import Lib.Harness.
From C33 Require Export C30.Model C30.Spec.
Import ListNotations.
Open Scope Z_scope.

Inductive case :=
| CAdd (e : env) (height init_count init_size : Z) (init_ids : list N) (pool : list tx)
       (impl_maxtx : Z) (impl_fork : bool)         (* cfg.GetP(height).MaxTxNumber, cfg.IsFork(height, ForkAccountBlacklist) *)
       (impl_block impl_ret : list N)              (* ids of block.Txs afterwards, ids of the returned slice *)
       (impl_size : Z)                             (* types.Size(block) afterwards *)
| CAddPanic (e : env) (height init_count init_size : Z) (pool : list tx)
       (* AddTxsToBlock panicked on this input (the model never does) *)
| CAddRep (e : env) (height init_size : Z) (proto : tx) (n : positive)
       (* empty block, pool = n copies of [proto] (a plain transaction) *)
       (impl_maxtx : Z) (impl_taken : Z) (impl_size : Z)
| CExp (e : env) (h bt : Z) (segs : list (list tx))
       (impl : option (list N)).                   (* ids returned by CheckTxExpire, None = panic *)

Definition bool_eqb (a b : bool) : bool := if a then b else negb b.

(** known-finding codes (known_findings/C30.json) *)
Definition kf_trailing_group : N := 1.   (* expired members of a trailing group that runs past the end stay *)
Definition kf_negative_gc    : N := 2.   (* negative GroupCount panics CheckTxExpire *)
Definition kf_frame_overrun  : N := 3.   (* encoded block > MaxBlockSize when 5*MaxTxNumber > 100000 *)
Definition kf_parsable_header : N := 4.  (* expired group member whose 32-byte Header parses as protobuf is not seen as expired *)

Definition av_all (v : add_verdict) : bool :=
  av_shape v && av_count v && av_sum v && av_enc v && av_blocked v.

Definition add_kf (maxtx : Z) (v : add_verdict) : N :=
  if av_shape v && av_count v && av_sum v && av_blocked v && negb (av_enc v)
     && (size_margin <? 5 * maxtx)
  then kf_frame_overrun else 0%N.

(** a segment whose head announces more members than the segment has *)
Definition truncated_seg (s : list tx) : bool :=
  match s with
  | [] => false
  | t :: _ => Z.of_nat (length s) <? i_gc (t_in t)
  end.

(** why a kept segment with a (spec-)expired member was kept, as a finding code *)
Definition kept_expired_code (e : env) (h bt : Z) (s : list tx) : N :=
  if truncated_seg s then kf_trailing_group
  else if forallb (fun t => negb (spec_expired e h bt t)
                            || match get_tx_group t with GSome _ => true | _ => false end) s
  then kf_parsable_header
  else 0%N.

Definition exp_kf (e : env) (h bt : Z) (segs : list (list tx)) (impl : option (list N)) (v : exp_verdict) : N :=
  if negb (ev_nopanic v) then
    (if existsb (fun s => existsb (fun t => i_gc (t_in t) <? 0) s) segs then kf_negative_gc else 0%N)
  else if ev_shape v && ev_kept v && negb (ev_dropped v) then
    match impl with
    | Some out =>
        match greedy tx_ids segs out with
        | Some fl =>
            let bad := filter (fun s => existsb (spec_expired e h bt) s) (select segs fl) in
            match bad with
            | [] => 0%N
            | s :: tl =>
                let c := kept_expired_code e h bt s in
                if forallb (fun s' => N.eqb (kept_expired_code e h bt s') c) tl then c else 0%N
            end
        | None => 0%N
        end
    | None => 0%N
    end
  else 0%N.

Definition rep_pool (proto : tx) (n : positive) : list tx :=
  Pos.iter (fun acc => proto :: acc) [] n.

Definition check_case (c : case) : verdict :=
  match c with
  | CAdd e height ic isz init_ids pool impl_maxtx impl_fork impl_block impl_ret impl_size =>
      let added := add_txs_to_block e height ic isz pool in
      let maxtx := max_tx_at e height in
      let fork_on := is_fork height (e_blfork e) in
      let m := (maxtx =? impl_maxtx) && bool_eqb fork_on impl_fork
               && ids_eqb (map i_id added) impl_ret
               && ids_eqb (init_ids ++ map i_id added) impl_block
               && (enc_size isz added =? impl_size) in
      let v := add_oracle maxtx fork_on ic isz pool init_ids impl_block impl_ret impl_size in
      (m, av_all v, add_kf maxtx v)
  | CAddPanic _ _ _ _ _ => (false, false, 0%N)
  | CAddRep e height isz proto n impl_maxtx impl_taken impl_size =>
      let pool := rep_pool proto n in
      let added := add_txs_to_block e height 0 isz pool in
      let maxtx := max_tx_at e height in
      let m := (maxtx =? impl_maxtx) && (Z.of_nat (length added) =? impl_taken)
               && (enc_size isz added =? impl_size) in
      let bound := max_block_size - size_margin in
      let cnt_ok := if 0 <=? maxtx then impl_taken <=? maxtx else impl_taken =? 0 in
      let sum_ok := if isz <=? bound then isz + impl_taken * i_size (t_in proto) <=? bound
                    else impl_taken =? 0 in
      let enc_ok := if isz <=? bound then impl_size <=? max_block_size else true in
      (m, cnt_ok && sum_ok && enc_ok,
       if cnt_ok && sum_ok && negb enc_ok && (size_margin <? 5 * maxtx) then kf_frame_overrun else 0%N)
  | CExp e h bt segs impl =>
      let r := check_tx_expire e h bt (concat segs) in
      let m := option_eqb ids_eqb (option_map tx_ids r) impl in
      let v := exp_oracle e h bt segs impl in
      (m, ev_nopanic v && ev_shape v && ev_dropped v && ev_kept v, exp_kf e h bt segs impl v)
  end.
