(** C30 — proofs about CheckTxExpire (Model.cte_loop / check_tx_expire). *)
From Coq Require Import List ZArith NArith Bool Lia.
From C33 Require Import Lib.Harness C30.Model C30.Spec C30.Proofs.
Import ListNotations.
Open Scope Z_scope.

(** the marking of one segment: all kept or all set to nil *)
Definition mark_seg (e : env) (h bt : Z) (s : list tx) : list (option tx) :=
  if is_expire e h bt s then map (fun _ => None) s else map Some s.

Lemma firstn_len_app {A} (s r : list A) : firstn (length s) (s ++ r) = s.
Proof. induction s; simpl; [destruct r; reflexivity|]. f_equal. assumption. Qed.

Lemma skipn_len_app {A} (s r : list A) : skipn (length s) (s ++ r) = r.
Proof. induction s; simpl; auto. Qed.

Lemma compact_app a b : compact (a ++ b) = compact a ++ compact b.
Proof.
  induction a as [|[x|] a IH]; simpl; [reflexivity| |]; rewrite ?IH; reflexivity.
Qed.

Lemma compact_some s : compact (map Some s) = s.
Proof. induction s; simpl; congruence. Qed.

Lemma compact_none {A} (s : list A) : compact (map (fun _ => None) s) = [].
Proof. induction s; simpl; auto. Qed.

Lemma cte_loop_wf e h bt ss : forallb wf_seg ss = true ->
  forall fuel, (length (concat ss) <= fuel)%nat ->
  cte_loop fuel e h bt (concat ss) = CteOk (concat (map (mark_seg e h bt) ss)).
Proof.
  induction ss as [|s ss IH]; intros Hwf fuel Hf.
  - destruct fuel; reflexivity.
  - cbn [forallb] in Hwf. apply andb_true_iff in Hwf as [Hs Hss].
    cbn [concat map]. destruct s as [|t tl]; [discriminate|].
    cbn [concat] in Hf. rewrite app_length in Hf. cbn [length] in Hf.
    destruct fuel as [|fuel]; [lia|].
    cbn [app cte_loop]. unfold wf_seg in Hs.
    destruct (i_gc (t_in t) =? 0) eqn:G0.
    + (* plain transaction *)
      cbn [andb orb] in Hs.
      assert (tl = []) as ->.
      { destruct tl; [reflexivity|]. cbn [orb] in Hs. apply Z.eqb_eq in G0, Hs.
        cbn [length] in Hs. lia. }
      cbn [app]. rewrite IH; [|exact Hss|cbn [length] in Hf; lia].
      unfold mark_seg. cbn [cte_cons]. destruct (is_expire e h bt [t]); reflexivity.
    + cbn [andb orb] in Hs. apply Z.eqb_eq in Hs.
      assert (Hlen : (Z.of_nat (length ((t :: tl) ++ concat ss)) <? i_gc (t_in t)) = false).
      { apply Z.ltb_ge. rewrite Hs, app_length. lia. }
      change (t :: tl ++ concat ss) with ((t :: tl) ++ concat ss).
      rewrite Hlen.
      assert (Hneg : (i_gc (t_in t) <? 0) = false) by (apply Z.ltb_ge; lia).
      rewrite Hneg. rewrite Hs, Nat2Z.id.
      rewrite firstn_len_app, skipn_len_app.
      rewrite IH; [|exact Hss|lia].
      unfold mark_seg. cbn [cte_cons]. reflexivity.
Qed.

Lemma compact_marks e h bt ss :
  compact (concat (map (mark_seg e h bt) ss))
  = concat (filter (fun s => negb (is_expire e h bt s)) ss).
Proof.
  induction ss as [|s ss IH]; [reflexivity|].
  cbn [map concat filter]. rewrite compact_app, IH. unfold mark_seg.
  destruct (is_expire e h bt s); cbn [negb].
  - rewrite compact_none. reflexivity.
  - rewrite compact_some. reflexivity.
Qed.

Lemma expire_whole_groups e h bt ss : forallb wf_seg ss = true ->
  check_tx_expire e h bt (concat ss)
  = Some (concat (filter (fun s => negb (is_expire e h bt s)) ss)).
Proof.
  intros Hwf. unfold check_tx_expire.
  rewrite (cte_loop_wf e h bt ss Hwf); [|lia]. rewrite compact_marks. reflexivity.
Qed.

(** with undecodable headers (the normal case for expanded groups) the model's
    expiry is the spec's expiry *)
Definition plain_hdr (t : tx) : bool :=
  match get_tx_group t with GSome _ => false | _ => true end.

Lemma is_expire_spec e h bt s : forallb plain_hdr s = true ->
  is_expire e h bt s = existsb (spec_expired e h bt) s.
Proof.
  induction s as [|t s IH]; intros Hp; [reflexivity|].
  cbn [forallb] in Hp. apply andb_true_iff in Hp as [Ht Hs].
  unfold is_expire in *. cbn [existsb]. rewrite IH by exact Hs. f_equal.
  unfold spec_expired, tx_expired. unfold plain_hdr in Ht.
  destruct (get_tx_group t); [reflexivity|reflexivity|discriminate].
Qed.

Lemma filter_ext_in' {A} (f g : A -> bool) l : (forall x, In x l -> f x = g x) -> filter f l = filter g l.
Proof.
  induction l as [|x l IH]; intros H; [reflexivity|]. cbn [filter].
  rewrite (H x) by (left; reflexivity). rewrite IH; [reflexivity|].
  intros y Hy. apply H. right. exact Hy.
Qed.

Lemma expire_whole_groups_spec e h bt ss :
  forallb wf_seg ss = true -> forallb (forallb plain_hdr) ss = true ->
  check_tx_expire e h bt (concat ss)
  = Some (concat (filter (fun s => negb (existsb (spec_expired e h bt) s)) ss)).
Proof.
  intros Hwf Hp. rewrite expire_whole_groups by exact Hwf. f_equal. f_equal.
  apply filter_ext_in'. intros s Hs. rewrite forallb_forall in Hp.
  rewrite is_expire_spec; [reflexivity|]. apply Hp. exact Hs.
Qed.

(** fuel: [length l] always suffices *)
Lemma cte_cons_fuel pre r : r <> CteFuel -> cte_cons pre r <> CteFuel.
Proof. destruct r; cbn; congruence. Qed.

Lemma skipn_length_le {A} n (l : list A) : (length (skipn n l) <= length l)%nat.
Proof. rewrite skipn_length. lia. Qed.

Lemma cte_fuel_enough e h bt : forall fuel l, (length l <= fuel)%nat -> cte_loop fuel e h bt l <> CteFuel.
Proof.
  induction fuel as [|fuel IH]; intros l Hl.
  - destruct l; [cbn; congruence|cbn in Hl; lia].
  - destruct l as [|t rest]; [cbn; congruence|]. cbn [length] in Hl.
    cbn [cte_loop].
    destruct (i_gc (t_in t) =? 0) eqn:G0; [apply cte_cons_fuel, IH; lia|].
    destruct (Z.of_nat (length (t :: rest)) <? i_gc (t_in t)); [apply cte_cons_fuel, IH; lia|].
    destruct (i_gc (t_in t) <? 0) eqn:GN; [congruence|].
    apply cte_cons_fuel, IH.
    apply Z.eqb_neq in G0. apply Z.ltb_ge in GN.
    destruct (Z.to_nat (i_gc (t_in t))) as [|n] eqn:En; [lia|].
    cbn [skipn]. pose proof (skipn_length_le n rest). lia.
Qed.

(** the result is always a subsequence of the input (any input) *)
Inductive marks : list tx -> list (option tx) -> Prop :=
| mk_nil : marks [] []
| mk_keep t l m : marks l m -> marks (t :: l) (Some t :: m)
| mk_drop t l m : marks l m -> marks (t :: l) (None :: m).

Lemma marks_app a ma b mb : marks a ma -> marks b mb -> marks (a ++ b) (ma ++ mb).
Proof. induction 1; intros Hb; cbn; [exact Hb|apply mk_keep; auto|apply mk_drop; auto]. Qed.

Lemma marks_some s : marks s (map Some s).
Proof. induction s; cbn; [apply mk_nil|apply mk_keep; assumption]. Qed.

Lemma marks_none s : marks s (map (fun _ => None) s).
Proof. induction s; cbn; [apply mk_nil|apply mk_drop; assumption]. Qed.

Lemma marks_subseq l m : marks l m -> subseq (compact m) l.
Proof. induction 1; cbn; [apply ss_nil|apply ss_take; assumption|apply ss_skip; assumption]. Qed.

Lemma cte_loop_marks e h bt : forall fuel l m, cte_loop fuel e h bt l = CteOk m -> marks l m.
Proof.
  induction fuel as [|fuel IH]; intros l m H.
  - destruct l; cbn in H; [inversion H; apply mk_nil|discriminate].
  - destruct l as [|t rest]; [cbn in H; inversion H; apply mk_nil|].
    cbn [cte_loop] in H.
    destruct (i_gc (t_in t) =? 0).
    { destruct (cte_loop fuel e h bt rest) as [| |m'] eqn:R; cbn [cte_cons app] in H; try discriminate.
      apply IH in R.
      destruct (is_expire e h bt [t]); injection H as <-; [apply mk_drop|apply mk_keep]; exact R. }
    destruct (Z.of_nat (length (t :: rest)) <? i_gc (t_in t)).
    { destruct (cte_loop fuel e h bt rest) as [| |m'] eqn:R; cbn [cte_cons app] in H; try discriminate.
      inversion H; subst m. apply IH in R. apply mk_keep. exact R. }
    destruct (i_gc (t_in t) <? 0); [discriminate|].
    set (n := Z.to_nat (i_gc (t_in t))) in *.
    destruct (cte_loop fuel e h bt (skipn n (t :: rest))) as [| |m'] eqn:R; cbn [cte_cons] in H; try discriminate.
    apply IH in R. injection H as <-.
    rewrite <- (firstn_skipn n (t :: rest)) at 1.
    apply marks_app; [|exact R].
    destruct (is_expire e h bt (firstn n (t :: rest))); [apply marks_none|apply marks_some].
Qed.

Lemma expire_subseq e h bt l out : check_tx_expire e h bt l = Some out -> subseq out l.
Proof.
  unfold check_tx_expire. destruct (cte_loop (length l) e h bt l) as [| |m] eqn:R; try discriminate.
  intros H. inversion H; subst. apply marks_subseq. eapply cte_loop_marks. exact R.
Qed.

Lemma expire_no_fuel e h bt l : cte_loop (length l) e h bt l <> CteFuel.
Proof. apply cte_fuel_enough. lia. Qed.
