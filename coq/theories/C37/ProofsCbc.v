(** C37 — CBC private-key encryption: round trips, legacy format, format test. *)
From Coq Require Import List NArith Arith Bool Lia.
From C33 Require Import Lib.Harness C37.Model.
Import ListNotations.

(** ---------- byte helpers ---------- *)

Lemma bxor_invol : forall a b, length a = length b -> bxor (bxor a b) b = a.
Proof.
  induction a as [|x a IH]; intros [|y b] L; simpl in *; try discriminate; try reflexivity.
  f_equal.
  - rewrite N.lxor_assoc, N.lxor_nilpotent, N.lxor_0_r. reflexivity.
  - apply IH. lia.
Qed.

Lemma bxor_length : forall a b, length a = length b -> length (bxor a b) = length a.
Proof.
  induction a as [|x a IH]; intros [|y b] L; simpl in *; try discriminate; try reflexivity.
  f_equal. apply IH. lia.
Qed.

Lemma firstn_len_app : forall (a b : bytes) n, length a = n -> firstn n (a ++ b) = a.
Proof.
  intros a b n <-. rewrite firstn_app, Nat.sub_diag, firstn_all. simpl. apply app_nil_r.
Qed.

Lemma skipn_len_app : forall (a b : bytes) n, length a = n -> skipn n (a ++ b) = b.
Proof.
  intros a b n <-. rewrite skipn_app, Nat.sub_diag, skipn_all. reflexivity.
Qed.

Definition all16 (bs : list bytes) : Prop := Forall (fun b => length b = 16) bs.

Lemma concat_length16 : forall bs, all16 bs -> length (concat bs) = 16 * length bs.
Proof.
  induction 1 as [|b bs Hb _ IH]; simpl; [reflexivity|].
  rewrite app_length, IH, Hb. lia.
Qed.

Lemma chunks_concat : forall n l, length l = 16 * n -> concat (chunks n l) = l.
Proof.
  induction n as [|n IH]; intros l L.
  - destruct l; simpl in *; [reflexivity|discriminate].
  - cbn [chunks concat]. rewrite IH.
    + apply firstn_skipn.
    + rewrite skipn_length. lia.
Qed.

Lemma chunks_all16 : forall n l, length l = 16 * n -> all16 (chunks n l).
Proof.
  induction n as [|n IH]; intros l L; cbn [chunks]; constructor.
  - rewrite firstn_length. lia.
  - apply IH. rewrite skipn_length. lia.
Qed.

Lemma chunks_length : forall n l, length (chunks n l) = n.
Proof. induction n as [|n IH]; intros l; cbn [chunks length]; [reflexivity|]. f_equal. apply IH. Qed.

Lemma chunks_of_concat : forall bs, all16 bs -> chunks (length bs) (concat bs) = bs.
Proof.
  induction 1 as [|b bs Hb _ IH]; [reflexivity|].
  cbn [length chunks concat].
  rewrite (firstn_len_app b (concat bs) 16 Hb), (skipn_len_app b (concat bs) 16 Hb), IH.
  reflexivity.
Qed.

Lemma blocks_of_mult : forall l n, length l = 16 * n -> blocks_of l = chunks n l.
Proof.
  intros l n L. unfold blocks_of. rewrite L.
  replace (16 * n / 16) with n; [reflexivity|].
  rewrite Nat.mul_comm. symmetry. apply Nat.div_mul. lia.
Qed.

Lemma derive_key_length : forall pw, length (derive_key pw) = 32.
Proof.
  intros pw. unfold derive_key. destruct (32 <? length pw) eqn:C.
  - apply Nat.ltb_lt in C. rewrite firstn_length. lia.
  - apply Nat.ltb_ge in C. rewrite app_length, repeat_length. lia.
Qed.

Lemma supported_len_cases : forall key,
  supported_len key = true -> length key = 32 \/ length key = 64.
Proof.
  intros key H. unfold supported_len in H. apply orb_true_iff in H as [H|H];
    apply Nat.eqb_eq in H; auto.
Qed.

Lemma supported_len_mult : forall key,
  supported_len key = true -> exists n, length key = 16 * n /\ (n = 2 \/ n = 4).
Proof.
  intros key H. destruct (supported_len_cases key H) as [L|L]; [exists 2|exists 4]; lia.
Qed.

Section Cbc.

Variable E D : bytes -> bytes -> bytes.
(** AES under a fixed key is a permutation of the 16-byte blocks. *)
Hypothesis D_E : forall k b, length b = 16 -> D k (E k b) = b.
Hypothesis E_len : forall k b, length b = 16 -> length (E k b) = 16.

Lemma enc_blocks_all16 : forall k ps prev,
  all16 ps -> length prev = 16 -> all16 (cbc_enc_blocks E k prev ps).
Proof.
  intros k ps. induction ps as [|p ps IH]; intros prev Hp Hv; cbn [cbc_enc_blocks]; [constructor|].
  inversion Hp as [|? ? Hp1 Hp2]; subst.
  assert (L : length (E k (bxor p prev)) = 16).
  { apply E_len. rewrite bxor_length; lia. }
  constructor; [exact L|]. apply IH; assumption.
Qed.

Lemma enc_blocks_length : forall k ps prev,
  length (cbc_enc_blocks E k prev ps) = length ps.
Proof.
  intros k ps. induction ps as [|p ps IH]; intros prev; cbn [cbc_enc_blocks length]; [reflexivity|].
  f_equal. apply IH.
Qed.

Lemma blocks_roundtrip : forall k ps prev,
  all16 ps -> length prev = 16 ->
  cbc_dec_blocks D k prev (cbc_enc_blocks E k prev ps) = ps.
Proof.
  intros k ps. induction ps as [|p ps IH]; intros prev Hp Hv; [reflexivity|].
  inversion Hp as [|? ? Hp1 Hp2]; subst.
  cbn [cbc_enc_blocks cbc_dec_blocks].
  assert (Lx : length (bxor p prev) = 16) by (rewrite bxor_length; lia).
  rewrite D_E by exact Lx.
  rewrite bxor_invol by lia.
  f_equal. apply IH; [assumption|]. apply E_len. exact Lx.
Qed.

Lemma raw_length : forall k iv p n,
  length p = 16 * n -> length iv = 16 -> length (cbc_encrypt_raw E k iv p) = length p.
Proof.
  intros k iv p n L Liv. unfold cbc_encrypt_raw.
  rewrite (blocks_of_mult p n L).
  rewrite concat_length16.
  - rewrite enc_blocks_length, chunks_length. lia.
  - apply enc_blocks_all16; [apply chunks_all16; exact L|exact Liv].
Qed.

Lemma raw_roundtrip : forall k iv p n,
  length p = 16 * n -> length iv = 16 ->
  cbc_decrypt_raw D k iv (cbc_encrypt_raw E k iv p) = p.
Proof.
  intros k iv p n L Liv.
  pose proof (raw_length k iv p n L Liv) as Lc.
  unfold cbc_decrypt_raw.
  rewrite (blocks_of_mult (cbc_encrypt_raw E k iv p) n) by lia.
  unfold cbc_encrypt_raw. rewrite (blocks_of_mult p n L).
  set (cs := cbc_enc_blocks E k iv (chunks n p)).
  assert (Hcs : all16 cs).
  { apply enc_blocks_all16; [apply chunks_all16; exact L|exact Liv]. }
  assert (Ln : length cs = n).
  { unfold cs. rewrite enc_blocks_length, chunks_length. reflexivity. }
  rewrite <- Ln at 1. rewrite chunks_of_concat by exact Hcs.
  unfold cs. rewrite blocks_roundtrip; [|apply chunks_all16; exact L|exact Liv].
  apply chunks_concat. exact L.
Qed.

Lemma full_blocks_supported : forall key, supported_len key = true -> full_blocks key = true.
Proof.
  intros key H. unfold full_blocks.
  destruct (supported_len_cases key H) as [L|L]; rewrite L; reflexivity.
Qed.

(** The format test accepts exactly the lengths 48 and 80. *)
Lemma is_new_format_iff : forall blob,
  is_new_format blob = true <-> (length blob = 48 \/ length blob = 80).
Proof.
  intros blob. unfold is_new_format. split.
  - intros H. apply andb_true_iff in H as [H H3]. apply andb_true_iff in H as [H1 _].
    apply Nat.ltb_lt in H1. apply orb_true_iff in H3 as [H3|H3]; apply Nat.eqb_eq in H3; lia.
  - intros [L|L]; rewrite L; reflexivity.
Qed.

(** Round trip in the IV-prefixed format, every password, 32- and 64-byte keys. *)
Lemma cbc_roundtrip : forall pw iv priv,
  length iv = 16 -> supported_len priv = true ->
  exists blob,
    cbc_encrypter E pw iv priv = Some blob /\
    length blob = 16 + length priv /\
    firstn 16 blob = iv /\
    is_new_format blob = true /\
    cbc_decrypter D pw blob = Some priv.
Proof.
  intros pw iv priv Liv Hs.
  destruct (supported_len_mult priv Hs) as [n [L Hn]].
  unfold cbc_encrypter. rewrite (full_blocks_supported priv Hs).
  eexists. split; [reflexivity|].
  pose proof (raw_length (derive_key pw) iv priv n L Liv) as Lc.
  assert (Lb : length (iv ++ cbc_encrypt_raw E (derive_key pw) iv priv) = 16 + length priv).
  { rewrite app_length. lia. }
  assert (Hnew : is_new_format (iv ++ cbc_encrypt_raw E (derive_key pw) iv priv) = true).
  { apply is_new_format_iff. rewrite Lb. lia. }
  split; [exact Lb|]. split; [apply firstn_len_app; exact Liv|]. split; [exact Hnew|].
  unfold cbc_decrypter. rewrite Hnew.
  rewrite (firstn_len_app iv _ 16 Liv), (skipn_len_app iv _ 16 Liv).
  rewrite (raw_roundtrip _ _ _ n L Liv). reflexivity.
Qed.

Lemma legacy_iv_length : forall pw, length (firstn 16 (derive_key pw)) = 16.
Proof. intros pw. rewrite firstn_length, derive_key_length. reflexivity. Qed.

(** Round trip of the legacy fixed-IV format through today's decrypter. *)
Lemma cbc_legacy_roundtrip : forall pw priv,
  supported_len priv = true ->
  length (cbc_legacy_encrypter E pw priv) = length priv /\
  is_new_format (cbc_legacy_encrypter E pw priv) = false /\
  cbc_decrypter D pw (cbc_legacy_encrypter E pw priv) = Some priv.
Proof.
  intros pw priv Hs.
  destruct (supported_len_mult priv Hs) as [n [L Hn]].
  pose proof (legacy_iv_length pw) as Liv.
  pose proof (raw_length (derive_key pw) _ priv n L Liv) as Lc.
  unfold cbc_legacy_encrypter.
  assert (Hold : is_new_format (cbc_encrypt_raw E (derive_key pw) (firstn 16 (derive_key pw)) priv) = false).
  { destruct (is_new_format _) eqn:C; [|reflexivity].
    apply is_new_format_iff in C. lia. }
  split; [exact Lc|]. split; [exact Hold|].
  unfold cbc_decrypter. rewrite Hold.
  assert (Hf : full_blocks (cbc_encrypt_raw E (derive_key pw) (firstn 16 (derive_key pw)) priv) = true).
  { unfold full_blocks. rewrite Lc. apply (full_blocks_supported priv Hs). }
  rewrite Hf. rewrite (raw_roundtrip _ _ _ n L Liv). reflexivity.
Qed.

(** The two formats never collide for supported key lengths. *)
Lemma formats_disjoint : forall pw iv priv,
  length iv = 16 -> supported_len priv = true ->
  (forall blob, cbc_encrypter E pw iv priv = Some blob -> is_new_format blob = true) /\
  is_new_format (cbc_legacy_encrypter E pw priv) = false.
Proof.
  intros pw iv priv Liv Hs. split.
  - intros blob Hb. destruct (cbc_roundtrip pw iv priv Liv Hs) as [b [H1 [_ [_ [H4 _]]]]].
    rewrite Hb in H1. inversion H1; subst. exact H4.
  - apply (cbc_legacy_roundtrip pw priv Hs).
Qed.

(** An empty record never decrypts to a key of a supported length. *)
Lemma decrypt_nil_not_key : forall pw key,
  cbc_decrypter D pw [] = Some key -> supported_len key = false.
Proof.
  intros pw key H. cbn in H. inversion H. reflexivity.
Qed.

End Cbc.

(** ---------- refutations for unsupported lengths (identity cipher) ---------- *)

Definition idc (k b : bytes) : bytes := b.

Definition cbc_roundtrip_anylen_full : Prop :=
  forall (E D : bytes -> bytes -> bytes),
    (forall k b, length b = 16 -> D k (E k b) = b) ->
    (forall k b, length b = 16 -> length (E k b) = 16) ->
    forall pw iv priv blob,
      length iv = 16 -> full_blocks priv = true -> priv <> [] ->
      cbc_encrypter E pw iv priv = Some blob -> cbc_decrypter D pw blob = Some priv.

Lemma cbc_roundtrip_anylen_refuted : ~ cbc_roundtrip_anylen_full.
Proof.
  intros H.
  pose (iv := repeat 0%N 16). pose (priv := repeat 7%N 16).
  pose (blob := match cbc_encrypter idc [] iv priv with Some b => b | None => [] end).
  assert (X : priv <> []) by discriminate.
  assert (Y : cbc_encrypter idc [] iv priv = Some blob) by (vm_compute; reflexivity).
  specialize (H idc idc (fun _ _ _ => eq_refl) (fun _ _ L => L)
                [] iv priv blob eq_refl eq_refl X Y).
  vm_compute in H. discriminate.
Qed.

Definition cbc_legacy_anylen_full : Prop :=
  forall (E D : bytes -> bytes -> bytes),
    (forall k b, length b = 16 -> D k (E k b) = b) ->
    (forall k b, length b = 16 -> length (E k b) = 16) ->
    forall pw priv,
      full_blocks priv = true ->
      cbc_decrypter D pw (cbc_legacy_encrypter E pw priv) = Some priv.

(** a legacy blob of a 48-byte secret has the length of an IV-prefixed 32-byte key *)
Lemma cbc_legacy_anylen_refuted : ~ cbc_legacy_anylen_full.
Proof.
  intros H.
  specialize (H idc idc (fun _ _ _ => eq_refl) (fun _ _ L => L) [] (repeat 7%N 48) eq_refl).
  vm_compute in H. discriminate.
Qed.

(** Non-vacuity: the hypotheses hold for a concrete cipher and the statement
    computes on a concrete 32-byte key. *)
From Coq Require Import String.
Example cbc_roundtrip_example :
  let pw := bs "passw0rd"%string in
  let iv := hx "000102030405060708090a0b0c0d0e0f"%string in
  let priv := hx "1111111111111111111111111111111122222222222222222222222222222222"%string in
  match cbc_encrypter idc pw iv priv with
  | Some blob => List.length blob = 48 /\ cbc_decrypter idc pw blob = Some priv
                 /\ cbc_decrypter idc pw (cbc_legacy_encrypter idc pw priv) = Some priv
  | None => False
  end.
Proof. vm_compute. repeat split. Qed.
