(** C37 — GCM seed encryption round trips and key derivation facts. *)
From Coq Require Import List NArith Arith Bool Lia.
From C33 Require Import Lib.Harness C37.Model C37.ProofsCbc.
Import ListNotations.

Section Gcm.

Variable seal : bytes -> bytes -> bytes -> bytes.
Variable open : bytes -> bytes -> bytes -> option bytes.
(** AEAD correctness and the GCM ciphertext length (16-byte tag). *)
Hypothesis open_seal : forall k n m, open k n (seal k n m) = Some m.
Hypothesis seal_len : forall k n m, length (seal k n m) = length m + 16.

Lemma gcm_encrypter_length : forall pw nonce seed,
  length (gcm_encrypter seal pw nonce seed) = length nonce + length seed + 16.
Proof.
  intros. unfold gcm_encrypter. rewrite app_length, seal_len. lia.
Qed.

Lemma gcm_roundtrip : forall pw nonce seed,
  length nonce = 12 ->
  gcm_decrypter open pw (gcm_encrypter seal pw nonce seed) = Some seed.
Proof.
  intros pw nonce seed Ln.
  unfold gcm_decrypter.
  assert (Lt : (12 <? length (gcm_encrypter seal pw nonce seed)) = true).
  { apply Nat.ltb_lt. rewrite gcm_encrypter_length. lia. }
  rewrite Lt. unfold gcm_encrypter.
  rewrite (firstn_len_app nonce _ 12 Ln), (skipn_len_app nonce _ 12 Ln).
  rewrite open_seal. reflexivity.
Qed.

(** Legacy fixed-nonce blob: accepted by the fallback, provided the first
    attempt (reading its first 12 bytes as a nonce) is rejected — which is what
    GCM authentication gives, and is a premise here. *)
Lemma gcm_legacy_roundtrip : forall pw seed,
  let blob := gcm_legacy_encrypter seal pw seed in
  open (derive_key pw) (firstn 12 blob) (skipn 12 blob) = None ->
  gcm_decrypter open pw blob = Some seed.
Proof.
  intros pw seed blob Hrej.
  unfold gcm_decrypter.
  destruct (12 <? length blob); [rewrite Hrej|];
    unfold blob, gcm_legacy_encrypter; apply open_seal.
Qed.

(** Without that premise the fallback order matters: whatever the first
    attempt returns is returned. *)
Lemma gcm_decrypter_first_wins : forall pw blob m,
  (12 <? length blob) = true ->
  open (derive_key pw) (firstn 12 blob) (skipn 12 blob) = Some m ->
  gcm_decrypter open pw blob = Some m.
Proof.
  intros pw blob m L H. unfold gcm_decrypter. rewrite L, H. reflexivity.
Qed.

Lemma gcm_encrypter_not_nil : forall pw nonce seed,
  length nonce = 12 -> (length (gcm_encrypter seal pw nonce seed) =? 0) = false.
Proof.
  intros. apply Nat.eqb_neq. rewrite gcm_encrypter_length. lia.
Qed.

End Gcm.

(** ---------- key derivation ---------- *)

Definition no_nul (pw : bytes) : bool := forallb (fun c => negb (c =? 0)%N) pw.

(** what isValidPassWord guarantees about the bytes of a password *)
Definition wallet_pw_ok (pw : bytes) : bool := (length pw <=? 32) && no_nul pw.

Lemma pad_injective : forall a b n m,
  no_nul a = true -> no_nul b = true ->
  a ++ repeat 0%N n = b ++ repeat 0%N m -> a = b.
Proof.
  induction a as [|x a IH]; intros [|y b] n m Ha Hb H; simpl in *.
  - reflexivity.
  - destruct n as [|n]; simpl in H; [discriminate|].
    inversion H; subst. apply andb_true_iff in Hb as [Hy _]. discriminate.
  - destruct m as [|m]; simpl in H; [discriminate|].
    inversion H; subst. apply andb_true_iff in Ha as [Hx _]. discriminate.
  - inversion H; subst.
    apply andb_true_iff in Ha as [_ Ha]. apply andb_true_iff in Hb as [_ Hb].
    f_equal. eapply IH; eassumption.
Qed.

Lemma derive_key_short : forall pw, length pw <= 32 -> derive_key pw = pw ++ repeat 0%N (32 - length pw).
Proof.
  intros pw L. unfold derive_key.
  destruct (32 <? length pw) eqn:C; [apply Nat.ltb_lt in C; lia|reflexivity].
Qed.

Lemma derive_key_injective_ok : forall pw1 pw2,
  wallet_pw_ok pw1 = true -> wallet_pw_ok pw2 = true ->
  derive_key pw1 = derive_key pw2 -> pw1 = pw2.
Proof.
  intros pw1 pw2 H1 H2 H.
  apply andb_true_iff in H1 as [L1 N1]. apply andb_true_iff in H2 as [L2 N2].
  apply Nat.leb_le in L1. apply Nat.leb_le in L2.
  rewrite (derive_key_short pw1 L1), (derive_key_short pw2 L2) in H.
  eapply pad_injective; eassumption.
Qed.

Lemma valid_chars_no_nul : forall pw,
  forallb (fun c => is_letter c || is_digit c) pw = true -> no_nul pw = true.
Proof.
  induction pw as [|c pw IH]; simpl; [reflexivity|].
  intros H. apply andb_true_iff in H as [Hc H]. rewrite (IH H), andb_true_r.
  destruct (N.eqb_spec c 0) as [->|]; [discriminate|reflexivity].
Qed.

Lemma valid_password_ok : forall pw, valid_password pw = true -> wallet_pw_ok pw = true.
Proof.
  intros pw H. unfold valid_password in H.
  repeat (apply andb_true_iff in H as [H ?]).
  unfold wallet_pw_ok. apply andb_true_iff. split.
  - apply Nat.leb_le. match goal with X : (length pw <=? 30) = true |- _ => apply Nat.leb_le in X; lia end.
  - apply valid_chars_no_nul. assumption.
Qed.

Lemma valid_password_not_nil : forall pw, valid_password pw = true -> pw <> [].
Proof. intros pw H ->. discriminate. Qed.

(** Full-strength separation: different passwords give different keys. *)
Definition password_separation_full : Prop :=
  forall pw1 pw2 : bytes, pw1 <> pw2 -> derive_key pw1 <> derive_key pw2.

Lemma password_separation_refuted : ~ password_separation_full.
Proof.
  intros H.
  apply (H (repeat 65%N 32 ++ [1%N]) (repeat 65%N 32 ++ [2%N])).
  - intros X. apply app_inv_head in X. discriminate.
  - vm_compute. reflexivity.
Qed.

(** zero padding collides as well *)
Lemma password_separation_refuted_padding :
  exists pw1 pw2 : bytes, pw1 <> pw2 /\ length pw1 <= 32 /\ length pw2 <= 32
                          /\ derive_key pw1 = derive_key pw2.
Proof.
  exists [97%N], [97%N; 0%N]. repeat split; try (simpl; lia). discriminate.
Qed.

Lemma password_separation_partial : forall pw1 pw2,
  valid_password pw1 = true -> valid_password pw2 = true ->
  pw1 <> pw2 -> derive_key pw1 <> derive_key pw2.
Proof.
  intros pw1 pw2 H1 H2 Hne He. apply Hne.
  apply derive_key_injective_ok; auto using valid_password_ok.
Qed.

(** Everything depends on the password only through the derived key. *)
Lemma interchangeable : forall E D seal open pw1 pw2,
  derive_key pw1 = derive_key pw2 ->
  (forall iv p, cbc_encrypter E pw1 iv p = cbc_encrypter E pw2 iv p) /\
  (forall b, cbc_decrypter D pw1 b = cbc_decrypter D pw2 b) /\
  (forall n s, gcm_encrypter seal pw1 n s = gcm_encrypter seal pw2 n s) /\
  (forall b, gcm_decrypter open pw1 b = gcm_decrypter open pw2 b).
Proof.
  intros E D seal open pw1 pw2 H.
  unfold cbc_encrypter, cbc_decrypter, gcm_encrypter, gcm_decrypter. rewrite H.
  repeat split; reflexivity.
Qed.

Example valid_password_example :
  valid_password [97;98;99;100;101;102;103;49]%N = true /\
  valid_password [97;98;99;100;101;102;103;104]%N = false.
Proof. split; reflexivity. Qed.

(** Non-vacuity of the legacy-seed premise: an AEAD that authenticates (the
    tag is key ++ nonce) rejects the nonce-prefixed reading of a legacy blob,
    and the fallback returns the seed. *)
Definition tag_seal (k n m : bytes) : bytes := m ++ k ++ n.
Definition tag_open (k n c : bytes) : option bytes :=
  let l := length c in
  let tl := length k + length n in
  if l <? tl then None
  else if bytes_eqb (skipn (l - tl) c) (k ++ n) then Some (firstn (l - tl) c) else None.

Lemma tag_open_seal : forall k n m, tag_open k n (tag_seal k n m) = Some m.
Proof.
  intros k n m. unfold tag_open, tag_seal.
  rewrite !app_length.
  destruct (length m + (length k + length n) <? length k + length n) eqn:C.
  - apply Nat.ltb_lt in C. lia.
  - replace (length m + (length k + length n) - (length k + length n)) with (length m) by lia.
    rewrite (skipn_len_app m _ (length m) eq_refl), (firstn_len_app m _ (length m) eq_refl).
    assert (X : bytes_eqb (k ++ n) (k ++ n) = true).
    { apply list_eqb_spec; [intros x y; apply N.eqb_eq|reflexivity]. }
    rewrite X. reflexivity.
Qed.

Example gcm_legacy_example :
  let pw := [97;98;99;100;101;102;103;49]%N in
  let seed := [115;101;101;100;32;119;111;114;100;115;32;104;101;114;101]%N in
  let blob := gcm_legacy_encrypter tag_seal pw seed in
  tag_open (derive_key pw) (firstn 12 blob) (skipn 12 blob) = None /\
  gcm_decrypter tag_open pw blob = Some seed /\
  gcm_decrypter tag_open pw (gcm_encrypter tag_seal pw (repeat 9%N 12) seed) = Some seed.
Proof. vm_compute. repeat split. Qed.
