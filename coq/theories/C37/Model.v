(** C37 — executable model of the wallet secret encryption
    (wallet/common/crypto.go, wallet/seed.go) and of the wallet operations
    that create / re-encrypt / read secrets (wallet/wallet_proc.go:
    saveSeed, ProcImportPrivKey, ProcWalletSetPasswd, ProcWalletLock/UnLock,
    ProcDumpPrivkey, getSeed) — as coded.

    AES (one 16-byte block under a 32-byte key) and AES-GCM are not modelled:
    they are the [Section] variables [E D] and [seal open].  No proofs here. *)
From Coq Require Import List NArith Arith Bool.
From C33 Require Import Lib.Harness.
Import ListNotations.

Definition bytes := list N.

(** ---------- small byte helpers ---------- *)

Fixpoint bxor (a b : bytes) : bytes :=
  match a, b with
  | x :: a', y :: b' => N.lxor x y :: bxor a' b'
  | _, _ => []
  end.

(** [chunks n l]: the first [n] 16-byte pieces of [l]. *)
Fixpoint chunks (n : nat) (l : bytes) : list bytes :=
  match n with
  | O => []
  | S n' => firstn 16 l :: chunks n' (skipn 16 l)
  end.

Definition blocks_of (l : bytes) : list bytes := chunks (length l / 16) l.

Definition full_blocks (l : bytes) : bool := (length l mod 16 =? 0)%nat.

(** The private-key lengths the wallet supports (PrivkeyToPub: 32 or 64 bytes). *)
Definition supported_len (key : bytes) : bool :=
  (length key =? 32)%nat || (length key =? 64)%nat.

(** key := make([]byte, 32); if len(password) > 32 { key = password[0:32] } else { copy(key, password) } *)
Definition derive_key (pw : bytes) : bytes :=
  if (32 <? length pw)%nat then firstn 32 pw
  else pw ++ repeat 0%N (32 - length pw).

Section Ciphers.

(** [E k b] / [D k b]: AES-256 encryption / decryption of one block. *)
Variable E D : bytes -> bytes -> bytes.
(** [seal k nonce m] / [open k nonce c]: AES-256-GCM with empty additional data. *)
Variable seal : bytes -> bytes -> bytes -> bytes.
Variable open : bytes -> bytes -> bytes -> option bytes.

(** ---------- CBC (crypto/cipher NewCBCEncrypter / NewCBCDecrypter) ---------- *)

Fixpoint cbc_enc_blocks (k prev : bytes) (ps : list bytes) : list bytes :=
  match ps with
  | [] => []
  | p :: tl => let c := E k (bxor p prev) in c :: cbc_enc_blocks k c tl
  end.

Fixpoint cbc_dec_blocks (k prev : bytes) (cs : list bytes) : list bytes :=
  match cs with
  | [] => []
  | c :: tl => bxor (D k c) prev :: cbc_dec_blocks k c tl
  end.

Definition cbc_encrypt_raw (k iv p : bytes) : bytes :=
  concat (cbc_enc_blocks k iv (blocks_of p)).

Definition cbc_decrypt_raw (k iv c : bytes) : bytes :=
  concat (cbc_dec_blocks k iv (blocks_of c)).

(** CBCEncrypterPrivkey(password, privkey) with the 16 random IV bytes as an
    input.  [None] = CryptBlocks panics ("input not full blocks"). *)
Definition cbc_encrypter (pw iv priv : bytes) : option bytes :=
  if full_blocks priv
  then Some (iv ++ cbc_encrypt_raw (derive_key pw) iv priv)
  else None.

(** The length-based format test of CBCDecrypterPrivkey. *)
Definition is_new_format (blob : bytes) : bool :=
  let n := length blob in
  (16 <? n)%nat && (n mod 16 =? 0)%nat && ((n - 16 =? 32)%nat || (n - 16 =? 64)%nat).

(** CBCDecrypterPrivkey(password, blob).  [None] = panic. *)
Definition cbc_decrypter (pw blob : bytes) : option bytes :=
  let key := derive_key pw in
  if is_new_format blob
  then Some (cbc_decrypt_raw key (firstn 16 blob) (skipn 16 blob))
  else if full_blocks blob
       then Some (cbc_decrypt_raw key (firstn 16 key) blob)
       else None.

(** The encrypter that was in the tree before the IV-randomisation change
    (IV = key[:16], no prefix); only used to describe legacy blobs. *)
Definition cbc_legacy_encrypter (pw priv : bytes) : bytes :=
  let key := derive_key pw in cbc_encrypt_raw key (firstn 16 key) priv.

(** ---------- GCM seed encryption ---------- *)

(** AesgcmEncrypter with the 12 random nonce bytes as an input. *)
Definition gcm_encrypter (pw nonce seed : bytes) : bytes :=
  nonce ++ seal (derive_key pw) nonce seed.

(** AesgcmDecrypter: nonce-prefixed format first, legacy fixed nonce second.
    [None] = error. *)
Definition gcm_decrypter (pw blob : bytes) : option bytes :=
  let key := derive_key pw in
  let try_new :=
    if (12 <? length blob)%nat
    then open key (firstn 12 blob) (skipn 12 blob) else None in
  match try_new with
  | Some m => Some m
  | None => open key (firstn 12 key) blob
  end.

Definition gcm_legacy_encrypter (pw seed : bytes) : bytes :=
  let key := derive_key pw in seal key (firstn 12 key) seed.

(** ---------- the wallet ---------- *)

(** Error classes (the harness maps Go errors to the same numbers). *)
Definition eVerifyOld : N := 1.     (* ErrVerifyOldpasswdFail *)
Definition eInvalidPw : N := 2.     (* ErrInvalidPassWord *)
Definition eInputPw : N := 3.       (* ErrInputPassword *)
Definition eLocked : N := 4.        (* ErrWalletIsLocked *)
Definition eSaveSeedFirst : N := 5. (* ErrSaveSeedFirst *)
Definition eSeedExist : N := 6.     (* ErrSeedExist *)
Definition eAddrNotExist : N := 7.  (* ErrAddrNotExist *)
Definition ePrivkeyExist : N := 8.  (* ErrPrivkeyExist *)
Definition ePrivkey : N := 9.       (* ErrPrivkey *)
Definition eInvalidParam : N := 10. (* ErrInvalidParam *)
Definition eWrite : N := 11.        (* the (injected) batch write error *)
Definition ePrivkeyToPub : N := 12. (* ErrPrivkeyToPub *)

Inductive res :=
| ROk
| RErr (e : N)
| RBytes (b : bytes)
| RPanic.

(** The store is the part that lives in the wallet DB; [w_pw w_flag w_locked]
    are the in-memory fields Password / EncryptFlag / isWalletLocked.
    The password-hash record (salted SHA-256) is modelled by the password it
    was computed from. *)
Record wallet := mkW {
  w_seed : bytes;                 (* value under "walletseed"; [] = absent *)
  w_hash : option bytes;
  w_dbflag : bool;
  w_accts : list (N * bytes);     (* account id |-> stored (hex-decoded) Privkey, sorted by id *)
  w_pw : bytes;
  w_flag : bool;
  w_locked : bool }.

Definition w_init : wallet := mkW [] None false [] [] false true.

Fixpoint acct_get (a : N) (l : list (N * bytes)) : option bytes :=
  match l with
  | [] => None
  | (b, v) :: tl => if N.eqb a b then Some v else acct_get a tl
  end.

Fixpoint acct_put (a : N) (v : bytes) (l : list (N * bytes)) : list (N * bytes) :=
  match l with
  | [] => [(a, v)]
  | (b, w) :: tl =>
      if N.eqb a b then (a, v) :: tl
      else if N.ltb a b then (a, v) :: (b, w) :: tl
      else (b, w) :: acct_put a v tl
  end.

(** isValidPassWord, for ASCII passwords: 8..30 characters, only letters and
    digits, at least one of each. *)
Definition is_digit (c : N) : bool := (48 <=? c)%N && (c <=? 57)%N.
Definition is_letter (c : N) : bool :=
  ((65 <=? c)%N && (c <=? 90)%N) || ((97 <=? c)%N && (c <=? 122)%N).
Definition valid_password (pw : bytes) : bool :=
  (8 <=? length pw)%nat && (length pw <=? 30)%nat
  && forallb (fun c => is_letter c || is_digit c) pw
  && existsb is_letter pw && existsb is_digit pw.

Definition has_seed (w : wallet) : bool := negb (length (w_seed w) =? 0)%nat.

(** checkWalletStatus (no mining reporter registered: isTicketLocked = true). *)
Definition check_status (w : wallet) : option N :=
  if w_locked w then Some eLocked
  else if has_seed w then None else Some eSaveSeedFirst.

(** VerifyPasswordHash *)
Definition verify_hash (w : wallet) (pw : bytes) : bool :=
  match w_hash w with
  | Some h => bytes_eqb h pw
  | None => false
  end.

Definition is_nil (b : bytes) : bool := match b with [] => true | _ => false end.

Definition iv_of (ivs : list (N * bytes)) (a : N) : bytes :=
  match acct_get a ivs with Some iv => iv | None => repeat 0%N 16 end.

(** The account loop of ProcWalletSetPasswd: [ivs] gives the random IV drawn
    for each account (16 zero bytes for an account the list does not mention;
    the harness always lists all of them).  [None] = a panic inside the loop. *)
Fixpoint reencrypt_all (oldpw newpw : bytes) (ivs : list (N * bytes))
         (l : list (N * bytes)) : option (list (N * bytes)) :=
  match l with
  | [] => Some []
  | (a, blob) :: tl =>
      if is_nil blob then
        (* FromHex gives nothing: logged, skipped, record left as it is *)
        match reencrypt_all oldpw newpw ivs tl with
        | Some tl' => Some ((a, blob) :: tl')
        | None => None
        end
      else
        match cbc_decrypter oldpw blob with
        | None => None
        | Some dec =>
            match cbc_encrypter newpw (iv_of ivs a) dec with
            | None => None
            | Some blob' =>
                match reencrypt_all oldpw newpw ivs tl with
                | Some tl' => Some ((a, blob') :: tl')
                | None => None
                end
            end
        end
  end.

Inductive op :=
| OSaveSeed (pw seed nonce : bytes)
| OUnlock (pw : bytes)
| OLock
| ORestart
| OImport (a : N) (key iv : bytes)
| OInjectLegacyAcct (a : N) (pw key : bytes)   (* the harness stores a legacy-format record *)
| OInjectRawAcct (a : N) (blob : bytes)        (* the harness stores an arbitrary record *)
| OInjectLegacySeed (pw seed : bytes)          (* the harness stores a legacy-format seed *)
| OSetPasswd (oldpw newpw nonce : bytes) (ivs : list (N * bytes)) (wfail : bool)
| ODump (a : N)
| OGetSeed (pw : bytes).

(** Key lengths PrivkeyToPub accepts: 32 (secp256k1, ed25519) and, for an
    ed25519 wallet ([ed = true]), also 64. *)
Definition accept_len (ed : bool) (n : nat) : bool :=
  (n =? 32)%nat || (ed && (n =? 64)%nat).

Definition step (ed : bool) (w : wallet) (o : op) : wallet * res :=
  match o with
  | OSaveSeed pw seed nonce =>
      if has_seed w then (w, RErr eSeedExist)
      else if is_nil pw || is_nil seed then (w, RErr eInvalidParam)
      else if negb (valid_password pw) then (w, RErr eInvalidPw)
      else (mkW (gcm_encrypter pw nonce seed) (Some pw) true (w_accts w) pw true (w_locked w), ROk)
  | OUnlock pw =>
      if negb (has_seed w) then (w, RErr eSaveSeedFirst)
      else if is_nil (w_pw w) && w_flag w && negb (verify_hash w pw) then (w, RErr eVerifyOld)
      else if negb (is_nil (w_pw w)) && negb (bytes_eqb pw (w_pw w)) then (w, RErr eInputPw)
      else (mkW (w_seed w) (w_hash w) (w_dbflag w) (w_accts w) pw (w_flag w) false, ROk)
  | OLock =>
      if negb (has_seed w) then (w, RErr eSaveSeedFirst)
      else (mkW (w_seed w) (w_hash w) (w_dbflag w) (w_accts w) (w_pw w) (w_flag w) true, ROk)
  | ORestart =>
      (mkW (w_seed w) (w_hash w) (w_dbflag w) (w_accts w) [] (w_dbflag w) true, ROk)
  | OImport a key iv =>
      match check_status w with
      | Some e => (w, RErr e)
      | None =>
          if is_nil key then (w, RErr eInvalidParam)
          else if negb (accept_len ed (length key)) then (w, RErr ePrivkeyToPub)
          else
            match cbc_encrypter (w_pw w) iv key with
            | None => (w, RPanic)
            | Some blob =>
                match acct_get a (w_accts w) with
                | Some old =>
                    match cbc_decrypter (w_pw w) old with
                    | None => (w, RPanic)
                    | Some dec =>
                        if bytes_eqb dec key then (w, RErr ePrivkeyExist) else (w, RErr ePrivkey)
                    end
                | None =>
                    (mkW (w_seed w) (w_hash w) (w_dbflag w) (acct_put a blob (w_accts w))
                         (w_pw w) (w_flag w) (w_locked w), ROk)
                end
            end
      end
  | OInjectLegacyAcct a pw key =>
      (mkW (w_seed w) (w_hash w) (w_dbflag w) (acct_put a (cbc_legacy_encrypter pw key) (w_accts w))
           (w_pw w) (w_flag w) (w_locked w), ROk)
  | OInjectRawAcct a blob =>
      (mkW (w_seed w) (w_hash w) (w_dbflag w) (acct_put a blob (w_accts w))
           (w_pw w) (w_flag w) (w_locked w), ROk)
  | OInjectLegacySeed pw seed =>
      (mkW (gcm_legacy_encrypter pw seed) (w_hash w) (w_dbflag w) (w_accts w)
           (w_pw w) (w_flag w) (w_locked w), ROk)
  | OSetPasswd oldpw newpw nonce ivs wfail =>
      (* isok, err := checkWalletStatus(); if !isok && err == ErrSaveSeedFirst { return } *)
      if negb (w_locked w) && negb (has_seed w) then (w, RErr eSaveSeedFirst)
      else if negb (valid_password newpw) then (w, RErr eInvalidPw)
      (* from here the wallet is temporarily unlocked; every return restores the lock *)
      else if is_nil (w_pw w) && w_flag w && negb (verify_hash w oldpw) then (w, RErr eVerifyOld)
      else if negb (is_nil (w_pw w)) && negb (bytes_eqb oldpw (w_pw w)) then (w, RErr eVerifyOld)
      (* getSeed(OldPass) *)
      else if negb (has_seed w) then (w, RErr eSaveSeedFirst)
      else if is_nil oldpw then (w, RErr eInvalidParam)
      else
        match gcm_decrypter oldpw (w_seed w) with
        | None => (w, RErr eInputPw)
        | Some seed =>
            if is_nil seed then (w, RErr eInvalidParam)
            else
              match reencrypt_all oldpw newpw ivs (w_accts w) with
              | None => (w, RPanic)
              | Some accts' =>
                  if wfail then (w, RErr eWrite)
                  else (mkW (gcm_encrypter newpw nonce seed) (Some newpw) true accts'
                            newpw true (w_locked w), ROk)
              end
        end
  | ODump a =>
      match check_status w with
      | Some e => (w, RErr e)
      | None =>
          match acct_get a (w_accts w) with
          | None => (w, RErr eAddrNotExist)
          | Some blob =>
              if is_nil blob then (w, RBytes [])
              else match cbc_decrypter (w_pw w) blob with
                   | None => (w, RPanic)
                   | Some dec => (w, RBytes dec)
                   end
          end
      end
  | OGetSeed pw =>
      match check_status w with
      | Some e => (w, RErr e)
      | None =>
          if is_nil pw then (w, RErr eInvalidParam)
          else match gcm_decrypter pw (w_seed w) with
               | None => (w, RErr eInputPw)
               | Some s => (w, RBytes s)
               end
      end
  end.

Fixpoint run (ed : bool) (w : wallet) (ops : list op) : wallet :=
  match ops with
  | [] => w
  | o :: tl => run ed (fst (step ed w o)) tl
  end.

End Ciphers.
