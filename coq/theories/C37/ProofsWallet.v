(** C37 — password changes preserve every stored secret (invariant over
    operation histories of the wallet model). *)
From Coq Require Import List NArith Arith Bool Lia.
From C33 Require Import Lib.Harness C37.Model C37.ProofsCbc C37.ProofsGcm.
Import ListNotations.

Lemma bytes_eqb_eq : forall a b, bytes_eqb a b = true <-> a = b.
Proof. apply list_eqb_spec. intros x y. apply N.eqb_eq. Qed.

Lemma is_nil_true : forall b, is_nil b = true -> b = [].
Proof. intros [|? ?] H; [reflexivity|discriminate]. Qed.

Lemma accept_len_supported : forall ed key,
  accept_len ed (length key) = true -> supported_len key = true.
Proof.
  intros ed key H. unfold accept_len in H. unfold supported_len.
  apply orb_true_iff in H as [H|H]; [rewrite H; reflexivity|].
  apply andb_true_iff in H as [_ H]. rewrite H. apply orb_true_r.
Qed.

Lemma iv_lookup_len : forall ivs a,
  Forall (fun p : N * bytes => length (snd p) = 16) ivs ->
  length (iv_of ivs a) = 16.
Proof.
  intros ivs a H. unfold iv_of. induction H as [|[b v] ivs Hb _ IH]; simpl; [reflexivity|].
  destruct (N.eqb a b); [exact Hb|exact IH].
Qed.

(** Operations issued through the wallet API, with well-formed randomness
    (a 12-byte nonce, 16-byte IVs).  The Inject operations only exist to let
    the harness put old-release records into the DB. *)
Definition op_ok (o : op) : Prop :=
  match o with
  | OSaveSeed _ _ nonce => length nonce = 12
  | OImport _ _ iv => length iv = 16
  | OSetPasswd _ _ nonce ivs _ =>
      length nonce = 12 /\ Forall (fun p : N * bytes => length (snd p) = 16) ivs
  | OInjectLegacyAcct _ _ _ | OInjectRawAcct _ _ | OInjectLegacySeed _ _ => False
  | _ => True
  end.

(** What was put into the wallet: the seed of the successful SaveSeed and the
    keys of the successful imports. *)
Definition truth_seed (ts : option bytes) (o : op) (r : res) : option bytes :=
  match o, r with
  | OSaveSeed _ seed _, ROk => Some seed
  | _, _ => ts
  end.

Definition truth_keys (tk : list (N * bytes)) (o : op) (r : res) : list (N * bytes) :=
  match o, r with
  | OImport a key _, ROk => acct_put a key tk
  | _, _ => tk
  end.

Section Wallet.

Variable E D : bytes -> bytes -> bytes.
Variable seal : bytes -> bytes -> bytes -> bytes.
Variable open : bytes -> bytes -> bytes -> option bytes.
Hypothesis D_E : forall k b, length b = 16 -> D k (E k b) = b.
Hypothesis E_len : forall k b, length b = 16 -> length (E k b) = 16.
Hypothesis open_seal : forall k n m, open k n (seal k n m) = Some m.
Hypothesis seal_len : forall k n m, length (seal k n m) = length m + 16.

Definition pair_ok (cp : bytes) (ab ak : N * bytes) : Prop :=
  fst ab = fst ak /\ supported_len (snd ak) = true /\ cbc_decrypter D cp (snd ab) = Some (snd ak).

Definition agrees (cp : bytes) (accts tk : list (N * bytes)) : Prop :=
  Forall2 (pair_ok cp) accts tk.

(** The invariant: [cp] is the password of the stored hash; the in-memory
    password is [cp] or (after a restart, still locked) empty; the seed record
    and every account record decrypt under [cp] to what was put in. *)
Definition R (w : wallet) (ts : option bytes) (tk : list (N * bytes)) : Prop :=
  match ts with
  | None => has_seed w = false /\ w_accts w = [] /\ tk = []
  | Some s =>
      exists cp,
        w_hash w = Some cp /\ w_flag w = true /\ w_dbflag w = true /\
        (w_pw w = cp \/ (w_pw w = [] /\ w_locked w = true)) /\
        cp <> [] /\
        has_seed w = true /\
        gcm_decrypter open cp (w_seed w) = Some s /\
        agrees cp (w_accts w) tk
  end.

Lemma R_init : R w_init None [].
Proof. repeat split. Qed.

Lemma agrees_put : forall cp accts tk a blob key,
  agrees cp accts tk -> pair_ok cp (a, blob) (a, key) ->
  agrees cp (acct_put a blob accts) (acct_put a key tk).
Proof.
  intros cp accts tk a blob key H Hp.
  induction H as [|[b v] [b' k'] accts tk Hh Ht IH]; simpl.
  - constructor; [exact Hp|constructor].
  - destruct Hh as [Hid Hrest]. simpl in Hid. subst b'.
    destruct (N.eqb a b).
    + constructor; [exact Hp|exact Ht].
    + destruct (N.ltb a b).
      * constructor; [exact Hp|]. constructor; [split; [reflexivity|exact Hrest]|exact Ht].
      * constructor; [split; [reflexivity|exact Hrest]|exact IH].
Qed.

Lemma agrees_get : forall cp accts tk a key,
  agrees cp accts tk -> acct_get a tk = Some key ->
  exists blob, acct_get a accts = Some blob /\ supported_len key = true
               /\ cbc_decrypter D cp blob = Some key.
Proof.
  intros cp accts tk a key H.
  induction H as [|[b v] [b' k'] accts tk Hh _ IH]; simpl; [discriminate|].
  destruct Hh as [Hid [Hs Hd]]. simpl in *. subst b'.
  destruct (N.eqb a b).
  - intros X. inversion X; subst. exists v. auto.
  - exact IH.
Qed.

Lemma agrees_get_none : forall cp accts tk a,
  agrees cp accts tk -> acct_get a accts = None -> acct_get a tk = None.
Proof.
  intros cp accts tk a H.
  induction H as [|[b v] [b' k'] accts tk Hh _ IH]; simpl; [reflexivity|].
  destruct Hh as [Hid _]. simpl in Hid. subst b'.
  destruct (N.eqb a b); [discriminate|exact IH].
Qed.

Lemma reencrypt_agrees : forall cp newpw ivs accts tk,
  agrees cp accts tk ->
  Forall (fun p : N * bytes => length (snd p) = 16) ivs ->
  exists accts', reencrypt_all E D cp newpw ivs accts = Some accts' /\ agrees newpw accts' tk.
Proof.
  intros cp newpw ivs accts tk H Hiv.
  induction H as [|[a blob] [a' key] accts tk Hh _ IH].
  - exists []. split; [reflexivity|constructor].
  - destruct Hh as [Hid [Hs Hd]]. simpl in Hid, Hs, Hd. subst a'.
    destruct IH as [tl' [Htl Hag]].
    cbn [reencrypt_all].
    destruct blob as [|x blob].
    + exfalso. apply (decrypt_nil_not_key D) in Hd. rewrite Hd in Hs. discriminate.
    + cbn [is_nil]. rewrite Hd.
      destruct (cbc_roundtrip E D D_E E_len newpw _ key (iv_lookup_len ivs a Hiv) Hs)
        as [blob' [He [_ [_ [_ Hd']]]]].
      rewrite He, Htl. eexists. split; [reflexivity|].
      constructor; [|exact Hag]. split; [reflexivity|]. split; [exact Hs|exact Hd'].
Qed.

Notation stepM := (step E D seal open).

(** ---------- one step ---------- *)

Lemma step_savesseed : forall ed w ts tk pw seed nonce w' r,
  R w ts tk -> length nonce = 12 ->
  stepM ed w (OSaveSeed pw seed nonce) = (w', r) ->
  R w' (truth_seed ts (OSaveSeed pw seed nonce) r) tk.
Proof.
  intros ed w ts tk pw seed nonce w' r HR Ln Hst. cbn [step] in Hst.
  destruct (has_seed w) eqn:Hs.
  - inversion Hst; subst. exact HR.
  - destruct (is_nil pw || is_nil seed) eqn:Hn; [inversion Hst; subst; exact HR|].
    destruct (negb (valid_password pw)) eqn:Hv; [inversion Hst; subst; exact HR|].
    inversion Hst; subst. cbn [truth_seed].
    destruct ts as [s|].
    + destruct HR as [cp [_ [_ [_ [_ [_ [Hs' _]]]]]]]. rewrite Hs in Hs'. discriminate.
    + destruct HR as [_ [Ha Htk]]. subst tk.
      apply orb_false_iff in Hn as [Hn _].
      exists pw. cbn. rewrite Ha.
      repeat split; try reflexivity.
      * left. reflexivity.
      * intros ->. discriminate.
      * unfold has_seed. cbn. rewrite (gcm_encrypter_not_nil seal seal_len) by exact Ln. reflexivity.
      * apply (gcm_roundtrip seal open open_seal seal_len). exact Ln.
      * constructor.
Qed.

Lemma step_unlock : forall ed w ts tk pw w' r,
  R w ts tk -> stepM ed w (OUnlock pw) = (w', r) -> R w' ts tk.
Proof.
  intros ed w ts tk pw w' r HR Hst. cbn [step] in Hst.
  destruct ts as [s|].
  - destruct HR as [cp [Hh [Hf [Hdf [Hpw [Hne [Hs [Hg Ha]]]]]]]].
    rewrite Hs in Hst. cbn [negb] in Hst.
    assert (HRw : R w (Some s) tk) by (exists cp; repeat split; assumption).
    destruct (is_nil (w_pw w)) eqn:Hn.
    + rewrite Hf in Hst. unfold verify_hash in Hst. rewrite Hh in Hst.
      destruct (bytes_eqb cp pw) eqn:Hb; cbn in Hst.
      * inversion Hst; subst. apply bytes_eqb_eq in Hb. subst pw.
        exists cp. cbn. repeat split; try assumption. left. reflexivity.
      * inversion Hst; subst. exact HRw.
    + cbn in Hst.
      destruct (bytes_eqb pw (w_pw w)) eqn:Hb; cbn in Hst.
      * inversion Hst; subst. apply bytes_eqb_eq in Hb.
        destruct Hpw as [Hpw|[Hpw _]]; [|rewrite Hpw in Hn; discriminate].
        exists cp. cbn. repeat split; try assumption. left. congruence.
      * inversion Hst; subst. exact HRw.
  - destruct HR as [Hs HR]. rewrite Hs in Hst. cbn in Hst. inversion Hst; subst.
    split; assumption.
Qed.

Lemma step_lock : forall ed w ts tk w' r,
  R w ts tk -> stepM ed w OLock = (w', r) -> R w' ts tk.
Proof.
  intros ed w ts tk w' r HR Hst. cbn [step] in Hst.
  destruct ts as [s|].
  - destruct HR as [cp [Hh [Hf [Hdf [Hpw [Hne [Hs [Hg Ha]]]]]]]].
    rewrite Hs in Hst. cbn in Hst. inversion Hst; subst.
    exists cp. cbn. repeat split; try assumption.
    destruct Hpw as [Hpw|[Hpw _]]; [left; exact Hpw|right; split; [exact Hpw|reflexivity]].
  - destruct HR as [Hs HR]. rewrite Hs in Hst. cbn in Hst. inversion Hst; subst.
    split; assumption.
Qed.

Lemma step_restart : forall ed w ts tk w' r,
  R w ts tk -> stepM ed w ORestart = (w', r) -> R w' ts tk.
Proof.
  intros ed w ts tk w' r HR Hst. cbn [step] in Hst. inversion Hst; subst.
  destruct ts as [s|].
  - destruct HR as [cp [Hh [Hf [Hdf [Hpw [Hne [Hs [Hg Ha]]]]]]]].
    exists cp. cbn. repeat split; try assumption. right. split; reflexivity.
  - exact HR.
Qed.

Lemma step_import : forall ed w ts tk a key iv w' r,
  R w ts tk -> length iv = 16 ->
  stepM ed w (OImport a key iv) = (w', r) ->
  R w' ts (truth_keys tk (OImport a key iv) r).
Proof.
  intros ed w ts tk a key iv w' r HR Liv Hst. cbn [step] in Hst.
  destruct (check_status w) as [e|] eqn:Hc; [inversion Hst; subst; exact HR|].
  destruct (is_nil key); [inversion Hst; subst; exact HR|].
  destruct (negb (accept_len ed (length key))) eqn:Hal; [inversion Hst; subst; exact HR|].
  destruct (cbc_encrypter E (w_pw w) iv key) as [blob|] eqn:He; [|inversion Hst; subst; exact HR].
  destruct (acct_get a (w_accts w)) as [old|] eqn:Hg.
  - destruct (cbc_decrypter D (w_pw w) old) as [dec|]; [|inversion Hst; subst; exact HR].
    destruct (bytes_eqb dec key); inversion Hst; subst; exact HR.
  - inversion Hst; subst. cbn [truth_keys].
    unfold check_status in Hc.
    destruct (w_locked w) eqn:Hl; [discriminate|].
    destruct (has_seed w) eqn:Hs; [|discriminate].
    destruct ts as [s|].
    + destruct HR as [cp [Hh [Hf [Hdf [Hpw [Hne [_ [Hgs Ha]]]]]]]].
      destruct Hpw as [Hpw|[_ Hpw]]; [|congruence].
      apply negb_false_iff in Hal. apply accept_len_supported in Hal.
      destruct (cbc_roundtrip E D D_E E_len cp iv key Liv Hal) as [b0 [He0 [_ [_ [_ Hd0]]]]].
      rewrite Hpw in He. rewrite He in He0. inversion He0; subst b0.
      exists cp. cbn. repeat split; try assumption.
      * left. exact Hpw.
      * apply agrees_put; [exact Ha|]. split; [reflexivity|]. split; [exact Hal|exact Hd0].
    + destruct HR as [Hs' _]. rewrite Hs in Hs'. discriminate.
Qed.

Lemma old_password_checked : forall w cp oldpw,
  w_hash w = Some cp -> w_flag w = true ->
  (w_pw w = cp \/ (w_pw w = [] /\ w_locked w = true)) ->
  is_nil (w_pw w) && w_flag w && negb (verify_hash w oldpw) = false ->
  negb (is_nil (w_pw w)) && negb (bytes_eqb oldpw (w_pw w)) = false ->
  oldpw = cp.
Proof.
  intros w cp oldpw Hh Hf Hpw C3 C4.
  destruct (is_nil (w_pw w)) eqn:Hn.
  - rewrite Hf in C3. cbn in C3. apply negb_false_iff in C3.
    unfold verify_hash in C3. rewrite Hh in C3. apply bytes_eqb_eq in C3. congruence.
  - cbn in C4. apply negb_false_iff in C4. apply bytes_eqb_eq in C4.
    destruct Hpw as [Hpw|[Hpw _]]; [congruence|rewrite Hpw in Hn; discriminate].
Qed.

Lemma step_setpasswd : forall ed w ts tk oldpw newpw nonce ivs wfail w' r,
  R w ts tk ->
  length nonce = 12 -> Forall (fun p : N * bytes => length (snd p) = 16) ivs ->
  stepM ed w (OSetPasswd oldpw newpw nonce ivs wfail) = (w', r) ->
  R w' ts tk.
Proof.
  intros ed w ts tk oldpw newpw nonce ivs wfail w' r HR Ln Hiv Hst. cbn [step] in Hst.
  destruct (negb (w_locked w) && negb (has_seed w)); [inversion Hst; subst; exact HR|].
  destruct (negb (valid_password newpw)) eqn:Hv; [inversion Hst; subst; exact HR|].
  destruct (is_nil (w_pw w) && w_flag w && negb (verify_hash w oldpw)) eqn:C3;
    [inversion Hst; subst; exact HR|].
  destruct (negb (is_nil (w_pw w)) && negb (bytes_eqb oldpw (w_pw w))) eqn:C4;
    [inversion Hst; subst; exact HR|].
  destruct (negb (has_seed w)) eqn:Hs; [inversion Hst; subst; exact HR|].
  destruct (is_nil oldpw); [inversion Hst; subst; exact HR|].
  destruct ts as [s|].
  - destruct HR as [cp [Hh [Hf [Hdf [Hpw [Hne [Hs' [Hg Ha]]]]]]]].
    assert (HRw : R w (Some s) tk) by (exists cp; repeat split; assumption).
    assert (oldpw = cp) by (eapply old_password_checked; eassumption). subst oldpw.
    rewrite Hg in Hst.
    destruct (is_nil s); [inversion Hst; subst; exact HRw|].
    destruct (reencrypt_agrees cp newpw ivs _ _ Ha Hiv) as [accts' [Hre Hag]].
    rewrite Hre in Hst.
    destruct wfail; inversion Hst; subst; [exact HRw|].
    apply negb_false_iff in Hv.
    exists newpw. cbn. repeat split; try reflexivity.
    + left. reflexivity.
    + apply valid_password_not_nil. exact Hv.
    + unfold has_seed. cbn. rewrite (gcm_encrypter_not_nil seal seal_len) by exact Ln. reflexivity.
    + apply (gcm_roundtrip seal open open_seal seal_len). exact Ln.
    + exact Hag.
  - destruct HR as [Hs' _]. rewrite Hs' in Hs. discriminate.
Qed.

Lemma step_R : forall ed w ts tk o w' r,
  R w ts tk -> op_ok o -> stepM ed w o = (w', r) ->
  R w' (truth_seed ts o r) (truth_keys tk o r).
Proof.
  intros ed w ts tk o w' r HR Hok Hst.
  destruct o; cbn [op_ok] in Hok; try contradiction.
  - (* SaveSeed *)
    replace (truth_keys tk (OSaveSeed pw seed nonce) r) with tk by reflexivity.
    eapply step_savesseed; eassumption.
  - eapply step_unlock; eassumption.
  - eapply step_lock; eassumption.
  - eapply step_restart; eassumption.
  - replace (truth_seed ts (OImport a key iv) r) with ts by reflexivity.
    eapply step_import; eassumption.
  - destruct Hok as [Ln Hiv].
    replace (truth_seed ts (OSetPasswd oldpw newpw nonce ivs wfail) r) with ts by reflexivity.
    replace (truth_keys tk (OSetPasswd oldpw newpw nonce ivs wfail) r) with tk by reflexivity.
    eapply step_setpasswd; eassumption.
  - (* Dump: the wallet is never modified *)
    assert (w' = w).
    { cbn [step] in Hst. destruct (check_status w); [inversion Hst; reflexivity|].
      destruct (acct_get a (w_accts w)) as [blob|]; [|inversion Hst; reflexivity].
      destruct (is_nil blob); [inversion Hst; reflexivity|].
      destruct (cbc_decrypter D (w_pw w) blob); inversion Hst; reflexivity. }
    subst w'. exact HR.
  - assert (w' = w).
    { cbn [step] in Hst. destruct (check_status w); [inversion Hst; reflexivity|].
      destruct (is_nil pw); [inversion Hst; reflexivity|].
      destruct (gcm_decrypter open pw (w_seed w)); inversion Hst; reflexivity. }
    subst w'. exact HR.
Qed.

(** ---------- histories ---------- *)

Fixpoint run_truth (ed : bool) (w : wallet) (ts : option bytes) (tk : list (N * bytes))
         (ops : list op) : wallet * option bytes * list (N * bytes) :=
  match ops with
  | [] => (w, ts, tk)
  | o :: tl =>
      let wr := stepM ed w o in
      run_truth ed (fst wr) (truth_seed ts o (snd wr)) (truth_keys tk o (snd wr)) tl
  end.

Lemma run_R : forall ed ops w ts tk,
  R w ts tk -> Forall op_ok ops ->
  match run_truth ed w ts tk ops with (w', ts', tk') => R w' ts' tk' end.
Proof.
  intros ed ops. induction ops as [|o ops IH]; intros w ts tk HR Hok; cbn [run_truth]; [exact HR|].
  inversion Hok as [|? ? Ho Hops]; subst.
  apply IH; [|exact Hops].
  eapply step_R; [exact HR|exact Ho|]. apply surjective_pairing.
Qed.

(** What the invariant means for the reads the API offers. *)
Definition secrets_intact (ed : bool) (w : wallet) (ts : option bytes) (tk : list (N * bytes)) : Prop :=
  match ts with
  | None => w_accts w = [] /\ has_seed w = false
  | Some s =>
      exists cp,
        w_hash w = Some cp /\
        gcm_decrypter open cp (w_seed w) = Some s /\
        (forall a key, acct_get a tk = Some key ->
           exists blob, acct_get a (w_accts w) = Some blob /\ cbc_decrypter D cp blob = Some key) /\
        (w_locked w = false ->
           snd (stepM ed w (OGetSeed cp)) = RBytes s /\
           forall a key, acct_get a tk = Some key -> snd (stepM ed w (ODump a)) = RBytes key)
  end.

Lemma R_secrets_intact : forall ed w ts tk, R w ts tk -> secrets_intact ed w ts tk.
Proof.
  intros ed w ts tk HR. destruct ts as [s|]; cbn [secrets_intact].
  - destruct HR as [cp [Hh [Hf [Hdf [Hpw [Hne [Hs [Hg Ha]]]]]]]].
    exists cp. split; [exact Hh|]. split; [exact Hg|]. split.
    + intros a key Hk. destruct (agrees_get cp _ _ a key Ha Hk) as [blob [H1 [_ H3]]].
      exists blob. auto.
    + intros Hl.
      destruct Hpw as [Hpw|[_ Hpw]]; [|rewrite Hl in Hpw; discriminate].
      assert (Hc : check_status w = None) by (unfold check_status; rewrite Hl, Hs; reflexivity).
      split.
      * cbn [step]. rewrite Hc. destruct cp as [|c cp]; [contradiction|]. cbn [is_nil].
        rewrite Hg. reflexivity.
      * intros a key Hk. destruct (agrees_get cp _ _ a key Ha Hk) as [blob [H1 [H2 H3]]].
        cbn [step]. rewrite Hc, H1.
        destruct blob as [|x blob].
        -- apply (decrypt_nil_not_key D) in H3. rewrite H3 in H2. discriminate.
        -- cbn [is_nil]. rewrite Hpw, H3. reflexivity.
  - destruct HR as [Hs [Ha _]]. split; assumption.
Qed.

(** Main statement: any history of API operations from an empty wallet. *)
Lemma setpasswd_preserves : forall ed ops,
  Forall op_ok ops ->
  match run_truth ed w_init None [] ops with
  | (w, ts, tk) => secrets_intact ed w ts tk
  end.
Proof.
  intros ed ops Hok.
  pose proof (run_R ed ops w_init None [] R_init Hok) as H.
  destruct (run_truth ed w_init None [] ops) as [[w ts] tk].
  apply R_secrets_intact. exact H.
Qed.

(** The same from any wallet that satisfies the invariant (for instance one
    left by an older release, see [legacy_wallet_R]). *)
Lemma setpasswd_preserves_from : forall ed ops w0 ts0 tk0,
  R w0 ts0 tk0 -> Forall op_ok ops ->
  match run_truth ed w0 ts0 tk0 ops with
  | (w, ts, tk) => secrets_intact ed w ts tk
  end.
Proof.
  intros ed ops w0 ts0 tk0 H0 Hok.
  pose proof (run_R ed ops w0 ts0 tk0 H0 Hok) as H.
  destruct (run_truth ed w0 ts0 tk0 ops) as [[w ts] tk].
  apply R_secrets_intact. exact H.
Qed.

(** A wallet written by the release before the IV / nonce randomisation. *)
Definition legacy_wallet (cp seed : bytes) (tk : list (N * bytes)) : wallet :=
  mkW (gcm_legacy_encrypter seal cp seed) (Some cp) true
      (map (fun ak : N * bytes => (fst ak, cbc_legacy_encrypter E cp (snd ak))) tk)
      [] true true.

Lemma legacy_wallet_R : forall cp seed tk,
  cp <> [] ->
  Forall (fun ak : N * bytes => supported_len (snd ak) = true) tk ->
  (let blob := gcm_legacy_encrypter seal cp seed in
   open (derive_key cp) (firstn 12 blob) (skipn 12 blob) = None) ->
  R (legacy_wallet cp seed tk) (Some seed) tk.
Proof.
  intros cp seed tk Hne Hs Hrej. exists cp. cbn.
  repeat split; try reflexivity; try assumption.
  - right. split; reflexivity.
  - unfold has_seed. cbn. unfold gcm_legacy_encrypter. rewrite seal_len.
    destruct (length seed + 16) eqn:X; [lia|reflexivity].
  - apply (gcm_legacy_roundtrip seal open open_seal). exact Hrej.
  - induction Hs as [|[a key] tk Hk _ IH]; cbn; constructor; [|exact IH].
    split; [reflexivity|]. split; [exact Hk|].
    apply (cbc_legacy_roundtrip E D D_E E_len cp key Hk).
Qed.

End Wallet.

(** A failed password change leaves the whole wallet (DB and memory) as it
    was — no invariant needed. *)
Lemma setpasswd_failure_unchanged : forall E D seal open ed w oldpw newpw nonce ivs wfail,
  snd (step E D seal open ed w (OSetPasswd oldpw newpw nonce ivs wfail)) <> ROk ->
  fst (step E D seal open ed w (OSetPasswd oldpw newpw nonce ivs wfail)) = w.
Proof.
  intros E D seal open ed w oldpw newpw nonce ivs wfail. cbn [step].
  repeat match goal with
         | |- context [if ?c then _ else _] => destruct c; try (intros _; reflexivity)
         | |- context [match ?c with Some _ => _ | None => _ end] => destruct c; try (intros _; reflexivity)
         end.
  intros H. exfalso. apply H. reflexivity.
Qed.

(** ---------- non-vacuity: a concrete cipher and a concrete history ---------- *)

Definition toy_seal (k n m : bytes) : bytes := m ++ repeat 0%N 16.
Definition toy_open (k n c : bytes) : option bytes := Some (firstn (length c - 16) c).

Lemma toy_open_seal : forall k n m, toy_open k n (toy_seal k n m) = Some m.
Proof.
  intros. unfold toy_open, toy_seal. rewrite app_length, repeat_length.
  replace (length m + 16 - 16) with (length m) by lia.
  rewrite (firstn_len_app m _ (length m) eq_refl). reflexivity.
Qed.

Lemma toy_seal_len : forall k n m, length (toy_seal k n m) = length m + 16.
Proof. intros. unfold toy_seal. rewrite app_length, repeat_length. reflexivity. Qed.

Definition ex_pw1 : bytes := [97;98;99;100;101;102;103;49]%N.
Definition ex_pw2 : bytes := [120;121;122;100;101;102;103;50]%N.
Definition ex_key : bytes := repeat 5%N 32.
Definition ex_history : list op :=
  [ OSaveSeed ex_pw1 [115;101;101;100]%N (repeat 1%N 12);
    OUnlock ex_pw1;
    OImport 0%N ex_key (repeat 2%N 16);
    OSetPasswd ex_pw2 ex_pw2 (repeat 3%N 12) [(0%N, repeat 4%N 16)] false;   (* wrong old password *)
    OSetPasswd ex_pw1 ex_pw2 (repeat 3%N 12) [(0%N, repeat 4%N 16)] true;    (* write fails *)
    OSetPasswd ex_pw1 ex_pw2 (repeat 3%N 12) [(0%N, repeat 4%N 16)] false;   (* succeeds *)
    ORestart;
    OUnlock ex_pw2 ].

Example ex_history_ok : Forall op_ok ex_history.
Proof. repeat constructor. Qed.

Example ex_history_result :
  match run_truth idc idc toy_seal toy_open false w_init None [] ex_history with
  | (w, ts, tk) =>
      ts = Some [115;101;101;100]%N /\ tk = [(0%N, ex_key)] /\ w_hash w = Some ex_pw2 /\
      w_locked w = false /\
      snd (step idc idc toy_seal toy_open false w (ODump 0%N)) = RBytes ex_key
  end.
Proof. vm_compute. repeat split. Qed.
