(** C37 — the property as an executable oracle over what the implementation
    answered.  It knows nothing about ciphers, formats or blobs: it only tracks
    which secrets were put into the wallet, which password is the current one
    (the last one a successful SaveSeed / SetPasswd installed) and whether the
    wallet was unlocked, and demands that every read returns the secret that
    was put in. *)
From Coq Require Import List NArith Arith Bool.
From C33 Require Import Lib.Harness C37.Model.
Import ListNotations.

Record sstate := mkS {
  s_seed : option bytes;        (* the seed, when the spec knows what it must be *)
  s_keys : list (N * bytes);    (* account id |-> private key, same remark *)
  s_pw : bytes;                 (* the wallet's current password *)
  s_unl : bool }.               (* unlocked *)

Definition s_init : sstate := mkS None [] [] false.

Fixpoint s_del (a : N) (l : list (N * bytes)) : list (N * bytes) :=
  match l with
  | [] => []
  | (b, v) :: tl => if N.eqb a b then s_del a tl else (b, v) :: s_del a tl
  end.

Definition res_is_bytes (r : res) (b : bytes) : bool :=
  match r with RBytes x => bytes_eqb x b | _ => false end.

Definition res_is_ok (r : res) : bool := match r with ROk => true | _ => false end.

(** One operation with the implementation's answer [r]: new spec state and
    whether the answer is acceptable. *)
Definition spec_step (s : sstate) (o : op) (r : res) : sstate * bool :=
  match o with
  | OSaveSeed pw seed _ =>
      if res_is_ok r then (mkS (Some seed) (s_keys s) pw (s_unl s), true) else (s, true)
  | OUnlock pw =>
      if res_is_ok r then (mkS (s_seed s) (s_keys s) (s_pw s) true, bytes_eqb pw (s_pw s))
      else (s, true)
  | OLock =>
      if res_is_ok r then (mkS (s_seed s) (s_keys s) (s_pw s) false, true) else (s, true)
  | ORestart => (mkS (s_seed s) (s_keys s) (s_pw s) false, true)
  | OImport a key _ =>
      if res_is_ok r then (mkS (s_seed s) ((a, key) :: s_del a (s_keys s)) (s_pw s) (s_unl s), true)
      else (s, true)
  | OInjectLegacyAcct a pw key =>
      if bytes_eqb pw (s_pw s) && supported_len key
      then (mkS (s_seed s) ((a, key) :: s_del a (s_keys s)) (s_pw s) (s_unl s), true)
      else (mkS (s_seed s) (s_del a (s_keys s)) (s_pw s) (s_unl s), true)
  | OInjectRawAcct a _ =>
      (mkS (s_seed s) (s_del a (s_keys s)) (s_pw s) (s_unl s), true)
  | OInjectLegacySeed pw seed =>
      (mkS (if bytes_eqb pw (s_pw s) then Some seed else None) (s_keys s) (s_pw s) (s_unl s), true)
  | OSetPasswd oldpw newpw _ _ _ =>
      (* whatever the outcome, nothing the wallet holds may change; a success
         needs the right old password and makes [newpw] the current one *)
      if res_is_ok r then (mkS (s_seed s) (s_keys s) newpw (s_unl s), bytes_eqb oldpw (s_pw s))
      else (s, true)
  | ODump a =>
      if s_unl s then
        match acct_get a (s_keys s) with
        | Some key => (s, res_is_bytes r key)
        | None => (s, true)
        end
      else (s, true)
  | OGetSeed pw =>
      if s_unl s then
        match s_seed s with
        | Some seed =>
            if bytes_eqb pw (s_pw s) then (s, res_is_bytes r seed)
            else (s, negb (res_is_bytes r seed))     (* another password must not open it *)
        | None => (s, true)
        end
      else (s, true)
  end.

Fixpoint spec_run (s : sstate) (h : list (op * res)) : bool :=
  match h with
  | [] => true
  | (o, r) :: tl => let '(s', ok) := spec_step s o r in ok && spec_run s' tl
  end.

(** The first step the oracle rejects, with the spec state before it. *)
Fixpoint spec_first_bad (s : sstate) (h : list (op * res)) : option (sstate * op * res) :=
  match h with
  | [] => None
  | (o, r) :: tl =>
      let '(s', ok) := spec_step s o r in
      if ok then spec_first_bad s' tl else Some (s, o, r)
  end.
