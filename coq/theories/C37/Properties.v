(** C37 — Wallet secrets decrypt correctly across formats and password changes.

    AES-256 on one block ([E]/[D]) and AES-256-GCM ([seal]/[open]) are
    universally quantified; what is assumed about them is stated as premises
    of each theorem ([perm]: AES under a key is a permutation of the 16-byte
    blocks; [aead]: opening what was sealed returns it, ciphertext = plaintext
    + 16 bytes). *)
From Coq Require Import List NArith Arith Bool.
From C33 Require Import Lib.Harness C37.Model C37.ProofsCbc C37.ProofsGcm C37.ProofsWallet.
Import ListNotations.

Definition perm (E D : bytes -> bytes -> bytes) : Prop :=
  (forall k b, length b = 16 -> D k (E k b) = b) /\
  (forall k b, length b = 16 -> length (E k b) = 16).

Definition aead (seal : bytes -> bytes -> bytes -> bytes)
                (open : bytes -> bytes -> bytes -> option bytes) : Prop :=
  (forall k n m, open k n (seal k n m) = Some m) /\
  (forall k n m, length (seal k n m) = length m + 16).

(** IV-prefixed format: every password (any length, any bytes), 32- and
    64-byte keys, every 16-byte IV. *)
Theorem C37_cbc_roundtrip : forall E D, perm E D ->
  forall pw iv priv, length iv = 16 -> supported_len priv = true ->
  exists blob,
    cbc_encrypter E pw iv priv = Some blob /\
    length blob = 16 + length priv /\
    firstn 16 blob = iv /\
    is_new_format blob = true /\
    cbc_decrypter D pw blob = Some priv.
Proof. intros E D [H1 H2]. exact (cbc_roundtrip E D H1 H2). Qed.
Print Assumptions C37_cbc_roundtrip.

(** Legacy fixed-IV blobs still decrypt to the original key. *)
Theorem C37_cbc_legacy_roundtrip : forall E D, perm E D ->
  forall pw priv, supported_len priv = true ->
  length (cbc_legacy_encrypter E pw priv) = length priv /\
  is_new_format (cbc_legacy_encrypter E pw priv) = false /\
  cbc_decrypter D pw (cbc_legacy_encrypter E pw priv) = Some priv.
Proof. intros E D [H1 H2]. exact (cbc_legacy_roundtrip E D H1 H2). Qed.
Print Assumptions C37_cbc_legacy_roundtrip.

(** For supported key lengths the length test never misclassifies. *)
Theorem C37_formats_disjoint : forall E D, perm E D ->
  forall pw iv priv, length iv = 16 -> supported_len priv = true ->
  (forall blob, cbc_encrypter E pw iv priv = Some blob -> is_new_format blob = true) /\
  is_new_format (cbc_legacy_encrypter E pw priv) = false.
Proof. intros E D [H1 H2]. exact (formats_disjoint E D H1 H2). Qed.
Print Assumptions C37_formats_disjoint.

Theorem C37_format_test_exact : forall blob,
  is_new_format blob = true <-> (length blob = 48 \/ length blob = 80).
Proof. exact is_new_format_iff. Qed.
Print Assumptions C37_format_test_exact.

(** Full strength (every block-multiple secret length) is false: a 16-byte
    secret comes back as 32 wrong bytes ... *)
Theorem C37_cbc_roundtrip_anylen_refuted : ~ cbc_roundtrip_anylen_full.
Proof. exact cbc_roundtrip_anylen_refuted. Qed.
Print Assumptions C37_cbc_roundtrip_anylen_refuted.

(** ... and the legacy blob of a 48-byte secret is taken for an IV-prefixed one. *)
Theorem C37_cbc_legacy_anylen_refuted : ~ cbc_legacy_anylen_full.
Proof. exact cbc_legacy_anylen_refuted. Qed.
Print Assumptions C37_cbc_legacy_anylen_refuted.

Theorem C37_gcm_roundtrip : forall seal open, aead seal open ->
  forall pw nonce seed, length nonce = 12 ->
  gcm_decrypter open pw (gcm_encrypter seal pw nonce seed) = Some seed.
Proof. intros seal open [H1 H2]. exact (gcm_roundtrip seal open H1 H2). Qed.
Print Assumptions C37_gcm_roundtrip.

(** Legacy fixed-nonce seed blobs: the premise is that reading the blob's
    first 12 bytes as a nonce is rejected (GCM authentication). *)
Theorem C37_gcm_legacy_roundtrip : forall seal open, aead seal open ->
  forall pw seed,
  let blob := gcm_legacy_encrypter seal pw seed in
  open (derive_key pw) (firstn 12 blob) (skipn 12 blob) = None ->
  gcm_decrypter open pw blob = Some seed.
Proof. intros seal open [H1 _]. exact (gcm_legacy_roundtrip seal open H1). Qed.
Print Assumptions C37_gcm_legacy_roundtrip.

(** Distinct passwords do not always give distinct keys ... *)
Theorem C37_password_separation_refuted : ~ password_separation_full.
Proof. exact password_separation_refuted. Qed.
Print Assumptions C37_password_separation_refuted.

(** ... but passwords accepted by isValidPassWord do. *)
Theorem C37_password_separation_partial : forall pw1 pw2,
  valid_password pw1 = true -> valid_password pw2 = true ->
  pw1 <> pw2 -> derive_key pw1 <> derive_key pw2.
Proof. exact password_separation_partial. Qed.
Print Assumptions C37_password_separation_partial.

(** Passwords with the same derived key are interchangeable everywhere. *)
Theorem C37_interchangeable : forall E D seal open pw1 pw2,
  derive_key pw1 = derive_key pw2 ->
  (forall iv p, cbc_encrypter E pw1 iv p = cbc_encrypter E pw2 iv p) /\
  (forall b, cbc_decrypter D pw1 b = cbc_decrypter D pw2 b) /\
  (forall n s, gcm_encrypter seal pw1 n s = gcm_encrypter seal pw2 n s) /\
  (forall b, gcm_decrypter open pw1 b = gcm_decrypter open pw2 b).
Proof. exact interchangeable. Qed.
Print Assumptions C37_interchangeable.

(** Every history of API operations (SaveSeed, Unlock, Lock, Restart, Import,
    SetPasswd with right / wrong old password, invalid new password, failing
    batch write, Dump, GetSeed) from an empty wallet: the seed and every
    imported key decrypt under the password of the stored hash to what was put
    in, and an unlocked wallet returns them through GetSeed / Dump. *)
Theorem C37_setpasswd_preserves : forall E D seal open, perm E D -> aead seal open ->
  forall ed ops, Forall op_ok ops ->
  match run_truth E D seal open ed w_init None [] ops with
  | (w, ts, tk) => secrets_intact E D seal open ed w ts tk
  end.
Proof.
  intros E D seal open [H1 H2] [H3 H4]. exact (setpasswd_preserves E D seal open H1 H2 H3 H4).
Qed.
Print Assumptions C37_setpasswd_preserves.

(** The same starting from a wallet written by the previous release (legacy
    seed and key records under password [cp]). *)
Theorem C37_setpasswd_preserves_legacy : forall E D seal open, perm E D -> aead seal open ->
  forall cp seed tk0,
  cp <> [] ->
  Forall (fun ak : N * bytes => supported_len (snd ak) = true) tk0 ->
  (let blob := gcm_legacy_encrypter seal cp seed in
   open (derive_key cp) (firstn 12 blob) (skipn 12 blob) = None) ->
  forall ed ops, Forall op_ok ops ->
  match run_truth E D seal open ed (legacy_wallet E seal cp seed tk0) (Some seed) tk0 ops with
  | (w, ts, tk) => secrets_intact E D seal open ed w ts tk
  end.
Proof.
  intros E D seal open [H1 H2] [H3 H4] cp seed tk0 Hne Hs Hrej ed ops Hok.
  exact (setpasswd_preserves_from E D seal open H1 H2 H3 H4 ed ops _ _ _
           (legacy_wallet_R E D seal open H1 H2 H3 H4 cp seed tk0 Hne Hs Hrej) Hok).
Qed.
Print Assumptions C37_setpasswd_preserves_legacy.

(** A password change that does not answer OK changes nothing at all. *)
Theorem C37_setpasswd_failure_unchanged : forall E D seal open ed w oldpw newpw nonce ivs wfail,
  snd (step E D seal open ed w (OSetPasswd oldpw newpw nonce ivs wfail)) <> ROk ->
  fst (step E D seal open ed w (OSetPasswd oldpw newpw nonce ivs wfail)) = w.
Proof. exact setpasswd_failure_unchanged. Qed.
Print Assumptions C37_setpasswd_failure_unchanged.
