(** C37 — correspondence cases: what the Go implementation returned.

    AES is instantiated per case by a lookup table of single-block
    evaluations that the harness computed with crypto/aes directly (for every
    key of the case and every 16-byte block of every blob that occurs: the pair
    (AES^-1_k(block), block)).  AES-GCM is instantiated by an ideal AEAD
    (ciphertext = plaintext ++ key ++ nonce; opening anything that was not
    sealed under the same key and nonce fails), so seed blobs are compared by
    length and nonce only, and seed reads by their result. *)
From Coq Require Import List NArith Arith Bool.
From C33 Require Import Lib.Harness C37.Model C37.Spec.
Import ListNotations.

(** ---------- table-backed block cipher ---------- *)
Definition table := list (bytes * list (bytes * bytes)).   (* key |-> [(x, y)] with AES_k(x) = y *)

Fixpoint tbl_key (t : table) (k : bytes) : list (bytes * bytes) :=
  match t with
  | [] => []
  | (k', l) :: tl => if bytes_eqb k k' then l else tbl_key tl k
  end.

Fixpoint find_fwd (l : list (bytes * bytes)) (x : bytes) : bytes :=
  match l with
  | [] => []
  | (a, b) :: tl => if bytes_eqb a x then b else find_fwd tl x
  end.

Fixpoint find_bwd (l : list (bytes * bytes)) (y : bytes) : bytes :=
  match l with
  | [] => []
  | (a, b) :: tl => if bytes_eqb b y then a else find_bwd tl y
  end.

Definition tE (t : table) (k x : bytes) : bytes := find_fwd (tbl_key t k) x.
Definition tD (t : table) (k y : bytes) : bytes := find_bwd (tbl_key t k) y.

(** ---------- ideal AEAD ---------- *)
Definition iseal (k n m : bytes) : bytes := m ++ k ++ n.
Definition iopen (k n c : bytes) : option bytes :=
  let l := length c in
  let tl := (length k + length n)%nat in
  if (l <? tl)%nat then None
  else if bytes_eqb (skipn (l - tl) c) (k ++ n) then Some (firstn (l - tl) c) else None.

(** real GCM blob length from the ideal one (tag 16 instead of 44 bytes) *)
Definition real_seed_len (model_blob : bytes) : N :=
  match model_blob with [] => 0%N | _ => N.of_nat (length model_blob - 28) end.

Definition m_cbc_enc t := cbc_encrypter (tE t).
Definition m_cbc_dec t := cbc_decrypter (tD t).
Definition m_cbc_legacy t := cbc_legacy_encrypter (tE t).
Definition m_gcm_enc := gcm_encrypter iseal.
Definition m_gcm_dec := gcm_decrypter iopen.
Definition m_gcm_legacy := gcm_legacy_encrypter iseal.
Definition m_step t := step (tE t) (tD t) iseal iopen.

Definition obytes_eqb := option_eqb bytes_eqb.

Definition res_eqb (a b : res) : bool :=
  match a, b with
  | ROk, ROk => true
  | RErr x, RErr y => N.eqb x y
  | RBytes x, RBytes y => bytes_eqb x y
  | RPanic, RPanic => true
  | _, _ => false
  end.

Fixpoint accts_eqb (a b : list (N * bytes)) : bool :=
  match a, b with
  | [], [] => true
  | (i, x) :: a', (j, y) :: b' => N.eqb i j && bytes_eqb x y && accts_eqb a' b'
  | _, _ => false
  end.

(** one history step: operation, answer, account records ([None] = the same
    as after the previous step) and seed record length found in the wallet DB
    afterwards *)
Definition hstep : Type := (op * res * option (list (N * bytes)) * N)%type.

Inductive case :=
| CCbcEnc (t : table) (pw priv : bytes) (blob dec : option bytes)
    (* CBCEncrypterPrivkey pw priv; CBCDecrypterPrivkey pw of it (None = panic) *)
| CCbcLegacy (t : table) (pw priv legacy : bytes) (dec : option bytes)
    (* legacy blob made by the harness's own fixed-IV encrypter; CBCDecrypterPrivkey pw legacy *)
| CCbcCross (t : table) (pw1 pw2 priv blob : bytes) (dec : option bytes)
    (* blob = CBCEncrypterPrivkey pw1 priv; CBCDecrypterPrivkey pw2 blob *)
| CCbcDecRaw (t : table) (pw blob : bytes) (dec : option bytes)
| CGcm (pw seed nonce : bytes) (bloblen : N) (dec : option bytes)
    (* AesgcmEncrypter pw seed: nonce prefix and length; AesgcmDecrypter pw of it (None = error) *)
| CGcmLegacy (pw seed : bytes) (dec : option bytes)
    (* legacy blob made by the harness with nonce = key[:12]; AesgcmDecrypter pw of it *)
| CGcmCross (legacy : bool) (pw1 pw2 seed nonce : bytes) (dec : option bytes)
    (* blob under pw1 (new or legacy format); AesgcmDecrypter pw2 blob *)
| CGcmTamper (pw seed : bytes) (dec : option bytes)
    (* a blob with one flipped bit, or an arbitrary byte string *)
| CHist (ed : bool) (t : table) (steps : list hstep).

(** known-finding codes *)
Definition kfInterchangeable : N := 1.   (* distinct passwords, same derived key *)
Definition kfUnsupportedLen : N := 2.    (* block-multiple secret of a length other than 32/64 *)

Definition with_kf (m s : bool) (kf : bool) (code : N) : verdict :=
  (m, s, if negb s && kf then code else 0%N).

Fixpoint hist_check (ed : bool) (t : table) (w : wallet) (prev : list (N * bytes))
         (h : list hstep) : bool :=
  match h with
  | [] => true
  | (o, r, snap, seedlen) :: tl =>
      let '(w', rm) := m_step t ed w o in
      let accts := match snap with Some a => a | None => prev end in
      res_eqb rm r && accts_eqb (w_accts w') accts
      && N.eqb (real_seed_len (w_seed w')) seedlen
      && hist_check ed t w' accts tl
  end.

Definition check_case (c : case) : verdict :=
  match c with
  | CCbcEnc t pw priv blob dec =>
      let iv := match blob with Some b => firstn 16 b | None => [] end in
      let m := obytes_eqb (m_cbc_enc t pw iv priv) blob
               && match blob with
                  | Some b => obytes_eqb (m_cbc_dec t pw b) dec
                  | None => obytes_eqb dec None
                  end in
      let s := if full_blocks priv && negb (length priv =? 0)%nat
               then match blob with
                    | Some b => (length b =? 16 + length priv)%nat
                    | None => false
                    end && obytes_eqb dec (Some priv)
               else true in
      with_kf m s (negb (supported_len priv)) kfUnsupportedLen
  | CCbcLegacy t pw priv legacy dec =>
      let m := bytes_eqb (m_cbc_legacy t pw priv) legacy
               && obytes_eqb (m_cbc_dec t pw legacy) dec in
      let s := if full_blocks priv && negb (length priv =? 0)%nat
               then obytes_eqb dec (Some priv) else true in
      with_kf m s (negb (supported_len priv)) kfUnsupportedLen
  | CCbcCross t pw1 pw2 priv blob dec =>
      let m := obytes_eqb (m_cbc_enc t pw1 (firstn 16 blob) priv) (Some blob)
               && obytes_eqb (m_cbc_dec t pw2 blob) dec in
      let s := if supported_len priv
               then (if bytes_eqb pw1 pw2 then obytes_eqb dec (Some priv)
                     else negb (obytes_eqb dec (Some priv)))
               else true in
      with_kf m s (negb (bytes_eqb pw1 pw2) && bytes_eqb (derive_key pw1) (derive_key pw2))
              kfInterchangeable
  | CCbcDecRaw t pw blob dec =>
      mk_verdict (obytes_eqb (m_cbc_dec t pw blob) dec) true
  | CGcm pw seed nonce bloblen dec =>
      let mb := m_gcm_enc pw nonce seed in
      let m := (length nonce =? 12)%nat && N.eqb (real_seed_len mb) bloblen
               && obytes_eqb (m_gcm_dec pw mb) dec in
      let s := N.eqb bloblen (N.of_nat (length seed + 28)) && obytes_eqb dec (Some seed) in
      mk_verdict m s
  | CGcmLegacy pw seed dec =>
      mk_verdict (obytes_eqb (m_gcm_dec pw (m_gcm_legacy pw seed)) dec)
                 (obytes_eqb dec (Some seed))
  | CGcmCross legacy pw1 pw2 seed nonce dec =>
      let mb := if legacy then m_gcm_legacy pw1 seed else m_gcm_enc pw1 nonce seed in
      let m := obytes_eqb (m_gcm_dec pw2 mb) dec in
      let s := if bytes_eqb pw1 pw2 then obytes_eqb dec (Some seed) else obytes_eqb dec None in
      with_kf m s (negb (bytes_eqb pw1 pw2) && bytes_eqb (derive_key pw1) (derive_key pw2))
              kfInterchangeable
  | CGcmTamper pw seed dec =>
      (* the ideal AEAD rejects everything that was not sealed *)
      mk_verdict (obytes_eqb dec None) (negb (obytes_eqb dec (Some seed)))
  | CHist ed t steps =>
      let m := hist_check ed t w_init [] steps in
      let h := map (fun x : hstep => match x with (o, r, _, _) => (o, r) end) steps in
      let s := spec_run s_init h in
      (* known finding 1 at the wallet API: the first rejected step is a GetSeed
         with a password that differs from the current one but derives the same key *)
      let kf := match spec_first_bad s_init h with
                | Some (st, OGetSeed pw, _) =>
                    negb (bytes_eqb pw (s_pw st))
                    && bytes_eqb (derive_key pw) (derive_key (s_pw st))
                | _ => false
                end in
      with_kf m s kf kfInterchangeable
  end.
