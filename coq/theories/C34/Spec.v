(** C34 — abstract specification, used as the violation oracle.

    The specification does not know about slots, short hashes or the index.
    It sees the original blocks, the SET of pool-level transactions currently
    in the mempool, the clock and the node's height, and says what the node
    must hand to the blockchain module and which peer messages it must publish:

    - a light block all of whose transactions are available (single ones as
      single ones, groups as groups) is posted at once, identical to the
      original;
    - otherwise nothing is posted for it until, at an iteration of the pending
      loop, either everything is available (then the identical block is
      posted) or the pending time has reached the timeout (then exactly one
      block request for that height goes to the peer it came from, provided
      the height is still ahead of the node's, and the entry is dropped);
      the node looks at the pool when the block arrives and at every
      iteration, and what it has seen at one of these looks stays available
      to that block even if it leaves the pool afterwards;
    - a block whose header hash was already received is ignored. *)
From Coq Require Import List ZArith NArith Bool.
From C33 Require Import C33.Model C34.Model.
Import ListNotations.
Open Scope Z_scope.

(** the block-level transactions a pool-level transaction stands for *)
Definition unit_txs (e : ptx) : list txid :=
  match members e with [] => [px_id e] | ms => ms end.

Fixpoint is_prefix (a b : list txid) : bool :=
  match a, b with
  | [], _ => true
  | x :: a', y :: b' => N.eqb x y && is_prefix a' b'
  | _ :: _, [] => false
  end.

(** some available pool-level transaction covers a non-empty prefix of [txs]: its length *)
Fixpoint cover (avail : list ptx) (txs : list txid) : option nat :=
  match avail with
  | [] => None
  | e :: tl =>
      if is_prefix (unit_txs e) txs then Some (length (unit_txs e)) else cover tl txs
  end.

(** all of [txs] can be covered, left to right (fuel = length) *)
Fixpoint all_avail (fuel : nat) (avail : list ptx) (txs : list txid) : bool :=
  match txs with
  | [] => true
  | _ :: _ =>
      match fuel with
      | O => false
      | S f =>
          match cover avail txs with
          | Some (S n) => all_avail f avail (skipn (S n) txs)
          | _ => false
          end
      end
  end.

(** the miner transaction travels inside the light block *)
Definition block_avail (avail : list ptx) (b : oblock) : bool :=
  let rest := tl (ob_txs b) in all_avail (length rest) avail rest.

Record waiting := mkWait { wt_from : N; wt_pub : N; wt_ts : Z; wt_blk : oblock; wt_have : list ptx }.

Record sstate := mkSS {
  ss_seen : list N;          (* header hashes received as light blocks *)
  ss_wait : list waiting;    (* arrival order *)
  ss_avail : list ptx;       (* the mempool as a set of pool-level transactions *)
  ss_height : Z
}.
Definition ss_init : sstate := mkSS [] [] [] 0.

(** one iteration of the pending loop over the waiting list *)
Fixpoint spec_scan (avail : list ptx) (now timeout height : Z) (l : list waiting)
  : list waiting * list eff * list eff :=
  match l with
  | [] => ([], [], [])
  | w :: tl =>
      match spec_scan avail now timeout height tl with
      | (keep, posts, msgs) =>
          let have := wt_have w ++ avail in
          if block_avail have (wt_blk w)
          then (keep, Post (wt_pub w) (full_block (wt_blk w)) :: posts, msgs)
          else if timeout <=? Z.quot (now - wt_ts w) 1000000
               then (keep, posts,
                     if height <? ob_height (wt_blk w)
                     then Req (wt_from w) (ob_height (wt_blk w)) :: msgs else msgs)
               else (mkWait (wt_from w) (wt_pub w) (wt_ts w) (wt_blk w) have :: keep, posts, msgs)
      end
  end.

(** what the specification sees of one event *)
Inductive sevent :=
| SLight (now : Z) (from pub : N) (b : oblock)   (* the light form of [b] arrives *)
| SFull (pub : N) (b : oblock)
| SArrive (t : ptx) (accepted : bool)
| SRemove (h : N)
| STick (now : Z)
| SHeight (h : Z).

(** new state, expected posts, expected peer messages *)
Definition spec_step (hs : txid -> N) (timeout : Z) (s : sstate) (ev : sevent)
  : sstate * list eff * list eff :=
  match ev with
  | SLight now from pub b =>
      if mem_n (ob_hash b) (ss_seen s) then (s, [], [])
      else
        let seen := ob_hash b :: ss_seen s in
        if block_avail (ss_avail s) b
        then (mkSS seen (ss_wait s) (ss_avail s) (ss_height s), [Post pub (full_block b)], [])
        else (mkSS seen (ss_wait s ++ [mkWait from pub now b (ss_avail s)]) (ss_avail s) (ss_height s), [], [])
  | SFull pub b => (s, [Post pub (full_block b)], [])
  | SArrive t accepted =>
      if accepted then (mkSS (ss_seen s) (ss_wait s) (ss_avail s ++ [t]) (ss_height s), [], [])
      else (s, [], [])
  | SRemove h =>
      (mkSS (ss_seen s) (ss_wait s) (remove_hash hs h (ss_avail s)) (ss_height s), [], [])
  | STick now =>
      match spec_scan (ss_avail s) now timeout (ss_height s) (ss_wait s) with
      | (keep, posts, msgs) => (mkSS (ss_seen s) keep (ss_avail s) (ss_height s), posts, msgs)
      end
  | SHeight h => (mkSS (ss_seen s) (ss_wait s) (ss_avail s) h, [], [])
  end.
