(** C34 — light blocks: the sending side (handleBroadcastSend / buildLtBlock),
    the mempool's short-hash index (system/mempool/shorthashtx.go, cache.go,
    base.go getTxListByHash) and, for the receiving side, the model of C33
    (addLtBlock, buildPendBlock, buildPendList, pendBlockLoop).

    Transactions are identities; [hs : txid -> N] is the identity of
    Transaction.Hash() (a group-carrying transaction has the hash of its first
    member: Hash() ignores the Header field) and [sh : N -> N] the 5-byte
    short hash of a hash.  No proofs here. *)
From Coq Require Import List ZArith NArith Bool.
From C33 Require Import C33.Model.
Import ListNotations.
Open Scope Z_scope.

(** * the original block on the sending node *)
Record oblock := mkOb {
  ob_height : Z;
  ob_rest : N;          (* identity of Version, ParentHash, TxHash, StateHash, BlockTime, Difficulty, Signature *)
  ob_main : N;          (* identity of (MainHash, MainHeight); 0 = unset *)
  ob_hash : N;          (* identity of Block.Hash *)
  ob_size : Z;          (* Block.Size() *)
  ob_txs : list txid
}.

(** buildLtBlock: header (GetHeader + Signature), Txs[0], one short hash per transaction *)
Definition build_lt (hs : txid -> N) (sh : N -> N) (b : oblock) : ltblock :=
  mkLt (Some (mkHdr (Z.of_nat (length (ob_txs b))) (ob_height b) (ob_hash b) (ob_rest b)))
       (hd_error (ob_txs b))
       (map (fun t => sh (hs t)) (ob_txs b)).

(** what handleBroadcastSend publishes for a block *)
Inductive sent :=
| SentLt (lb : ltblock)       (* topic ltblk *)
| SentFull                    (* topic block: the block itself *)
| SentNothing.                (* the hash is in the send filter *)

(** [minsize]: cfg.MinLtBlockSize in bytes; [disabled]: cfg.DisableLtBlock;
    [seen]: block hashes in blockFilter *)
Definition send (hs : txid -> N) (sh : N -> N) (disabled : bool) (minsize : Z) (seen : list N) (b : oblock) : sent :=
  if mem_n (ob_hash b) seen then SentNothing
  else if negb disabled && (0 <? Z.of_nat (length (ob_txs b))) && (minsize <? ob_size b)
       then SentLt (build_lt hs sh b)
       else SentFull.

(** the full block as the receiver posts it (topic block) *)
Definition full_block (b : oblock) : block :=
  mkBlk (ob_height b) (ob_rest b) (ob_main b) (map Some (ob_txs b)).

(** * the receiving node's mempool: pooled transactions and the short-hash index *)
Record mpool := mkMp {
  mp_txs : list ptx;     (* qcache: pooled transactions (pool-level) *)
  mp_idx : pool          (* SHashTxCache: short hash -> transaction, insertion ordered *)
}.
Definition mp_empty : mpool := mkMp [] [].

Definition pooled (hs : txid -> N) (h : N) (l : list ptx) : bool :=
  existsb (fun t => N.eqb (hs (px_id t)) h) l.

Fixpoint idx_remove (k : N) (p : pool) : pool :=
  match p with
  | [] => []
  | (k', v) :: tl => if N.eqb k k' then tl else (k', v) :: idx_remove k tl
  end.

(** SHashTxCache.Push: silently skipped when the short hash is taken or the cache is full *)
Definition idx_push (cap : Z) (k : N) (t : ptx) (p : pool) : pool :=
  match pool_get k p with
  | Some _ => p
  | None => if cap <=? Z.of_nat (length p) then p else p ++ [(k, t)]
  end.

(** txCache.Push (queue and account limits are not reached in this model) *)
Definition mp_push (hs : txid -> N) (sh : N -> N) (cap : Z) (t : ptx) (m : mpool) : mpool * bool :=
  if pooled hs (hs (px_id t)) (mp_txs m) then (m, false)
  else (mkMp (mp_txs m ++ [t]) (idx_push cap (sh (hs (px_id t))) t (mp_idx m)), true).

Fixpoint remove_hash (hs : txid -> N) (h : N) (l : list ptx) : list ptx :=
  match l with
  | [] => []
  | t :: tl => if N.eqb (hs (px_id t)) h then tl else t :: remove_hash hs h tl
  end.

(** Mempool.RemoveTxs for one hash: txCache.Remove deletes the index entry by short hash *)
Definition mp_remove (hs : txid -> N) (sh : N -> N) (h : N) (m : mpool) : mpool :=
  if pooled hs h (mp_txs m) then mkMp (remove_hash hs h (mp_txs m)) (idx_remove (sh h) (mp_idx m))
  else m.

(** * histories of the receiving node *)
Inductive aevent :=
| ALight (now : Z) (from pub : N) (lb : ltblock)     (* a light block arrives (topic ltblk) *)
| AFull (pub : N) (b : oblock)                       (* a full block arrives (topic block) *)
| AArrive (t : ptx)                                  (* a transaction enters the mempool *)
| ARemove (h : N)                                    (* a transaction leaves the mempool *)
| ATick (now : Z)                                    (* one iteration of pendBlockLoop *)
| AHeight (h : Z).                                   (* the node's height changes *)

Record world := mkW { w_st : state; w_mp : mpool }.
Definition w_init : world := mkW init mp_empty.

Inductive ares :=
| AAlive (w : world) (e : list eff) (pushed : bool)
| ACrashed (why : N).

Definition lift (m : mpool) (r : sres) : ares :=
  match r with
  | Alive st _ e => AAlive (mkW st m) e true
  | Crashed w => ACrashed w
  end.

Definition astep (hs : txid -> N) (sh : N -> N) (c : config) (shcap : Z) (w : world) (a : aevent) : ares :=
  let st := w_st w in
  let m := w_mp w in
  match a with
  | ALight now from pub lb => lift m (step c st (mp_idx m) (ERecvLt now from pub lb))
  | AFull pub b => AAlive w [Post pub (full_block b)] true
  | AArrive t => let (m', ok) := mp_push hs sh shcap t m in AAlive (mkW st m') [] ok
  | ARemove h => AAlive (mkW st (mp_remove hs sh h m)) [] true
  | ATick now => lift m (step c st (mp_idx m) (ETick now))
  | AHeight h => lift m (step c st (mp_idx m) (EHeight h))
  end.
