(** C34 — the life of light blocks of an honest sender on the receiving node:
    arrival, iterations of the pending loop, completion or timeout. *)
From Coq Require Import List ZArith NArith Bool Lia.
From C33 Require Import C33.Model C33.ProofsBase C34.Model C34.Spec C34.ProofsFill.
Import ListNotations.
Open Scope Z_scope.

Section Life.
Variable hs : txid -> N.
Variable sh : N -> N.
Definition shh (t : txid) : N := sh (hs t).

(** a block in reconstruction: where it came from, when, the original block,
    its miner transaction and its units with their fill flags *)
Record ublock := mkUb {
  ub_from : N; ub_pub : N; ub_ts : Z; ub_b : oblock; ub_miner : txid; ub_us : list (ptx * bool)
}.

(** the original block is the miner transaction followed by the units *)
Definition ub_wf (u : ublock) : Prop := ob_txs (ub_b u) = ub_miner u :: txs_of (ub_us u).

Definition pd_of (u : ublock) : pend :=
  mkPend (ub_from u) (ub_pub u) (ub_ts u) (ob_height (ub_b u)) (ob_rest (ub_b u)) (ob_hash (ub_b u))
         (Some (ub_miner u) :: slots_of (ub_us u))
         (shh (ub_miner u) :: map shh (txs_of (ub_us u))).

Definition ub_upd (p : pool) (u : ublock) : ublock :=
  mkUb (ub_from u) (ub_pub u) (ub_ts u) (ub_b u) (ub_miner u) (map (upd1 shh p) (ub_us u)).

(** every unit is filled or found now *)
Definition ub_done (p : pool) (u : ublock) : bool :=
  forallb (fun ef => snd (upd1 shh p ef)) (ub_us u).

Definition ub_honest (p : pool) (u : ublock) : Prop := Forall (honest1 shh p) (ub_us u).

(** the block as the sender had it, without MainHash/MainHeight *)
Definition exact0 (b : oblock) : block := mkBlk (ob_height b) (ob_rest b) 0%N (map Some (ob_txs b)).

Lemma txs_of_upd : forall p us, txs_of (map (upd1 shh p) us) = txs_of us.
Proof.
  intros p us. unfold txs_of. induction us as [|[e f] us IH]; simpl; [reflexivity|]. rewrite IH. reflexivity.
Qed.

Lemma all_flags_upd : forall p us,
  forallb (fun ef => snd (upd1 shh p ef)) us = forallb (fun ef => snd ef) (map (upd1 shh p) us).
Proof. intros p us. induction us as [|ef us IH]; cbn [forallb map]; [reflexivity|]. rewrite IH. reflexivity. Qed.

Lemma build_units : forall p u,
  ub_wf u -> ub_honest p u ->
  build p (pd_of u) =
  Ok (pd_of (ub_upd p u), ub_done p u,
      if ub_done p u then [Post (ub_pub u) (exact0 (ub_b u))] else []).
Proof.
  intros p u W H. unfold build. cbn [pd_of pd_sh pd_txs].
  pose proof (need_from_units shh (ub_us u) [shh (ub_miner u)]) as NF. cbn [length app] in NF.
  assert (NF0 : need_from 0 (Some (ub_miner u) :: slots_of (ub_us u))
                  (shh (ub_miner u) :: map shh (txs_of (ub_us u))) = Ok (nd_of shh 1 (ub_us u))) by exact NF.
  rewrite NF0.
  pose proof (fill_units shh p (ub_us u) [Some (ub_miner u)] true H) as FU. cbn [length app andb] in FU.
  rewrite FU. fold (ub_done p u).
  assert (E : pd_set_txs (pd_of u) (Some (ub_miner u) :: slots_of (map (upd1 shh p) (ub_us u))) = pd_of (ub_upd p u)).
  { unfold pd_set_txs, pd_of, ub_upd. cbn. rewrite txs_of_upd. reflexivity. }
  rewrite E. destruct (ub_done p u) eqn:D; [|reflexivity].
  unfold ub_done in D. rewrite all_flags_upd in D.
  pose proof (slots_all_filled _ D) as SA. rewrite txs_of_upd in SA.
  unfold pd_block, exact0, pd_of, ub_upd. cbn [pd_height pd_rest pd_txs ub_from ub_pub ub_ts ub_b ub_miner ub_us].
  rewrite SA, W. reflexivity.
Qed.

(** * one iteration of the pending loop over blocks of honest senders *)
Fixpoint uscan (p : pool) (now timeout : Z) (l : list ublock) : list ublock * list ublock * list eff :=
  match l with
  | [] => ([], [], [])
  | u :: tl =>
      match uscan p now timeout tl with
      | (k, t, e) =>
          if ub_done p u then (k, t, Post (ub_pub u) (exact0 (ub_b u)) :: e)
          else if timeout <=? Z.quot (now - ub_ts u) 1000000 then (k, ub_upd p u :: t, e)
               else (ub_upd p u :: k, t, e)
      end
  end.

Lemma scan_units : forall p now timeout l,
  Forall ub_wf l -> Forall (ub_honest p) l ->
  scan p now timeout (map pd_of l) =
  match uscan p now timeout l with (k, t, e) => Ok (map pd_of k, map pd_of t, e) end.
Proof.
  intros p now timeout l. induction l as [|u l IH]; intros W H; simpl; [reflexivity|].
  inversion W as [|x y Wu W']; subst. inversion H as [|x y Hu H']; subst.
  rewrite (build_units p u Wu Hu). rewrite (IH W' H').
  destruct (uscan p now timeout l) as [[k t] e].
  destruct (ub_done p u); [reflexivity|].
  cbn [pd_of pd_ts]. destruct (timeout <=? Z.quot (now - ub_ts u) 1000000); reflexivity.
Qed.

Definition ureq (height : Z) (u : ublock) : list eff :=
  if height <? ob_height (ub_b u) then [Req (ub_from u) (ob_height (ub_b u))] else [].

Lemma requests_units : forall height t,
  requests height (map pd_of t) = flat_map (ureq height) t.
Proof.
  induction t as [|u t IH]; simpl; [reflexivity|]. unfold ureq at 1. cbn [pd_of pd_height pd_from].
  destruct (height <? ob_height (ub_b u)); simpl; rewrite IH; reflexivity.
Qed.

(** the whole tick *)
Lemma tick_units : forall c p now st l,
  st_pend st = map pd_of l -> Forall ub_wf l -> Forall (ub_honest p) l ->
  tick_raw c p now st =
  match uscan p now (c_timeout c) l with
  | (k, t, e) =>
      Ok (mkSt (st_filter st) (map pd_of k) (st_reqs st) (st_height st),
          e ++ flat_map (ureq (st_height st)) t)
  end.
Proof.
  intros c p now st l E W H. unfold tick_raw. rewrite E, (scan_units p now (c_timeout c) l W H).
  destruct (uscan p now (c_timeout c) l) as [[k t] e]. rewrite requests_units. reflexivity.
Qed.

(** * arrival *)
Definition fresh (es : list ptx) : list (ptx * bool) := map (fun e => (e, false)) es.

Lemma slots_fresh : forall es, slots_of (fresh es) = repeat None (length (txs_of (fresh es))).
Proof.
  induction es as [|e es IH]; [reflexivity|]. unfold slots_of, txs_of, fresh in *. simpl.
  rewrite IH, app_length, repeat_app. reflexivity.
Qed.

(** the sender's block [b] = miner :: units [es]; its light form arrives *)
Lemma arrival_units : forall c p now from pub b miner es st,
  ob_txs b = miner :: txs_of (fresh es) ->
  Z.of_nat (length (ob_txs b)) <= c_cap c -> Z.of_nat (length (ob_txs b)) <= max_len ->
  Forall (honest1 shh p) (fresh es) ->
  let u := mkUb from pub now b miner (fresh es) in
  add_lt c p now from pub (build_lt hs sh b) st =
  if ub_done p u
  then Ok (st, [Post pub (exact0 b)])
  else Ok (mkSt (st_filter st) (st_pend st ++ [pd_of (ub_upd p u)]) (st_reqs st) (st_height st), []).
Proof.
  intros c p now from pub b miner es st W C1 C2 H u.
  unfold add_lt, build_lt, lt_txcount. cbn [lt_hdr lt_miner lt_sh h_txcount h_height h_hash h_rest].
  rewrite map_length.
  replace (Z.of_nat (length (ob_txs b)) <=? 0) with false
    by (symmetry; apply Z.leb_gt; rewrite W; cbn [length]; lia).
  rewrite Z.ltb_irrefl. cbn [orb].
  unfold go_make.
  replace (Z.of_nat (length (ob_txs b)) <? 0) with false by (symmetry; apply Z.ltb_ge; lia).
  replace (max_len <? Z.of_nat (length (ob_txs b))) with false by (symmetry; apply Z.ltb_ge; lia).
  replace (c_cap c <? Z.of_nat (length (ob_txs b))) with false by (symmetry; apply Z.ltb_ge; lia).
  cbn [orb]. rewrite Nat2Z.id. rewrite W. cbn [length repeat hd_error set_nth map].
  rewrite <- slots_fresh.
  change (mkPend from pub now (ob_height b) (ob_rest b) (ob_hash b)
            (Some miner :: slots_of (fresh es))
            (sh (hs miner) :: map (fun t => sh (hs t)) (txs_of (fresh es))))
    with (pd_of u).
  rewrite (build_units p u W H).
  subst u. cbn [ub_pub ub_b].
  match goal with |- context [ub_done p ?x] => destruct (ub_done p x) end; reflexivity.
Qed.

End Life.
