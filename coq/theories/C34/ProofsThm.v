(** C34 — the statements behind Properties.v. *)
From Coq Require Import List ZArith NArith Bool Lia.
From C33 Require Import C33.Model C33.ProofsBase C34.Model C34.Spec C34.ProofsFill C34.ProofsLife C34.ProofsPartial.
Import ListNotations.
Open Scope Z_scope.

(** * the mempool's short-hash index after a sequence of arrivals *)
Section Index.
Variable hs : txid -> N.
Variable sh : N -> N.
Variable cap : Z.

Definition key (t : ptx) : N := sh (hs (px_id t)).
Definition idx_of (ts : list ptx) : pool := map (fun t => (key t, t)) ts.

Definition push_all (ts : list ptx) (m : mpool) : mpool :=
  fold_left (fun m t => fst (mp_push hs sh cap t m)) ts m.

Lemma pool_get_idx_none : forall ts k, ~ In k (map key ts) -> pool_get k (idx_of ts) = None.
Proof.
  induction ts as [|t ts IH]; intros k H; simpl; [reflexivity|].
  destruct (N.eqb_spec k (key t)) as [->|N]; [exfalso; apply H; left; reflexivity|].
  apply IH. intros C. apply H. right. exact C.
Qed.

Lemma pool_get_idx_some : forall ts t, NoDup (map key ts) -> In t ts -> pool_get (key t) (idx_of ts) = Some t.
Proof.
  induction ts as [|t0 ts IH]; intros t ND Hin; [destruct Hin|]. simpl in *.
  inversion ND as [|x l Hn ND']; subst.
  destruct Hin as [->|Hin]; [rewrite N.eqb_refl; reflexivity|].
  destruct (N.eqb_spec (key t) (key t0)) as [E|N]; [|apply IH; assumption].
  exfalso. apply Hn. rewrite <- E. apply in_map. exact Hin.
Qed.

Lemma pooled_false : forall ts t, ~ In (key t) (map key ts) -> pooled hs (hs (px_id t)) ts = false.
Proof.
  induction ts as [|t0 ts IH]; intros t H; simpl; [reflexivity|].
  destruct (N.eqb_spec (hs (px_id t0)) (hs (px_id t))) as [E|N].
  - exfalso. apply H. left. unfold key. rewrite E. reflexivity.
  - simpl. apply IH. intros C. apply H. right. exact C.
Qed.

Lemma push_all_idx : forall ts acc,
  NoDup (map key (acc ++ ts)) -> Z.of_nat (length (acc ++ ts)) <= cap ->
  push_all ts (mkMp acc (idx_of acc)) = mkMp (acc ++ ts) (idx_of (acc ++ ts)).
Proof.
  induction ts as [|t ts IH]; intros acc ND L; simpl.
  - rewrite app_nil_r. reflexivity.
  - assert (Hn : ~ In (key t) (map key acc)).
    { rewrite map_app in ND. apply NoDup_remove_2 in ND. intros C. apply ND. apply in_or_app. left; exact C. }
    unfold mp_push. cbn [mp_txs mp_idx]. rewrite (pooled_false acc t Hn). cbn [fst].
    unfold idx_push. fold (key t). rewrite (pool_get_idx_none acc (key t) Hn).
    replace (cap <=? Z.of_nat (length (idx_of acc))) with false.
    2:{ symmetry. apply Z.leb_gt. unfold idx_of. rewrite map_length. rewrite app_length in L. simpl in L. lia. }
    replace (idx_of acc ++ [(key t, t)]) with (idx_of (acc ++ [t])) by (unfold idx_of; rewrite map_app; reflexivity).
    rewrite (IH (acc ++ [t])); rewrite <- app_assoc; simpl; auto.
Qed.

Lemma index_after_arrivals : forall ts t,
  NoDup (map key ts) -> Z.of_nat (length ts) <= cap -> In t ts ->
  pool_get (key t) (mp_idx (push_all ts mp_empty)) = Some t.
Proof.
  intros ts t ND L Hin. pose proof (push_all_idx ts [] ND L) as E. simpl in E.
  unfold mp_empty. rewrite E. simpl. apply pool_get_idx_some; assumption.
Qed.
End Index.

(** * rebuild *)
Section Rebuild.
Variable hs : txid -> N.
Variable sh : N -> N.

(** every unit's pool-level transaction is found under the short hash of the unit's first transaction *)
Definition all_found (p : pool) (es : list ptx) : Prop :=
  Forall (fun e => pool_get (shh hs sh (uhead e)) p = Some e) es.

Lemma all_found_honest : forall p es, all_found p es -> Forall (honest1 (shh hs sh) p) (fresh es).
Proof.
  intros p es H. unfold fresh. apply Forall_forall. intros [e f] Hin.
  apply in_map_iff in Hin as [e0 [E Hin]]. inversion E; subst.
  intros _. left. simpl. unfold all_found in H. rewrite Forall_forall in H. apply H. exact Hin.
Qed.

Lemma all_found_done : forall p es from pub now b miner,
  all_found p es -> ub_done hs sh p (mkUb from pub now b miner (fresh es)) = true.
Proof.
  intros p es from pub now b miner H. unfold ub_done. simpl. apply forallb_forall.
  intros [e f] Hin. unfold fresh in Hin. apply in_map_iff in Hin as [e0 [E Hin]]. inversion E; subst.
  unfold all_found in H. rewrite Forall_forall in H. specialize (H _ Hin).
  unfold upd1, fnd. cbn [fst snd orb]. rewrite H. reflexivity.
Qed.

Lemma txs_of_fresh : forall es, txs_of (fresh es) = flat_map unit_txs es.
Proof. induction es as [|e es IH]; [reflexivity|]. unfold txs_of, fresh in *. simpl. rewrite IH. reflexivity. Qed.

(** all transactions pooled: the block is posted at once, identical up to MainHash/MainHeight *)
Lemma rebuild_exact0 : forall c p now from pub b miner es st,
  ob_txs b = miner :: flat_map unit_txs es ->
  Z.of_nat (length (ob_txs b)) <= c_cap c -> Z.of_nat (length (ob_txs b)) <= max_len ->
  all_found p es ->
  add_lt c p now from pub (build_lt hs sh b) st = Ok (st, [Post pub (exact0 b)]).
Proof.
  intros c p now from pub b miner es st W C1 C2 H.
  rewrite <- txs_of_fresh in W.
  rewrite (arrival_units hs sh c p now from pub b miner es st W C1 C2 (all_found_honest p es H)).
  rewrite all_found_done by exact H. reflexivity.
Qed.

Lemma exact0_full : forall b, ob_main b = 0%N -> exact0 b = full_block b.
Proof. intros b H. unfold exact0, full_block. rewrite H. reflexivity. Qed.
End Rebuild.

(** * witnesses *)
Definition hs_id (t : txid) : N := t.
(** a group carrier (id 9) hashes like its first member (id 3) *)
Definition hs_w (t : txid) : N := if N.eqb t 9 then 3%N else t.
Definition sh_id (h : N) : N := h.
Definition cfg1 : config := mkCfg 2147483648 1000 [] false.

Definition grp : ptx := mkPtx 9%N 2 [3; 4]%N.
Definition pl (i : N) : ptx := mkPtx i 0 [].
(** miner 1, plain 2, group (3,4), plain 5; the para variant carries MainHash *)
Definition blk_w (main : N) : oblock := mkOb 7 1%N main 1%N 500 [1; 2; 3; 4; 5]%N.
Definition es_w : list ptx := [pl 2; grp; pl 5].
Definition mp_w : mpool := push_all hs_w sh_id 100 es_w mp_empty.

Lemma witness_facts :
  ob_txs (blk_w 0) = 1%N :: flat_map unit_txs es_w
  /\ all_found hs_w sh_id (mp_idx mp_w) es_w
  /\ NoDup (map (key hs_w sh_id) es_w).
Proof.
  split; [reflexivity|]. split.
  - repeat constructor.
  - vm_compute. repeat constructor; simpl; intuition discriminate.
Qed.

Lemma main_dropped :
  add_lt cfg1 (mp_idx mp_w) 0 1%N 2%N (build_lt hs_w sh_id (blk_w 3)) init
  = Ok (init, [Post 2%N (exact0 (blk_w 3))])
  /\ exact0 (blk_w 3) <> full_block (blk_w 3).
Proof. split; [vm_compute; reflexivity|vm_compute; discriminate]. Qed.

(** * one pending block of an honest sender *)
Lemma single_block_life : forall hs sh c p now st u,
  st_pend st = [pd_of hs sh u] -> ub_wf u -> ub_honest hs sh p u ->
  tick_raw c p now st =
  if ub_done hs sh p u
  then Ok (mkSt (st_filter st) [] (st_reqs st) (st_height st), [Post (ub_pub u) (exact0 (ub_b u))])
  else if c_timeout c <=? Z.quot (now - ub_ts u) 1000000
       then Ok (mkSt (st_filter st) [] (st_reqs st) (st_height st), ureq (st_height st) u)
       else Ok (mkSt (st_filter st) [pd_of hs sh (ub_upd hs sh p u)] (st_reqs st) (st_height st), []).
Proof.
  intros hs sh c p now st u E W H.
  rewrite (tick_units hs sh c p now st [u] E (Forall_cons _ W (Forall_nil _)) (Forall_cons _ H (Forall_nil _))).
  simpl. destruct (ub_done hs sh p u); [reflexivity|].
  destruct (c_timeout c <=? Z.quot (now - ub_ts u) 1000000); simpl; [rewrite app_nil_r|]; reflexivity.
Qed.

(** the group of [blk_w] is missing: the block waits, then is requested from the sender *)
Definition mp_miss : mpool := push_all hs_w sh_id 100 [pl 2; pl 5] mp_empty.
Definition u_miss : ublock := mkUb 1%N 2%N 0 (blk_w 0) 1%N (fresh [pl 2; grp; pl 5]).

Lemma life_example :
  ub_wf u_miss /\ ub_honest hs_w sh_id (mp_idx mp_miss) u_miss
  /\ ub_done hs_w sh_id (mp_idx mp_miss) u_miss = false
  /\ add_lt cfg1 (mp_idx mp_miss) 0 1%N 2%N (build_lt hs_w sh_id (blk_w 0)) init
     = Ok (mkSt [] [pd_of hs_w sh_id (ub_upd hs_w sh_id (mp_idx mp_miss) u_miss)] [] 0, [])
  /\ ureq 0 u_miss = [Req 1%N 7].
Proof.
  split; [reflexivity|]. split.
  - unfold ub_honest, u_miss, fresh. simpl. repeat constructor; intros _; vm_compute; auto.
  - repeat split; vm_compute; reflexivity.
Qed.
