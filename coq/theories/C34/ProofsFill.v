(** C34 — buildPendBlock's two loops on a block made of units (single
    transactions and groups), some of them already filled. *)
From Coq Require Import List ZArith NArith Bool Lia.
From C33 Require Import C33.Model C33.ProofsBase C34.Model C34.Spec.
Import ListNotations.
Open Scope Z_scope.

Lemma unit_txs_nonempty : forall e, exists t0 us, unit_txs e = t0 :: us.
Proof.
  intros e. unfold unit_txs. destruct (members e) as [|m ms]; eauto.
Qed.

(** * list surgery *)
Lemma set_nth_app : forall A (pre : list A) x tl v,
  set_nth (pre ++ x :: tl) (length pre) v = Some (pre ++ v :: tl).
Proof.
  induction pre as [|a pre IH]; intros x tl v; simpl; [reflexivity|]. rewrite IH. reflexivity.
Qed.

Lemma nth_error_app_at : forall A (pre : list A) x tl, nth_error (pre ++ x :: tl) (length pre) = Some x.
Proof. intros. rewrite nth_error_app2 by lia. rewrite Nat.sub_diag. reflexivity. Qed.

Lemma nth_error_app_off : forall A (pre mid post : list A) j,
  (j < length mid)%nat -> nth_error (pre ++ mid ++ post) (length pre + j) = nth_error mid j.
Proof.
  intros. rewrite nth_error_app2 by lia. replace (length pre + j - length pre)%nat with j by lia.
  apply nth_error_app1. exact H.
Qed.

(** writing [ms] over [|ms|] slots that follow [pre] *)
Lemma put_members_at : forall ms (pre slots post : list (option txid)),
  length slots = length ms ->
  put_members (pre ++ slots ++ post) (length pre) ms = Ok (pre ++ map Some ms ++ post).
Proof.
  induction ms as [|m ms IH]; intros pre slots post L; simpl.
  - destruct slots; [reflexivity|discriminate].
  - destruct slots as [|s slots]; [discriminate|]. simpl in L.
    simpl app. rewrite set_nth_app.
    replace (pre ++ Some m :: slots ++ post) with ((pre ++ [Some m]) ++ slots ++ post)
      by (rewrite <- app_assoc; reflexivity).
    replace (S (length pre)) with (length (pre ++ [Some m])) by (rewrite app_length; simpl; lia).
    rewrite IH by lia. rewrite <- app_assoc. reflexivity.
Qed.

(** * fill: entries that are skipped, entries that are not found *)
Lemma fill_skip_filled : forall p es rest txs ok,
  Forall (fun ih => exists t, nth_error txs (fst ih) = Some (Some t)) es ->
  fill p (es ++ rest) txs ok = fill p rest txs ok.
Proof.
  induction es as [|[i h] es IH]; intros rest txs ok F; simpl; [reflexivity|].
  inversion F as [|x l [t Ht] F']; subst. simpl in Ht. rewrite Ht. apply IH. exact F'.
Qed.

Lemma fill_all_missing : forall p es rest txs ok,
  Forall (fun ih => nth_error txs (fst ih) = Some None /\ pool_get (snd ih) p = None) es ->
  fill p (es ++ rest) txs ok = fill p rest txs (ok && match es with [] => true | _ => false end).
Proof.
  induction es as [|[i h] es IH]; intros rest txs ok F; simpl.
  - rewrite andb_true_r. reflexivity.
  - inversion F as [|x l [A B] F']; subst. simpl in A, B. rewrite A, B.
    rewrite IH by exact F'. rewrite andb_false_r. destruct es; reflexivity.
Qed.

Section Units.
Variable shh : txid -> N.     (* short hash of a transaction's hash *)
Variable p : pool.

Definition ulen (e : ptx) : nat := length (unit_txs e).
Definition uhead (e : ptx) : txid := hd 0%N (unit_txs e).

(** the slots of a unit: filled or still nil *)
Definition uslots (ef : ptx * bool) : list (option txid) :=
  if snd ef then map Some (unit_txs (fst ef)) else repeat None (ulen (fst ef)).
Definition slots_of (us : list (ptx * bool)) : list (option txid) := flat_map uslots us.
Definition txs_of (us : list (ptx * bool)) : list txid := flat_map (fun ef => unit_txs (fst ef)) us.

Definition fnd (e : ptx) : bool :=
  match pool_get (shh (uhead e)) p with Some _ => true | None => false end.
Definition upd1 (ef : ptx * bool) : ptx * bool := (fst ef, snd ef || fnd (fst ef)).

(** nil-slot entries of an unfilled unit at offset [o] *)
Definition und (o : nat) (e : ptx) : list (nat * N) :=
  combine (seq o (ulen e)) (map shh (unit_txs e)).
Fixpoint nd_of (o : nat) (us : list (ptx * bool)) : list (nat * N) :=
  match us with
  | [] => []
  | ef :: tl => (if snd ef then [] else und o (fst ef)) ++ nd_of (o + ulen (fst ef)) tl
  end.

(** what the pool may answer for an unfilled unit: under the head's short hash
    the unit's own pool-level transaction or nothing; nothing under the other
    members' short hashes *)
Definition honest1 (ef : ptx * bool) : Prop :=
  snd ef = false ->
  pool_get (shh (uhead (fst ef))) p = Some (fst ef)
  \/ (pool_get (shh (uhead (fst ef))) p = None
      /\ Forall (fun m => pool_get (shh m) p = None) (tl (unit_txs (fst ef)))).

Lemma slots_len : forall ef, length (uslots ef) = ulen (fst ef).
Proof.
  intros [e f]. unfold uslots, ulen. simpl. destruct f; [apply map_length|apply repeat_length].
Qed.

(** the unit's pool-level transaction is found: the whole unit is written *)
Lemma fill_unit_found : forall e pre post rest ok,
  pool_get (shh (uhead e)) p = Some e ->
  fill p (und (length pre) e ++ rest) (pre ++ repeat None (ulen e) ++ post) ok
  = fill p rest (pre ++ map Some (unit_txs e) ++ post) ok.
Proof.
  intros e pre post rest ok H. unfold und, ulen, uhead in *.
  destruct (unit_txs_nonempty e) as [t0 [us E]]. rewrite E in *. simpl in H.
  simpl length. simpl seq. simpl map. simpl combine. simpl repeat. simpl app.
  cbn [fill]. rewrite nth_error_app_at. rewrite H.
  assert (FIT : (length (pre ++ None :: repeat None (length us) ++ post)
                 <? length pre + length (members e))%nat = false).
  { apply Nat.ltb_ge. rewrite !app_length. cbn [length]. rewrite app_length, repeat_length.
    unfold unit_txs in E. destruct (members e) as [|m ms]; inversion E; subst; simpl; lia. }
  rewrite FIT. rewrite set_nth_app.
  assert (PM : put_members (pre ++ Some (px_id e) :: repeat None (length us) ++ post) (length pre) (members e)
               = Ok (pre ++ Some t0 :: map Some us ++ post)).
  { unfold unit_txs in E. destruct (members e) as [|m ms] eqn:Em.
    - inversion E; subst. simpl. reflexivity.
    - inversion E; subst.
      replace (Some (px_id e) :: repeat None (length us) ++ post)
        with ((Some (px_id e) :: repeat None (length us)) ++ post) by reflexivity.
      rewrite put_members_at by (simpl; rewrite repeat_length; reflexivity). reflexivity. }
  rewrite PM.
  apply fill_skip_filled.
  apply Forall_forall. intros [i h] Hin. apply in_combine_l in Hin. apply in_seq in Hin. simpl.
  replace i with (length pre + S (i - S (length pre)))%nat by lia.
  replace (pre ++ Some t0 :: map Some us ++ post) with (pre ++ (Some t0 :: map Some us) ++ post) by reflexivity.
  rewrite nth_error_app_off by (simpl; rewrite map_length; lia).
  simpl. destruct (nth_error (map Some us) (i - S (length pre))) eqn:En.
  - apply nth_error_In, in_map_iff in En as [t [Et _]]. subst. eauto.
  - apply nth_error_None in En. rewrite map_length in En. lia.
Qed.

(** nothing is found for the unit: its slots stay nil and the build fails *)
Lemma fill_unit_missing : forall e pre post rest ok,
  pool_get (shh (uhead e)) p = None ->
  Forall (fun m => pool_get (shh m) p = None) (tl (unit_txs e)) ->
  fill p (und (length pre) e ++ rest) (pre ++ repeat None (ulen e) ++ post) ok
  = fill p rest (pre ++ repeat None (ulen e) ++ post) false.
Proof.
  intros e pre post rest ok H HT. rewrite fill_all_missing.
  - unfold und, ulen. destruct (unit_txs_nonempty e) as [t0 [us E]]. rewrite E. simpl.
    rewrite andb_false_r. reflexivity.
  - unfold und, ulen, uhead in *. apply Forall_forall. intros [i h] Hin. simpl. split.
    + apply in_combine_l in Hin. apply in_seq in Hin.
      replace i with (length pre + (i - length pre))%nat by lia.
      rewrite nth_error_app_off by (rewrite repeat_length; lia).
      apply nth_error_repeat. lia.
    + apply in_combine_r in Hin. apply in_map_iff in Hin as [t [Et Ht]]. subst h.
      destruct (unit_txs_nonempty e) as [t0 [us E]]. rewrite E in *. simpl in *.
      destruct Ht as [->|Ht]; [exact H|]. rewrite Forall_forall in HT. apply HT. exact Ht.
Qed.

Lemma fill_units : forall us pre ok,
  Forall honest1 us ->
  fill p (nd_of (length pre) us) (pre ++ slots_of us) ok
  = Ok (pre ++ slots_of (map upd1 us), ok && forallb (fun ef => snd (upd1 ef)) us).
Proof.
  induction us as [|[e f] us IH]; intros pre ok F.
  - simpl. rewrite andb_true_r. reflexivity.
  - inversion F as [|x l Hh F']; subst.
    change (slots_of ((e, f) :: us)) with (uslots (e, f) ++ slots_of us).
    change (slots_of (map upd1 ((e, f) :: us))) with (uslots (upd1 (e, f)) ++ slots_of (map upd1 us)).
    change (nd_of (length pre) ((e, f) :: us))
      with ((if f then [] else und (length pre) e) ++ nd_of (length pre + ulen e) us).
    change (forallb (fun ef => snd (upd1 ef)) ((e, f) :: us))
      with (snd (upd1 (e, f)) && forallb (fun ef => snd (upd1 ef)) us).
    destruct f.
    + (* already filled *)
      unfold upd1, uslots. cbn [fst snd orb app].
      rewrite app_assoc.
      replace (length pre + ulen e)%nat with (length (pre ++ map Some (unit_txs e)))
        by (rewrite app_length, map_length; reflexivity).
      rewrite IH by exact F'. rewrite <- app_assoc. reflexivity.
    + destruct (Hh eq_refl) as [Hf|[Hn HT]]; cbn [fst snd] in *.
      * (* found *)
        assert (Efnd : fnd e = true) by (unfold fnd; rewrite Hf; reflexivity).
        unfold upd1, uslots. cbn [fst snd orb]. rewrite Efnd.
        rewrite fill_unit_found by exact Hf.
        rewrite app_assoc.
        replace (length pre + ulen e)%nat with (length (pre ++ map Some (unit_txs e)))
          by (rewrite app_length, map_length; reflexivity).
        rewrite IH by exact F'. rewrite <- app_assoc. reflexivity.
      * (* missing *)
        assert (Efnd : fnd e = false) by (unfold fnd; rewrite Hn; reflexivity).
        unfold upd1, uslots. cbn [fst snd orb]. rewrite Efnd.
        rewrite fill_unit_missing by assumption.
        rewrite app_assoc.
        replace (length pre + ulen e)%nat with (length (pre ++ repeat None (ulen e)))
          by (rewrite app_length, repeat_length; reflexivity).
        rewrite IH by exact F'. rewrite <- app_assoc. rewrite andb_false_r. reflexivity.
Qed.

(** * need_from on such a block *)
Lemma need_from_somes : forall (u : list txid) i rest shs,
  need_from i (map Some u ++ rest) shs = need_from (i + length u) rest shs.
Proof.
  induction u as [|t u IH]; intros i rest shs; simpl.
  - rewrite Nat.add_0_r. reflexivity.
  - rewrite IH. f_equal. lia.
Qed.

Lemma need_from_nones : forall (u : list txid) pre_s rest_s rest r,
  need_from (length pre_s + length u) rest (pre_s ++ map shh u ++ rest_s) = Ok r ->
  need_from (length pre_s) (repeat None (length u) ++ rest) (pre_s ++ map shh u ++ rest_s)
  = Ok (combine (seq (length pre_s) (length u)) (map shh u) ++ r).
Proof.
  induction u as [|t u IH]; intros pre_s rest_s rest r H; simpl in *.
  - rewrite Nat.add_0_r in H. exact H.
  - rewrite nth_error_app_at.
    replace (pre_s ++ shh t :: map shh u ++ rest_s) with ((pre_s ++ [shh t]) ++ map shh u ++ rest_s) in *
      by (rewrite <- app_assoc; reflexivity).
    replace (S (length pre_s)) with (length (pre_s ++ [shh t])) by (rewrite app_length; simpl; lia).
    rewrite (IH (pre_s ++ [shh t]) rest_s rest r).
    + rewrite app_length. simpl. replace (length pre_s + 1)%nat with (S (length pre_s)) by lia. reflexivity.
    + rewrite app_length. simpl. rewrite <- H. f_equal. lia.
Qed.

Lemma need_from_units : forall us pre_s,
  need_from (length pre_s) (slots_of us) (pre_s ++ map shh (txs_of us)) = Ok (nd_of (length pre_s) us).
Proof.
  induction us as [|[e f] us IH]; intros pre_s; simpl; [reflexivity|].
  unfold slots_of, txs_of in *. simpl flat_map. rewrite map_app.
  specialize (IH (pre_s ++ map shh (unit_txs e))).
  rewrite app_length, map_length in IH. rewrite <- app_assoc in IH.
  destruct f; simpl.
  - unfold uslots; simpl. rewrite need_from_somes. exact IH.
  - unfold uslots, und, ulen; simpl. apply need_from_nones. exact IH.
Qed.

Lemma slots_all_filled : forall us,
  forallb (fun ef => snd ef) us = true -> slots_of us = map Some (txs_of us).
Proof.
  induction us as [|[e f] us IH]; intros H; simpl in *; [reflexivity|].
  apply andb_true_iff in H as [H1 H2]. subst f. unfold slots_of, txs_of in *. simpl.
  rewrite map_app. f_equal. apply IH. exact H2.
Qed.

End Units.
