(** C34 — property theorems only.
    [hs t]: identity of Transaction.Hash() of transaction [t]; [sh h]: the
    5-byte short hash of hash [h].  A pool-level transaction [e] stands for
    the block-level transactions [unit_txs e] (itself, or the members of the
    group it carries); [uhead e] is the first of them.  [build_lt hs sh b] is
    the light form of the sender's block [b]; [add_lt] is addLtBlock on the
    receiving node with short-hash index [p]; [tick_raw] one iteration of
    pendBlockLoop; [astep] one event of the receiving node with its mempool.
    [exact0 b] is [b] with MainHash/MainHeight unset, [full_block b] is [b]. *)
From Coq Require Import List ZArith NArith Bool Lia.
From C33 Require Import C33.Model C34.Model C34.Spec C34.ProofsFill C34.ProofsLife C34.ProofsPartial C34.ProofsThm.
Import ListNotations.
Open Scope Z_scope.

(** ** all transactions available *)

(** full strength: when every unit of the block is found under the short hash
    of its first transaction, the block handed to the blockchain module is
    identical to the original *)
Definition C34_rebuild_exact_full : Prop :=
  forall hs sh c p now from pub b miner es st,
    ob_txs b = miner :: flat_map unit_txs es ->
    Z.of_nat (length (ob_txs b)) <= c_cap c -> Z.of_nat (length (ob_txs b)) <= max_len ->
    all_found hs sh p es ->
    add_lt c p now from pub (build_lt hs sh b) st = Ok (st, [Post pub (full_block b)]).

(** refuted: MainHash/MainHeight are not part of the light block's header *)
Theorem C34_rebuild_exact_refuted : ~ C34_rebuild_exact_full.
Proof.
  intros H. destruct witness_facts as [W [F _]]. destruct main_dropped as [E N].
  assert (X : Z.of_nat (length (ob_txs (blk_w 3))) <= c_cap cfg1) by (vm_compute; discriminate).
  assert (Y : Z.of_nat (length (ob_txs (blk_w 3))) <= max_len) by (vm_compute; discriminate).
  pose proof (H hs_w sh_id cfg1 (mp_idx mp_w) 0 1%N 2%N (blk_w 3) 1%N es_w init W X Y F) as H1.
  rewrite E in H1. injection H1 as H2. discriminate H2.
Qed.
Print Assumptions C34_rebuild_exact_refuted.

(** partial (guard: the block has no MainHash/MainHeight): posted at once,
    same transactions in the same positions, same header fields (hence the same hash) *)
Theorem C34_rebuild_exact : forall hs sh c p now from pub b miner es st,
  N.eqb (ob_main b) 0 = true ->
  ob_txs b = miner :: flat_map unit_txs es ->
  Z.of_nat (length (ob_txs b)) <= c_cap c -> Z.of_nat (length (ob_txs b)) <= max_len ->
  all_found hs sh p es ->
  add_lt c p now from pub (build_lt hs sh b) st = Ok (st, [Post pub (full_block b)]).
Proof.
  intros hs sh c p now from pub b miner es st G W C1 C2 F. apply N.eqb_eq in G.
  rewrite <- (exact0_full b G). eapply rebuild_exact0; eauto.
Qed.
Print Assumptions C34_rebuild_exact.

(** without the guard: identical up to MainHash/MainHeight *)
Theorem C34_rebuild_exact_up_to_main : forall hs sh c p now from pub b miner es st,
  ob_txs b = miner :: flat_map unit_txs es ->
  Z.of_nat (length (ob_txs b)) <= c_cap c -> Z.of_nat (length (ob_txs b)) <= max_len ->
  all_found hs sh p es ->
  add_lt c p now from pub (build_lt hs sh b) st = Ok (st, [Post pub (exact0 b)]).
Proof. exact rebuild_exact0. Qed.
Print Assumptions C34_rebuild_exact_up_to_main.

(** where [all_found] comes from: after the arrival of the pool-level
    transactions [ts] in an empty mempool, each of them is found under its own
    short hash, provided the short hashes of the pooled transactions are
    pairwise different (the injectivity guard) and the cache is not full *)
Theorem C34_index_after_arrivals : forall hs sh cap ts t,
  NoDup (map (key hs sh) ts) -> Z.of_nat (length ts) <= cap -> In t ts ->
  pool_get (key hs sh t) (mp_idx (push_all hs sh cap ts mp_empty)) = Some t.
Proof. exact index_after_arrivals. Qed.
Print Assumptions C34_index_after_arrivals.

Theorem C34_rebuild_guard_example :
  ob_txs (blk_w 0) = 1%N :: flat_map unit_txs es_w
  /\ all_found hs_w sh_id (mp_idx mp_w) es_w
  /\ NoDup (map (key hs_w sh_id) es_w).
Proof. exact witness_facts. Qed.
Print Assumptions C34_rebuild_guard_example.

(** ** some transactions missing *)

(** arrival of the light form of an honest sender's block (miner transaction
    followed by the units [es]; for every unit the pool answers with the unit's
    own pool-level transaction or with nothing): posted at once when complete,
    otherwise nothing is posted and the block, with the found units filled in,
    joins the pending list *)
Theorem C34_arrival : forall hs sh c p now from pub b miner es st,
  ob_txs b = miner :: txs_of (fresh es) ->
  Z.of_nat (length (ob_txs b)) <= c_cap c -> Z.of_nat (length (ob_txs b)) <= max_len ->
  Forall (honest1 (shh hs sh) p) (fresh es) ->
  let u := mkUb from pub now b miner (fresh es) in
  add_lt c p now from pub (build_lt hs sh b) st =
  if ub_done hs sh p u
  then Ok (st, [Post pub (exact0 b)])
  else Ok (mkSt (st_filter st) (st_pend st ++ [pd_of hs sh (ub_upd hs sh p u)]) (st_reqs st) (st_height st), []).
Proof. exact arrival_units. Qed.
Print Assumptions C34_arrival.

(** one iteration of the pending loop over any list of such blocks is [uscan]:
    a block that is complete now is posted (identical up to MainHash) and
    dropped; an incomplete block whose pending time has reached the timeout is
    dropped and exactly one request for its height goes to the peer it came
    from if the height is ahead of the node's; every other block stays, with
    the units found meanwhile filled in, and nothing is posted for it *)
Theorem C34_missing_waits_then_requests : forall hs sh c p now st l,
  st_pend st = map (pd_of hs sh) l -> Forall ub_wf l -> Forall (ub_honest hs sh p) l ->
  tick_raw c p now st =
  match uscan hs sh p now (c_timeout c) l with
  | (k, t, e) =>
      Ok (mkSt (st_filter st) (map (pd_of hs sh) k) (st_reqs st) (st_height st),
          e ++ flat_map (ureq (st_height st)) t)
  end.
Proof. exact tick_units. Qed.
Print Assumptions C34_missing_waits_then_requests.

(** the same for a single pending block, spelled out *)
Theorem C34_single_block_life : forall hs sh c p now st u,
  st_pend st = [pd_of hs sh u] -> ub_wf u -> ub_honest hs sh p u ->
  tick_raw c p now st =
  if ub_done hs sh p u
  then Ok (mkSt (st_filter st) [] (st_reqs st) (st_height st), [Post (ub_pub u) (exact0 (ub_b u))])
  else if c_timeout c <=? Z.quot (now - ub_ts u) 1000000
       then Ok (mkSt (st_filter st) [] (st_reqs st) (st_height st), ureq (st_height st) u)
       else Ok (mkSt (st_filter st) [pd_of hs sh (ub_upd hs sh p u)] (st_reqs st) (st_height st), []).
Proof. exact single_block_life. Qed.
Print Assumptions C34_single_block_life.

Theorem C34_life_example :
  ub_wf u_miss /\ ub_honest hs_w sh_id (mp_idx mp_miss) u_miss
  /\ ub_done hs_w sh_id (mp_idx mp_miss) u_miss = false
  /\ add_lt cfg1 (mp_idx mp_miss) 0 1%N 2%N (build_lt hs_w sh_id (blk_w 0)) init
     = Ok (mkSt [] [pd_of hs_w sh_id (ub_upd hs_w sh_id (mp_idx mp_miss) u_miss)] [] 0, [])
  /\ ureq 0 u_miss = [Req 1%N 7].
Proof. exact life_example. Qed.
Print Assumptions C34_life_example.

(** ** never a partial block: whatever the light blocks, the pool and the
    history look like, no block with a nil slot reaches the blockchain module *)
Theorem C34_never_posts_partial : forall hs sh c shcap w a w' e ok pub blk,
  astep hs sh c shcap w a = AAlive w' e ok -> In (Post pub blk) e ->
  forall j, nth_error (b_txs blk) j <> Some None.
Proof. exact astep_posts_full. Qed.
Print Assumptions C34_never_posts_partial.
