(** C34 — property theorems only (placeholder while the proofs are written). *)
From C33 Require Import C34.Model.
