(** C34 — a block with a nil slot is never handed to the blockchain module
    (no assumption on the pool, the light block or the history). *)
From Coq Require Import List ZArith NArith Bool Lia.
From C33 Require Import C33.Model C33.ProofsBase C33.ProofsMain C34.Model.
Import ListNotations.
Open Scope Z_scope.

Definition no_nil (txs : list (option txid)) : Prop := forall j, nth_error txs j <> Some None.

Lemma put_members_mono : forall ms txs i txs',
  put_members txs i ms = Ok txs' -> nil_mono txs' txs.
Proof.
  intros ms txs i txs' H. destruct (put_members_res ms txs i) as [[t2 [E [_ M]]]|P].
  - rewrite E in H. inversion H; subst. exact M.
  - rewrite P in H. discriminate.
Qed.

Lemma fill_mono : forall p nd txs ok txs' ok',
  fill p nd txs ok = Ok (txs', ok') -> nil_mono txs' txs /\ (ok' = true -> ok = true).
Proof.
  induction nd as [|[i h] nd IH]; intros txs ok txs' ok' H; simpl in H.
  - inversion H; subst. split; [intros j Hj; exact Hj|auto].
  - destruct (nth_error txs i) as [[t|]|] eqn:En; [eapply IH; eauto| |discriminate].
    destruct (pool_get h p) as [e|].
    + destruct (length txs <? i + length (members e))%nat.
      { destruct (IH _ _ _ _ H) as [M O]. split; [exact M|]. intros T. specialize (O T). discriminate. }
      destruct (set_nth txs i (Some (px_id e))) as [t1|] eqn:E1; [|discriminate].
      destruct (put_members t1 i (members e)) as [t2| |] eqn:E2; try discriminate.
      destruct (IH _ _ _ _ H) as [M O]. split; [|exact O].
      intros j Hj. eapply set_nth_nil_mono; [exact E1|]. eapply put_members_mono; [exact E2|]. apply M. exact Hj.
    + destruct (IH _ _ _ _ H) as [M O]. split; [exact M|]. intros T. specialize (O T). discriminate.
Qed.

(** a successful second loop leaves no nil slot at any of its indices *)
Lemma fill_true_filled : forall p nd txs ok txs',
  fill p nd txs ok = Ok (txs', true) ->
  forall ih, In ih nd -> nth_error txs' (fst ih) <> Some None.
Proof.
  induction nd as [|[i h] nd IH]; intros txs ok txs' H ih Hin; simpl in H; [destruct Hin|].
  destruct (nth_error txs i) as [[t|]|] eqn:En; [| |discriminate].
  - destruct Hin as [<-|Hin]; [|eapply IH; eauto]. simpl.
    destruct (fill_mono _ _ _ _ _ _ H) as [M _]. intros C. apply M in C. congruence.
  - destruct (pool_get h p) as [e|].
    + destruct (length txs <? i + length (members e))%nat.
      { destruct (fill_mono _ _ _ _ _ _ H) as [_ O]. specialize (O eq_refl). discriminate. }
      destruct (set_nth txs i (Some (px_id e))) as [t1|] eqn:E1; [|discriminate].
      destruct (put_members t1 i (members e)) as [t2| |] eqn:E2; try discriminate.
      destruct Hin as [<-|Hin]; [|eapply IH; eauto]. simpl.
      destruct (fill_mono _ _ _ _ _ _ H) as [M _]. intros C. apply M in C.
      apply (put_members_mono _ _ _ _ E2) in C. rewrite (set_nth_same _ _ _ _ _ E1) in C. discriminate.
    + destruct (fill_mono _ _ _ _ _ _ H) as [_ O]. specialize (O eq_refl). discriminate.
Qed.

(** the first loop lists every nil slot *)
Lemma need_from_complete : forall txs i shs nd,
  need_from i txs shs = Ok nd ->
  forall j, nth_error txs j = Some None -> exists h, In ((i + j)%nat, h) nd.
Proof.
  induction txs as [|[t|] txs IH]; intros i shs nd H j Hj; simpl in H.
  - destruct j; discriminate.
  - destruct j as [|j]; simpl in Hj; [discriminate|].
    destruct (IH _ _ _ H j Hj) as [h Hh]. exists h. replace (i + S j)%nat with (S i + j)%nat by lia. exact Hh.
  - destruct (nth_error shs i) as [h0|]; [|discriminate].
    destruct (need_from (S i) txs shs) as [r| |] eqn:E; try discriminate. inversion H; subst.
    destruct j as [|j]; simpl in Hj.
    + exists h0. left. f_equal. lia.
    + destruct (IH _ _ _ E j Hj) as [h Hh]. exists h. right.
      replace (i + S j)%nat with (S i + j)%nat by lia. exact Hh.
Qed.

Lemma build_posts_full : forall p pd pd' b e pub blk,
  build p pd = Ok (pd', b, e) -> In (Post pub blk) e -> no_nil (b_txs blk).
Proof.
  intros p pd pd' b e pub blk H Hin. unfold build in H.
  destruct (pd_sh pd) as [|s0 shs'] eqn:Es; [inversion H; subst; destruct Hin|]. rewrite <- Es in H.
  destruct (need_from 0 (pd_txs pd) (pd_sh pd)) as [nd| |] eqn:En; try discriminate.
  destruct (fill p nd (pd_txs pd) true) as [[txs' ok]| |] eqn:Ef; try discriminate.
  destruct ok; inversion H; subst; [|destruct Hin].
  destruct Hin as [E|[]]. inversion E; subst. simpl. intros j C.
  destruct (fill_mono _ _ _ _ _ _ Ef) as [M _]. pose proof (M j C) as C0.
  destruct (need_from_complete _ _ _ _ En j C0) as [h Hh]. simpl in Hh.
  exact (fill_true_filled _ _ _ _ _ Ef _ Hh C).
Qed.

Lemma scan_posts_full : forall p now timeout l keep tmo e pub blk,
  scan p now timeout l = Ok (keep, tmo, e) -> In (Post pub blk) e -> no_nil (b_txs blk).
Proof.
  intros p now timeout l. induction l as [|pd l IH]; intros keep tmo e pub blk H Hin; simpl in H.
  - inversion H; subst. destruct Hin.
  - destruct (build p pd) as [[[pd' b] e0]| |] eqn:Eb; try discriminate.
    destruct (scan p now timeout l) as [[[k t] e']| |] eqn:Es; try discriminate.
    assert (In (Post pub blk) (e0 ++ e')) as Hin'.
    { destruct b; [inversion H; subst; exact Hin|].
      destruct (timeout <=? _); inversion H; subst; exact Hin. }
    apply in_app_or in Hin' as [A|A]; [eapply build_posts_full; eauto|eapply IH; eauto].
Qed.

Lemma requests_no_post : forall h t pub blk, ~ In (Post pub blk) (requests h t).
Proof.
  induction t as [|pd t IH]; intros pub blk H; simpl in H; [exact H|].
  destruct (h <? pd_height pd); [destruct H as [H|H]; [discriminate|]|]; eapply IH; eauto.
Qed.

Lemma add_lt_posts_full : forall c p now from pub lb st st' e pub' blk,
  add_lt c p now from pub lb st = Ok (st', e) -> In (Post pub' blk) e -> no_nil (b_txs blk).
Proof.
  intros c p now from pub lb st st' e pub' blk H Hin. unfold add_lt in H.
  destruct ((lt_txcount lb <=? 0) || (Z.of_nat (length (lt_sh lb)) <? lt_txcount lb));
    [inversion H; subst; destruct Hin|].
  destruct (lt_hdr lb) as [h|]; [|discriminate].
  destruct (go_make (c_cap c) (h_txcount h)) as [txs0| |]; try discriminate.
  destruct (set_nth txs0 0 (lt_miner lb)) as [txs1|]; [|discriminate].
  match type of H with context [build p ?pd] => destruct (build p pd) as [[[pd' b] e0]| |] eqn:Eb end; try discriminate.
  destruct b; inversion H; subst; eapply build_posts_full; eauto.
Qed.

Lemma astep_posts_full : forall hs sh c shcap w a w' e ok pub blk,
  astep hs sh c shcap w a = AAlive w' e ok -> In (Post pub blk) e -> no_nil (b_txs blk).
Proof.
  intros hs sh c shcap w a w' e ok pub blk H Hin. destruct a; simpl in H.
  - unfold recv_lt_raw in H. destruct (mem_n (lt_hash lb) (st_filter (w_st w))).
    + inversion H; subst. destruct Hin.
    + match type of H with context [add_lt ?a ?b ?c0 ?d ?e ?f ?g] => destruct (add_lt a b c0 d e f g) as [[s e0]| |] eqn:E end;
        simpl in H; try discriminate; inversion H; subst; [|destruct Hin].
      eapply add_lt_posts_full; eauto.
  - inversion H; subst. destruct Hin as [E|[]]. inversion E; subst. simpl.
    intros j C. apply nth_error_In, in_map_iff in C as [t [C _]]. discriminate.
  - destruct (mp_push hs sh shcap t (w_mp w)). inversion H; subst. destruct Hin.
  - inversion H; subst. destruct Hin.
  - unfold tick_raw in H. destruct (scan (mp_idx (w_mp w)) now (c_timeout c) (st_pend (w_st w))) as [[[k t] e0]| |] eqn:Es;
      simpl in H; try discriminate. inversion H; subst.
    apply in_app_or in Hin as [A|A]; [eapply scan_posts_full; eauto|exfalso; eapply requests_no_post; eauto].
  - inversion H; subst. destruct Hin.
Qed.
