(** C34 — correspondence cases: a history on a sending node (real
    handleBroadcastSend) and a receiving node (real handleBroadcastReceive,
    real mempool short-hash index, pending loop driven through the hook), with
    what the implementation showed after every event.

    model_agrees: what was published by the sender, what the receiver posted
    and published, the pending-list length and the mempool's accept flag equal
    the model's.  spec_holds: the receiver's posts and peer messages are what
    the abstract specification (C34.Spec: sets of available transactions, no
    short hashes) demands, and the node survived.
    known-finding codes (first failing event):
      1  the rebuilt block differs from the original only by the dropped
         MainHash/MainHeight (the light block's header does not carry them);
      2  the history contains two different transaction hashes with the same
         5-byte short hash (and the model predicts the observed behaviour). *)
From Coq Require Import List ZArith NArith Bool String.
From C33 Require Import Lib.Harness C33.Model C33.Check C34.Model C34.Spec.
Import ListNotations.
Open Scope Z_scope.

Inductive xevent :=
| XSend (now : Z) (from pub : N) (b : oblock)   (* block handed to the sender's handleBroadcastSend; what it
                                                   publishes is delivered to the receiver *)
| XArrive (t : ptx)
| XRemove (h : N)
| XTick (now : Z)
| XHeight (h : Z).

Inductive skind := KLt (lb : ltblock) | KFull | KNone | KNA.

Record xobs := mkXO {
  xo_alive : bool;
  xo_sent : skind;
  xo_posts : list eff;
  xo_msgs : list eff;
  xo_pend : Z;
  xo_pushed : bool
}.

Record xcfg := mkXC {
  xc_hs : list N;       (* transaction id -> hash id *)
  xc_sh : list N;       (* hash id -> short hash id *)
  xc_cfg : config;
  xc_shcap : Z;         (* capacity of the short-hash cache *)
  xc_disabled : bool;   (* DisableLtBlock on the sender *)
  xc_minsize : Z        (* MinLtBlockSize (bytes) on the sender *)
}.

Inductive case := CaseA (x : xcfg) (steps : list (xevent * xobs)).

Definition tab_fn (t : list N) (x : N) : N := nth (N.to_nat x) t 0%N.

Definition hdr_eqb (a b : header) : bool :=
  Z.eqb (h_txcount a) (h_txcount b) && Z.eqb (h_height a) (h_height b)
  && N.eqb (h_hash a) (h_hash b) && N.eqb (h_rest a) (h_rest b).

Definition lt_eqb (a b : ltblock) : bool :=
  option_eqb hdr_eqb (lt_hdr a) (lt_hdr b) && option_eqb N.eqb (lt_miner a) (lt_miner b)
  && list_eqb N.eqb (lt_sh a) (lt_sh b).

Definition sent_agree (m : sent) (o : skind) : bool :=
  match m, o with
  | SentLt a, KLt b => lt_eqb a b
  | SentFull, KFull => true
  | SentNothing, KNone => true
  | _, _ => false
  end.

Definition posts_of (e : list eff) : list eff := filter is_post e.
Definition msgs_of (e : list eff) : list eff := filter (fun x => negb (is_post x)) e.

Fixpoint has_dup (l : list N) : bool :=
  match l with [] => false | x :: tl => mem_n x tl || has_dup tl end.

Fixpoint dedup (l : list N) : list N :=
  match l with [] => [] | x :: tl => if mem_n x tl then dedup tl else x :: dedup tl end.

(** two different hashes of the case share a short hash *)
Definition has_collision (x : xcfg) : bool :=
  let hashes := dedup (xc_hs x) in
  has_dup (map (tab_fn (xc_sh x)) hashes).

Definition zero_main (e : eff) : eff :=
  match e with
  | Post p b => Post p (mkBlk (b_height b) (b_rest b) 0%N (b_txs b))
  | _ => e
  end.
Definition main_set (e : eff) : bool :=
  match e with Post _ b => negb (N.eqb (b_main b) 0%N) | _ => false end.

Record cstate := mkCS { cs_w : world; cs_sseen : list N; cs_spec : sstate }.

(** model result of one event: new state, sender output, effects, accept flag; None = crash *)
Definition model_event (x : xcfg) (cs : cstate) (ev : xevent)
  : option (world * list N * sent * list eff * bool) :=
  let hs := tab_fn (xc_hs x) in
  let sh := tab_fn (xc_sh x) in
  let go (a : aevent) (seen : list N) (s : sent) :=
    match astep hs sh (xc_cfg x) (xc_shcap x) (cs_w cs) a with
    | AAlive w e ok => Some (w, seen, s, e, ok)
    | ACrashed _ => None
    end in
  match ev with
  | XSend now from pub b =>
      match send hs sh (xc_disabled x) (xc_minsize x) (cs_sseen cs) b with
      | SentNothing => Some (cs_w cs, cs_sseen cs, SentNothing, [], true)
      | SentFull => go (AFull pub b) (ob_hash b :: cs_sseen cs) SentFull
      | SentLt lb => go (ALight now from pub lb) (ob_hash b :: cs_sseen cs) (SentLt lb)
      end
  | XArrive t => go (AArrive t) (cs_sseen cs) SentNothing
  | XRemove h => go (ARemove h) (cs_sseen cs) SentNothing
  | XTick now => go (ATick now) (cs_sseen cs) SentNothing
  | XHeight h => go (AHeight h) (cs_sseen cs) SentNothing
  end.

(** the specification's view of the event, given what the sender published *)
Definition spec_event (ev : xevent) (s : sent) (o : xobs) : option sevent :=
  match ev with
  | XSend now from pub b =>
      match s with
      | SentLt _ => Some (SLight now from pub b)
      | SentFull => Some (SFull pub b)
      | SentNothing => None
      end
  | XArrive t => Some (SArrive t (xo_pushed o))
  | XRemove h => Some (SRemove h)
  | XTick now => Some (STick now)
  | XHeight h => Some (SHeight h)
  end.

Definition sent_of_obs (k : skind) : sent :=
  match k with KLt lb => SentLt lb | KFull => SentFull | _ => SentNothing end.

Fixpoint check_steps (x : xcfg) (cs : cstate) (l : list (xevent * xobs)) : verdict :=
  match l with
  | [] => ok_verdict
  | (ev, o) :: tl =>
      (* specification, driven by the implementation's own observables *)
      let '(ss', eposts, emsgs) :=
        match spec_event ev (sent_of_obs (xo_sent o)) o with
        | Some se => spec_step (tab_fn (xc_hs x)) (c_timeout (xc_cfg x)) (cs_spec cs) se
        | None => (cs_spec cs, [], [])
        end in
      let s_here := xo_alive o && list_eqb eff_eqb eposts (xo_posts o) && list_eqb eff_eqb emsgs (xo_msgs o) in
      let main_only :=
        xo_alive o && list_eqb eff_eqb (map zero_main eposts) (xo_posts o)
        && list_eqb eff_eqb emsgs (xo_msgs o) && existsb main_set eposts in
      match model_event x cs ev with
      | None =>
          if xo_alive o then (false, s_here, 0%N)
          else (match tl with [] => true | _ => false end, false,
                if has_collision x then 2%N else 0%N)
      | Some (w', seen', ms, e, ok) =>
          let m_here :=
            xo_alive o
            && (match ev with XSend _ _ _ _ => sent_agree ms (xo_sent o) | _ => true end)
            && list_eqb eff_eqb (posts_of e) (xo_posts o)
            && list_eqb eff_eqb (msgs_of e) (xo_msgs o)
            && Z.eqb (Z.of_nat (List.length (st_pend (w_st w')))) (xo_pend o)
            && Bool.eqb ok (xo_pushed o) in
          if s_here then
            match check_steps x (mkCS w' seen' ss') tl with
            | (m, s, k) => (m_here && m, s, k)
            end
          else
            (m_here, false,
             if main_only then 1%N
             else if m_here && has_collision x then 2%N else 0%N)
      end
  end.

Definition check_case (cs : case) : verdict :=
  match cs with CaseA x steps => check_steps x (mkCS w_init [] ss_init) steps end.

(** * compact wire format *)
Definition OB (height : Z) (rest main hash : N) (size : Z) (txs : string) : oblock :=
  mkOb height rest main hash size (hx txs).
Definition PT (id : N) (gc : Z) (hdr : string) : ptx := mkPtx id gc (hx hdr).
Definition XC (hs sh : string) (timeout shcap : Z) (disabled : bool) (minsize : Z) : xcfg :=
  mkXC (hx hs) (hx sh) (mkCfg 2147483648 timeout [] false) shcap disabled minsize.
Definition OA (alive : bool) (k : skind) (posts msgs : list eff) (pend : Z) (pushed : bool) : xobs :=
  mkXO alive k posts msgs pend pushed.
Definition SD (t : Z) (from pub : N) (b : oblock) : xevent := XSend (t * 1000000000) from pub b.
Definition TK (t : Z) : xevent := XTick (t * 1000000000 + 500000000).
(** constructors of C33.Check used by the wire format *)
Definition L := C33.Check.L.
Definition L0 := C33.Check.L0.
Definition B := C33.Check.B.
