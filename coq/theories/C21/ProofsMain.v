(** C21 — the invariant over events and histories; block clause; the
    short-hash clause under injectivity; without injectivity: an index entry
    stays with the transaction that owns it while that one is pooled, a
    transaction pushed while none of the pooled ones has its short hash is
    indexed; the full clause is still refuted (a transaction pushed while
    another one with its short hash is pooled is never indexed). *)
From Coq Require Import List ZArith NArith Bool Lia.
From C33 Require Import C21.Model C21.Spec C21.ProofsLm C21.ProofsInv.
Import ListNotations.
Open Scope Z_scope.

Ltac set_st1 name :=
  match goal with
  | |- context [if ?cond then set_hdr ?x ?y ?s else ?s] =>
      set (name := if cond then set_hdr x y s else s) in *
  end.

(** * invariant: initial state and every event *)
Lemma init_consistent sh c : 1 <= c_peracc c -> consistent sh c init.
Proof.
  intros Hp. constructor; cbn.
  - constructor.
  - constructor.
  - lia.
  - constructor.
  - intros a. reflexivity.
  - intros a. cbn. lia.
  - exists []. reflexivity.
  - lia.
  - reflexivity.
  - reflexivity.
  - constructor.
  - intros k t [].
Qed.

Lemma remove_txs_consistent sh c hs : forall st,
  consistent sh c st -> consistent sh c (remove_txs sh hs st).
Proof.
  unfold remove_txs. induction hs as [|h tl IH]; intros st K; [exact K|].
  cbn [fold_left]. apply IH. apply cache_remove_consistent. exact K.
Qed.

Lemma set_hdr_consistent sh c h b st : consistent sh c st -> consistent sh c (set_hdr h b st).
Proof.
  intros [Kk Knd Kcap Kand Kacc Kper Klast Kll Kb Kf Ksn Kss]. constructor; assumption.
Qed.

Lemma remove_expired_consistent sh c now st :
  consistent sh c st -> consistent sh c (remove_expired sh c now st).
Proof. intros K. unfold remove_expired, remove_expired_tx. apply remove_txs_consistent. exact K. Qed.

Lemma del_block_consistent sh c now ts : forall st,
  1 <= c_peracc c -> consistent sh c st -> consistent sh c (del_block sh c now ts st).
Proof.
  unfold del_block. induction ts as [|t tl IH]; intros st Hp K; [exact K|].
  cbn [fold_left]. apply IH; [exact Hp|].
  destruct (check_expire_valid now st t); [|exact K].
  apply cache_push_consistent; assumption.
Qed.

Lemma step_consistent sh c st e :
  1 <= c_peracc c -> consistent sh c st -> consistent sh c (fst (step sh c st e)).
Proof.
  intros Hp K. destruct e as [now t|hs|now|now h b hs|now h b ts]; cbn [step].
  - apply cache_push_consistent; assumption.
  - cbn [fst]. apply remove_txs_consistent. exact K.
  - cbn [fst]. apply remove_expired_consistent. exact K.
  - set_st1 st1.
    assert (K1 : consistent sh c st1).
    { unfold st1. destruct (_ || _); [apply set_hdr_consistent|]; exact K. }
    destruct (0 <? lm_size (s_q st1)); cbn [fst]; [|exact K1].
    apply remove_expired_consistent. apply remove_txs_consistent. exact K1.
  - cbn [fst]. apply del_block_consistent; [exact Hp|]. apply set_hdr_consistent. exact K.
Qed.

Lemma run_consistent sh c es : forall st,
  1 <= c_peracc c -> consistent sh c st -> consistent sh c (run sh c st es).
Proof.
  unfold run. induction es as [|e tl IH]; intros st Hp K; [exact K|].
  cbn [fold_left]. apply IH; [exact Hp|]. apply step_consistent; assumption.
Qed.

Lemma run_states_consistent sh c es : forall st,
  1 <= c_peracc c -> consistent sh c st -> Forall (consistent sh c) (run_states sh c st es).
Proof.
  induction es as [|e tl IH]; intros st Hp K; cbn [run_states]; constructor.
  - apply step_consistent; assumption.
  - apply IH; [exact Hp|]. apply step_consistent; assumption.
Qed.

(** * the transactions of an added block are gone *)
Lemma cache_remove_subset sh c h st k :
  consistent sh c st -> In k (keys (s_q (cache_remove sh h st))) -> In k (keys (s_q st)).
Proof.
  intros K H. destruct (lm_get h (s_q st)) as [it|] eqn:G.
  - rewrite <- qtx_keys in *. rewrite (qtx_remove sh h st it) in H; auto.
    + eapply keys_filter_in; eauto.
    + rewrite <- qtx_keys. apply (k_nodup _ _ _ K).
  - rewrite cache_remove_none in H by exact G. exact H.
Qed.

Lemma cache_remove_gone sh c h st :
  consistent sh c st -> ~ In h (keys (s_q (cache_remove sh h st))).
Proof.
  intros K H. destruct (lm_get h (s_q st)) as [it|] eqn:G.
  - rewrite <- qtx_keys in H. rewrite (qtx_remove sh h st it) in H; auto.
    + apply keys_filter_neqk in H. congruence.
    + rewrite <- qtx_keys. apply (k_nodup _ _ _ K).
  - rewrite cache_remove_none in H by exact G. apply lm_get_none_iff in G. contradiction.
Qed.

Lemma remove_txs_subset sh c hs : forall st k,
  consistent sh c st -> In k (keys (s_q (remove_txs sh hs st))) -> In k (keys (s_q st)).
Proof.
  unfold remove_txs. induction hs as [|h tl IH]; intros st k K H; [exact H|].
  cbn [fold_left] in H. apply IH in H; [|apply cache_remove_consistent; exact K].
  eapply cache_remove_subset; eauto.
Qed.

Lemma remove_txs_gone sh c hs : forall st h,
  consistent sh c st -> In h hs -> ~ In h (keys (s_q (remove_txs sh hs st))).
Proof.
  induction hs as [|h0 tl IH]; intros st h K Hin; [destruct Hin|].
  unfold remove_txs. cbn [fold_left]. fold (remove_txs sh tl (cache_remove sh h0 st)).
  assert (K1 : consistent sh c (cache_remove sh h0 st)) by (apply cache_remove_consistent; exact K).
  destruct (N.eq_dec h0 h) as [E|E].
  - subst h0. intros H. apply (remove_txs_subset sh c) in H; [|exact K1].
    exact (cache_remove_gone sh c h st K H).
  - destruct Hin as [Hin|Hin]; [contradiction|]. apply IH; assumption.
Qed.

Lemma block_txs_gone sh c st now height bt hs h :
  consistent sh c st -> In h hs ->
  ~ In h (keys (s_q (fst (step sh c st (EAddBlock now height bt hs))))).
Proof.
  intros K Hin. cbn [step].
  set_st1 st1.
  assert (K1 : consistent sh c st1).
  { unfold st1. destruct (_ || _); [apply set_hdr_consistent|]; exact K. }
  destruct (0 <? lm_size (s_q st1)) eqn:Z; cbn [fst].
  - intros H. unfold remove_expired, remove_expired_tx in H.
    apply (remove_txs_subset sh c) in H; [|apply remove_txs_consistent; exact K1].
    revert H. apply (remove_txs_gone sh c); assumption.
  - apply Z.ltb_ge in Z. unfold lm_size in Z. destruct (s_q st1); [intros []|cbn [length] in Z; lia].
Qed.

(** * the short-hash index, exactly, while [sh] is injective on the pool *)
Definition shF (sh : N -> N) (p : N * tx) : N * tx := (sh (fst p), snd p).
Definition sh_exact (sh : N -> N) (st : state) : Prop := s_sh st = map (shF sh) (qtx st).
(** guard: the short hash is injective on the hashes currently pooled *)
Definition sh_inj_pool (sh : N -> N) (st : state) : bool := nodup_b (map sh (keys (s_q st))).
(** every pooled transaction is found under its short hash *)
Definition sh_agrees (sh : N -> N) (st : state) : Prop :=
  forall h t, In (h, t) (qtx st) -> lm_get (sh h) (s_sh st) = Some t.

Lemma mem_n_in x l : mem_n x l = true <-> In x l.
Proof.
  unfold mem_n. rewrite existsb_exists. split.
  - intros [y [H E]]. apply N.eqb_eq in E. congruence.
  - intros H. exists x. split; [exact H|apply N.eqb_refl].
Qed.

Lemma nodup_b_iff l : nodup_b l = true <-> NoDup l.
Proof.
  induction l as [|x tl IH]; cbn [nodup_b].
  - split; [constructor|reflexivity].
  - rewrite andb_true_iff, negb_true_iff, IH. split.
    + intros [H1 H2]. constructor; [|exact H2]. intros H. apply mem_n_in in H. congruence.
    + intros H. inversion H as [|y ys Hn ND]; subst. split; [|exact ND].
      destruct (mem_n x tl) eqn:M; [|reflexivity]. apply mem_n_in in M. contradiction.
Qed.

Lemma keys_shF sh (T : lm tx) : keys (map (shF sh) T) = map sh (keys T).
Proof. unfold keys. rewrite !map_map. reflexivity. Qed.

Lemma nodup_map_inj {A B} (f : A -> B) l x y :
  NoDup (map f l) -> In x l -> In y l -> f x = f y -> x = y.
Proof.
  induction l as [|a tl IH]; cbn [map]; intros ND Hx Hy E; [destruct Hx|].
  inversion ND as [|b bs Hn ND']; subst.
  destruct Hx as [Hx|Hx], Hy as [Hy|Hy]; subst.
  - reflexivity.
  - exfalso. apply Hn. rewrite E. apply in_map. exact Hy.
  - exfalso. apply Hn. rewrite <- E. apply in_map. exact Hx.
  - auto.
Qed.

Lemma nodup_map_filter {V} (f : N -> N) (g : N * V -> bool) (l : lm V) :
  NoDup (map f (keys l)) -> NoDup (map f (keys (filter g l))).
Proof.
  induction l as [|[k v] tl IH]; cbn [filter keys map]; intros ND; [constructor|].
  inversion ND as [|b bs Hn ND']; subst.
  destruct (g (k, v)); [|auto]. cbn [map fst]. constructor; [|apply IH; exact ND'].
  intros H. apply Hn. apply in_map_iff in H as [x [E Hx]]. apply in_map_iff. exists x.
  split; [exact E|]. eapply keys_filter_in. exact Hx.
Qed.

Lemma sh_exact_agrees sh c st :
  consistent sh c st -> sh_exact sh st -> sh_agrees sh st.
Proof.
  intros K E h t Hin. apply lm_in_get; [apply (k_sh_nodup _ _ _ K)|].
  rewrite E. apply in_map_iff. exists (h, t). split; [reflexivity|exact Hin].
Qed.

Lemma filter_map_shF sh h (T : lm tx) :
  NoDup (map sh (keys T)) -> In h (keys T) ->
  filter (neqk (sh h)) (map (shF sh) T) = map (shF sh) (filter (neqk h) T).
Proof.
  intros ND Hh.
  assert (X : forall p, In p T -> neqk (sh h) (shF sh p) = neqk h p).
  { intros p Hp. unfold neqk, shF. cbn [fst]. f_equal.
    destruct (N.eqb_spec (fst p) h) as [E|E].
    - subst. apply N.eqb_refl.
    - apply N.eqb_neq. intros E2. apply E.
      apply (nodup_map_inj sh (keys T)); auto. apply in_map. exact Hp. }
  clear ND Hh. induction T as [|p tl IH]; [reflexivity|].
  cbn [map filter]. rewrite (X p) by (left; reflexivity).
  destruct (neqk h p); cbn [map]; rewrite IH; auto; intros q Hq; apply X; right; exact Hq.
Qed.

Lemma inj_nodup sh st : sh_inj_pool sh st = true <-> NoDup (map sh (keys (s_q st))).
Proof. apply nodup_b_iff. Qed.

Lemma cache_remove_exact sh c h st :
  consistent sh c st -> sh_exact sh st -> sh_inj_pool sh st = true ->
  sh_exact sh (cache_remove sh h st) /\ sh_inj_pool sh (cache_remove sh h st) = true.
Proof.
  intros K E I. destruct (lm_get h (s_q st)) as [it|] eqn:G.
  2:{ rewrite cache_remove_none by exact G. tauto. }
  assert (NDq : NoDup (keys (s_q st))) by (rewrite <- qtx_keys; apply (k_nodup _ _ _ K)).
  apply inj_nodup in I. split.
  - unfold sh_exact. rewrite (qtx_remove sh h st it NDq G).
    rewrite (cache_remove_eq sh h st it G). cbn [s_sh].
    assert (Hin : In (h, i_tx it) (qtx st)) by (apply qtx_in; apply lm_get_in; exact G).
    assert (Eh : t_h (i_tx it) = h).
    { pose proof (k_keys _ _ _ K) as Kk. rewrite Forall_forall in Kk. symmetry. exact (Kk _ Hin). }
    assert (Gs : lm_get (sh h) (s_sh st) = Some (i_tx it)).
    { apply lm_in_get; [apply (k_sh_nodup _ _ _ K)|]. rewrite E. apply in_map_iff.
      exists (h, i_tx it). split; [reflexivity|exact Hin]. }
    rewrite (sh_remove_owner sh h _ _ (k_sh_nodup _ _ _ K) Gs Eh). rewrite E.
    apply filter_map_shF.
    + rewrite qtx_keys. exact I.
    + rewrite qtx_keys. apply lm_get_in in G. eapply in_keys; eauto.
  - apply inj_nodup. rewrite (cache_remove_eq sh h st it G). cbn [s_q].
    rewrite (lm_remove_filter _ _ NDq). apply nodup_map_filter. exact I.
Qed.

Lemma remove_txs_exact sh c hs : forall st,
  consistent sh c st -> sh_exact sh st -> sh_inj_pool sh st = true ->
  sh_exact sh (remove_txs sh hs st) /\ sh_inj_pool sh (remove_txs sh hs st) = true.
Proof.
  unfold remove_txs. induction hs as [|h tl IH]; intros st K E I; [tauto|].
  cbn [fold_left]. destruct (cache_remove_exact sh c h st K E I) as [E1 I1].
  apply IH; auto. apply cache_remove_consistent. exact K.
Qed.

(** Push either leaves the state unchanged or appends to the queue *)
Lemma cache_push_cases sh c now t st :
  1 <= c_peracc c -> consistent sh c st ->
  fst (cache_push sh c now t st) = st \/
  (~ In (t_h t) (keys (s_q st)) /\ lm_size (s_q st) < c_qcap c /\
   exists acc',
     fst (cache_push sh c now t st) =
       mkSt (s_q st ++ [(t_h t, mkItem t now)]) (s_bytes st + t_size t) acc'
            (last_push c t (t_h t) (s_last st)) (sh_push sh c t (t_h t) (s_sh st))
            (s_fee st + t_fee t) (s_hdr st)).
Proof.
  intros Hp K. unfold cache_push.
  destruct (acc_can_push c t (s_acc st)) eqn:Hcan; cbn [negb]; [|left; reflexivity].
  unfold q_push. cbn [i_tx].
  destruct (lm_exist (t_h t) (s_q st)) eqn:Hex; [left; reflexivity|].
  destruct (c_qcap c <=? lm_size (s_q st)) eqn:Hcap; [left; reflexivity|].
  change (N.eqb E_OK E_OK) with true. cbn [negb].
  assert (Hh : ~ In (t_h t) (keys (s_q st))) by (apply lm_exist_false; exact Hex).
  assert (Hhl : ~ In (t_h t) (keys (acc_get (t_from t) (s_acc st)))).
  { rewrite (k_acc _ _ _ K). intros X. apply Hh. rewrite <- qtx_keys. eapply keys_filter_in; eauto. }
  destruct (acc_push_spec c t (t_h t) (s_acc st) Hp Hcan (k_acc_nodup _ _ _ K) Hhl) as [acc' [Ea _]].
  rewrite Ea. change (N.eqb E_OK E_OK) with true. cbn [negb fst].
  rewrite (lm_push_fresh _ _ _ Hh). right. apply Z.leb_gt in Hcap.
  split; [exact Hh|]. split; [exact Hcap|]. exists acc'. reflexivity.
Qed.

Lemma cache_push_inj_back sh c now t st :
  1 <= c_peracc c -> consistent sh c st ->
  sh_inj_pool sh (fst (cache_push sh c now t st)) = true -> sh_inj_pool sh st = true.
Proof.
  intros Hp K I. destruct (cache_push_cases sh c now t st Hp K) as [E|[_ [_ [acc' E]]]];
    rewrite E in I; [exact I|].
  apply inj_nodup in I. apply inj_nodup. cbn [s_q] in I.
  rewrite keys_app, map_app in I. eapply nodup_app_l; eauto.
Qed.

Lemma cache_push_exact sh c now t st :
  1 <= c_peracc c -> c_qcap c <= c_shmax c ->
  consistent sh c st -> sh_exact sh st ->
  sh_inj_pool sh (fst (cache_push sh c now t st)) = true ->
  sh_exact sh (fst (cache_push sh c now t st)).
Proof.
  intros Hp Hsm K E I.
  destruct (cache_push_cases sh c now t st Hp K) as [E1|[Hh [Hlt [acc' E1]]]];
    rewrite E1 in *; [exact E|].
  apply inj_nodup in I. cbn [s_q] in I. rewrite keys_app, map_app in I. cbn [keys map fst] in I.
  unfold sh_exact. unfold qtx at 1. cbn [s_q s_sh]. rewrite map_app. cbn [map fst snd i_tx].
  fold (qtx st). unfold sh_push.
  assert (Hn : ~ In (sh (t_h t)) (keys (s_sh st))).
  { rewrite E, keys_shF, qtx_keys. intros X.
    apply NoDup_remove_2 in I. rewrite app_nil_r in I. contradiction. }
  assert (Hex : lm_exist (sh (t_h t)) (s_sh st) = false) by (apply lm_exist_false; exact Hn).
  rewrite Hex.
  assert (Hsz : lm_size (s_sh st) = lm_size (s_q st)).
  { rewrite E. unfold lm_size, qtx. rewrite !map_length. reflexivity. }
  destruct (c_shmax c <=? lm_size (s_sh st)) eqn:Z; [apply Z.leb_le in Z; lia|].
  rewrite (lm_push_fresh _ _ _ Hn). rewrite E, map_app. reflexivity.
Qed.

Lemma del_block_inj_back sh c now ts : forall st,
  1 <= c_peracc c -> consistent sh c st ->
  sh_inj_pool sh (del_block sh c now ts st) = true -> sh_inj_pool sh st = true.
Proof.
  unfold del_block. induction ts as [|t tl IH]; intros st Hp K I; [exact I|].
  cbn [fold_left] in I. destruct (check_expire_valid now st t).
  - apply IH in I; [|exact Hp|apply cache_push_consistent; assumption].
    eapply cache_push_inj_back; eauto.
  - apply IH in I; auto.
Qed.

Lemma del_block_exact sh c now ts : forall st,
  1 <= c_peracc c -> c_qcap c <= c_shmax c ->
  consistent sh c st -> sh_exact sh st ->
  sh_inj_pool sh (del_block sh c now ts st) = true ->
  sh_exact sh (del_block sh c now ts st).
Proof.
  induction ts as [|t tl IH]; intros st Hp Hsm K E I; [exact E|].
  unfold del_block in *. cbn [fold_left] in *.
  destruct (check_expire_valid now st t).
  - assert (K1 : consistent sh c (fst (cache_push sh c now t st))) by (apply cache_push_consistent; assumption).
    apply IH; auto. apply cache_push_exact; auto.
    apply (del_block_inj_back sh c now tl); auto.
  - apply IH; auto.
Qed.

Lemma step_exact sh c st e :
  1 <= c_peracc c -> c_qcap c <= c_shmax c ->
  consistent sh c st -> sh_exact sh st ->
  sh_inj_pool sh st = true -> sh_inj_pool sh (fst (step sh c st e)) = true ->
  sh_exact sh (fst (step sh c st e)).
Proof.
  intros Hp Hsm K E I I'. destruct e as [now t|hs|now|now h b hs|now h b ts]; cbn [step] in *.
  - apply cache_push_exact; assumption.
  - cbn [fst]. apply (remove_txs_exact sh c); assumption.
  - cbn [fst]. unfold remove_expired, remove_expired_tx. apply (remove_txs_exact sh c); assumption.
  - set_st1 st1.
    assert (K1 : consistent sh c st1).
    { unfold st1. destruct (_ || _); [apply set_hdr_consistent|]; exact K. }
    assert (E1 : sh_exact sh st1) by (unfold st1; destruct (_ || _); exact E).
    assert (I1 : sh_inj_pool sh st1 = true) by (unfold st1; destruct (_ || _); exact I).
    destruct (0 <? lm_size (s_q st1)); cbn [fst]; [|exact E1].
    destruct (remove_txs_exact sh c hs st1 K1 E1 I1) as [E2 I2].
    unfold remove_expired, remove_expired_tx. apply (remove_txs_exact sh c); auto.
    apply remove_txs_consistent. exact K1.
  - cbn [fst] in *. apply del_block_exact; auto. apply set_hdr_consistent. exact K.
Qed.

Lemma run_states_exact sh c es : forall st,
  1 <= c_peracc c -> c_qcap c <= c_shmax c ->
  consistent sh c st -> sh_exact sh st -> sh_inj_pool sh st = true ->
  forallb (sh_inj_pool sh) (run_states sh c st es) = true ->
  Forall (fun s => consistent sh c s /\ sh_agrees sh s) (run_states sh c st es).
Proof.
  induction es as [|e tl IH]; intros st Hp Hsm K E I G; cbn [run_states] in *; [constructor|].
  cbn [forallb] in G. apply andb_true_iff in G as [G1 G2].
  assert (K1 : consistent sh c (fst (step sh c st e))) by (apply step_consistent; assumption).
  assert (E1 : sh_exact sh (fst (step sh c st e))) by (apply step_exact; assumption).
  constructor.
  - split; [exact K1|]. eapply sh_exact_agrees; eauto.
  - apply IH; assumption.
Qed.

(** * what holds without injectivity: an index entry stays with its owner *)
(** [t], pooled under hash [h], is the transaction found under its short hash *)
Definition sh_owner (sh : N -> N) (st : state) (h : N) (t : tx) : Prop :=
  In (h, t) (qtx st) /\ lm_get (sh h) (s_sh st) = Some t.
(** every pooled transaction's short-hash lookup is non-empty *)
Definition sh_covers (sh : N -> N) (st : state) : Prop :=
  forall h t, In (h, t) (qtx st) -> lm_get (sh h) (s_sh st) <> None.

Lemma sh_agrees_covers sh st : sh_agrees sh st -> sh_covers sh st.
Proof. intros A h t Hin. rewrite (A h t Hin). discriminate. Qed.

Lemma owner_hash sh c st h t : consistent sh c st -> In (h, t) (qtx st) -> h = t_h t.
Proof.
  intros K Hin. pose proof (k_keys _ _ _ K) as Kk. rewrite Forall_forall in Kk. exact (Kk _ Hin).
Qed.

Lemma cache_remove_owner sh c h0 st h t :
  consistent sh c st -> sh_owner sh st h t ->
  In h (keys (s_q (cache_remove sh h0 st))) -> sh_owner sh (cache_remove sh h0 st) h t.
Proof.
  intros K [Hin Hg] Hp. destruct (lm_get h0 (s_q st)) as [it|] eqn:G.
  2:{ rewrite cache_remove_none by exact G. split; assumption. }
  assert (Hne : h <> h0).
  { intros E. subst h0. exact (cache_remove_gone sh c h st K Hp). }
  assert (NDq : NoDup (keys (s_q st))) by (rewrite <- qtx_keys; apply (k_nodup _ _ _ K)).
  split.
  - rewrite (qtx_remove sh h0 st it NDq G). apply filter_In. split; [exact Hin|].
    unfold neqk. cbn [fst]. apply negb_true_iff. apply N.eqb_neq. exact Hne.
  - rewrite (cache_remove_eq sh h0 st it G). cbn [s_sh].
    apply sh_remove_get_other; [apply (k_sh_nodup _ _ _ K)|exact Hg|].
    rewrite <- (owner_hash sh c st h t K Hin). exact Hne.
Qed.

Lemma remove_txs_owner sh c hs : forall st h t,
  consistent sh c st -> sh_owner sh st h t ->
  In h (keys (s_q (remove_txs sh hs st))) -> sh_owner sh (remove_txs sh hs st) h t.
Proof.
  induction hs as [|h0 tl IH]; intros st h t K O Hp; [exact O|].
  unfold remove_txs in *. cbn [fold_left] in *. fold (remove_txs sh tl (cache_remove sh h0 st)) in *.
  assert (K1 : consistent sh c (cache_remove sh h0 st)) by (apply cache_remove_consistent; exact K).
  apply IH; [exact K1| |exact Hp].
  apply (cache_remove_owner sh c); [exact K|exact O|].
  apply (remove_txs_subset sh c tl); assumption.
Qed.

Lemma sh_push_get_kept sh c t0 h0 (s : lm tx) k t :
  lm_get k s = Some t -> lm_get k (sh_push sh c t0 h0 s) = Some t.
Proof.
  intros G. unfold sh_push. destruct (lm_exist (sh h0) s) eqn:Hex; [exact G|].
  destruct (c_shmax c <=? lm_size s); [exact G|].
  apply lm_exist_false in Hex. rewrite (lm_push_fresh _ _ _ Hex), lm_get_app, G. reflexivity.
Qed.

Lemma cache_push_owner sh c now t0 st h t :
  1 <= c_peracc c -> consistent sh c st -> sh_owner sh st h t ->
  sh_owner sh (fst (cache_push sh c now t0 st)) h t.
Proof.
  intros Hp K [Hin Hg].
  destruct (cache_push_cases sh c now t0 st Hp K) as [E|[_ [_ [acc' E]]]]; rewrite E; [split; assumption|].
  split.
  - unfold qtx. cbn [s_q]. rewrite map_app. apply in_or_app. left. exact Hin.
  - cbn [s_sh]. apply sh_push_get_kept. exact Hg.
Qed.

Lemma del_block_owner sh c now ts : forall st h t,
  1 <= c_peracc c -> consistent sh c st -> sh_owner sh st h t ->
  sh_owner sh (del_block sh c now ts st) h t.
Proof.
  unfold del_block. induction ts as [|t0 tl IH]; intros st h t Hp K O; [exact O|].
  cbn [fold_left]. destruct (check_expire_valid now st t0); [|apply IH; assumption].
  apply IH; [exact Hp|apply cache_push_consistent; assumption|apply cache_push_owner; assumption].
Qed.

Lemma set_hdr_owner sh x y st h t : sh_owner sh st h t -> sh_owner sh (set_hdr x y st) h t.
Proof. intros O. exact O. Qed.

(** one event: the owner of an index entry keeps it as long as it stays pooled *)
Lemma step_owner sh c st e h t :
  1 <= c_peracc c -> consistent sh c st -> sh_owner sh st h t ->
  In h (keys (s_q (fst (step sh c st e)))) -> sh_owner sh (fst (step sh c st e)) h t.
Proof.
  intros Hp K O. destruct e as [now t0|hs|now|now x y hs|now x y ts]; cbn [step]; intros Hin.
  - apply cache_push_owner; assumption.
  - cbn [fst] in *. apply (remove_txs_owner sh c); assumption.
  - cbn [fst] in *. unfold remove_expired, remove_expired_tx in *. apply (remove_txs_owner sh c); assumption.
  - set_st1 st1.
    assert (K1 : consistent sh c st1).
    { unfold st1. destruct (_ || _); [apply set_hdr_consistent|]; exact K. }
    assert (O1 : sh_owner sh st1 h t) by (unfold st1; destruct (_ || _); exact O).
    destruct (0 <? lm_size (s_q st1)); cbn [fst] in *; [|exact O1].
    assert (K2 : consistent sh c (remove_txs sh hs st1)) by (apply remove_txs_consistent; exact K1).
    unfold remove_expired, remove_expired_tx in *.
    apply (remove_txs_owner sh c); [exact K2| |exact Hin].
    apply (remove_txs_owner sh c); [exact K1|exact O1|].
    eapply (remove_txs_subset sh c); [exact K2|exact Hin].
  - cbn [fst]. apply del_block_owner; [exact Hp|apply set_hdr_consistent; exact K|exact O].
Qed.

(** histories: pooled after every event = never removed *)
Lemma run_owner sh c es : forall st h t,
  1 <= c_peracc c -> consistent sh c st -> sh_owner sh st h t ->
  forallb (fun s => mem_n h (keys (s_q s))) (run_states sh c st es) = true ->
  sh_owner sh (run sh c st es) h t.
Proof.
  unfold run. induction es as [|e tl IH]; intros st h t Hp K O G; [exact O|].
  cbn [run_states forallb] in G. apply andb_true_iff in G as [G1 G2]. apply mem_n_in in G1.
  cbn [fold_left]. apply IH; [exact Hp|apply step_consistent; assumption| |exact G2].
  apply step_owner; assumption.
Qed.

(** the index is never larger than the pool *)
Lemma nodup_map_comp {A} (f : A -> N) (g : N -> N) (l : list A) :
  NoDup (map (fun x => g (f x)) l) -> NoDup (map f l).
Proof.
  induction l as [|a tl IH]; cbn [map]; intros ND; [constructor|].
  inversion ND as [|b bs Hn ND']; subst. constructor; [|auto].
  intros H. apply Hn. apply in_map_iff in H as [x [E Hx]]. apply in_map_iff.
  exists x. split; [rewrite E; reflexivity|exact Hx].
Qed.

Lemma sh_size_le sh c st : consistent sh c st -> lm_size (s_sh st) <= lm_size (s_q st).
Proof.
  intros K. pose proof (k_sh_nodup _ _ _ K) as ND. pose proof (k_sh_sub _ _ _ K) as Sub.
  assert (E : keys (s_sh st) = map (fun p => sh (t_h (snd p))) (s_sh st)).
  { unfold keys. apply map_ext_in. intros [k t] Hin. cbn [fst snd]. apply (Sub k t Hin). }
  rewrite E in ND. apply (nodup_map_comp (fun p : N * tx => t_h (snd p)) sh) in ND.
  assert (I : incl (map (fun p : N * tx => t_h (snd p)) (s_sh st)) (keys (qtx st))).
  { intros x Hx. apply in_map_iff in Hx as [[k t] [Ex Hin]]. cbn [snd] in Ex. subst x.
    destruct (Sub k t Hin) as [_ H2]. eapply in_keys; eauto. }
  pose proof (NoDup_incl_length ND I) as L. rewrite map_length in L.
  rewrite qtx_keys in L. unfold keys in L. rewrite map_length in L. unfold lm_size. lia.
Qed.

Lemma cache_push_ok sh c now t st :
  1 <= c_peracc c -> consistent sh c st -> snd (cache_push sh c now t st) = E_OK ->
  ~ In (t_h t) (keys (s_q st)) /\ lm_size (s_q st) < c_qcap c /\
  exists acc',
    fst (cache_push sh c now t st) =
      mkSt (s_q st ++ [(t_h t, mkItem t now)]) (s_bytes st + t_size t) acc'
           (last_push c t (t_h t) (s_last st)) (sh_push sh c t (t_h t) (s_sh st))
           (s_fee st + t_fee t) (s_hdr st).
Proof.
  intros Hp K. unfold cache_push.
  destruct (acc_can_push c t (s_acc st)) eqn:Hcan; cbn [negb]; [|cbn; discriminate].
  unfold q_push. cbn [i_tx].
  destruct (lm_exist (t_h t) (s_q st)) eqn:Hex; [cbn; discriminate|].
  destruct (c_qcap c <=? lm_size (s_q st)) eqn:Hcap; [cbn; discriminate|].
  change (N.eqb E_OK E_OK) with true. cbn [negb].
  assert (Hh : ~ In (t_h t) (keys (s_q st))) by (apply lm_exist_false; exact Hex).
  assert (Hhl : ~ In (t_h t) (keys (acc_get (t_from t) (s_acc st)))).
  { rewrite (k_acc _ _ _ K). intros X. apply Hh. rewrite <- qtx_keys. eapply keys_filter_in; eauto. }
  destruct (acc_push_spec c t (t_h t) (s_acc st) Hp Hcan (k_acc_nodup _ _ _ K) Hhl) as [acc' [Ea _]].
  rewrite Ea. change (N.eqb E_OK E_OK) with true. cbn [negb fst snd]. intros _.
  rewrite (lm_push_fresh _ _ _ Hh). apply Z.leb_gt in Hcap.
  split; [exact Hh|]. split; [exact Hcap|]. exists acc'. reflexivity.
Qed.

(** a transaction accepted while no pooled transaction has its short hash is indexed *)
Lemma cache_push_fresh_owner sh c now t st :
  1 <= c_peracc c -> c_qcap c <= c_shmax c -> consistent sh c st ->
  snd (cache_push sh c now t st) = E_OK ->
  mem_n (sh (t_h t)) (map sh (keys (s_q st))) = false ->
  sh_owner sh (fst (cache_push sh c now t st)) (t_h t) t.
Proof.
  intros Hp Hsm K Ok Hf.
  destruct (cache_push_ok sh c now t st Hp K Ok) as [Hh [Hlt [acc' E]]]. rewrite E.
  assert (Hn : ~ In (sh (t_h t)) (keys (s_sh st))).
  { intros X. unfold keys in X. apply in_map_iff in X as [[k t'] [Ek Hin]]. cbn [fst] in Ek. subst k.
    destruct (k_sh_sub _ _ _ K _ _ Hin) as [E1 E2].
    assert (M : mem_n (sh (t_h t)) (map sh (keys (s_q st))) = true).
    { apply mem_n_in. rewrite E1. apply in_map. rewrite <- qtx_keys. eapply in_keys; eauto. }
    congruence. }
  split.
  - unfold qtx. cbn [s_q]. rewrite map_app. apply in_or_app. right. left. reflexivity.
  - cbn [s_sh]. unfold sh_push.
    assert (Hex : lm_exist (sh (t_h t)) (s_sh st) = false) by (apply lm_exist_false; exact Hn).
    rewrite Hex. pose proof (sh_size_le sh c st K) as Sz.
    destruct (c_shmax c <=? lm_size (s_sh st)) eqn:Z; [apply Z.leb_le in Z; lia|].
    rewrite (lm_push_fresh _ _ _ Hn), lm_get_app.
    apply lm_get_none_iff in Hn. rewrite Hn. cbn [lm_get]. rewrite N.eqb_refl. reflexivity.
Qed.

(** first come, first indexed, and kept: whatever else collides later *)
Lemma first_come_found sh c es1 now t es2 :
  1 <= c_peracc c -> c_qcap c <= c_shmax c ->
  let s0 := run sh c init es1 in
  let s1 := fst (step sh c s0 (EPush now t)) in
  snd (step sh c s0 (EPush now t)) = E_OK ->
  mem_n (sh (t_h t)) (map sh (keys (s_q s0))) = false ->
  forallb (fun s => mem_n (t_h t) (keys (s_q s))) (run_states sh c s1 es2) = true ->
  sh_owner sh (run sh c s1 es2) (t_h t) t.
Proof.
  intros Hp Hsm s0 s1 Ok Hf G.
  assert (K0 : consistent sh c s0) by (apply run_consistent; [exact Hp|apply init_consistent; exact Hp]).
  assert (K1 : consistent sh c s1) by (apply step_consistent; assumption).
  apply (run_owner sh c); [exact Hp|exact K1| |exact G].
  unfold s1. cbn [step] in *. apply cache_push_fresh_owner; assumption.
Qed.

(** * the short-hash clause still fails without injectivity along the history *)
Definition shash_full_claim : Prop :=
  forall (sh : N -> N) (c : config) (es : list event),
    1 <= c_peracc c -> c_qcap c <= c_shmax c ->
    sh_inj_pool sh (run sh c init es) = true ->
    sh_agrees sh (run sh c init es).

Definition wA : tx := mkTx 1 0 1000 98 [0].
Definition wB : tx := mkTx 2 1 1000 98 [0].
Definition wcfg : config := mkCfg 4 4 4 4 600.
Definition wsh : N -> N := fun _ => 0%N.
(** push A, push B (same short hash: B is not indexed), remove A: B is pooled
    alone, yet its short-hash lookup is empty *)
Definition wevents : list event := [EPush 0 wA; EPush 0 wB; ERemove [1%N]].

Lemma shash_full_refuted : ~ shash_full_claim.
Proof.
  intros H.
  assert (P1 : 1 <= c_peracc wcfg) by (cbn; lia).
  assert (P2 : c_qcap wcfg <= c_shmax wcfg) by (cbn; lia).
  specialize (H wsh wcfg wevents P1 P2 eq_refl 2%N wB).
  assert (X : In (2%N, wB) (qtx (run wsh wcfg init wevents))) by (vm_compute; left; reflexivity).
  apply H in X. vm_compute in X. discriminate.
Qed.

(** the earlier witness (push A, push B, remove B) is repaired: A keeps its
    entry; this is an instance of [first_come_found] with a colliding history *)
Definition wevents_old : list event := [EPush 0 wB; ERemove [2%N]].

Lemma example_owner_kept :
  let s1 := fst (step wsh wcfg init (EPush 0 wA)) in
  snd (step wsh wcfg init (EPush 0 wA)) = E_OK
  /\ mem_n (wsh 1%N) (map wsh (keys (s_q init))) = false
  /\ forallb (fun s => mem_n 1%N (keys (s_q s))) (run_states wsh wcfg s1 wevents_old) = true
  /\ map (fun s => map fst (s_q s)) (run_states wsh wcfg s1 wevents_old) = [[1; 2]; [1]]%N
  /\ forallb (sh_inj_pool wsh) (run_states wsh wcfg s1 wevents_old) = false
  /\ lm_get (wsh 1%N) (s_sh (run wsh wcfg s1 wevents_old)) = Some wA.
Proof. vm_compute. repeat split; reflexivity. Qed.

(** * non-vacuity *)
Definition xid : N -> N := fun h => h.
Definition xcfg : config := mkCfg 3 2 2 3 100.
Definition x1 : tx := mkTx 1 0 1000 98 [0].
Definition x2 : tx := mkTx 2 0 2000 99 [5].
Definition x3 : tx := mkTx 3 1 3000 100 [0].
Definition x4 : tx := mkTx 4 0 500 90 [0].
Definition xevents : list event :=
  [EPush 10 x1; EPush 11 x2; EPush 12 x4; EPush 13 x3; ERemove [1%N]; EPush 14 x4;
   EAddBlock 20 6 1000 [3%N]; EDelBlock 30 5 900 [x3; x1]; EExpire 100].

Lemma example_guard_satisfiable :
  forallb (sh_inj_pool xid) (run_states xid xcfg init xevents) = true
  /\ map (fun s => map fst (s_q s)) (run_states xid xcfg init xevents)
     = [[1]; [1; 2]; [1; 2]; [1; 2; 3]; [2; 3]; [2; 3; 4]; [4]; [4; 3; 1]; [4; 3; 1]]%N.
Proof. vm_compute. split; reflexivity. Qed.

(** a negative per-account limit (0 is replaced by the default in NewMempool)
    breaks the bookkeeping on the first push: the hypothesis [1 <= c_peracc] of
    the theorems is needed *)
Lemma example_peracc_needed :
  let st := fst (cache_push xid (mkCfg 3 (-1) 2 3 100) 10 x1 init) in
  map fst (s_q st) = [1%N] /\ s_acc st = [(0%N, [])] /\ s_fee st = 0.
Proof. vm_compute. repeat split; reflexivity. Qed.
