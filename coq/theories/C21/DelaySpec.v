(** C21 — what is demanded of the delayed-transaction cache, as a flat
    specification and an oracle on observations.

    Specification state: the pending delayed transactions, a list of
    (hash, EndDelayTime) in insertion order — no second index, no grouping.
    - add: refused without a transaction (nil), when [size] entries are pending
      (overflow), when the hash is pending (duplicate); else appended;
    - release(last, curr, height): exactly the pending entries that are due —
      last < EndDelayTime <= curr, or EndDelayTime = height — leave, each once;
      the released list gives the time-window entries first, by ascending
      EndDelayTime, then the entries due by height;
    - contains(h): its EndDelayTime while pending.
    The oracle [dspec_obs] compares what the implementation answered (error
    class, released list, contains of every known hash, number of entries) with
    this specification. *)
From Coq Require Import List ZArith NArith Bool.
From C33 Require Import C21.Model C21.Spec C21.DelayModel.
Import ListNotations.
Open Scope Z_scope.

Definition pend := list (N * Z).

Definition pget (h : N) (p : pend) : option Z := hget h p.

Definition sp_add (size : Z) (tx : option N) (endt : Z) (p : pend) : pend * N :=
  match tx with
  | None => (p, D_NIL)
  | Some h =>
      if size <=? Z.of_nat (length p) then (p, D_OVERFLOW)
      else match pget h p with
           | Some _ => (p, D_DUP)
           | None => (p ++ [(h, endt)], D_OK)
           end
  end.

Definition due (last curr height e : Z) : bool := in_window last curr e || (e =? height).

Definition sp_release (last curr height : Z) (p : pend) : pend * list (N * Z) :=
  (filter (fun x => negb (due last curr height (snd x))) p,
   filter (fun x => due last curr height (snd x)) p).

Definition sp_add_block (size height blocktime : Z) (cms : list commit) (p : pend) : pend :=
  fold_left (fun q cm => fst (sp_add size (Some (cm_tx cm)) (commit_end height blocktime cm) q)) cms p.

(** specification step: new pending list, error class, the due entries *)
Definition sp_step (size : Z) (last : Z) (p : pend) (e : devent) : pend * N * list (N * Z) :=
  match e with
  | DAddDelay tx endt => match sp_add size tx endt p with (p', err) => (p', err, []) end
  | DEv (EAddBlock now h b hs) cms =>
      match sp_release last b h (sp_add_block size h b cms p) with
      | (p', rel) => (p', D_OK, rel)
      end
  | DEv _ _ => (p, D_OK, [])
  end.

Fixpoint sorted_z (l : list Z) : bool :=
  match l with
  | [] => true
  | x :: tl => match tl with [] => true | y :: _ => (x <=? y) && sorted_z tl end
  end.

Fixpoint drop_while {A} (f : A -> bool) (l : list A) : list A :=
  match l with [] => [] | x :: tl => if f x then drop_while f tl else l end.
Fixpoint take_while {A} (f : A -> bool) (l : list A) : list A :=
  match l with [] => [] | x :: tl => if f x then x :: take_while f tl else [] end.

(** keys of the released list: window keys ascending, then only the height key *)
Definition rel_order_ok (last curr height : Z) (ks : list Z) : bool :=
  sorted_z (take_while (in_window last curr) ks)
  && forallb (fun k => (k =? height) && negb (in_window last curr k)) (drop_while (in_window last curr) ks).

Definition opt_z_eqb (a b : option Z) : bool :=
  match a, b with Some x, Some y => x =? y | None, None => true | _, _ => false end.

Fixpoint list_oz_eqb (a b : list (option Z)) : bool :=
  match a, b with
  | [], [] => true
  | x :: a', y :: b' => opt_z_eqb x y && list_oz_eqb a' b'
  | _, _ => false
  end.

Definition same_members (a b : list N) : bool :=
  nodup_b a && forallb (fun x => mem_n x b) a && forallb (fun x => mem_n x a) b.

(** the oracle for one event: [p'] / [err] / [rel] are the specification's
    answers; [bounds] = (last, curr, height) of a release, if the event has one *)
Definition dspec_obs (hashes : list N) (p' : pend) (err : N) (rel : list (N * Z))
           (bounds : option (Z * Z * Z)) (o : dobs) : bool :=
  N.eqb (do_err o) err
  && same_members (do_rel o) (map fst rel)
  && match bounds with
     | Some (last, curr, height) =>
         rel_order_ok last curr height
           (map (fun h => match pget h rel with Some e => e | None => curr + 1 end) (do_rel o))
     | None => true
     end
  && list_oz_eqb (do_tab o) (map (fun h => pget h p') hashes)
  && (do_len o =? Z.of_nat (length p')).
