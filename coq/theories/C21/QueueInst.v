(** C21 — instances of the QueueCache contract.
    - SimpleQueue satisfies it and is arrival-ordered; the invariant of Model.v's
      pool follows from the generic theorem (the direct proof in ProofsMain.v
      becomes a corollary).
    - /repo's common/skiplist.Queue (C24.Model), wrapped as a QueueCache, does NOT
      satisfy it under any representation invariant: a successful Push can remove
      another item. *)
From Coq Require Import List ZArith NArith Bool Lia Permutation.
From C33 Require Import C21.Model C21.Spec C21.ProofsLm C21.ProofsInv C21.ProofsMain.
From C33 Require Import C21.QueueModel C21.QueueProofs C21.SkipQModel.
Import ListNotations.
Open Scope Z_scope.

(** * SimpleQueue *)
Definition simple_ok (c : config) (qb : lm item * Z) : Prop :=
  NoDup (keys (fst qb)) /\ hkeyed (fst qb)
  /\ snd qb = sum_z (map isz (map snd (fst qb)))
  /\ lm_size (fst qb) <= Z.max 0 (c_qcap c).

Lemma keyed_of_id q : hkeyed q -> keyed_of (map snd q) = q.
Proof.
  unfold hkeyed, keyed_of. induction 1 as [|[k it] q Hk _ IH]; cbn; [reflexivity|].
  cbn in Hk. rewrite IH, Hk. reflexivity.
Qed.

Lemma keyed_hashes q : hkeyed q -> map ihash (map snd q) = keys q.
Proof.
  unfold hkeyed. induction 1 as [|[k it] q Hk _ IH]; cbn; [reflexivity|]. cbn in Hk. rewrite IH, Hk. reflexivity.
Qed.

Lemma keyed_get_find q h : hkeyed q -> lm_get h q = find (hashb h) (map snd q).
Proof.
  unfold hkeyed. induction 1 as [|[k it] q Hk _ IH]; cbn; [reflexivity|]. cbn in Hk. subst k.
  unfold hashb at 1. rewrite (N.eqb_sym h). destruct (N.eqb (ihash it) h); [reflexivity|exact IH].
Qed.

Lemma sum_z_snoc l x : sum_z (l ++ [x]) = sum_z l + x.
Proof. unfold sum_z. induction l as [|y l IH]; cbn in *; lia. Qed.

Lemma simple_push_cases c it q b :
  (exists e, e <> E_OK /\ q_push c it q b = (e, q, b))
  \/ (lm_exist (t_h (i_tx it)) q = false /\ lm_size q < c_qcap c
      /\ q_push c it q b = (E_OK, lm_push (t_h (i_tx it)) it q, b + t_size (i_tx it))).
Proof.
  unfold q_push. destruct (lm_exist (t_h (i_tx it)) q) eqn:E1.
  - left. exists E_TXEXIST. split; [discriminate|reflexivity].
  - destruct (c_qcap c <=? lm_size q) eqn:E2.
    + left. exists E_MEMFULL. split; [discriminate|reflexivity].
    + right. apply Z.leb_gt in E2. auto.
Qed.

Lemma simple_contract c : contract c (simple_ops c) (simple_ok c).
Proof.
  constructor.
  - split; [|reflexivity]. unfold simple_ok. cbn [simple_ops qo_new fst snd].
    split; [constructor|]. split; [constructor|]. split; [reflexivity|]. unfold lm_size. cbn [length]. lia.
  - intros [q b] (ND & HK & _ & _). cbn. rewrite (keyed_hashes q HK). exact ND.
  - intros [q b] h (_ & HK & _ & _). cbn. apply keyed_get_find. exact HK.
  - intros [q b] _. cbn. unfold lm_size. now rewrite map_length.
  - intros [q b] (_ & _ & Eb & _). cbn in *. exact Eb.
  - intros [q b] (_ & _ & _ & Hc). cbn in *. exact Hc.
  - intros [q b] it _. cbn [simple_ops qo_push fst snd].
    destruct (simple_push_cases c it q b) as [(e & He & E)|(_ & _ & E)]; rewrite E; cbn [fst snd]; [reflexivity|].
    intros H. exfalso. apply H. reflexivity.
  - intros [q b] it (ND & HK & Eb & Hc). cbn [simple_ops qo_push qo_walk fst snd] in *.
    destruct (simple_push_cases c it q b) as [(e & He & E)|(Ex & Hsz & E)]; rewrite E; cbn [fst snd].
    + intros H. contradiction.
    + intros _. apply lm_exist_false in Ex. rewrite (lm_push_fresh _ _ _ Ex).
      split; [|split].
      * unfold simple_ok. cbn [fst snd]. split; [rewrite keys_app; apply nodup_snoc; assumption|].
        split; [unfold hkeyed in *; apply Forall_app; split; [exact HK|constructor; [reflexivity|constructor]]|].
        split.
        -- rewrite !map_app. cbn [map snd]. rewrite sum_z_snoc, Eb. reflexivity.
        -- unfold lm_size in *. rewrite app_length. cbn [length]. lia.
      * rewrite (keyed_hashes q HK). exact Ex.
      * rewrite map_app. cbn [map snd]. eapply perm_trans; [apply Permutation_app_comm|]. apply Permutation_refl.
  - intros [q b] h (ND & HK & Eb & Hc). cbn [simple_ops qo_remove qo_walk fst snd] in *.
    unfold q_remove. destruct (lm_get h q) as [it|] eqn:G; cbn [fst snd].
    + rewrite (lm_remove_filter _ _ ND). split.
      * unfold simple_ok. cbn [fst snd]. split; [apply keys_filter_nodup; exact ND|].
        split; [unfold hkeyed in *; apply Forall_forall; intros p Hp; apply filter_In in Hp as [Hp _];
                rewrite Forall_forall in HK; auto|].
        split.
        -- rewrite (keyed_filter_snd h q HK), Eb.
           rewrite (sum_partition isz (hashb h) (map snd q)).
           rewrite (keyed_get_find q h HK) in G.
           rewrite (find_filter_single h _ it) by (try rewrite (keyed_hashes q HK); assumption).
           unfold sum_z. cbn [map fold_right]. unfold isz. lia.
        -- unfold lm_size in *. pose proof (filter_length_le (neqk h) q). lia.
      * rewrite (keyed_filter_snd h q HK). apply Permutation_refl.
    + split; [unfold simple_ok; cbn [fst snd]; auto|].
      assert (Hn : ~ In h (keys q)) by (apply lm_get_none_iff; exact G).
      rewrite <- (keyed_filter_snd h q HK), (filter_neqk_notin _ _ Hn). apply Permutation_refl.
Qed.

Lemma simple_arrival c : arrival_ordered (simple_ops c) (simple_ok c).
Proof.
  split.
  - intros [q b] it (ND & HK & _ & _). cbn [simple_ops qo_push qo_walk fst snd].
    destruct (simple_push_cases c it q b) as [(e & He & E)|(Ex & _ & E)]; rewrite E; cbn [fst snd].
    + intros H. contradiction.
    + intros _. apply lm_exist_false in Ex. rewrite (lm_push_fresh _ _ _ Ex), map_app. reflexivity.
  - intros [q b] h (ND & HK & _ & _). cbn [simple_ops qo_remove qo_walk fst snd].
    unfold q_remove. destruct (lm_get h q) as [it|] eqn:G; cbn [fst].
    + rewrite (lm_remove_filter _ _ ND). apply keyed_filter_snd. exact HK.
    + assert (Hn : ~ In h (keys q)) by (apply lm_get_none_iff; exact G).
      rewrite <- (keyed_filter_snd h q HK), (filter_neqk_notin _ _ Hn). reflexivity.
Qed.

(** ** Model.v's pool is the generic pool over [simple_ops] *)
Definition of_state (st : state) : @gstate (lm item * Z) :=
  mkGs (s_q st, s_bytes st) (s_acc st) (s_last st) (s_sh st) (s_fee st) (s_hdr st).

Lemma of_state_push c sh now t st :
  gcache_push (simple_ops c) sh c now t (of_state st)
  = (of_state (fst (cache_push sh c now t st)), snd (cache_push sh c now t st)).
Proof.
  unfold gcache_push, cache_push. cbn [of_state g_acc g_q simple_ops qo_push fst snd].
  destruct (acc_can_push c t (s_acc st)); cbn [negb]; [|reflexivity].
  destruct (simple_push_cases c (mkItem t now) (s_q st) (s_bytes st)) as [(e & He & E)|(_ & _ & E)];
    rewrite E; cbn [fst snd].
  - apply N.eqb_neq in He. rewrite He. cbn [negb fst snd]. destruct st; reflexivity.
  - cbn [N.eqb E_OK negb i_tx]. destruct (acc_push c t (t_h t) (s_acc st)) as [e2 acc'].
    destruct (negb (N.eqb e2 E_OK)); reflexivity.
Qed.

Lemma of_state_remove c sh h st :
  gcache_remove (simple_ops c) sh h (of_state st) = of_state (cache_remove sh h st).
Proof.
  unfold gcache_remove, cache_remove. cbn [of_state g_acc g_q g_last g_sh g_fee g_hdr simple_ops qo_get qo_remove fst snd].
  destruct (lm_get h (s_q st)) as [it|] eqn:G; [|reflexivity].
  unfold q_remove. rewrite G. reflexivity.
Qed.

Lemma of_state_remove_txs c sh hs : forall st,
  gremove_txs (simple_ops c) sh hs (of_state st) = of_state (remove_txs sh hs st).
Proof.
  unfold gremove_txs, remove_txs. induction hs as [|h tl IH]; intros st; cbn [fold_left]; [reflexivity|].
  rewrite of_state_remove. apply IH.
Qed.

Lemma map_filter_snd {A B} (f : B -> bool) (g : B -> N) (l : list (A * B)) :
  map g (filter f (map snd l)) = map (fun p => g (snd p)) (filter (fun p => f (snd p)) l).
Proof. induction l as [|[a b] l IH]; cbn; [reflexivity|]. destruct (f b); cbn; rewrite IH; reflexivity. Qed.

Lemma of_state_expired c sh now st :
  gremove_expired (simple_ops c) sh c now (of_state st) = of_state (remove_expired sh c now st).
Proof.
  unfold gremove_expired, remove_expired, remove_expired_tx, gexpired_hashes, expired_hashes.
  cbn [of_state g_q simple_ops qo_walk fst]. rewrite map_filter_snd. apply of_state_remove_txs.
Qed.

Lemma of_state_del c sh now ts : forall st,
  gdel_block (simple_ops c) sh c now ts (of_state st) = of_state (del_block sh c now ts st).
Proof.
  unfold gdel_block, del_block. induction ts as [|t tl IH]; intros st; cbn [fold_left]; [reflexivity|].
  change (check_expire_valid now (ghdr_state (of_state st)) t) with (check_expire_valid now st t).
  destruct (check_expire_valid now st t); [|apply IH]. rewrite of_state_push. cbn [fst]. apply IH.
Qed.

Lemma of_state_step c sh st e :
  fst (gstep (simple_ops c) sh c (of_state st) e) = of_state (fst (step sh c st e)).
Proof.
  destruct e as [now t|hs|now|now h b hs|now h b ts]; cbn [gstep step].
  - rewrite of_state_push. reflexivity.
  - cbn [fst]. apply of_state_remove_txs.
  - cbn [fst]. apply of_state_expired.
  - change (mem_height (ghdr_state (of_state st))) with (mem_height st).
    set (b1 := (mem_height st <? h) || ((h =? 0) && (mem_height st =? 0))).
    assert (E : (if b1 then gset_hdr h b (of_state st) else of_state st)
                = of_state (if b1 then set_hdr h b st else st)) by (destruct b1; reflexivity).
    rewrite E. set (st1 := if b1 then set_hdr h b st else st).
    cbn [of_state g_q simple_ops qo_size fst].
    destruct (0 <? lm_size (s_q st1)); cbn [fst]; [|reflexivity].
    rewrite of_state_remove_txs. apply of_state_expired.
  - cbn [fst]. change (gset_hdr h b (of_state st)) with (of_state (set_hdr h b st)). apply of_state_del.
Qed.

Lemma of_state_run c sh es : forall st,
  grun (simple_ops c) sh c (of_state st) es = of_state (run sh c st es).
Proof.
  unfold grun, run. induction es as [|e tl IH]; intros st; cbn [fold_left]; [reflexivity|].
  rewrite of_state_step. apply IH.
Qed.

(** the theorem of ProofsMain.v (final state of every history) as a corollary of the generic one *)
Lemma simple_consistent_via_contract sh c es :
  1 <= c_peracc c -> consistent sh c (run sh c init es).
Proof.
  intros Hp.
  pose proof (contract_arrival_all_histories (simple_ops c) (simple_ok c) sh c es Hp
                (simple_contract c) (simple_arrival c)) as H.
  apply Forall_inv in H.
  pose proof (contract_ok_all_histories (simple_ops c) (simple_ok c) sh c es Hp (simple_contract c)) as Hok.
  change (ginit (simple_ops c)) with (of_state init) in H, Hok. rewrite of_state_run in H, Hok.
  set (st := run sh c init es) in *. destruct Hok as (_ & HK & _ & _). cbn [of_state g_q fst] in HK.
  unfold gas_state in H. cbn [of_state g_q g_acc g_last g_sh g_fee g_hdr simple_ops qo_walk qo_bytes fst snd] in H.
  rewrite (keyed_of_id _ HK) in H. destruct st; exact H.
Qed.

(** * common/skiplist.Queue wrapped as a QueueCache *)
Definition sconv (txof : N -> tx) (it : Q.item) : item := mkItem (txof (Q.ihash it)) (enter_of it).

Definition skip_ops (sc : tx -> Z -> Z) (txof : N -> tx) (cap : Z) : qops Q.queue :=
  mkQops Q.queue (Q.newq cap)
    (fun it q => match Q.q_push (mk_item sc (i_tx it) (i_enter it)) q with (q', e) => (q', qerr e) end)
    (fun h q => fst (Q.q_remove h q))
    (fun h q => option_map (sconv txof) (Q.q_get h q))
    Q.q_size Q.q_bytes
    (fun q => map (sconv txof) (Q.q_walk 0 q)).

(** no representation invariant makes it satisfy the contract: with capacity 1,
    Push A then Push B (B scores higher) both succeed and A is gone *)
Definition kA : tx := mkTx 1 0 1000 98 [0].
Definition kB : tx := mkTx 2 1 9000 98 [0].
Definition ktab (h : N) : tx := if N.eqb h 1 then kA else if N.eqb h 2 then kB else mkTx h 2 0 100 [0].
Definition kprice (t : tx) (enter : Z) : Z := Z.quot (t_fee t) (t_size t).

Lemma skiplist_queue_breaks_contract : forall c ok, ~ contract c (skip_ops kprice ktab 1) ok.
Proof.
  intros c ok CT. set (o := skip_ops kprice ktab 1) in *.
  destruct (ct_new _ _ _ CT) as [Hok0 _].
  destruct (ct_push_ok _ _ _ CT (qo_new o) (mkItem kA 0) Hok0) as (Hok1 & _ & _); [vm_compute; reflexivity|].
  destruct (ct_push_ok _ _ _ CT _ (mkItem kB 0) Hok1) as (_ & _ & HP); [vm_compute; reflexivity|].
  apply Permutation_length in HP. vm_compute in HP. discriminate.
Qed.

(** what happened, in the model's own terms *)
Lemma skiplist_push_evicts :
  let o := skip_ops kprice ktab 1 in
  let q1 := fst (qo_push o (mkItem kA 0) (qo_new o)) in
  let q2 := fst (qo_push o (mkItem kB 0) q1) in
  snd (qo_push o (mkItem kA 0) (qo_new o)) = E_OK /\ snd (qo_push o (mkItem kB 0) q1) = E_OK
  /\ map ihash (qo_walk o q1) = [1%N] /\ map ihash (qo_walk o q2) = [2%N].
Proof. vm_compute. repeat split; reflexivity. Qed.
