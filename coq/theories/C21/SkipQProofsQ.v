(** C21 — the queue side of the score-ordered pool: what C24's simulation
    relation [R] (skiplist.Queue refines a sorted list) gives for the pool model,
    for every history (evictions included). *)
From Coq Require Import List ZArith NArith Bool Lia Permutation Sorted.
From C33 Require Import C21.Model C21.Spec C21.ProofsLm C21.SkipQModel.
From C33 Require C24.Spec C24.ProofsSpec C24.ProofsSim C24.Proofs.
Import ListNotations.
Open Scope Z_scope.

Module QS := C33.C24.Spec.
Module QP := C33.C24.ProofsSpec.
Module QR := C33.C24.ProofsSim.
Module QH := C33.C24.Proofs.

(** * lookups in the sorted-list specification *)
Lemma spec_get_some h l it : QS.spec_get h l = Some it -> In it l /\ Q.ihash it = h.
Proof.
  unfold QS.spec_get. intros H. apply find_some in H as [Hi Hh].
  apply QP.has_hash_true in Hh. auto.
Qed.

Lemma spec_get_none_iff h l : QS.spec_get h l = None <-> ~ In h (QP.hashes l).
Proof.
  unfold QS.spec_get. split.
  - intros H Hi. unfold QP.hashes in Hi. apply in_map_iff in Hi as (x & Hx & Hi).
    pose proof (find_none _ _ H _ Hi) as Hf. apply QP.has_hash_true in Hx. congruence.
  - intros H. destruct (find (QS.has_hash h) l) as [x|] eqn:E; [|reflexivity].
    exfalso. apply find_some in E as [Hi Hh]. apply QP.has_hash_true in Hh.
    apply H. unfold QP.hashes. apply in_map_iff. exists x. auto.
Qed.

Lemma spec_get_in l it : NoDup (QP.hashes l) -> In it l -> QS.spec_get (Q.ihash it) l = Some it.
Proof.
  intros ND Hi. destruct (QS.spec_get (Q.ihash it) l) as [x|] eqn:E.
  - apply spec_get_some in E as [Hx Hh]. f_equal. eapply QP.hash_inj; eauto.
  - apply spec_get_none_iff in E. exfalso. apply E. unfold QP.hashes. now apply in_map.
Qed.

Lemma spec_get_remove h h' l :
  QS.spec_get h' (QS.spec_remove_list h l) = if N.eqb h' h then None else QS.spec_get h' l.
Proof.
  unfold QS.spec_get, QS.spec_remove_list.
  induction l as [|x l IH]; simpl.
  - now destruct (N.eqb h' h).
  - unfold QS.has_hash in *.
    destruct (N.eqb_spec (Q.ihash x) h) as [E|E]; simpl.
    + rewrite IH. destruct (N.eqb_spec h' h) as [E2|E2]; [reflexivity|].
      destruct (N.eqb_spec (Q.ihash x) h'); [congruence|reflexivity].
    + destruct (N.eqb_spec (Q.ihash x) h') as [E2|E2].
      * destruct (N.eqb_spec h' h); [congruence|reflexivity].
      * exact IH.
Qed.

Lemma spec_get_insert it l h' :
  ~ In (Q.ihash it) (QP.hashes l) ->
  QS.spec_get h' (QS.spec_insert it l) = if N.eqb h' (Q.ihash it) then Some it else QS.spec_get h' l.
Proof.
  unfold QS.spec_get. induction l as [|x l IH]; intros Hn; simpl.
  - unfold QS.has_hash. rewrite N.eqb_sym. reflexivity.
  - assert (Hx : Q.ihash x <> Q.ihash it) by (intro E; apply Hn; left; exact E).
    assert (Hn' : ~ In (Q.ihash it) (QP.hashes l)) by (intro E; apply Hn; right; exact E).
    specialize (IH Hn'). unfold QS.has_hash in *.
    destruct (Q.iscore x >=? Q.iscore it); simpl.
    + destruct (N.eqb_spec (Q.ihash x) h') as [E|E].
      * destruct (N.eqb_spec h' (Q.ihash it)); [congruence|reflexivity].
      * exact IH.
    + rewrite (N.eqb_sym (Q.ihash it) h').
      destruct (N.eqb h' (Q.ihash it)); reflexivity.
Qed.

(** * Queue.Push under [R]: rejected, inserted with room, or inserted after evicting the last *)
Lemma qpush_cases cap q l it :
  QR.R cap q l ->
  (snd (Q.q_push it q) <> Q.ENone /\ fst (Q.q_push it q) = q
   /\ (In (Q.ihash it) (QP.hashes l) \/ cap <= QS.spec_size l)
   /\ evicted_of q (snd (Q.q_push it q)) = [])
  \/ (snd (Q.q_push it q) = Q.ENone /\ QS.spec_size l < cap /\ ~ In (Q.ihash it) (QP.hashes l)
      /\ QR.R cap (fst (Q.q_push it q)) (QS.spec_insert it l)
      /\ evicted_of q (snd (Q.q_push it q)) = [])
  \/ (snd (Q.q_push it q) = Q.ENone /\ cap <= QS.spec_size l /\ ~ In (Q.ihash it) (QP.hashes l)
      /\ exists rest worst, l = rest ++ [worst] /\ QS.ranks_higher it worst = true
         /\ QR.R cap (fst (Q.q_push it q)) (QS.spec_insert it rest)
         /\ evicted_of q (snd (Q.q_push it q)) = [Q.ihash worst]).
Proof.
  intros H. destruct (QR.sim_push cap q l it H) as [HR HE].
  pose proof (QR.R_size _ _ _ H) as Hsz. pose proof (QR.R_cap _ _ _ H) as Hcap.
  pose proof (QR.R_last _ _ _ H) as Hlast.
  unfold evicted_of. rewrite Hsz, Hcap, Hlast, HE.
  revert HR HE. unfold QS.spec_push.
  destruct (QS.spec_exist (Q.ihash it) l) eqn:EX.
  - cbn [fst snd]. intros HR HE. left. split; [discriminate|].
    split; [apply (QH.reject_unchanged_R cap q l it H); rewrite HE; discriminate|].
    split; [left; apply QP.spec_exist_in; exact EX|reflexivity].
  - apply QP.spec_exist_false in EX.
    destruct (QS.spec_size l <? cap) eqn:EF.
    + apply Z.ltb_lt in EF. cbn [fst snd]. intros HR HE. right. left.
      split; [reflexivity|]. split; [exact EF|]. split; [exact EX|]. split; [exact HR|].
      cbn [err_ok andb]. replace (QS.spec_size l >=? cap) with false; [reflexivity|].
      symmetry. rewrite Z.geb_leb. apply Z.leb_gt. exact EF.
    + apply Z.ltb_ge in EF. unfold QS.spec_last.
      destruct (Q.last_opt l) as [t|] eqn:EL.
      * destruct (QS.ranks_higher it t) eqn:EB; cbn [fst snd]; intros HR HE.
        -- right. right. split; [reflexivity|]. split; [exact EF|]. split; [exact EX|].
           exists (removelast l), t. split; [apply QP.last_opt_some; exact EL|].
           split; [exact EB|]. split; [exact HR|].
           cbn [err_ok andb]. replace (QS.spec_size l >=? cap) with true; [reflexivity|].
           symmetry. rewrite Z.geb_leb. apply Z.leb_le. exact EF.
        -- left. split; [discriminate|].
           split; [apply (QH.reject_unchanged_R cap q l it H); rewrite HE; discriminate|].
           split; [right; exact EF|reflexivity].
      * cbn [fst snd]. intros HR HE. left. split; [discriminate|].
        split; [apply (QH.reject_unchanged_R cap q l it H); rewrite HE; discriminate|].
        split; [right; exact EF|reflexivity].
Qed.

(** * the queue-side link: [R] plus "every item describes its transaction" *)
Definition item_ok (sc : tx -> Z -> Z) (txof : N -> tx) (it : Q.item) : Prop :=
  Q.isize it = t_size (txof (Q.ihash it)) /\ Q.iscore it = sc (txof (Q.ihash it)) (enter_of it).

Record qlink (sc : tx -> Z -> Z) (txof : N -> tx) (c : config) (st : pstate) (l : list Q.item) : Prop := mkQl {
  ql_R : QR.R (c_qcap c) (p_q st) l;
  ql_items : Forall (item_ok sc txof) l
}.

Definition hash_table_ok (txof : N -> tx) : Prop := forall h, t_h (txof h) = h.

Lemma mk_item_ok sc txof t now : txof (t_h t) = t -> item_ok sc txof (mk_item sc t now).
Proof.
  intros E. unfold item_ok, mk_item, enter_of. cbn. rewrite E, Z.opp_involutive. auto.
Qed.

Lemma qlink_q sc txof c st st' l : p_q st' = p_q st -> qlink sc txof c st l -> qlink sc txof c st' l.
Proof. intros E [HR HI]. constructor; [rewrite E; exact HR|exact HI]. Qed.

Lemma qlink_init sc txof c : qlink sc txof c (pinit c) [].
Proof. constructor; [apply QR.R_new|constructor]. Qed.

Lemma forall_insert (P : Q.item -> Prop) it l : P it -> Forall P l -> Forall P (QS.spec_insert it l).
Proof.
  intros Hi Hl. apply Forall_forall. intros x Hx. apply QP.spec_insert_in in Hx as [->|Hx]; [exact Hi|].
  rewrite Forall_forall in Hl. auto.
Qed.

Lemma forall_app_l {A} (P : A -> Prop) a b : Forall P (a ++ b) -> Forall P a.
Proof. intros H. apply Forall_forall. intros x Hx. rewrite Forall_forall in H. apply H, in_or_app. now left. Qed.

(** the queue after txCache.Push, whatever the other structures do *)
Lemma pcache_push_q sc sh c now t st :
  p_q (pst (pcache_push sc sh c now t st)) =
    if acc_can_push c t (p_acc st) then fst (Q.q_push (mk_item sc t now) (p_q st)) else p_q st.
Proof.
  unfold pcache_push, pst. destruct (acc_can_push c t (p_acc st)); cbn [negb]; [|reflexivity].
  destruct (Q.q_push (mk_item sc t now) (p_q st)) as [q' e]. cbn [fst snd].
  destruct (err_ok e); cbn [negb]; [|reflexivity].
  destruct (acc_push c t (t_h t) (p_acc st)) as [e2 acc']. destruct (negb (N.eqb e2 E_OK)); reflexivity.
Qed.

Lemma qlink_push sc sh txof c now t st l :
  qlink sc txof c st l -> txof (t_h t) = t ->
  exists l', qlink sc txof c (pst (pcache_push sc sh c now t st)) l'
    /\ (forall x, In x l' -> x = mk_item sc t now \/ In x l).
Proof.
  intros [HR HI] Et. pose proof (pcache_push_q sc sh c now t st) as Eq.
  destruct (acc_can_push c t (p_acc st)).
  2:{ exists l. split; [constructor; [rewrite Eq; exact HR|exact HI]|auto]. }
  destruct (qpush_cases _ _ _ (mk_item sc t now) HR)
    as [(_ & Eu & _)|[(_ & _ & _ & HR' & _)|(_ & _ & _ & rest & worst & El & _ & HR' & _)]].
  - exists l. split; [constructor; [rewrite Eq, Eu; exact HR|exact HI]|auto].
  - exists (QS.spec_insert (mk_item sc t now) l). split.
    + constructor; [rewrite Eq; exact HR'|]. apply forall_insert; [apply mk_item_ok; exact Et|exact HI].
    + intros x Hx. apply QP.spec_insert_in in Hx. exact Hx.
  - exists (QS.spec_insert (mk_item sc t now) rest). split.
    + constructor; [rewrite Eq; exact HR'|]. apply forall_insert; [apply mk_item_ok; exact Et|].
      rewrite El in HI. eapply forall_app_l; exact HI.
    + intros x Hx. apply QP.spec_insert_in in Hx as [Hx|Hx]; [left; exact Hx|].
      right. rewrite El. apply in_or_app. left. exact Hx.
Qed.

Lemma qlink_remove sc sh txof c h st l :
  qlink sc txof c st l ->
  exists l', qlink sc txof c (pcache_remove sh txof h st) l'
    /\ (forall x, In x (QP.hashes l') <-> In x (QP.hashes l) /\ x <> h).
Proof.
  intros [HR HI]. unfold pcache_remove, Q.q_get.
  rewrite (QR.map_ok_get _ _ h (QR.R_map _ _ _ HR)).
  destruct (QS.spec_get h l) as [it|] eqn:G.
  - destruct (QR.sim_remove _ _ _ h HR) as [HR' _]. unfold QS.spec_remove in HR'.
    assert (EX : QS.spec_exist h l = true).
    { destruct (QS.spec_exist h l) eqn:E; [reflexivity|]. apply QP.spec_exist_false in E.
      apply spec_get_none_iff in E. congruence. }
    rewrite EX in HR'. cbn [fst] in HR'.
    exists (QS.spec_remove_list h l). split.
    + constructor; [exact HR'|]. apply Forall_forall. intros x Hx.
      apply filter_In in Hx as [Hx _]. rewrite Forall_forall in HI. auto.
    + intros x. unfold QP.hashes, QS.spec_remove_list. rewrite !in_map_iff. split.
      * intros (y & Ey & Hy). apply filter_In in Hy as [Hy Hh]. split; [exists y; auto|].
        apply negb_true_iff in Hh. intro E. rewrite E in Ey.
        assert (QS.has_hash h y = true) by (apply QP.has_hash_true; exact Ey). congruence.
      * intros ((y & Ey & Hy) & Hne). exists y. split; [exact Ey|]. apply filter_In. split; [exact Hy|].
        apply negb_true_iff. destruct (QS.has_hash h y) eqn:E; [|reflexivity].
        apply QP.has_hash_true in E. exfalso. apply Hne. rewrite <- Ey. exact E.
  - exists l. split; [constructor; assumption|]. intros x. split.
    + intros Hx. split; [exact Hx|]. intro E. subst. apply spec_get_none_iff in G. contradiction.
    + tauto.
Qed.

Lemma qlink_remove_txs sc sh txof c hs : forall st l,
  qlink sc txof c st l ->
  exists l', qlink sc txof c (premove_txs sh txof hs st) l'
    /\ (forall x, In x (QP.hashes l') -> In x (QP.hashes l) /\ ~ In x hs).
Proof.
  unfold premove_txs. induction hs as [|h tl IH]; intros st l H; cbn [fold_left].
  - exists l. split; [exact H|]. intros x Hx. split; [exact Hx|intros []].
  - destruct (qlink_remove sc sh txof c h st l H) as (l1 & H1 & S1).
    destruct (IH _ _ H1) as (l2 & H2 & S2). exists l2. split; [exact H2|].
    intros x Hx. apply S2 in Hx as [Hx Hn]. apply S1 in Hx as [Hx Hne].
    split; [exact Hx|]. intros [E|E]; [congruence|contradiction].
Qed.

Lemma qlink_remove_expired sc sh txof c now st l :
  qlink sc txof c st l ->
  exists l', qlink sc txof c (premove_expired sh txof c now st) l'
    /\ (forall x, In x (QP.hashes l') -> In x (QP.hashes l)).
Proof.
  intros H. unfold premove_expired.
  destruct (qlink_remove_txs sc sh txof c
              (pexpired_hashes txof c now (hdr_height (hdr_state st) + 1) (hdr_time (hdr_state st)) (p_q st))
              st l H) as (l' & H' & S).
  exists l'. split; [exact H'|]. intros x Hx. apply S in Hx. tauto.
Qed.

Definition del_f (sc : tx -> Z -> Z) (sh : N -> N) (txof : N -> tx) (c : config) (now : Z) :=
  fun (a : pstate * list N) (h : N) =>
    let t := txof h in
    if check_expire_valid now (hdr_state (fst a)) t
    then match pcache_push sc sh c now t (fst a) with (s', _, ev) => (s', snd a ++ ev) end
    else a.

Lemma pdel_block_unfold sc sh txof c now hs st :
  pdel_block sc sh txof c now hs st = fold_left (del_f sc sh txof c now) hs (st, []).
Proof. reflexivity. Qed.

Lemma del_f_fst sc sh txof c now a h :
  fst (del_f sc sh txof c now a h) =
    if check_expire_valid now (hdr_state (fst a)) (txof h)
    then pst (pcache_push sc sh c now (txof h) (fst a)) else fst a.
Proof.
  unfold del_f, pst. destruct (check_expire_valid now (hdr_state (fst a)) (txof h)); [|reflexivity].
  destruct (pcache_push sc sh c now (txof h) (fst a)) as [[s' e] ev]. reflexivity.
Qed.

Lemma qlink_del_block sc sh txof c now hs : forall a l,
  hash_table_ok txof -> qlink sc txof c (fst a) l ->
  exists l', qlink sc txof c (fst (fold_left (del_f sc sh txof c now) hs a)) l'.
Proof.
  induction hs as [|h tl IH]; intros a l Ht H; cbn [fold_left]; [exists l; exact H|].
  assert (H1 : exists l1, qlink sc txof c (fst (del_f sc sh txof c now a h)) l1).
  { rewrite del_f_fst. destruct (check_expire_valid now (hdr_state (fst a)) (txof h)); [|exists l; exact H].
    destruct (qlink_push sc sh txof c now (txof h) (fst a) l H) as (l1 & H1 & _); [rewrite Ht; reflexivity|].
    exists l1. exact H1. }
  destruct H1 as (l1 & H1). exact (IH _ l1 Ht H1).
Qed.

Lemma qlink_step sc sh txof c st e l :
  hash_table_ok txof -> qlink sc txof c st l ->
  exists l', qlink sc txof c (pst (pstep sc sh txof c st e)) l'.
Proof.
  intros Ht H. destruct e as [now h|hs|now|now hh b hs|now hh b hs]; cbn [pstep].
  - destruct (qlink_push sc sh txof c now (txof h) st l H) as (l' & H' & _); [rewrite Ht; reflexivity|].
    exists l'. exact H'.
  - destruct (qlink_remove_txs sc sh txof c hs st l H) as (l' & H' & _). exists l'. exact H'.
  - destruct (qlink_remove_expired sc sh txof c now st l H) as (l' & H' & _). exists l'. exact H'.
  - set (st1 := if _ || _ then pset_hdr hh b st else st).
    assert (H1 : qlink sc txof c st1 l).
    { unfold st1. destruct (_ || _); [|exact H]. eapply qlink_q; [|exact H]. reflexivity. }
    destruct (0 <? Q.q_size (p_q st1)); unfold pst; cbn [fst]; [|exists l; exact H1].
    destruct (qlink_remove_txs sc sh txof c hs st1 l H1) as (l1 & H2 & _).
    destruct (qlink_remove_expired sc sh txof c now _ l1 H2) as (l2 & H3 & _). exists l2. exact H3.
  - rewrite pdel_block_unfold.
    destruct (qlink_del_block sc sh txof c now hs (pset_hdr hh b st, []) l Ht) as (l' & H').
    { cbn [fst]. eapply qlink_q; [|exact H]. reflexivity. }
    destruct (fold_left _ hs _) as [s' ev]. exists l'. exact H'.
Qed.

Lemma qlink_run_states sc sh txof c es : forall st l,
  hash_table_ok txof -> qlink sc txof c st l ->
  Forall (fun s => exists l', qlink sc txof c s l') (prun_states sc sh txof c st es).
Proof.
  induction es as [|e tl IH]; intros st l Ht H; cbn [prun_states]; constructor.
  - eapply qlink_step; eassumption.
  - destruct (qlink_step sc sh txof c st e l Ht H) as (l' & H'). eapply IH; eassumption.
Qed.

Lemma qlink_run sc sh txof c es : forall st l,
  hash_table_ok txof -> qlink sc txof c st l ->
  exists l', qlink sc txof c (prun sc sh txof c st es) l'.
Proof.
  unfold prun. induction es as [|e tl IH]; intros st l Ht H; cbn [fold_left]; [exists l; exact H|].
  destruct (qlink_step sc sh txof c st e l Ht H) as (l' & H'). eapply IH; eassumption.
Qed.
