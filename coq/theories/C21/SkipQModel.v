(** C21 — executable model of txCache (system/mempool/cache.go) and of the
    Mempool event handlers (base.go, eventprocess.go) over a QueueCache that
    delegates to /repo's common/skiplist.Queue (modelled in C24.Model, imported
    here unchanged).  That queue's Push EVICTS its worst item when it is full and
    the newcomer ranks strictly higher, which txCache cannot see: this model
    exists to state precisely what that means for the bookkeeping (the SkipQProofs files).
    chain33 itself plugs only the arrival-ordered SimpleQueue into txCache.

    The item handed to the queue wraps Item{Value: tx, EnterTime: now}; its score
    is an arbitrary function [sc] of the transaction and the enter time (a
    parameter of every operation; the theorems quantify over it), Compare ranks
    the earlier EnterTime higher, ByteSize is the proto size.
    A transaction is named by its hash: [txof h] is the transaction with hash
    [h] (the queue item holds a pointer to the transaction; C24's item record
    holds the hash, so the model looks the transaction up).
    [pcache_push] additionally returns, as a ghost output that no model function
    reads, the hash that skiplist.Queue.Push evicted.
    No proofs here. *)
From Coq Require Import List ZArith NArith Bool.
From C33 Require Import C21.Model.
From C33 Require C24.Model.
Import ListNotations.
Open Scope Z_scope.

Module Q := C33.C24.Model.

Definition E_NOTFOUND : N := 4%N.
Definition E_PANIC : N := 5%N.

Definition qerr (e : Q.err) : N :=
  match e with
  | Q.ENone => E_OK | Q.EExist => E_TXEXIST | Q.EFull => E_MEMFULL
  | Q.ENotFound => E_NOTFOUND | Q.EPanic => E_PANIC
  end.

Definition err_ok (e : Q.err) : bool := match e with Q.ENone => true | _ => false end.

(** the Scorer wrapped around Item{Value: tx, EnterTime: now}: Compare says Big
    for the smaller EnterTime, so the rank is its negation *)
Definition mk_item (sc : tx -> Z -> Z) (t : tx) (now : Z) : Q.item :=
  Q.mkItem (t_h t) (sc t now) (- now) (t_size t) 0%N.

Definition enter_of (it : Q.item) : Z := - Q.irank it.

Record pstate := mkPs {
  p_q : Q.queue;          (* the skiplist.Queue inside the QueueCache *)
  p_acc : lm (lm tx);     (* AccountTxIndex.accMap *)
  p_last : lm tx;         (* LastTxCache.l *)
  p_sh : lm tx;           (* SHashTxCache.l *)
  p_fee : Z;              (* txCache.totalFee *)
  p_hdr : option (Z * Z)  (* Mempool.header *)
}.

Definition pinit (c : config) : pstate := mkPs (Q.newq (c_qcap c)) [] [] [] 0 None.

Definition set_q (q : Q.queue) (st : pstate) : pstate :=
  mkPs q (p_acc st) (p_last st) (p_sh st) (p_fee st) (p_hdr st).

(** ghost: what skiplist.Queue.Push removed to make room *)
Definition evicted_of (q : Q.queue) (e : Q.err) : list N :=
  if err_ok e && (Q.q_size q >=? Q.qcap q)
  then match Q.q_last q with Q.LItem tail => [Q.ihash tail] | _ => [] end
  else [].

(** txCache.Push: the queue's Push answers with an error only; nothing tells
    txCache that another transaction left the queue *)
Definition pcache_push (sc : tx -> Z -> Z) (sh : N -> N) (c : config) (now : Z) (t : tx)
           (st : pstate) : pstate * N * list N :=
  if negb (acc_can_push c t (p_acc st)) then (st, E_MANYTX, [])
  else
    let h := t_h t in
    match Q.q_push (mk_item sc t now) (p_q st) with
    | (q', e) =>
        let ev := evicted_of (p_q st) e in
        if negb (err_ok e) then (set_q q' st, qerr e, ev)
        else
          match acc_push c t h (p_acc st) with
          | (e2, acc') =>
              if negb (N.eqb e2 E_OK)
              then (mkPs q' acc' (p_last st) (p_sh st) (p_fee st) (p_hdr st), e2, ev)
              else (mkPs q' acc' (last_push c t h (p_last st)) (sh_push sh c t h (p_sh st))
                         (p_fee st + t_fee t) (p_hdr st), E_OK, ev)
          end
    end.

(** txCache.Remove: GetItem, then the queue's Remove (its error is only logged)
    and the four other structures *)
Definition pcache_remove (sh : N -> N) (txof : N -> tx) (h : N) (st : pstate) : pstate :=
  match Q.q_get h (p_q st) with
  | None => st
  | Some it =>
      let t := txof (Q.ihash it) in
      mkPs (fst (Q.q_remove h (p_q st))) (acc_remove t h (p_acc st)) (lm_remove h (p_last st))
           (sh_remove sh h (p_sh st)) (p_fee st - t_fee t) (p_hdr st)
  end.

Definition premove_txs (sh : N -> N) (txof : N -> tx) (hs : list N) (st : pstate) : pstate :=
  fold_left (fun s h => pcache_remove sh txof h s) hs st.

(** isExpired on a queue item; removeExpiredTx collects in Walk order *)
Definition p_is_expired (txof : N -> tx) (c : config) (now height blocktime : Z) (it : Q.item) : bool :=
  (c_interval c <=? now - enter_of it) || tx_is_expire (txof (Q.ihash it)) height blocktime.

Definition pexpired_hashes (txof : N -> tx) (c : config) (now height blocktime : Z) (q : Q.queue) : list N :=
  map Q.ihash (filter (p_is_expired txof c now height blocktime) (Q.q_walk 0 q)).

(** the header-only view, to reuse hdr_height / mem_height / check_expire_valid *)
Definition hdr_state (st : pstate) : state := mkSt [] 0 [] [] [] 0 (p_hdr st).

Definition pset_hdr (h b : Z) (st : pstate) : pstate :=
  mkPs (p_q st) (p_acc st) (p_last st) (p_sh st) (p_fee st) (Some (h, b)).

Definition premove_expired (sh : N -> N) (txof : N -> tx) (c : config) (now : Z) (st : pstate) : pstate :=
  premove_txs sh txof
    (pexpired_hashes txof c now (hdr_height (hdr_state st) + 1) (hdr_time (hdr_state st)) (p_q st)) st.

(** * events: transactions travel as hashes *)
Inductive pevent :=
| PPush (now : Z) (h : N)
| PRemove (hs : list N)
| PExpire (now : Z)
| PAddBlock (now height blocktime : Z) (hs : list N)
| PDelBlock (now height blocktime : Z) (hs : list N).

Definition pdel_block (sc : tx -> Z -> Z) (sh : N -> N) (txof : N -> tx) (c : config) (now : Z)
           (hs : list N) (st : pstate) : pstate * list N :=
  fold_left (fun (a : pstate * list N) h =>
               let t := txof h in
               if check_expire_valid now (hdr_state (fst a)) t
               then match pcache_push sc sh c now t (fst a) with
                    | (s', _, ev) => (s', snd a ++ ev)
                    end
               else a) hs (st, []).

(** result: state, error class, evicted hashes (ghost) *)
Definition pstep (sc : tx -> Z -> Z) (sh : N -> N) (txof : N -> tx) (c : config)
           (st : pstate) (e : pevent) : pstate * N * list N :=
  match e with
  | PPush now h => pcache_push sc sh c now (txof h) st
  | PRemove hs => (premove_txs sh txof hs st, E_OK, [])
  | PExpire now => (premove_expired sh txof c now st, E_OK, [])
  | PAddBlock now h b hs =>
      let height := mem_height (hdr_state st) in
      let st1 := if (height <? h) || ((h =? 0) && (height =? 0)) then pset_hdr h b st else st in
      if 0 <? Q.q_size (p_q st1)
      then (premove_expired sh txof c now (premove_txs sh txof hs st1), E_OK, [])
      else (st1, E_OK, [])
  | PDelBlock now h b hs =>
      match pdel_block sc sh txof c now hs (pset_hdr h b st) with
      | (s', ev) => (s', E_OK, ev)
      end
  end.

Definition pst (r : pstate * N * list N) : pstate := fst (fst r).
Definition pev (r : pstate * N * list N) : list N := snd r.

Definition prun sc sh txof c (st : pstate) (es : list pevent) : pstate :=
  fold_left (fun s e => pst (pstep sc sh txof c s e)) es st.

Fixpoint prun_states sc sh txof c (st : pstate) (es : list pevent) : list pstate :=
  match es with
  | [] => []
  | e :: tl => let st' := pst (pstep sc sh txof c st e) in st' :: prun_states sc sh txof c st' tl
  end.

(** the evicted hashes, per event *)
Fixpoint pevictions sc sh txof c (st : pstate) (es : list pevent) : list (list N) :=
  match es with
  | [] => []
  | e :: tl => let r := pstep sc sh txof c st e in pev r :: pevictions sc sh txof c (pst r) tl
  end.

Definition no_evict (l : list N) : bool := match l with [] => true | _ => false end.

(** * observables *)
Definition pwalk (st : pstate) : list Q.item := Q.q_walk 0 (p_q st).

(** the pool's content in Walk order, as (hash, transaction) *)
Definition ptx (txof : N -> tx) (st : pstate) : lm tx :=
  map (fun it => (Q.ihash it, txof (Q.ihash it))) (pwalk st).
