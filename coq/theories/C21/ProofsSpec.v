(** C21 — the executable oracle of Spec.v accepts the observation of every
    model state that satisfies the invariant (so the oracle that judges the Go
    implementation's outputs is the executable image of the proved invariant). *)
From Coq Require Import List ZArith NArith Bool Lia.
From C33 Require Import C21.Model C21.Spec C21.ProofsLm C21.ProofsInv C21.ProofsMain.
Import ListNotations.
Open Scope Z_scope.

Definition keyed (T : lm tx) : Prop := Forall (fun p => fst p = t_h (snd p)) T.
(** the case's transaction table knows every pooled transaction *)
Definition table_ok (txs : list tx) (T : lm tx) : Prop :=
  forall h t, In (h, t) T -> find_tx txs h = Some t.

Lemma list_n_eqb_refl l : list_n_eqb l l = true.
Proof. induction l as [|x tl IH]; cbn; [reflexivity|]. rewrite N.eqb_refl. exact IH. Qed.

Lemma hashes_keys (T : lm tx) : keyed T -> map (fun p => t_h (snd p)) T = keys T.
Proof.
  unfold keyed, keys. intros H. apply map_ext_in. intros p Hp.
  rewrite Forall_forall in H. symmetry. apply H. exact Hp.
Qed.

Lemma walk_keys sh c st : consistent sh c st ->
  map (fun p => t_h (i_tx (snd p))) (s_q st) = keys (qtx st).
Proof.
  intros K. rewrite <- (hashes_keys (qtx st)) by apply (k_keys _ _ _ K).
  unfold qtx. rewrite map_map. reflexivity.
Qed.

Lemma zip3_map {A B C} (f : A -> B) (g : A -> C) l :
  zip3 l (map f l) (map g l) = Some (map (fun a => (a, f a, g a)) l).
Proof. induction l as [|x tl IH]; cbn; [reflexivity|]. rewrite IH. reflexivity. Qed.

Lemma keyed_filter f T : keyed T -> keyed (filter f T).
Proof.
  unfold keyed. rewrite !Forall_forall. intros H x Hx. apply H. apply filter_In in Hx. tauto.
Qed.

Lemma keyed_app_r p T : keyed (p ++ T) -> keyed T.
Proof. unfold keyed. intros H. apply Forall_app in H. tauto. Qed.

Lemma filter_walk txs a (T : lm tx) :
  keyed T -> table_ok txs T ->
  keys (filter (from_b a) T)
  = filter (fun h => match sender_of txs h with Some a' => N.eqb a' a | None => false end) (keys T).
Proof.
  induction T as [|[k v] tl IH]; intros HK HT; [reflexivity|].
  inversion HK as [|x xs Hk HK']; subst. cbn [fst snd] in Hk.
  assert (E : sender_of txs k = Some (t_from v)).
  { unfold sender_of. rewrite (HT k v) by (left; reflexivity). reflexivity. }
  assert (IH' : keys (filter (from_b a) tl)
                = filter (fun h => match sender_of txs h with Some a' => N.eqb a' a | None => false end) (keys tl)).
  { apply IH; [exact HK'|]. intros h t Hin. apply HT. right. exact Hin. }
  cbn [filter keys map fst]. rewrite E. unfold from_b at 1. cbn [snd].
  destruct (N.eqb (t_from v) a); cbn [keys map fst]; fold (keys tl); rewrite <- IH'; reflexivity.
Qed.

Lemma table_map (f : tx -> Z) (g : list tx -> N -> Z) txs (T : lm tx) :
  (forall h t, find_tx txs h = Some t -> g txs h = f t) ->
  table_ok txs T -> map (fun p => f (snd p)) T = map (g txs) (keys T).
Proof.
  intros Hg HT. unfold keys. rewrite map_map. apply map_ext_in. intros [h t] Hin.
  cbn [fst snd]. symmetry. apply Hg. apply HT. exact Hin.
Qed.

Lemma suffix_b_app (a s : list N) : suffix_b s (a ++ s) = true.
Proof.
  unfold suffix_b. rewrite app_length. apply andb_true_iff. split.
  - apply Nat.leb_le. lia.
  - replace (length a + length s - length s)%nat with (length a) by lia.
    rewrite skipn_app, skipn_all, Nat.sub_diag. cbn. apply list_n_eqb_refl.
Qed.

Lemma mem_n_false x l : mem_n x l = false <-> ~ In x l.
Proof. rewrite <- mem_n_in. destruct (mem_n x l); split; congruence. Qed.

Local Opaque suffix_b.

Section Oracle.
  Variables (sh : N -> N) (c : config) (txs : list tx) (senders hashes : list N) (err : N) (st : state).
  Hypothesis K : consistent sh c st.
  Hypothesis Hcap : 0 <= c_qcap c.
  Hypothesis Htab : table_ok txs (qtx st).
  Hypothesis Hsnd : forall h t, In (h, t) (qtx st) -> In (t_from t) senders.

  Let o := observe sh senders hashes err st.

  Lemma o_walk_keys : o_walk o = keys (qtx st).
  Proof. unfold o. cbn [observe o_walk]. apply (walk_keys sh c). exact K. Qed.

  Lemma oracle_base : spec_base sh c txs senders hashes o = true.
  Proof.
    pose proof (k_keys _ _ _ K) as Kk. pose proof (k_nodup _ _ _ K) as Knd.
    unfold spec_base. rewrite o_walk_keys.
    repeat (apply andb_true_iff; split).
    - apply nodup_b_iff. exact Knd.
    - apply Z.eqb_eq. unfold o, zlen, lm_size, keys, qtx. cbn [observe o_size]. rewrite !map_length. reflexivity.
    - apply Z.leb_le. unfold o. cbn [observe o_size]. pose proof (k_cap _ _ _ K). lia.
    - apply forallb_forall. intros h Hh. unfold keys in Hh. apply in_map_iff in Hh as [[h' t] [E Hin]].
      cbn [fst] in E. subst h'. unfold sender_of. rewrite (Htab h t Hin). cbn [option_map].
      apply mem_n_in. eapply Hsnd; eauto.
    - unfold o. cbn [observe o_count o_acctx]. rewrite zip3_map.
      apply forallb_forall. intros x Hx. apply in_map_iff in Hx as [a [E _]]. subst x.
      unfold acc_list. fold (acc_get a (s_acc st)).
      repeat (apply andb_true_iff; split).
      + apply Z.eqb_eq. unfold zlen, lm_size. rewrite map_length. reflexivity.
      + apply Z.leb_le. apply (k_peracc _ _ _ K).
      + rewrite (k_acc _ _ _ K).
        rewrite (hashes_keys (filter (from_b a) (qtx st))) by (apply keyed_filter; exact Kk).
        rewrite (filter_walk txs a (qtx st) Kk Htab). apply list_n_eqb_refl.
    - unfold o. cbn [observe o_last]. destruct (k_last _ _ _ K) as [p Hp].
      assert (Kl : keyed (s_last st)) by (apply (keyed_app_r p); rewrite <- Hp; exact Kk).
      rewrite (hashes_keys _ Kl). rewrite Hp, keys_app. apply suffix_b_app.
    - apply Z.leb_le. unfold o. cbn [observe o_last]. unfold zlen. rewrite map_length.
      apply (k_last_len _ _ _ K).
    - apply Z.eqb_eq. unfold o. cbn [observe o_fee]. rewrite (k_fee _ _ _ K). f_equal.
      apply (table_map t_fee fee_of); [|exact Htab].
      intros h t E. unfold fee_of. rewrite E. reflexivity.
    - apply Z.eqb_eq. unfold o. cbn [observe o_bytes]. rewrite (k_bytes _ _ _ K). f_equal.
      apply (table_map t_size size_of); [|exact Htab].
      intros h t E. unfold size_of. rewrite E. reflexivity.
    - unfold o. cbn [observe o_short o_present]. rewrite zip3_map.
      apply forallb_forall. intros x Hx. apply in_map_iff in Hx as [h [E _]]. subst x.
      apply andb_true_iff. split.
      + destruct (lm_get h (s_q st)) as [it|] eqn:G.
        * assert (Hin : In (h, i_tx it) (qtx st)) by (apply qtx_in; apply lm_get_in; exact G).
          assert (E : t_h (i_tx it) = h).
          { unfold keyed in Kk. rewrite Forall_forall in Kk. symmetry. apply (Kk _ Hin). }
          rewrite E, N.eqb_refl.
          replace (mem_n h (keys (qtx st))) with true; [reflexivity|].
          symmetry. apply mem_n_in. eapply in_keys; eauto.
        * replace (mem_n h (keys (qtx st))) with false; [reflexivity|].
          symmetry. apply mem_n_false. rewrite qtx_keys. apply lm_get_none_iff. exact G.
      + destruct (lm_get (sh h) (s_sh st)) as [t'|] eqn:G; cbn [option_map]; [|reflexivity].
        apply lm_get_in in G. destruct (k_sh_sub _ _ _ K _ _ G) as [E1 E2].
        apply andb_true_iff. split.
        * apply mem_n_in. eapply in_keys; eauto.
        * apply N.eqb_eq. congruence.
  Qed.

  Lemma oracle_short : sh_covers sh st -> spec_short hashes o = true.
  Proof.
    intros A.
    unfold spec_short, short_failures.
    assert (X : filter (short_fail (o_walk o)) (combine hashes (o_short o)) = []).
    { rewrite o_walk_keys. unfold o. cbn [observe o_short].
      induction hashes as [|h tl IH]; [reflexivity|].
      cbn [map combine filter]. rewrite IH.
      replace (short_fail (keys (qtx st)) (h, option_map t_h (lm_get (sh h) (s_sh st)))) with false; [reflexivity|].
      symmetry. unfold short_fail.
      destruct (mem_n h (keys (qtx st))) eqn:M; [|reflexivity]. cbn [andb].
      apply mem_n_in in M. unfold keys in M. apply in_map_iff in M as [[h' t] [E Hin]].
      cbn [fst] in E. subst h'. pose proof (A h t Hin) as Hne.
      destruct (lm_get (sh h) (s_sh st)); [reflexivity|congruence]. }
    rewrite X. reflexivity.
  Qed.

  (** with [spec_base]: when no other pooled hash has the short hash of a
      pooled [h], a non-empty lookup returns [h] itself *)
  Lemma oracle_short_self h t :
    sh_covers sh st -> In (h, t) (qtx st) ->
    (forall h', In h' (keys (qtx st)) -> sh h' = sh h -> h' = h) ->
    lm_get (sh h) (s_sh st) = Some t.
  Proof.
    intros A Hin Hu. pose proof (A h t Hin) as Hne.
    destruct (lm_get (sh h) (s_sh st)) as [t'|] eqn:G; [|congruence].
    apply lm_get_in in G. destruct (k_sh_sub _ _ _ K _ _ G) as [E1 E2].
    assert (E : t_h t' = h) by (apply Hu; [eapply in_keys; eauto|congruence]).
    rewrite E in E2. f_equal. eapply nodup_keys_inj; [apply (k_nodup _ _ _ K)|exact E2|exact Hin].
  Qed.
End Oracle.

Lemma oracle_block sh c st now height bt hs senders hashes err :
  consistent sh c st -> 1 <= c_peracc c ->
  let e := EAddBlock now height bt hs in
  spec_block e (observe sh senders hashes err (fst (step sh c st e))) = true.
Proof.
  intros K Hp e. unfold spec_block, e. apply forallb_forall. intros h Hin.
  apply negb_true_iff. apply mem_n_false.
  assert (K' : consistent sh c (fst (step sh c st (EAddBlock now height bt hs)))) by (apply step_consistent; assumption).
  cbn [observe o_walk]. rewrite (walk_keys sh c _ K'), qtx_keys.
  apply (block_txs_gone sh c); assumption.
Qed.
