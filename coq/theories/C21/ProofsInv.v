(** C21 — the bookkeeping invariant and its preservation by Push and Remove. *)
From Coq Require Import List ZArith NArith Bool Lia.
From C33 Require Import C21.Model C21.Spec C21.ProofsLm.
Import ListNotations.
Open Scope Z_scope.

Definition from_b (a : N) (p : N * tx) : bool := N.eqb (t_from (snd p)) a.
Definition sizef (p : N * tx) : Z := t_size (snd p).
Definition feef (p : N * tx) : Z := t_fee (snd p).
Definition acc_get (a : N) (acc : lm (lm tx)) : lm tx :=
  match lm_get a acc with Some l => l | None => [] end.

(** The invariant.  [qtx st] is the pool's content in arrival order (hash,
    transaction).  The per-sender index and the latest list are exact views
    (filter / suffix); the short-hash index is a sub-view that is never stale:
    keys are unique and every entry names a pooled transaction with that short
    hash ([k_sh_nodup], [k_sh_sub]).  What it covers is stated in ProofsMain.v:
    [sh_exact] under injectivity, [sh_owner] preservation in general. *)
Record consistent (sh : N -> N) (c : config) (st : state) : Prop := mkConsistent {
  k_keys : Forall (fun p => fst p = t_h (snd p)) (qtx st);
  k_nodup : NoDup (keys (qtx st));                       (* no two transactions with one hash *)
  k_cap : lm_size (s_q st) <= Z.max 0 (c_qcap c);        (* capacity *)
  k_acc_nodup : NoDup (keys (s_acc st));
  k_acc : forall a, acc_get a (s_acc st) = filter (from_b a) (qtx st);  (* per-sender index *)
  k_peracc : forall a, lm_size (acc_get a (s_acc st)) <= c_peracc c;    (* per-sender limit *)
  k_last : exists p, qtx st = p ++ s_last st;            (* latest list: the most recent arrivals *)
  k_last_len : lm_size (s_last st) <= Z.max 1 (c_lastmax c);
  k_bytes : s_bytes st = sum_z (map sizef (qtx st));
  k_fee : s_fee st = sum_z (map feef (qtx st));
  k_sh_nodup : NoDup (keys (s_sh st));
  k_sh_sub : forall k t, In (k, t) (s_sh st) -> k = sh (t_h t) /\ In (t_h t, t) (qtx st)
}.

Lemma qtx_keys st : keys (qtx st) = keys (s_q st).
Proof. unfold qtx. apply keys_map_snd. Qed.

Lemma qtx_in st h it : In (h, it) (s_q st) -> In (h, i_tx it) (qtx st).
Proof.
  intros H. unfold qtx. apply in_map_iff. exists (h, it). split; [reflexivity|exact H].
Qed.

Lemma map_filter_neqk {V W} (g : V -> W) h (l : lm V) :
  map (fun p => (fst p, g (snd p))) (filter (neqk h) l)
  = filter (neqk h) (map (fun p => (fst p, g (snd p))) l).
Proof.
  induction l as [|[k v] tl IH]; [reflexivity|].
  cbn [filter map].
  change (neqk h (k, v)) with (negb (N.eqb k h)).
  change (neqk h (fst (k, v), g (snd (k, v)))) with (negb (N.eqb k h)).
  destruct (negb (N.eqb k h)); cbn [map]; rewrite IH; reflexivity.
Qed.

Lemma sum_app f (l : lm tx) x : sum_z (map f (l ++ [x])) = sum_z (map f l) + f x.
Proof.
  induction l as [|y tl IH]; simpl; [lia|]. rewrite IH. lia.
Qed.

Lemma sum_filter_neqk (f : N * tx -> Z) h t (l : lm tx) :
  NoDup (keys l) -> In (h, t) l ->
  sum_z (map f (filter (neqk h) l)) = sum_z (map f l) - f (h, t).
Proof.
  induction l as [|[k v] tl IH]; intros ND H; [destruct H|].
  inversion ND as [|x xs Hn ND']; subst.
  cbn [filter]. change (neqk h (k, v)) with (negb (N.eqb k h)).
  destruct H as [H|H].
  - inversion H; subst. rewrite N.eqb_refl. cbn [negb].
    rewrite filter_neqk_notin by exact Hn. simpl. lia.
  - destruct (N.eqb_spec k h) as [E|E].
    + subst. exfalso. apply Hn. eapply in_keys; eauto.
    + cbn [negb]. simpl. rewrite IH by assumption. lia.
Qed.

Lemma length_zero_nil {A} (l : list A) : Z.of_nat (length l) = 0 -> l = [].
Proof. destruct l; simpl; [reflexivity|lia]. Qed.

(** * AccountTxIndex *)
Lemma acc_remove_spec t h acc a' :
  NoDup (keys acc) ->
  NoDup (keys (acc_get (t_from t) acc)) ->
  acc_get (t_from t) acc <> [] ->
  acc_get a' (acc_remove t h acc) =
    if N.eqb a' (t_from t) then filter (neqk h) (acc_get (t_from t) acc) else acc_get a' acc.
Proof.
  intros ND NDl Hne. unfold acc_remove, acc_get in *.
  destruct (lm_get (t_from t) acc) as [l|] eqn:G; [|congruence].
  rewrite (lm_remove_filter h l NDl).
  assert (Hin : In (t_from t) (keys acc)) by (apply lm_get_in in G; eapply in_keys; eauto).
  destruct (lm_size (filter (neqk h) l) =? 0) eqn:Z.
  - rewrite (lm_remove_filter _ acc ND).
    destruct (N.eqb_spec a' (t_from t)) as [E|E].
    + subst. rewrite lm_get_filter_neqk_same. symmetry. apply length_zero_nil.
      apply Z.eqb_eq in Z. exact Z.
    + rewrite lm_get_filter_neqk_other by exact E. reflexivity.
  - destruct (N.eqb_spec a' (t_from t)) as [E|E].
    + subst. rewrite lm_get_set_same by exact Hin. reflexivity.
    + rewrite lm_get_set_other by exact E. reflexivity.
Qed.

Lemma acc_remove_nodup t h acc : NoDup (keys acc) -> NoDup (keys (acc_remove t h acc)).
Proof.
  intros ND. unfold acc_remove. destruct (lm_get (t_from t) acc) as [l|]; [|exact ND].
  destruct (lm_size (lm_remove h l) =? 0).
  - rewrite (lm_remove_filter _ acc ND). apply keys_filter_nodup. exact ND.
  - rewrite keys_lm_set. exact ND.
Qed.

Lemma acc_push_spec c t h acc :
  1 <= c_peracc c ->
  acc_can_push c t acc = true ->
  NoDup (keys acc) ->
  ~ In h (keys (acc_get (t_from t) acc)) ->
  exists acc',
    acc_push c t h acc = (E_OK, acc') /\ NoDup (keys acc')
    /\ lm_size (acc_get (t_from t) acc) < c_peracc c
    /\ forall a', acc_get a' acc' =
         if N.eqb a' (t_from t) then acc_get (t_from t) acc ++ [(h, t)] else acc_get a' acc.
Proof.
  intros Hp Hcan ND Hh. unfold acc_push, acc_can_push, acc_get in *.
  destruct (lm_get (t_from t) acc) as [l|] eqn:G.
  - assert (Hin : In (t_from t) (keys acc)) by (apply lm_get_in in G; eapply in_keys; eauto).
    assert (Hex : lm_exist (t_from t) acc = true) by (apply lm_exist_true; exact Hin).
    rewrite Hex, G. apply Z.ltb_lt in Hcan.
    destruct (c_peracc c <=? lm_size l) eqn:Z; [apply Z.leb_le in Z; lia|].
    eexists. split; [reflexivity|]. split; [rewrite keys_lm_set; exact ND|]. split; [exact Hcan|].
    intros a'. destruct (N.eqb_spec a' (t_from t)) as [E|E].
    + subst. rewrite lm_get_set_same by exact Hin. rewrite lm_push_fresh by exact Hh. reflexivity.
    + rewrite lm_get_set_other by exact E. reflexivity.
  - assert (Hnin : ~ In (t_from t) (keys acc)) by (apply lm_get_none_iff; exact G).
    assert (Hex : lm_exist (t_from t) acc = false) by (apply lm_exist_false; exact Hnin).
    rewrite Hex. rewrite (lm_push_fresh _ _ acc Hnin).
    rewrite lm_get_app, G. cbn [lm_get]. rewrite N.eqb_refl.
    change (lm_size (@nil (N * tx))) with 0.
    destruct (c_peracc c <=? 0) eqn:Z; [apply Z.leb_le in Z; lia|].
    eexists. split; [reflexivity|].
    assert (Hin2 : In (t_from t) (keys (acc ++ [(t_from t, @nil (N * tx))]))).
    { rewrite keys_app. apply in_or_app. right. left. reflexivity. }
    split; [|split].
    + rewrite keys_lm_set, keys_app. apply nodup_snoc; assumption.
    + change (lm_size (@nil (N * tx))) with 0. lia.
    + intros a'. destruct (N.eqb_spec a' (t_from t)) as [E|E].
      * subst. rewrite lm_get_set_same by exact Hin2. reflexivity.
      * rewrite lm_get_set_other by exact E. rewrite lm_get_app.
        destruct (lm_get a' acc); [reflexivity|]. cbn [lm_get].
        destruct (N.eqb_spec a' (t_from t)); [contradiction|reflexivity].
Qed.

(** * LastTxCache *)
Lemma last_push_spec c t h (last T : lm tx) :
  (exists p, T = p ++ last) -> Forall (fun p => fst p = t_h (snd p)) T -> ~ In h (keys T) ->
  lm_size last <= Z.max 1 (c_lastmax c) ->
  (exists p', T ++ [(h, t)] = p' ++ last_push c t h last)
  /\ lm_size (last_push c t h last) <= Z.max 1 (c_lastmax c).
Proof.
  intros [p HT] HF Hh Hlen. unfold last_push.
  destruct last as [|[k v] tl].
  - assert (E : (if c_lastmax c <=? lm_size (@nil (N * tx))
                 then match lm_top (@nil (N * tx)) with Some v => lm_remove (t_h v) [] | None => [] end
                 else []) = @nil (N * tx)) by (destruct (c_lastmax c <=? _); reflexivity).
    rewrite E. cbn. split; [|lia]. exists T. reflexivity.
  - assert (Hk : k = t_h v).
    { rewrite Forall_forall in HF. apply (HF (k, v)). rewrite HT. apply in_or_app. right. left. reflexivity. }
    assert (Hsub : forall x, In x (keys ((k, v) :: tl)) -> In x (keys T)).
    { intros x Hx. rewrite HT, keys_app. apply in_or_app. right. exact Hx. }
    destruct (c_lastmax c <=? lm_size ((k, v) :: tl)) eqn:Z.
    + cbn [lm_top lm_remove]. rewrite <- Hk, N.eqb_refl.
      rewrite lm_push_fresh.
      2:{ intros Hx. apply Hh. apply Hsub. right. exact Hx. }
      split.
      * exists (p ++ [(k, v)]). rewrite HT. rewrite <- !app_assoc. reflexivity.
      * unfold lm_size in *. rewrite app_length. cbn [length] in *. lia.
    + rewrite lm_push_fresh.
      2:{ intros Hx. apply Hh. apply Hsub. exact Hx. }
      apply Z.leb_gt in Z. split.
      * exists p. rewrite HT. rewrite <- app_assoc. reflexivity.
      * unfold lm_size in *. rewrite app_length. cbn [length] in *. lia.
Qed.

(** * SHashTxCache.Remove: only the owner's removal deletes the entry *)
Lemma sh_remove_in sh h (s : lm tx) k t' :
  NoDup (keys s) -> In (k, t') (sh_remove sh h s) ->
  In (k, t') s /\ ~ (k = sh h /\ t_h t' = h).
Proof.
  intros ND H. unfold sh_remove in H.
  destruct (lm_get (sh h) s) as [t|] eqn:G.
  - destruct (N.eqb_spec (t_h t) h) as [E|E].
    + rewrite (lm_remove_filter _ _ ND) in H. apply filter_In in H as [H Hk].
      split; [exact H|]. intros [E1 _]. unfold neqk in Hk. cbn [fst] in Hk.
      subst k. rewrite N.eqb_refl in Hk. discriminate.
    + split; [exact H|]. intros [E1 E2]. subst k.
      apply (lm_in_get _ _ _ ND) in H. congruence.
  - split; [exact H|]. intros [E1 _]. subst k.
    apply (lm_in_get _ _ _ ND) in H. congruence.
Qed.

Lemma sh_remove_nodup sh h (s : lm tx) : NoDup (keys s) -> NoDup (keys (sh_remove sh h s)).
Proof.
  intros ND. unfold sh_remove. destruct (lm_get (sh h) s) as [t|]; [|exact ND].
  destruct (N.eqb (t_h t) h); [|exact ND].
  rewrite (lm_remove_filter _ _ ND). apply keys_filter_nodup. exact ND.
Qed.

(** an entry whose transaction is not the removed one stays *)
Lemma sh_remove_get_other sh h (s : lm tx) k t :
  NoDup (keys s) -> lm_get k s = Some t -> t_h t <> h -> lm_get k (sh_remove sh h s) = Some t.
Proof.
  intros ND G Hne. unfold sh_remove.
  destruct (lm_get (sh h) s) as [t0|] eqn:G0; [|exact G].
  destruct (N.eqb_spec (t_h t0) h) as [E|E]; [|exact G].
  rewrite (lm_remove_filter _ _ ND). rewrite lm_get_filter_neqk_other; [exact G|].
  intros Ek. subst k. rewrite G in G0. inversion G0; subst. contradiction.
Qed.

(** the owner's removal deletes its entry *)
Lemma sh_remove_owner sh h (s : lm tx) t :
  NoDup (keys s) -> lm_get (sh h) s = Some t -> t_h t = h ->
  sh_remove sh h s = filter (neqk (sh h)) s.
Proof.
  intros ND G E. unfold sh_remove. rewrite G, E, N.eqb_refl. apply lm_remove_filter. exact ND.
Qed.

(** * txCache.Remove *)
Lemma cache_remove_eq sh h st it :
  lm_get h (s_q st) = Some it ->
  cache_remove sh h st =
    mkSt (lm_remove h (s_q st)) (s_bytes st - t_size (i_tx it))
         (acc_remove (i_tx it) h (s_acc st)) (lm_remove h (s_last st))
         (sh_remove sh h (s_sh st)) (s_fee st - t_fee (i_tx it)) (s_hdr st).
Proof.
  intros G. unfold cache_remove, q_remove. rewrite G. reflexivity.
Qed.

Lemma cache_remove_none sh h st : lm_get h (s_q st) = None -> cache_remove sh h st = st.
Proof. intros G. unfold cache_remove. rewrite G. reflexivity. Qed.

Lemma qtx_remove sh h st it :
  NoDup (keys (s_q st)) -> lm_get h (s_q st) = Some it ->
  qtx (cache_remove sh h st) = filter (neqk h) (qtx st).
Proof.
  intros ND G. rewrite (cache_remove_eq sh h st it G). unfold qtx. cbn [s_q].
  rewrite (lm_remove_filter h _ ND). apply map_filter_neqk.
Qed.

Lemma filter_from_neqk a h t (T : lm tx) :
  NoDup (keys T) -> In (h, t) T -> t_from t <> a ->
  filter (from_b a) (filter (neqk h) T) = filter (from_b a) T.
Proof.
  intros ND Hin Hne. rewrite filter_filter_comm.
  induction T as [|[k v] tl IH]; [reflexivity|].
  inversion ND as [|x xs Hn ND']; subst.
  cbn [filter]. destruct (from_b a (k, v)) eqn:F.
  - cbn [filter]. change (neqk h (k, v)) with (negb (N.eqb k h)).
    destruct (N.eqb_spec k h) as [E|E].
    + exfalso. subst k. destruct Hin as [Hin|Hin].
      * inversion Hin; subst. unfold from_b in F. cbn [snd] in F.
        apply N.eqb_eq in F. contradiction.
      * apply Hn. eapply in_keys; eauto.
    + cbn [negb]. f_equal. destruct Hin as [Hin|Hin]; [inversion Hin; congruence|]. auto.
  - destruct Hin as [Hin|Hin].
    + inversion Hin; subst. rewrite filter_neqk_notin; [reflexivity|].
      intros Hx. apply Hn. eapply keys_filter_in; eauto.
    + auto.
Qed.

Lemma cache_remove_consistent sh c st h :
  consistent sh c st -> consistent sh c (cache_remove sh h st).
Proof.
  intros K. destruct (lm_get h (s_q st)) as [it|] eqn:G.
  2:{ rewrite cache_remove_none by exact G. exact K. }
  destruct K as [Kk Knd Kcap Kand Kacc Kper Klast Kll Kb Kf Ksn Kss].
  assert (NDq : NoDup (keys (s_q st))) by (rewrite <- qtx_keys; exact Knd).
  assert (HT : qtx (cache_remove sh h st) = filter (neqk h) (qtx st)) by (eapply qtx_remove; eauto).
  assert (Hin : In (h, i_tx it) (qtx st)) by (apply qtx_in; apply lm_get_in; exact G).
  set (t := i_tx it) in *.
  destruct Klast as [p Hp].
  assert (NDlast : NoDup (keys (s_last st))).
  { rewrite Hp, keys_app in Knd. eapply nodup_app_r; eauto. }
  assert (Hal : acc_get (t_from t) (s_acc st) = filter (from_b (t_from t)) (qtx st)) by apply Kacc.
  assert (Hne : acc_get (t_from t) (s_acc st) <> []).
  { rewrite Hal. intros E. assert (X : In (h, t) (filter (from_b (t_from t)) (qtx st))).
    { apply filter_In. split; [exact Hin|]. unfold from_b. cbn [snd]. apply N.eqb_refl. }
    rewrite E in X. destruct X. }
  assert (NDl : NoDup (keys (acc_get (t_from t) (s_acc st)))).
  { rewrite Hal. apply keys_filter_nodup. exact Knd. }
  constructor; rewrite ?HT.
  - rewrite Forall_forall in *. intros x Hx. apply Kk. apply filter_In in Hx. tauto.
  - apply keys_filter_nodup. exact Knd.
  - rewrite (cache_remove_eq sh h st it G). cbn [s_q]. rewrite (lm_remove_filter h _ NDq).
    unfold lm_size in *. pose proof (filter_length_le (neqk h) (s_q st)). lia.
  - rewrite (cache_remove_eq sh h st it G). cbn [s_acc]. apply acc_remove_nodup. exact Kand.
  - intros a. rewrite (cache_remove_eq sh h st it G). cbn [s_acc]. fold t.
    rewrite (acc_remove_spec t h (s_acc st) a Kand NDl Hne).
    destruct (N.eqb_spec a (t_from t)) as [E|E].
    + subst a. rewrite Hal. apply filter_filter_comm.
    + rewrite Kacc. symmetry. apply (filter_from_neqk a h t); auto.
  - intros a. rewrite (cache_remove_eq sh h st it G). cbn [s_acc]. fold t.
    rewrite (acc_remove_spec t h (s_acc st) a Kand NDl Hne).
    destruct (N.eqb a (t_from t)); [|apply Kper].
    pose proof (Kper (t_from t)) as X. unfold lm_size in *.
    pose proof (filter_length_le (neqk h) (acc_get (t_from t) (s_acc st))). lia.
  - rewrite (cache_remove_eq sh h st it G). cbn [s_last].
    rewrite (lm_remove_filter h _ NDlast). exists (filter (neqk h) p).
    rewrite Hp. apply filter_app.
  - rewrite (cache_remove_eq sh h st it G). cbn [s_last].
    rewrite (lm_remove_filter h _ NDlast). unfold lm_size in *.
    pose proof (filter_length_le (neqk h) (s_last st)). lia.
  - rewrite (cache_remove_eq sh h st it G). cbn [s_bytes].
    rewrite (sum_filter_neqk sizef h t _ Knd Hin). rewrite Kb. reflexivity.
  - rewrite (cache_remove_eq sh h st it G). cbn [s_fee].
    rewrite (sum_filter_neqk feef h t _ Knd Hin). rewrite Kf. reflexivity.
  - rewrite (cache_remove_eq sh h st it G). cbn [s_sh]. apply sh_remove_nodup. exact Ksn.
  - intros k t' Hx. rewrite (cache_remove_eq sh h st it G) in Hx. cbn [s_sh] in Hx.
    apply (sh_remove_in sh h _ k t' Ksn) in Hx as [Hx Hk]. destruct (Kss k t' Hx) as [E1 E2].
    split; [exact E1|]. apply filter_In. split; [exact E2|].
    unfold neqk. cbn [fst]. destruct (N.eqb_spec (t_h t') h) as [E|E]; [|reflexivity].
    exfalso. apply Hk. split; [|exact E]. rewrite E1, E. reflexivity.
Qed.

(** * txCache.Push *)
Lemma cache_push_consistent sh c now t st :
  1 <= c_peracc c ->
  consistent sh c st -> consistent sh c (fst (cache_push sh c now t st)).
Proof.
  intros Hp K. unfold cache_push.
  destruct (acc_can_push c t (s_acc st)) eqn:Hcan; cbn [negb]; [|exact K].
  unfold q_push. cbn [i_tx].
  destruct (lm_exist (t_h t) (s_q st)) eqn:Hex; [exact K|].
  destruct (c_qcap c <=? lm_size (s_q st)) eqn:Hcap; [exact K|].
  cbn [N.eqb E_OK negb].
  change (N.eqb E_OK E_OK) with true. cbn [negb].
  destruct K as [Kk Knd Kcap Kand Kacc Kper Klast Kll Kb Kf Ksn Kss].
  assert (Hh : ~ In (t_h t) (keys (s_q st))) by (apply lm_exist_false; exact Hex).
  assert (HhT : ~ In (t_h t) (keys (qtx st))) by (rewrite qtx_keys; exact Hh).
  assert (Hhl : ~ In (t_h t) (keys (acc_get (t_from t) (s_acc st)))).
  { rewrite Kacc. intros X. apply HhT. eapply keys_filter_in; eauto. }
  destruct (acc_push_spec c t (t_h t) (s_acc st) Hp Hcan Kand Hhl) as [acc' [Ea [NDa [Hlt Hget]]]].
  rewrite Ea. change (N.eqb E_OK E_OK) with true. cbn [negb fst].
  rewrite (lm_push_fresh _ _ _ Hh).
  assert (HT : qtx (mkSt (s_q st ++ [(t_h t, mkItem t now)]) (s_bytes st + t_size t) acc'
                         (last_push c t (t_h t) (s_last st)) (sh_push sh c t (t_h t) (s_sh st))
                         (s_fee st + t_fee t) (s_hdr st)) = qtx st ++ [(t_h t, t)]).
  { unfold qtx. cbn [s_q]. rewrite map_app. reflexivity. }
  destruct (last_push_spec c t (t_h t) (s_last st) (qtx st) Klast Kk HhT Kll) as [Hl1 Hl2].
  apply Z.leb_gt in Hcap.
  constructor; rewrite ?HT; cbn [s_q s_bytes s_acc s_last s_sh s_fee].
  - apply Forall_app. split; [exact Kk|]. constructor; [reflexivity|constructor].
  - rewrite keys_app. apply nodup_snoc; assumption.
  - unfold lm_size in *. rewrite app_length. cbn [length]. lia.
  - exact NDa.
  - intros a. rewrite Hget, filter_app. cbn [filter]. unfold from_b at 2. cbn [snd].
    rewrite (N.eqb_sym (t_from t) a).
    destruct (N.eqb_spec a (t_from t)) as [E|E].
    + subst a. rewrite Kacc. reflexivity.
    + rewrite app_nil_r. apply Kacc.
  - intros a. rewrite Hget. destruct (N.eqb a (t_from t)); [|apply Kper].
    unfold lm_size in *. rewrite app_length. cbn [length]. lia.
  - exact Hl1.
  - exact Hl2.
  - rewrite sum_app. unfold sizef at 2. cbn [snd]. rewrite Kb. reflexivity.
  - rewrite sum_app. unfold feef at 2. cbn [snd]. rewrite Kf. reflexivity.
  - unfold sh_push. destruct (lm_exist (sh (t_h t)) (s_sh st)) eqn:Hes; [exact Ksn|].
    destruct (c_shmax c <=? lm_size (s_sh st)); [exact Ksn|].
    apply lm_exist_false in Hes. rewrite (lm_push_fresh _ _ _ Hes).
    rewrite keys_app. apply nodup_snoc; assumption.
  - intros k t' Hx.
    assert (Hold : In (k, t') (s_sh st) -> k = sh (t_h t') /\ In (t_h t', t') (qtx st ++ [(t_h t, t)])).
    { intros Hy. destruct (Kss k t' Hy) as [E1 E2]. split; [exact E1|]. apply in_or_app. left. exact E2. }
    unfold sh_push in Hx. destruct (lm_exist (sh (t_h t)) (s_sh st)) eqn:Hes; [auto|].
    destruct (c_shmax c <=? lm_size (s_sh st)); [auto|].
    apply lm_exist_false in Hes. rewrite (lm_push_fresh _ _ _ Hes) in Hx.
    apply in_app_or in Hx as [Hx|Hx]; [auto|].
    destruct Hx as [Hx|[]]. inversion Hx; subst. split; [reflexivity|].
    apply in_or_app. right. left. reflexivity.
Qed.
