(** C21 — the property text as an executable oracle on API-level observations
    (what Size / Walk / TxNumOfAccount / GetAccTxs / GetLatestTx /
    getTxListByHash / TotalFee / GetTotalCacheBytes returned), independent of
    the model's state.

    [spec_base]: no duplicate hash, size <= capacity, per-sender count <= limit,
    per-sender index = the pool's transactions of that sender in arrival order,
    latest list = a suffix of the arrival order of length <= its bound, byte
    and fee totals = sums over the contents, full-hash lookup = membership,
    short-hash lookup never returns a transaction outside the pool or one with
    another short hash.
    [spec_short]: the short-hash lookup of every pooled transaction is
    non-empty.  The index holds one transaction per short hash, so together with
    [spec_base] (what the lookup returns is pooled and has that short hash) this
    says: a pooled transaction is found under its short hash unless the lookup
    returns another pooled transaction with the same short hash; when no other
    pooled transaction shares its short hash it is found itself.
    [spec_block]: after a block was added none of its transactions is pooled. *)
From Coq Require Import List ZArith NArith Bool.
From C33 Require Import C21.Model.
Import ListNotations.
Open Scope Z_scope.

Definition mem_n (x : N) (l : list N) : bool := existsb (N.eqb x) l.

Fixpoint nodup_b (l : list N) : bool :=
  match l with [] => true | x :: tl => negb (mem_n x tl) && nodup_b tl end.

Fixpoint list_n_eqb (a b : list N) : bool :=
  match a, b with
  | [], [] => true
  | x :: a', y :: b' => N.eqb x y && list_n_eqb a' b'
  | _, _ => false
  end.

(** [s] is a suffix of [l] *)
Definition suffix_b (s l : list N) : bool :=
  let n := length l in let k := length s in
  (Nat.leb k n) && list_n_eqb (skipn (n - k) l) s.

Definition find_tx (txs : list tx) (h : N) : option tx :=
  find (fun t => N.eqb (t_h t) h) txs.

Definition sender_of (txs : list tx) (h : N) : option N := option_map t_from (find_tx txs h).
Definition fee_of (txs : list tx) (h : N) : Z := match find_tx txs h with Some t => t_fee t | None => 0 end.
Definition size_of (txs : list tx) (h : N) : Z := match find_tx txs h with Some t => t_size t | None => 0 end.

Definition sum_z (l : list Z) : Z := fold_right Z.add 0 l.

Definition zlen {A} (l : list A) : Z := Z.of_nat (length l).

Fixpoint zip3 {A B C} (a : list A) (b : list B) (c : list C) : option (list (A * B * C)) :=
  match a, b, c with
  | [], [], [] => Some []
  | x :: a', y :: b', z :: c' =>
      match zip3 a' b' c' with Some r => Some ((x, y, z) :: r) | None => None end
  | _, _, _ => None
  end.

Definition spec_base (sh : N -> N) (c : config) (txs : list tx) (senders hashes : list N) (o : obs) : bool :=
  let w := o_walk o in
  nodup_b w
  && (o_size o =? zlen w) && (o_size o <=? c_qcap c)
  && forallb (fun h => match sender_of txs h with Some a => mem_n a senders | None => false end) w
  && match zip3 senders (o_count o) (o_acctx o) with
     | None => false
     | Some l =>
         forallb (fun x => match x with (a, n, hs) =>
           (n =? zlen hs) && (n <=? c_peracc c)
           && list_n_eqb hs (filter (fun h => match sender_of txs h with
                                              | Some a' => N.eqb a' a | None => false end) w)
           end) l
     end
  && suffix_b (o_last o) w && (zlen (o_last o) <=? Z.max 1 (c_lastmax c))
  && (o_fee o =? sum_z (map (fee_of txs) w))
  && (o_bytes o =? sum_z (map (size_of txs) w))
  && match zip3 hashes (o_short o) (o_present o) with
     | None => false
     | Some l =>
         forallb (fun x => match x with (h, s, p) =>
           Bool.eqb p (mem_n h w)
           && match s with
              | None => true
              | Some h' => mem_n h' w && N.eqb (sh h') (sh h)
              end
           end) l
     end.

Definition short_fail (w : list N) (x : N * option N) : bool :=
  match x with (h, s) =>
    mem_n h w && match s with Some _ => false | None => true end
  end.

(** the hashes that are pooled while the lookup of their short hash is empty *)
Definition short_failures (hashes : list N) (o : obs) : list N :=
  map fst (filter (short_fail (o_walk o)) (combine hashes (o_short o))).

Definition spec_short (hashes : list N) (o : obs) : bool :=
  match short_failures hashes o with [] => true | _ => false end.

Definition spec_block (e : event) (o : obs) : bool :=
  match e with
  | EAddBlock _ _ _ hs => forallb (fun h => negb (mem_n h (o_walk o))) hs
  | _ => true
  end.
