(** C21 — lemmas about the ListMap model (association lists with unique keys). *)
From Coq Require Import List ZArith NArith Bool Lia.
From C33 Require Import C21.Model.
Import ListNotations.
Open Scope Z_scope.

Definition keys {V} (l : lm V) : list N := map fst l.
Definition neqk {V} (k : N) (p : N * V) : bool := negb (N.eqb (fst p) k).

Lemma lm_get_none_iff {V} k (l : lm V) : lm_get k l = None <-> ~ In k (keys l).
Proof.
  induction l as [|[k' v] tl IH]; simpl.
  - tauto.
  - destruct (N.eqb_spec k k') as [E|E].
    + split; [discriminate|]. intros H. exfalso. apply H. left. congruence.
    + rewrite IH. split; intros H; [intros [H1|H1]; [congruence|tauto]|tauto].
Qed.

Lemma lm_get_in {V} k v (l : lm V) : lm_get k l = Some v -> In (k, v) l.
Proof.
  induction l as [|[k' v'] tl IH]; simpl; [discriminate|].
  destruct (N.eqb_spec k k') as [E|E]; intros H.
  - left. congruence.
  - right. auto.
Qed.

Lemma in_keys {V} k v (l : lm V) : In (k, v) l -> In k (keys l).
Proof. intros H. apply (in_map fst) in H. exact H. Qed.

Lemma lm_in_get {V} k v (l : lm V) : NoDup (keys l) -> In (k, v) l -> lm_get k l = Some v.
Proof.
  induction l as [|[k' v'] tl IH]; simpl; intros ND H; [tauto|].
  inversion ND as [|x xs Hn ND']; subst.
  destruct H as [H|H].
  - inversion H; subst. rewrite N.eqb_refl. reflexivity.
  - destruct (N.eqb_spec k k') as [E|E].
    + subst. exfalso. apply Hn. eapply in_keys; eauto.
    + auto.
Qed.

Lemma lm_exist_true {V} k (l : lm V) : lm_exist k l = true <-> In k (keys l).
Proof.
  unfold lm_exist. destruct (lm_get k l) eqn:E.
  - split; [intros _|reflexivity]. apply lm_get_in in E. eapply in_keys; eauto.
  - apply lm_get_none_iff in E. split; [discriminate|tauto].
Qed.

Lemma lm_exist_false {V} k (l : lm V) : lm_exist k l = false <-> ~ In k (keys l).
Proof.
  rewrite <- lm_exist_true. destruct (lm_exist k l); split; congruence.
Qed.

Lemma filter_neqk_notin {V} k (l : lm V) : ~ In k (keys l) -> filter (neqk k) l = l.
Proof.
  induction l as [|[k' v] tl IH]; simpl; intros H; [reflexivity|].
  unfold neqk at 1; simpl. destruct (N.eqb_spec k' k) as [E|E].
  - exfalso. apply H. left. exact E.
  - simpl. f_equal. apply IH. tauto.
Qed.

Lemma lm_remove_filter {V} k (l : lm V) : NoDup (keys l) -> lm_remove k l = filter (neqk k) l.
Proof.
  induction l as [|[k' v] tl IH]; simpl; intros ND; [reflexivity|].
  inversion ND as [|x xs Hn ND']; subst.
  unfold neqk at 1; simpl. rewrite (N.eqb_sym k' k).
  destruct (N.eqb_spec k k') as [E|E]; simpl.
  - subst. symmetry. apply filter_neqk_notin. exact Hn.
  - f_equal. auto.
Qed.

Lemma keys_filter_in {V} (f : N * V -> bool) k (l : lm V) : In k (keys (filter f l)) -> In k (keys l).
Proof.
  unfold keys. rewrite !in_map_iff. intros [p [E H]]. apply filter_In in H. exists p. tauto.
Qed.

Lemma keys_filter_nodup {V} (f : N * V -> bool) (l : lm V) : NoDup (keys l) -> NoDup (keys (filter f l)).
Proof.
  induction l as [|[k v] tl IH]; simpl; intros ND; [constructor|].
  inversion ND as [|x xs Hn ND']; subst.
  destruct (f (k, v)); simpl; auto.
  constructor; auto. intros H. apply Hn. eapply keys_filter_in; eauto.
Qed.

Lemma keys_filter_neqk {V} k k' (l : lm V) : In k' (keys (filter (neqk k) l)) -> k' <> k.
Proof.
  unfold keys. rewrite in_map_iff. intros [p [E H]]. apply filter_In in H as [_ H].
  unfold neqk in H. subst k'. destruct (N.eqb_spec (fst p) k); [discriminate|assumption].
Qed.

Lemma lm_get_filter_neqk_other {V} k k' (l : lm V) :
  k' <> k -> lm_get k' (filter (neqk k) l) = lm_get k' l.
Proof.
  intros Hne. induction l as [|[k2 v] tl IH]; simpl; [reflexivity|].
  unfold neqk at 1; simpl. destruct (N.eqb_spec k2 k) as [E|E]; simpl.
  - subst. destruct (N.eqb_spec k' k); [contradiction|exact IH].
  - rewrite IH. reflexivity.
Qed.

Lemma lm_get_filter_neqk_same {V} k (l : lm V) : lm_get k (filter (neqk k) l) = None.
Proof.
  apply lm_get_none_iff. intros H. apply keys_filter_neqk in H. congruence.
Qed.

Lemma keys_lm_set {V} k (v : V) l : keys (lm_set k v l) = keys l.
Proof.
  induction l as [|[k' v'] tl IH]; simpl; [reflexivity|].
  destruct (N.eqb k k'); simpl; [reflexivity|]. f_equal. exact IH.
Qed.

Lemma lm_get_set_same {V} k (v : V) l : In k (keys l) -> lm_get k (lm_set k v l) = Some v.
Proof.
  induction l as [|[k' v'] tl IH]; simpl; [tauto|].
  intros H. destruct (N.eqb_spec k k') as [E|E]; simpl.
  - subst. rewrite N.eqb_refl. reflexivity.
  - destruct (N.eqb_spec k k'); [contradiction|]. apply IH. destruct H; [congruence|assumption].
Qed.

Lemma lm_get_set_other {V} k k' (v : V) l : k' <> k -> lm_get k' (lm_set k v l) = lm_get k' l.
Proof.
  intros Hne. induction l as [|[k2 v2] tl IH]; simpl; [reflexivity|].
  destruct (N.eqb_spec k k2) as [E|E]; simpl.
  - subst. destruct (N.eqb_spec k' k2); [contradiction|reflexivity].
  - rewrite IH. reflexivity.
Qed.

Lemma lm_get_app {V} k (l1 l2 : lm V) :
  lm_get k (l1 ++ l2) = match lm_get k l1 with Some v => Some v | None => lm_get k l2 end.
Proof.
  induction l1 as [|[k' v] tl IH]; simpl; [reflexivity|].
  destruct (N.eqb k k'); [reflexivity|exact IH].
Qed.

Lemma lm_push_fresh {V} k (v : V) l : ~ In k (keys l) -> lm_push k v l = l ++ [(k, v)].
Proof.
  intros H. unfold lm_push. apply lm_exist_false in H. rewrite H. reflexivity.
Qed.

Lemma keys_app {V} (l1 l2 : lm V) : keys (l1 ++ l2) = keys l1 ++ keys l2.
Proof. apply map_app. Qed.

Lemma nodup_snoc (l : list N) k : NoDup l -> ~ In k l -> NoDup (l ++ [k]).
Proof.
  induction l as [|x tl IH]; simpl; intros ND H.
  - constructor; [tauto|constructor].
  - inversion ND as [|y ys Hn ND']; subst. constructor.
    + rewrite in_app_iff. simpl. intros [H1|[H1|[]]]; [tauto|]. apply H. left. congruence.
    + apply IH; tauto.
Qed.

Lemma nodup_app_r {A} (l1 l2 : list A) : NoDup (l1 ++ l2) -> NoDup l2.
Proof.
  induction l1 as [|x tl IH]; simpl; [tauto|]. intros H. inversion H; auto.
Qed.

Lemma nodup_app_l {A} (l1 l2 : list A) : NoDup (l1 ++ l2) -> NoDup l1.
Proof.
  induction l1 as [|x tl IH]; simpl; intros H; [constructor|].
  inversion H as [|y ys Hn ND]; subst. constructor; [|auto].
  intros H1. apply Hn. apply in_or_app. left. exact H1.
Qed.

Lemma filter_filter_comm {A} (f g : A -> bool) l : filter f (filter g l) = filter g (filter f l).
Proof.
  induction l as [|x tl IH]; simpl; [reflexivity|].
  destruct (g x) eqn:G, (f x) eqn:F; simpl; rewrite ?G, ?F, IH; reflexivity.
Qed.

Lemma filter_length_le {A} (f : A -> bool) l : (length (filter f l) <= length l)%nat.
Proof.
  induction l as [|x tl IH]; simpl; [lia|]. destruct (f x); simpl; lia.
Qed.

Lemma map_filter_fst {V W} (g : V -> W) (f : N -> bool) (l : lm V) :
  map (fun p => (fst p, g (snd p))) (filter (fun p => f (fst p)) l)
  = filter (fun p => f (fst p)) (map (fun p => (fst p, g (snd p))) l).
Proof.
  induction l as [|[k v] tl IH]; simpl; [reflexivity|].
  destruct (f k); simpl; rewrite IH; reflexivity.
Qed.

Lemma keys_map_snd {V W} (g : V -> W) (l : lm V) : keys (map (fun p => (fst p, g (snd p))) l) = keys l.
Proof.
  unfold keys. rewrite map_map. reflexivity.
Qed.

(** two entries with the same key are equal when keys are unique *)
Lemma nodup_keys_inj {V} k (v1 v2 : V) l : NoDup (keys l) -> In (k, v1) l -> In (k, v2) l -> v1 = v2.
Proof.
  intros ND H1 H2. apply (lm_in_get _ _ _ ND) in H1. apply (lm_in_get _ _ _ ND) in H2. congruence.
Qed.
