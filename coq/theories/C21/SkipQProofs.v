(** C21 — the bookkeeping invariant for the pool behind a score-ordered queue.

    The invariant of the arrival-ordered pool ([consistent], C21.ProofsInv) is
    reused verbatim: the price pool [st] is viewed as the state
    [as_state st G] of the arrival-ordered model, where the ghost list [G] holds
    the pooled transactions in arrival order and is a permutation of the Walk.
    As long as no Push evicts, every operation of the price pool is the
    corresponding operation of the arrival-ordered pool on that view. *)
From Coq Require Import List ZArith NArith Bool Lia Permutation Sorted.
From C33 Require Import C21.Model C21.Spec C21.ProofsLm C21.ProofsInv C21.ProofsMain.
From C33 Require Import C21.SkipQModel C21.SkipQProofsQ.
Import ListNotations.
Open Scope Z_scope.

Definition conv (txof : N -> tx) (it : Q.item) : item := mkItem (txof (Q.ihash it)) (enter_of it).

Definition as_state (st : pstate) (G : lm item) : state :=
  mkSt G (Q.qbytes (p_q st)) (p_acc st) (p_last st) (p_sh st) (p_fee st) (p_hdr st).

Record glink (txof : N -> tx) (l : list Q.item) (G : lm item) : Prop := mkGl {
  gl_nodup : NoDup (keys G);
  gl_get : forall h, lm_get h G = option_map (conv txof) (QS.spec_get h l)
}.

Lemma glink_keys txof l G h : glink txof l G -> (In h (keys G) <-> In h (QP.hashes l)).
Proof.
  intros [_ Hg]. specialize (Hg h). split; intros H.
  - destruct (QS.spec_get h l) eqn:E.
    + apply spec_get_some in E as [Hi Hh]. subst. unfold QP.hashes. now apply in_map.
    + cbn in Hg. apply lm_get_none_iff in Hg. contradiction.
  - destruct (lm_get h G) eqn:E.
    + apply lm_get_in in E. eapply in_keys; eauto.
    + destruct (QS.spec_get h l) eqn:E2; [discriminate|]. apply spec_get_none_iff in E2. contradiction.
Qed.

Lemma glink_size txof l G : NoDup (QP.hashes l) -> glink txof l G -> lm_size G = QS.spec_size l.
Proof.
  intros ND HG. unfold lm_size, QS.spec_size. f_equal.
  assert (E : length (keys G) = length (QP.hashes l)).
  { apply Nat.le_antisymm; apply NoDup_incl_length; try assumption; try apply (gl_nodup _ _ _ HG);
      intros x Hx; apply (glink_keys txof l G x HG); exact Hx. }
  unfold keys, QP.hashes in E. rewrite !map_length in E. exact E.
Qed.

Lemma glink_perm txof l G : NoDup (QP.hashes l) -> glink txof l G -> Permutation (keys G) (QP.hashes l).
Proof.
  intros ND HG. apply NoDup_Permutation; [apply (gl_nodup _ _ _ HG)|exact ND|].
  intros x. apply (glink_keys txof l G x HG).
Qed.

Lemma glink_tx txof l G h it : glink txof l G -> In (h, it) G -> i_tx it = txof h.
Proof.
  intros [ND Hg] Hi. apply (lm_in_get _ _ _ ND) in Hi. rewrite Hg in Hi.
  destruct (QS.spec_get h l) as [x|] eqn:E; [|discriminate].
  apply spec_get_some in E as [_ Hh]. inversion Hi. unfold conv. cbn. now rewrite Hh.
Qed.

Lemma set_q_id st : set_q (p_q st) st = st.
Proof. destruct st; reflexivity. Qed.

Lemma cev_hdr now s1 s2 t : s_hdr s1 = s_hdr s2 -> check_expire_valid now s1 t = check_expire_valid now s2 t.
Proof. intros E. unfold check_expire_valid, hdr_height, hdr_time. rewrite E. reflexivity. Qed.

(** * txCache.Remove on the view *)
Lemma psim_remove sc sh txof c st l G h :
  qlink sc txof c st l -> glink txof l G ->
  exists l' G', qlink sc txof c (pcache_remove sh txof h st) l' /\ glink txof l' G'
    /\ as_state (pcache_remove sh txof h st) G' = cache_remove sh h (as_state st G).
Proof.
  intros HQ HG. pose proof HQ as [HR HI]. pose proof HG as [ND Hg].
  destruct (qlink_remove sc sh txof c h st l HQ) as (l1 & HQ1 & _).
  revert HQ1. unfold pcache_remove, Q.q_get.
  rewrite (QR.map_ok_get _ _ h (QR.R_map _ _ _ HR)).
  destruct (QS.spec_get h l) as [it|] eqn:Gt; intros HQ1.
  - pose proof (spec_get_some _ _ _ Gt) as [Hin Hh].
    assert (EX : QS.spec_exist h l = true).
    { apply QP.spec_exist_in. rewrite <- Hh. unfold QP.hashes. now apply in_map. }
    destruct (QR.sim_remove _ _ _ h HR) as [HR' _]. unfold QS.spec_remove in HR'.
    rewrite EX in HR'. cbn [fst] in HR'.
    assert (Eb : Q.qbytes (fst (Q.q_remove h (p_q st))) = Q.qbytes (p_q st) - t_size (txof (Q.ihash it))).
    { rewrite (QR.R_bytes _ _ _ HR'), (QR.R_bytes _ _ _ HR). rewrite <- Hh.
      rewrite QR.spec_bytes_remove; [|apply (QR.R_nodup _ _ _ HR)|exact Hin].
      rewrite Forall_forall in HI. destruct (HI _ Hin) as [Es _]. rewrite Es. reflexivity. }
    exists (QS.spec_remove_list h l), (lm_remove h G). split; [|split].
    + constructor; [exact HR'|]. apply Forall_forall. intros x Hx.
      apply filter_In in Hx as [Hx _]. rewrite Forall_forall in HI. auto.
    + constructor.
      * rewrite (lm_remove_filter _ _ ND). apply keys_filter_nodup. exact ND.
      * intros h'. rewrite (lm_remove_filter _ _ ND), spec_get_remove.
        destruct (N.eqb_spec h' h) as [E|E].
        -- subst. apply lm_get_filter_neqk_same.
        -- rewrite lm_get_filter_neqk_other by exact E. apply Hg.
    + assert (GG : lm_get h G = Some (conv txof it)) by (rewrite Hg, Gt; reflexivity).
      unfold cache_remove, as_state. cbn [s_q s_bytes s_acc s_last s_sh s_fee s_hdr].
      rewrite GG. unfold q_remove. rewrite GG. cbn [conv i_tx p_q p_acc p_last p_sh p_fee p_hdr].
      rewrite Eb. reflexivity.
  - exists l, G. split; [exact HQ|]. split; [exact HG|].
    rewrite cache_remove_none; [reflexivity|]. cbn [as_state s_q]. rewrite Hg, Gt. reflexivity.
Qed.

(** * txCache.Push on the view, when the queue's Push does not evict *)
Lemma psim_push sc sh txof c now t st l G :
  qlink sc txof c st l -> glink txof l G -> txof (t_h t) = t ->
  pev (pcache_push sc sh c now t st) = [] ->
  exists l' G', qlink sc txof c (pst (pcache_push sc sh c now t st)) l' /\ glink txof l' G'
    /\ as_state (pst (pcache_push sc sh c now t st)) G' = fst (cache_push sh c now t (as_state st G)).
Proof.
  intros HQ HG Et. pose proof HQ as [HR HI]. pose proof HG as [ND Hg].
  pose proof (glink_size txof l G (QR.R_nodup _ _ _ HR) HG) as Hsz.
  unfold pcache_push, cache_push, pst, pev.
  change (s_acc (as_state st G)) with (p_acc st).
  destruct (acc_can_push c t (p_acc st)); cbn [negb].
  2:{ intros _. exists l, G. auto. }
  change (s_q (as_state st G)) with G. change (s_bytes (as_state st G)) with (Q.qbytes (p_q st)).
  pose proof (qpush_cases _ _ _ (mk_item sc t now) HR) as Hc.
  destruct (Q.q_push (mk_item sc t now) (p_q st)) as [q' e] eqn:EP. cbn [fst snd] in Hc.
  change (Q.ihash (mk_item sc t now)) with (t_h t) in Hc.
  destruct Hc as [(He & Eu & Hrej & Hev)|[(He & Hroom & Hnin & HR' & Hev)|(He & _ & _ & rest & worst & _ & _ & _ & Hev)]].
  - (* rejected: both sides leave the state as it is *)
    intros _. subst q'. assert (Eok : err_ok e = false) by (destruct e; [congruence|reflexivity..]).
    rewrite Eok. cbn [negb fst]. rewrite set_q_id. exists l, G. split; [exact HQ|]. split; [exact HG|].
    unfold q_push. cbn [i_tx].
    destruct Hrej as [Hin|Hfull].
    + apply (glink_keys txof l G _ HG) in Hin. apply lm_exist_true in Hin. rewrite Hin. reflexivity.
    + destruct (lm_exist (t_h t) G); [reflexivity|].
      replace (c_qcap c <=? lm_size G) with true; [reflexivity|].
      symmetry. apply Z.leb_le. lia.
  - (* room *)
    intros _. subst e. cbn [err_ok negb].
    assert (HninG : ~ In (t_h t) (keys G)) by (intro Hx; apply Hnin; apply (glink_keys txof l G _ HG); exact Hx).
    unfold q_push. cbn [i_tx]. apply lm_exist_false in HninG. rewrite HninG.
    replace (c_qcap c <=? lm_size G) with false by (symmetry; apply Z.leb_gt; lia).
    cbn [N.eqb E_OK negb]. apply lm_exist_false in HninG.
    assert (Eb : Q.qbytes q' = Q.qbytes (p_q st) + t_size t).
    { rewrite (QR.R_bytes _ _ _ HR'), (QR.R_bytes _ _ _ HR), QP.spec_insert_bytes. reflexivity. }
    assert (HQ' : forall s', p_q s' = q' -> qlink sc txof c s' (QS.spec_insert (mk_item sc t now) l)).
    { intros s' Es. constructor; [rewrite Es; exact HR'|].
      apply forall_insert; [apply mk_item_ok; exact Et|exact HI]. }
    assert (HG' : glink txof (QS.spec_insert (mk_item sc t now) l) (lm_push (t_h t) (mkItem t now) G)).
    { rewrite lm_push_fresh by exact HninG. constructor.
      - rewrite keys_app. apply nodup_snoc; assumption.
      - intros h'. rewrite lm_get_app, spec_get_insert by exact Hnin.
        change (Q.ihash (mk_item sc t now)) with (t_h t).
        destruct (N.eqb_spec h' (t_h t)) as [E|E].
        + subst h'. apply lm_get_none_iff in HninG. rewrite HninG. cbn [lm_get]. rewrite N.eqb_refl.
          cbn [option_map]. unfold conv, mk_item, enter_of. cbn. rewrite Et, Z.opp_involutive. reflexivity.
        + rewrite Hg. destruct (QS.spec_get h' l); [reflexivity|]. cbn [option_map lm_get].
          destruct (N.eqb_spec h' (t_h t)); [contradiction|reflexivity]. }
    destruct (acc_push c t (t_h t) (p_acc st)) as [e2 acc'].
    exists (QS.spec_insert (mk_item sc t now) l), (lm_push (t_h t) (mkItem t now) G).
    destruct (negb (N.eqb e2 E_OK)); cbn [fst]; (split; [apply HQ'; reflexivity|]); (split; [exact HG'|]);
      unfold as_state; cbn [p_q p_acc p_last p_sh p_fee p_hdr s_last s_sh s_fee s_hdr]; rewrite Eb; reflexivity.
  - (* eviction: excluded *)
    subst e. cbn [err_ok negb]. destruct (acc_push c t (t_h t) (p_acc st)) as [e2 acc'].
    destruct (negb (N.eqb e2 E_OK)); cbn [snd]; rewrite Hev; discriminate.
Qed.

(** * the invariant *)
Definition pinv (sc : tx -> Z -> Z) (txof : N -> tx) (sh : N -> N) (c : config) (st : pstate) : Prop :=
  exists l G, qlink sc txof c st l /\ glink txof l G /\ consistent sh c (as_state st G).

Lemma pinv_init sc txof sh c : 1 <= c_peracc c -> pinv sc txof sh c (pinit c).
Proof.
  intros Hp. exists [], []. split; [apply qlink_init|]. split.
  - constructor; [constructor|]. intros h. reflexivity.
  - change (as_state (pinit c) []) with init. apply init_consistent. exact Hp.
Qed.

Lemma pinv_remove sc txof sh c h st : pinv sc txof sh c st -> pinv sc txof sh c (pcache_remove sh txof h st).
Proof.
  intros (l & G & HQ & HG & K).
  destruct (psim_remove sc sh txof c st l G h HQ HG) as (l' & G' & HQ' & HG' & E).
  exists l', G'. split; [exact HQ'|]. split; [exact HG'|]. rewrite E. apply cache_remove_consistent. exact K.
Qed.

Lemma pinv_remove_txs sc txof sh c hs : forall st,
  pinv sc txof sh c st -> pinv sc txof sh c (premove_txs sh txof hs st).
Proof.
  unfold premove_txs. induction hs as [|h tl IH]; intros st K; [exact K|].
  cbn [fold_left]. apply IH. apply pinv_remove. exact K.
Qed.

Lemma pinv_push sc txof sh c now t st :
  1 <= c_peracc c -> txof (t_h t) = t -> pinv sc txof sh c st ->
  pev (pcache_push sc sh c now t st) = [] -> pinv sc txof sh c (pst (pcache_push sc sh c now t st)).
Proof.
  intros Hp Et (l & G & HQ & HG & K) Hev.
  destruct (psim_push sc sh txof c now t st l G HQ HG Et Hev) as (l' & G' & HQ' & HG' & E).
  exists l', G'. split; [exact HQ'|]. split; [exact HG'|]. rewrite E. apply cache_push_consistent; assumption.
Qed.

Lemma pinv_set_hdr sc txof sh c h b st : pinv sc txof sh c st -> pinv sc txof sh c (pset_hdr h b st).
Proof.
  intros (l & G & HQ & HG & K). exists l, G. split; [eapply qlink_q; [|exact HQ]; reflexivity|].
  split; [exact HG|]. change (as_state (pset_hdr h b st) G) with (set_hdr h b (as_state st G)).
  apply set_hdr_consistent. exact K.
Qed.

Lemma del_f_snd sc sh txof c now a h :
  snd (del_f sc sh txof c now a h) =
    snd a ++ (if check_expire_valid now (hdr_state (fst a)) (txof h)
              then pev (pcache_push sc sh c now (txof h) (fst a)) else []).
Proof.
  unfold del_f, pev. destruct (check_expire_valid now (hdr_state (fst a)) (txof h)).
  - destruct (pcache_push sc sh c now (txof h) (fst a)) as [[s' e] ev]. reflexivity.
  - now rewrite app_nil_r.
Qed.

Lemma del_fold_grows sc sh txof c now hs : forall a,
  exists tail, snd (fold_left (del_f sc sh txof c now) hs a) = snd a ++ tail.
Proof.
  induction hs as [|h tl IH]; intros a; cbn [fold_left].
  - exists []. now rewrite app_nil_r.
  - destruct (IH (del_f sc sh txof c now a h)) as (t2 & E2).
    eexists. rewrite E2, del_f_snd, <- app_assoc. reflexivity.
Qed.

Lemma pinv_del_block sc txof sh c now hs : forall a,
  1 <= c_peracc c -> hash_table_ok txof -> pinv sc txof sh c (fst a) ->
  snd (fold_left (del_f sc sh txof c now) hs a) = [] ->
  pinv sc txof sh c (fst (fold_left (del_f sc sh txof c now) hs a)).
Proof.
  induction hs as [|h tl IH]; intros a Hp Ht K Hev; cbn [fold_left] in *; [exact K|].
  apply IH; [exact Hp|exact Ht| |exact Hev].
  destruct (del_fold_grows sc sh txof c now tl (del_f sc sh txof c now a h)) as (t2 & E2).
  rewrite E2 in Hev. apply app_eq_nil in Hev as [Hev _].
  rewrite del_f_snd in Hev. apply app_eq_nil in Hev as [_ Hev].
  rewrite del_f_fst. destruct (check_expire_valid now (hdr_state (fst a)) (txof h)); [|exact K].
  apply pinv_push; [exact Hp|rewrite Ht; reflexivity|exact K|exact Hev].
Qed.

Lemma pinv_step sc txof sh c st e :
  1 <= c_peracc c -> hash_table_ok txof -> pinv sc txof sh c st ->
  pev (pstep sc sh txof c st e) = [] -> pinv sc txof sh c (pst (pstep sc sh txof c st e)).
Proof.
  intros Hp Ht K. destruct e as [now h|hs|now|now hh b hs|now hh b hs]; cbn [pstep].
  - intros Hev. apply pinv_push; [exact Hp|rewrite Ht; reflexivity|exact K|exact Hev].
  - intros _. apply pinv_remove_txs. exact K.
  - intros _. unfold pst; cbn [fst]. unfold premove_expired. apply pinv_remove_txs. exact K.
  - intros _. set (st1 := if _ || _ then pset_hdr hh b st else st).
    assert (K1 : pinv sc txof sh c st1).
    { unfold st1. destruct (_ || _); [apply pinv_set_hdr|]; exact K. }
    destruct (0 <? Q.q_size (p_q st1)); unfold pst; cbn [fst]; [|exact K1].
    unfold premove_expired. apply pinv_remove_txs. apply pinv_remove_txs. exact K1.
  - rewrite pdel_block_unfold. intros Hev.
    pose proof (pinv_del_block sc txof sh c now hs (pset_hdr hh b st, []) Hp Ht) as HD.
    cbn [fst] in HD. specialize (HD (pinv_set_hdr sc txof sh c hh b st K)).
    destruct (fold_left (del_f sc sh txof c now) hs (pset_hdr hh b st, [])) as [s' ev].
    unfold pev, pst in *. cbn [fst snd] in *. apply HD. exact Hev.
Qed.

Lemma pinv_run_states sc txof sh c es : forall st,
  1 <= c_peracc c -> hash_table_ok txof -> pinv sc txof sh c st ->
  forallb no_evict (pevictions sc sh txof c st es) = true ->
  Forall (pinv sc txof sh c) (prun_states sc sh txof c st es).
Proof.
  induction es as [|e tl IH]; intros st Hp Ht K Hev; cbn [prun_states pevictions forallb] in *; constructor;
    apply andb_true_iff in Hev as [H1 H2];
    assert (E : pev (pstep sc sh txof c st e) = [])
      by (destruct (pev (pstep sc sh txof c st e)); [reflexivity|discriminate]).
  - apply pinv_step; assumption.
  - apply IH; [exact Hp|exact Ht| |exact H2]. apply pinv_step; assumption.
Qed.

Lemma pinv_run sc txof sh c es : forall st,
  1 <= c_peracc c -> hash_table_ok txof -> pinv sc txof sh c st ->
  forallb no_evict (pevictions sc sh txof c st es) = true ->
  pinv sc txof sh c (prun sc sh txof c st es).
Proof.
  unfold prun. induction es as [|e tl IH]; intros st Hp Ht K Hev; cbn [fold_left pevictions forallb] in *; [exact K|].
  apply andb_true_iff in Hev as [H1 H2].
  assert (E : pev (pstep sc sh txof c st e) = [])
    by (destruct (pev (pstep sc sh txof c st e)); [reflexivity|discriminate]).
  apply IH; [exact Hp|exact Ht| |exact H2]. apply pinv_step; assumption.
Qed.

(** * the user-facing statement: some arrival order of the Walk satisfies [consistent] *)
Definition arrival_of (txof : N -> tx) (st : pstate) (G : lm item) : Prop :=
  Permutation (keys G) (map Q.ihash (pwalk st))
  /\ Forall (fun p => i_tx (snd p) = txof (fst p)) G.

Definition pconsistent (txof : N -> tx) (sh : N -> N) (c : config) (st : pstate) : Prop :=
  exists G, arrival_of txof st G /\ consistent sh c (as_state st G).

Lemma qlink_walk sc txof c st l : qlink sc txof c st l -> pwalk st = l.
Proof. intros [HR _]. unfold pwalk. rewrite QH.walk0_contents. apply (QR.R_cont _ _ _ HR). Qed.

Lemma pinv_pconsistent sc txof sh c st : pinv sc txof sh c st -> pconsistent txof sh c st.
Proof.
  intros (l & G & HQ & HG & K). exists G. split; [|exact K]. split.
  - rewrite (qlink_walk _ _ _ _ _ HQ). apply (glink_perm txof l G); [|exact HG].
    apply (QR.R_nodup _ _ _ (ql_R _ _ _ _ _ HQ)).
  - apply Forall_forall. intros [h it] Hi. cbn [fst snd]. eapply glink_tx; eauto.
Qed.
