(** C21 — txCache (system/mempool/cache.go) and the Mempool event handlers over an
    ARBITRARY QueueCache.

    cache.go talks to the queue only through the QueueCache interface
    (Exist/GetItem/Push/Remove/Size/Walk/GetCacheBytes; "this interface can be
    extended").  Here the queue is a record of operations on an abstract state
    type; everything else is the code of Model.v with the SimpleQueue calls
    replaced by these operations.  What the operations must satisfy for the
    bookkeeping to stay consistent is the [contract] of QueueProofs.v.
    No proofs here. *)
From Coq Require Import List ZArith NArith Bool.
From C33 Require Import C21.Model.
Import ListNotations.
Open Scope Z_scope.

Record qops (QT : Type) := mkQops {
  qo_new : QT;                          (* the queue a fresh pool starts with *)
  qo_push : item -> QT -> QT * N;       (* Push: new queue, error class (E_OK = nil) *)
  qo_remove : N -> QT -> QT;            (* Remove(hash); its error is only logged by txCache *)
  qo_get : N -> QT -> option item;      (* GetItem(hash) / Exist(hash) *)
  qo_size : QT -> Z;                    (* Size *)
  qo_bytes : QT -> Z;                   (* GetCacheBytes *)
  qo_walk : QT -> list item             (* Walk(0, ..): every item, in the queue's order *)
}.
Arguments qo_new {QT}. Arguments qo_push {QT}. Arguments qo_remove {QT}. Arguments qo_get {QT}.
Arguments qo_size {QT}. Arguments qo_bytes {QT}. Arguments qo_walk {QT}.

Section Generic.
  Context {QT : Type}.
  Variable o : qops QT.

  Record gstate := mkGs {
    g_q : QT;
    g_acc : lm (lm tx);
    g_last : lm tx;
    g_sh : lm tx;
    g_fee : Z;
    g_hdr : option (Z * Z)
  }.

  Definition ginit : gstate := mkGs (qo_new o) [] [] [] 0 None.

  Definition gset_q (q : QT) (st : gstate) : gstate :=
    mkGs q (g_acc st) (g_last st) (g_sh st) (g_fee st) (g_hdr st).

  (** txCache.Push *)
  Definition gcache_push (sh : N -> N) (c : config) (now : Z) (t : tx) (st : gstate) : gstate * N :=
    if negb (acc_can_push c t (g_acc st)) then (st, E_MANYTX)
    else
      let h := t_h t in
      match qo_push o (mkItem t now) (g_q st) with
      | (q', e) =>
          if negb (N.eqb e E_OK) then (gset_q q' st, e)
          else
            match acc_push c t h (g_acc st) with
            | (e2, acc') =>
                if negb (N.eqb e2 E_OK)
                then (mkGs q' acc' (g_last st) (g_sh st) (g_fee st) (g_hdr st), e2)
                else (mkGs q' acc' (last_push c t h (g_last st)) (sh_push sh c t h (g_sh st))
                           (g_fee st + t_fee t) (g_hdr st), E_OK)
            end
      end.

  (** txCache.Remove *)
  Definition gcache_remove (sh : N -> N) (h : N) (st : gstate) : gstate :=
    match qo_get o h (g_q st) with
    | None => st
    | Some it =>
        let t := i_tx it in
        mkGs (qo_remove o h (g_q st)) (acc_remove t h (g_acc st)) (lm_remove h (g_last st))
             (sh_remove sh h (g_sh st)) (g_fee st - t_fee t) (g_hdr st)
    end.

  Definition gremove_txs (sh : N -> N) (hs : list N) (st : gstate) : gstate :=
    fold_left (fun s h => gcache_remove sh h s) hs st.

  (** removeExpiredTx collects in Walk order *)
  Definition gexpired_hashes (c : config) (now height blocktime : Z) (q : QT) : list N :=
    map (fun it => t_h (i_tx it)) (filter (is_expired c now height blocktime) (qo_walk o q)).

  (** the header-only view, to reuse hdr_height / mem_height / check_expire_valid *)
  Definition ghdr_state (st : gstate) : state := mkSt [] 0 [] [] [] 0 (g_hdr st).

  Definition gset_hdr (h b : Z) (st : gstate) : gstate :=
    mkGs (g_q st) (g_acc st) (g_last st) (g_sh st) (g_fee st) (Some (h, b)).

  Definition gremove_expired (sh : N -> N) (c : config) (now : Z) (st : gstate) : gstate :=
    gremove_txs sh
      (gexpired_hashes c now (hdr_height (ghdr_state st) + 1) (hdr_time (ghdr_state st)) (g_q st)) st.

  Definition gdel_block (sh : N -> N) (c : config) (now : Z) (ts : list tx) (st : gstate) : gstate :=
    fold_left (fun s t => if check_expire_valid now (ghdr_state s) t
                          then fst (gcache_push sh c now t s) else s) ts st.

  (** the events of Model.v *)
  Definition gstep (sh : N -> N) (c : config) (st : gstate) (e : event) : gstate * N :=
    match e with
    | EPush now t => gcache_push sh c now t st
    | ERemove hs => (gremove_txs sh hs st, E_OK)
    | EExpire now => (gremove_expired sh c now st, E_OK)
    | EAddBlock now h b hs =>
        let height := mem_height (ghdr_state st) in
        let st1 := if (height <? h) || ((h =? 0) && (height =? 0)) then gset_hdr h b st else st in
        if 0 <? qo_size o (g_q st1)
        then (gremove_expired sh c now (gremove_txs sh hs st1), E_OK)
        else (st1, E_OK)
    | EDelBlock now h b ts => (gdel_block sh c now ts (gset_hdr h b st), E_OK)
    end.

  Definition grun (sh : N -> N) (c : config) (st : gstate) (es : list event) : gstate :=
    fold_left (fun s e => fst (gstep sh c s e)) es st.

  Fixpoint grun_states (sh : N -> N) (c : config) (st : gstate) (es : list event) : list gstate :=
    match es with
    | [] => []
    | e :: tl => let st' := fst (gstep sh c st e) in st' :: grun_states sh c st' tl
    end.
End Generic.

(** * SimpleQueue as such a record (simplequeue.go, as in Model.v) *)
Definition simple_ops (c : config) : qops (lm item * Z) :=
  mkQops (lm item * Z)%type ([], 0)
    (fun it qb => match q_push c it (fst qb) (snd qb) with (e, q', b') => ((q', b'), e) end)
    (fun h qb => q_remove h (fst qb) (snd qb))
    (fun h qb => lm_get h (fst qb))
    (fun qb => lm_size (fst qb))
    (fun qb => snd qb)
    (fun qb => map snd (fst qb)).
