(** C21 — the QueueCache contract under which txCache's bookkeeping stays
    consistent, for every history and every queue satisfying it.

    [contract c o ok] ([ok] = the queue's own representation invariant):
    - a fresh queue is empty; Walk lists no hash twice; GetItem/Exist, Size and
      GetCacheBytes agree with the Walk; Size <= capacity;
    - Push answering an error leaves the queue as it was;
    - a successful Push adds exactly the pushed item (whose hash was absent) and
      REMOVES NOTHING (the Walk afterwards is a permutation of item :: Walk);
    - Remove removes exactly the named item.
    The order of the Walk is unconstrained.  [arrival_ordered]: Push appends and
    Remove keeps the order (SimpleQueue) — then the Walk itself is the arrival
    order.

    Technique: the pool [st] is viewed as the state [gas_state st G] of the
    arrival-ordered model (Model.v), [G] = the pooled items in arrival order
    (ghost), a permutation of the Walk; every operation is the corresponding
    operation of Model.v on the view, so [consistent] (ProofsInv.v) carries over. *)
From Coq Require Import List ZArith NArith Bool Lia Permutation.
From C33 Require Import C21.Model C21.Spec C21.ProofsLm C21.ProofsInv C21.ProofsMain C21.QueueModel.
Import ListNotations.
Open Scope Z_scope.

Definition ihash (it : item) : N := t_h (i_tx it).
Definition hashb (h : N) (it : item) : bool := N.eqb (ihash it) h.
Definition isz (it : item) : Z := t_size (i_tx it).
Definition keyed_of (w : list item) : lm item := map (fun it => (ihash it, it)) w.

Record contract {QT : Type} (c : config) (o : qops QT) (ok : QT -> Prop) : Prop := mkContract {
  ct_new : ok (qo_new o) /\ qo_walk o (qo_new o) = [];
  ct_nodup : forall q, ok q -> NoDup (map ihash (qo_walk o q));
  ct_get : forall q h, ok q -> qo_get o h q = find (hashb h) (qo_walk o q);
  ct_size : forall q, ok q -> qo_size o q = Z.of_nat (length (qo_walk o q));
  ct_bytes : forall q, ok q -> qo_bytes o q = sum_z (map isz (qo_walk o q));
  ct_cap : forall q, ok q -> qo_size o q <= Z.max 0 (c_qcap c);
  ct_push_err : forall q it, ok q -> snd (qo_push o it q) <> E_OK -> fst (qo_push o it q) = q;
  ct_push_ok : forall q it, ok q -> snd (qo_push o it q) = E_OK ->
      ok (fst (qo_push o it q))
      /\ ~ In (ihash it) (map ihash (qo_walk o q))
      /\ Permutation (qo_walk o (fst (qo_push o it q))) (it :: qo_walk o q);
  ct_remove : forall q h, ok q ->
      ok (qo_remove o h q)
      /\ Permutation (qo_walk o (qo_remove o h q)) (filter (fun it => negb (hashb h it)) (qo_walk o q))
}.

Definition arrival_ordered {QT : Type} (o : qops QT) (ok : QT -> Prop) : Prop :=
  (forall q it, ok q -> snd (qo_push o it q) = E_OK ->
     qo_walk o (fst (qo_push o it q)) = qo_walk o q ++ [it])
  /\ (forall q h, ok q ->
     qo_walk o (qo_remove o h q) = filter (fun it => negb (hashb h it)) (qo_walk o q)).

(** * list facts *)
Lemma perm_filter {A} (f : A -> bool) l l' : Permutation l l' -> Permutation (filter f l) (filter f l').
Proof.
  induction 1 as [|x l l' _ IH|x y l|l l' l'' _ IH1 _ IH2]; cbn.
  - constructor.
  - destruct (f x); [constructor|]; exact IH.
  - destruct (f x), (f y); try apply Permutation_refl. apply perm_swap.
  - eapply perm_trans; eassumption.
Qed.

Lemma sum_perm (l l' : list Z) : Permutation l l' -> sum_z l = sum_z l'.
Proof. unfold sum_z. induction 1; cbn in *; lia. Qed.

Lemma sum_partition {A} (f : A -> Z) (p : A -> bool) l :
  sum_z (map f l) = sum_z (map f (filter p l)) + sum_z (map f (filter (fun x => negb (p x)) l)).
Proof. unfold sum_z. induction l as [|x l IH]; cbn in *; [reflexivity|]. destruct (p x); cbn in *; lia. Qed.

Lemma filter_hash_nil h l : ~ In h (map ihash l) -> filter (hashb h) l = [].
Proof.
  induction l as [|y l IH]; cbn; intros H; [reflexivity|].
  destruct (hashb h y) eqn:E.
  - exfalso. apply H. left. unfold hashb in E. apply N.eqb_eq in E. exact E.
  - apply IH. intro Hx. apply H. right. exact Hx.
Qed.

Lemma find_filter_single h l it :
  NoDup (map ihash l) -> find (hashb h) l = Some it -> filter (hashb h) l = [it].
Proof.
  induction l as [|x l IH]; cbn; intros ND F; [discriminate|].
  inversion ND as [|? ? Hn ND']; subst.
  destruct (hashb h x) eqn:E.
  - inversion F; subst. f_equal. apply filter_hash_nil.
    unfold hashb in E. apply N.eqb_eq in E. rewrite <- E. exact Hn.
  - apply IH; assumption.
Qed.

Lemma lm_remove_absent {V} h (l : lm V) : ~ In h (keys l) -> lm_remove h l = l.
Proof.
  induction l as [|[k v] l IH]; cbn; intros H; [reflexivity|].
  destruct (N.eqb_spec h k) as [E|E]; [exfalso; apply H; left; congruence|].
  f_equal. apply IH. intro; apply H; right; assumption.
Qed.

Definition hkeyed (G : lm item) : Prop := Forall (fun p => fst p = ihash (snd p)) G.

Lemma keyed_filter_snd h G :
  hkeyed G -> map snd (filter (neqk h) G) = filter (fun it => negb (hashb h it)) (map snd G).
Proof.
  induction 1 as [|[k it] G Hk _ IH]; cbn [map filter snd]; [reflexivity|]. cbn in Hk. subst k.
  unfold neqk at 1, hashb at 1. cbn [fst]. destruct (negb (N.eqb (ihash it) h)); cbn [map snd]; rewrite IH; reflexivity.
Qed.

Lemma keyed_of_keyed w : hkeyed (keyed_of w).
Proof. unfold hkeyed, keyed_of. apply Forall_forall. intros p Hp. apply in_map_iff in Hp as (x & <- & _). reflexivity. Qed.

Lemma keyed_of_snd w : map snd (keyed_of w) = w.
Proof. unfold keyed_of. rewrite map_map. cbn. apply map_id. Qed.

Lemma keyed_of_keys w : keys (keyed_of w) = map ihash w.
Proof. unfold keys, keyed_of. rewrite map_map. reflexivity. Qed.

Lemma keyed_of_filter h w :
  filter (neqk h) (keyed_of w) = keyed_of (filter (fun it => negb (hashb h it)) w).
Proof.
  unfold keyed_of. induction w as [|x w IH]; cbn [map filter]; [reflexivity|].
  unfold neqk at 1, hashb at 1. cbn [fst]. destruct (negb (N.eqb (ihash x) h)); cbn [map]; rewrite IH; reflexivity.
Qed.

Lemma keyed_of_app a b : keyed_of (a ++ b) = keyed_of a ++ keyed_of b.
Proof. unfold keyed_of. apply map_app. Qed.

Section Proofs.
  Context {QT : Type}.
  Variable o : qops QT.
  Variable ok : QT -> Prop.
  Variable c : config.
  Variable sh : N -> N.
  Hypothesis CT : contract c o ok.

  Definition gas_state (st : gstate) (G : lm item) : state :=
    mkSt G (qo_bytes o (g_q st)) (g_acc st) (g_last st) (g_sh st) (g_fee st) (g_hdr st).

  Record glnk (q : QT) (G : lm item) : Prop := mkGlnk {
    gk_nodup : NoDup (keys G);
    gk_keyed : hkeyed G;
    gk_perm : Permutation (map snd G) (qo_walk o q)
  }.

  Lemma glnk_in q G h it : glnk q G -> (In (h, it) G <-> In it (qo_walk o q) /\ ihash it = h).
  Proof.
    intros [ND HK HP]. split.
    - intros Hi. split.
      + apply (Permutation_in _ HP). apply in_map_iff. exists (h, it). auto.
      + unfold hkeyed in HK. rewrite Forall_forall in HK. specialize (HK _ Hi). cbn in HK. congruence.
    - intros [Hi Hh]. apply (Permutation_in _ (Permutation_sym HP)) in Hi.
      apply in_map_iff in Hi as ([k x] & Ex & Hx). cbn in Ex. subst x.
      unfold hkeyed in HK. rewrite Forall_forall in HK. pose proof (HK _ Hx) as E. cbn in E. congruence.
  Qed.

  Lemma glnk_get q G h : ok q -> glnk q G -> lm_get h G = find (hashb h) (qo_walk o q).
  Proof.
    intros Hok HL. destruct (find (hashb h) (qo_walk o q)) as [it|] eqn:F.
    - apply find_some in F as [Hi Hh]. apply N.eqb_eq in Hh.
      apply lm_in_get; [apply (gk_nodup _ _ HL)|]. apply (glnk_in q G h it HL). auto.
    - destruct (lm_get h G) as [it|] eqn:E; [|reflexivity]. exfalso.
      apply lm_get_in in E. apply (glnk_in q G h it HL) in E as [Hi Hh].
      pose proof (find_none _ _ F _ Hi) as Hf. unfold hashb in Hf. apply N.eqb_neq in Hf. contradiction.
  Qed.

  Lemma glnk_size q G : ok q -> glnk q G -> lm_size G = qo_size o q.
  Proof.
    intros Hok [_ _ HP]. rewrite (ct_size _ _ _ CT q Hok). unfold lm_size. f_equal.
    rewrite <- (Permutation_length HP). now rewrite map_length.
  Qed.

  Lemma glnk_keys q G h : glnk q G -> (In h (keys G) <-> In h (map ihash (qo_walk o q))).
  Proof.
    intros HL. split.
    - intros Hi. apply in_map_iff in Hi as ([k it] & E & Hi). cbn in E. subst k.
      apply (glnk_in q G h it HL) in Hi as [Hi Hh]. apply in_map_iff. exists it. auto.
    - intros Hi. apply in_map_iff in Hi as (it & E & Hi).
      eapply in_keys. apply (glnk_in q G h it HL). auto.
  Qed.

  (** ** Remove on the view *)
  Lemma gsim_remove st G h :
    ok (g_q st) -> glnk (g_q st) G ->
    ok (g_q (gcache_remove o sh h st))
    /\ glnk (g_q (gcache_remove o sh h st)) (lm_remove h G)
    /\ gas_state (gcache_remove o sh h st) (lm_remove h G) = cache_remove sh h (gas_state st G).
  Proof.
    intros Hok HL. pose proof HL as [ND HK HP].
    pose proof (glnk_get _ _ h Hok HL) as EG.
    unfold gcache_remove. rewrite (ct_get _ _ _ CT _ h Hok).
    destruct (find (hashb h) (qo_walk o (g_q st))) as [it|] eqn:F.
    - destruct (ct_remove _ _ _ CT (g_q st) h Hok) as [Hok' HP'].
      cbn [g_q]. split; [exact Hok'|]. split.
      + rewrite (lm_remove_filter _ _ ND). constructor.
        * apply keys_filter_nodup. exact ND.
        * unfold hkeyed in *. apply Forall_forall. intros p Hp. apply filter_In in Hp as [Hp _].
          rewrite Forall_forall in HK. auto.
        * rewrite (keyed_filter_snd h G HK). eapply perm_trans; [|apply Permutation_sym; exact HP'].
          apply perm_filter. exact HP.
      + assert (Eb : qo_bytes o (qo_remove o h (g_q st)) = qo_bytes o (g_q st) - t_size (i_tx it)).
        { rewrite (ct_bytes _ _ _ CT _ Hok'), (ct_bytes _ _ _ CT _ Hok).
          rewrite (sum_perm _ _ (Permutation_map isz HP')).
          rewrite (sum_partition isz (hashb h) (qo_walk o (g_q st))).
          rewrite (find_filter_single h _ it (ct_nodup _ _ _ CT _ Hok) F).
          unfold sum_z. cbn [map fold_right]. unfold isz. lia. }
        unfold cache_remove, gas_state. cbn [s_q s_bytes s_acc s_last s_sh s_fee s_hdr].
        rewrite EG. unfold q_remove. rewrite EG. cbn [g_q g_acc g_last g_sh g_fee g_hdr]. rewrite Eb. reflexivity.
    - split; [exact Hok|]. assert (Hn : ~ In h (keys G)) by (apply lm_get_none_iff; exact EG).
      rewrite (lm_remove_absent h G Hn). split; [exact HL|].
      rewrite cache_remove_none; [reflexivity|exact EG].
  Qed.

  (** ** Push on the view: the state is unchanged, or it is Model.v's Push *)
  Lemma gsim_push st G now t :
    ok (g_q st) -> glnk (g_q st) G ->
    let st' := fst (gcache_push o sh c now t st) in
    (st' = st)
    \/ (snd (qo_push o (mkItem t now) (g_q st)) = E_OK
        /\ g_q st' = fst (qo_push o (mkItem t now) (g_q st))
        /\ ok (g_q st') /\ glnk (g_q st') (lm_push (t_h t) (mkItem t now) G)
        /\ gas_state st' (lm_push (t_h t) (mkItem t now) G) = fst (cache_push sh c now t (gas_state st G))).
  Proof.
    intros Hok HL st'. subst st'. pose proof HL as [ND HK HP].
    unfold gcache_push, cache_push. change (s_acc (gas_state st G)) with (g_acc st).
    destruct (acc_can_push c t (g_acc st)); cbn [negb]; [|left; reflexivity].
    destruct (qo_push o (mkItem t now) (g_q st)) as [q' e] eqn:EP.
    destruct (N.eqb_spec e E_OK) as [Ee|Ee]; cbn [negb fst snd].
    2:{ left. pose proof (ct_push_err _ _ _ CT (g_q st) (mkItem t now) Hok) as Hu.
        rewrite EP in Hu. cbn [fst snd] in Hu. rewrite (Hu Ee). destruct st; reflexivity. }
    right. subst e. split; [reflexivity|].
    destruct (ct_push_ok _ _ _ CT (g_q st) (mkItem t now) Hok) as (Hok' & Hnin & HP'); [rewrite EP; reflexivity|].
    rewrite EP in Hok', HP'. cbn [fst] in Hok', HP'. change (ihash (mkItem t now)) with (t_h t) in Hnin.
    assert (HnG : ~ In (t_h t) (keys G)) by (intro Hx; apply Hnin; apply (glnk_keys _ _ _ HL); exact Hx).
    assert (Hsz : lm_size G < c_qcap c).
    { pose proof (ct_cap _ _ _ CT q' Hok') as Hc. rewrite (ct_size _ _ _ CT q' Hok') in Hc.
      rewrite (Permutation_length HP') in Hc. cbn [length] in Hc.
      rewrite (glnk_size _ _ Hok HL), (ct_size _ _ _ CT _ Hok). lia. }
    assert (Eb : qo_bytes o q' = qo_bytes o (g_q st) + t_size t).
    { rewrite (ct_bytes _ _ _ CT _ Hok'), (ct_bytes _ _ _ CT _ Hok).
      rewrite (sum_perm _ _ (Permutation_map isz HP')).
      unfold sum_z. cbn [map fold_right]. unfold isz. cbn [i_tx]. lia. }
    assert (HL' : glnk q' (lm_push (t_h t) (mkItem t now) G)).
    { rewrite lm_push_fresh by exact HnG. constructor.
      - rewrite keys_app. apply nodup_snoc; assumption.
      - unfold hkeyed in *. apply Forall_app. split; [exact HK|]. constructor; [reflexivity|constructor].
      - rewrite map_app. cbn [map snd]. eapply perm_trans; [|apply Permutation_sym; exact HP'].
        eapply perm_trans; [apply Permutation_app_comm|]. cbn. constructor. exact HP. }
    change (s_q (gas_state st G)) with G. change (s_bytes (gas_state st G)) with (qo_bytes o (g_q st)).
    unfold q_push. cbn [i_tx]. pose proof HnG as HnG2. apply lm_exist_false in HnG2. rewrite HnG2.
    replace (c_qcap c <=? lm_size G) with false by (symmetry; apply Z.leb_gt; exact Hsz).
    cbn [N.eqb E_OK negb].
    destruct (acc_push c t (t_h t) (g_acc st)) as [e2 acc'].
    destruct (negb (N.eqb e2 E_OK)); cbn [fst g_q]; (split; [reflexivity|]); (split; [exact Hok'|]);
      (split; [exact HL'|]); unfold gas_state; cbn [g_q g_acc g_last g_sh g_fee g_hdr s_last s_sh s_fee s_hdr];
      rewrite Eb; reflexivity.
  Qed.

  (** ** the invariant *)
  Definition ginv (st : gstate) : Prop :=
    ok (g_q st)
    /\ exists G, glnk (g_q st) G /\ consistent sh c (gas_state st G)
                 /\ (arrival_ordered o ok -> G = keyed_of (qo_walk o (g_q st))).

  Lemma ginv_init : 1 <= c_peracc c -> ginv (ginit o).
  Proof.
    intros Hp. destruct (ct_new _ _ _ CT) as [Hok Hw]. split; [exact Hok|]. exists []. split; [|split].
    - constructor; cbn; [constructor|constructor|]. cbn [ginit g_q]. rewrite Hw. constructor.
    - pose proof (ct_bytes _ _ _ CT _ Hok) as Eb. rewrite Hw in Eb. cbn in Eb.
      unfold gas_state, ginit. cbn [g_q g_acc g_last g_sh g_fee g_hdr]. rewrite Eb.
      apply init_consistent. exact Hp.
    - intros _. cbn [ginit g_q]. rewrite Hw. reflexivity.
  Qed.

  Lemma ginv_remove h st : ginv st -> ginv (gcache_remove o sh h st).
  Proof.
    intros (Hok & G & HL & K & HA).
    destruct (gsim_remove st G h Hok HL) as (Hok' & HL' & E).
    split; [exact Hok'|]. exists (lm_remove h G). split; [exact HL'|]. split.
    - rewrite E. apply cache_remove_consistent. exact K.
    - intros AO. specialize (HA AO). subst G. destruct AO as [_ AR].
      unfold gcache_remove. rewrite (ct_get _ _ _ CT _ h Hok).
      destruct (find (hashb h) (qo_walk o (g_q st))) as [it|] eqn:F; cbn [g_q].
      + rewrite (AR _ h Hok). rewrite (lm_remove_filter _ _ (gk_nodup _ _ HL)). apply keyed_of_filter.
      + apply lm_remove_absent. rewrite keyed_of_keys. intros Hi.
        apply in_map_iff in Hi as (x & Ex & Hx). pose proof (find_none _ _ F _ Hx) as Hf.
        unfold hashb in Hf. apply N.eqb_neq in Hf. contradiction.
  Qed.

  Lemma ginv_remove_txs hs : forall st, ginv st -> ginv (gremove_txs o sh hs st).
  Proof.
    unfold gremove_txs. induction hs as [|h tl IH]; intros st K; [exact K|].
    cbn [fold_left]. apply IH. apply ginv_remove. exact K.
  Qed.

  Lemma ginv_push now t st : 1 <= c_peracc c -> ginv st -> ginv (fst (gcache_push o sh c now t st)).
  Proof.
    intros Hp (Hok & G & HL & K & HA).
    destruct (gsim_push st G now t Hok HL) as [E|(Ee & Eq & Hok' & HL' & E)].
    - rewrite E. split; [exact Hok|]. exists G. auto.
    - split; [exact Hok'|]. exists (lm_push (t_h t) (mkItem t now) G). split; [exact HL'|]. split.
      + rewrite E. apply cache_push_consistent; assumption.
      + intros AO. specialize (HA AO). subst G. destruct AO as [AP _].
        rewrite Eq, (AP _ _ Hok Ee), keyed_of_app.
        apply lm_push_fresh. intros Hx.
        destruct (ct_push_ok _ _ _ CT (g_q st) (mkItem t now) Hok Ee) as (_ & Hnin & _).
        apply Hnin. rewrite keyed_of_keys in Hx. exact Hx.
  Qed.

  Lemma ginv_hdr h b st : ginv st -> ginv (gset_hdr h b st).
  Proof.
    intros (Hok & G & HL & K & HA). split; [exact Hok|]. exists G. split; [exact HL|]. split; [|exact HA].
    change (gas_state (gset_hdr h b st) G) with (set_hdr h b (gas_state st G)).
    apply set_hdr_consistent. exact K.
  Qed.

  Lemma ginv_del_block now ts : forall st, 1 <= c_peracc c -> ginv st -> ginv (gdel_block o sh c now ts st).
  Proof.
    unfold gdel_block. induction ts as [|t tl IH]; intros st Hp K; [exact K|].
    cbn [fold_left]. apply IH; [exact Hp|].
    destruct (check_expire_valid now (ghdr_state st) t); [|exact K]. apply ginv_push; assumption.
  Qed.

  Lemma ginv_step st e : 1 <= c_peracc c -> ginv st -> ginv (fst (gstep o sh c st e)).
  Proof.
    intros Hp K. destruct e as [now t|hs|now|now h b hs|now h b ts]; cbn [gstep].
    - apply ginv_push; assumption.
    - cbn [fst]. apply ginv_remove_txs. exact K.
    - cbn [fst]. unfold gremove_expired. apply ginv_remove_txs. exact K.
    - set (st1 := if _ || _ then gset_hdr h b st else st).
      assert (K1 : ginv st1) by (unfold st1; destruct (_ || _); [apply ginv_hdr|]; exact K).
      destruct (0 <? qo_size o (g_q st1)); cbn [fst]; [|exact K1].
      unfold gremove_expired. apply ginv_remove_txs. apply ginv_remove_txs. exact K1.
    - cbn [fst]. apply ginv_del_block; [exact Hp|]. apply ginv_hdr. exact K.
  Qed.

  Lemma ginv_run es : forall st, 1 <= c_peracc c -> ginv st -> ginv (grun o sh c st es).
  Proof.
    unfold grun. induction es as [|e tl IH]; intros st Hp K; [exact K|].
    cbn [fold_left]. apply IH; [exact Hp|]. apply ginv_step; assumption.
  Qed.

  Lemma ginv_run_states es : forall st, 1 <= c_peracc c -> ginv st -> Forall ginv (grun_states o sh c st es).
  Proof.
    induction es as [|e tl IH]; intros st Hp K; cbn [grun_states]; constructor.
    - apply ginv_step; assumption.
    - apply IH; [exact Hp|]. apply ginv_step; assumption.
  Qed.

  (** ** what the invariant says *)
  Definition gconsistent (st : gstate) : Prop :=
    exists G, Permutation (map snd G) (qo_walk o (g_q st)) /\ consistent sh c (gas_state st G).

  Lemma ginv_gconsistent st : ginv st -> gconsistent st.
  Proof. intros (_ & G & HL & K & _). exists G. split; [apply (gk_perm _ _ HL)|exact K]. Qed.

  Lemma ginv_arrival st :
    arrival_ordered o ok -> ginv st -> consistent sh c (gas_state st (keyed_of (qo_walk o (g_q st)))).
  Proof. intros AO (_ & G & _ & K & HA). rewrite <- (HA AO). exact K. Qed.
End Proofs.

Lemma contract_all_histories {QT} (o : qops QT) ok sh c es :
  1 <= c_peracc c -> contract c o ok ->
  gconsistent o c sh (grun o sh c (ginit o) es)
  /\ Forall (gconsistent o c sh) (grun_states o sh c (ginit o) es).
Proof.
  intros Hp CT. split.
  - apply (ginv_gconsistent o ok). apply ginv_run; auto. apply ginv_init; auto.
  - eapply Forall_impl; [intros s; apply (ginv_gconsistent o ok)|].
    apply ginv_run_states; auto. apply ginv_init; auto.
Qed.

Lemma contract_ok_all_histories {QT} (o : qops QT) ok sh c es :
  1 <= c_peracc c -> contract c o ok -> ok (g_q (grun o sh c (ginit o) es)).
Proof.
  intros Hp CT. assert (K : ginv o ok c sh (grun o sh c (ginit o) es)).
  { apply ginv_run; auto. apply ginv_init; auto. }
  destruct K as [Hok _]. exact Hok.
Qed.

Lemma contract_arrival_all_histories {QT} (o : qops QT) ok sh c es :
  1 <= c_peracc c -> contract c o ok -> arrival_ordered o ok ->
  Forall (fun st => consistent sh c (gas_state o st (keyed_of (qo_walk o (g_q st)))))
         (grun o sh c (ginit o) es :: grun_states o sh c (ginit o) es).
Proof.
  intros Hp CT AO. constructor.
  - eapply ginv_arrival; [exact AO|]. apply ginv_run; auto. apply ginv_init; auto.
  - eapply Forall_impl; [intros s Hs; eapply ginv_arrival; [exact AO|exact Hs]|].
    apply ginv_run_states; auto. apply ginv_init; auto.
Qed.
