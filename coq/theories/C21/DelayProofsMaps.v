(** C21 — the two maps of the delayed-transaction cache against the flat
    specification: the simulation relation and its preservation by add. *)
From Coq Require Import List ZArith NArith Bool Lia Permutation Sorted.
From C33 Require Import C21.Model C21.Spec C21.DelayModel C21.DelaySpec.
Import ListNotations.
Open Scope Z_scope.

Definition zkeys {V} (m : list (Z * V)) : list Z := map fst m.
Definition hkeys (m : list (N * Z)) : list N := map fst m.

(** * association lists keyed by Z *)
Lemma zget_in_keys {V} k (m : list (Z * V)) v : zget k m = Some v -> In k (zkeys m).
Proof.
  induction m as [|[k' v'] m IH]; cbn; [discriminate|].
  destruct (Z.eqb_spec k k'); [left; congruence|right; auto].
Qed.

Lemma zget_none {V} k (m : list (Z * V)) : zget k m = None <-> ~ In k (zkeys m).
Proof.
  induction m as [|[k' v'] m IH]; cbn; [tauto|].
  destruct (Z.eqb_spec k k') as [E|E]; split; intros H.
  - discriminate.
  - exfalso. apply H. left. congruence.
  - intros [E2|E2]; [congruence|]. apply IH in H. contradiction.
  - apply IH. intro. apply H. right. assumption.
Qed.

Lemma zget_zappend k e h m :
  zget k (zappend e h m) =
    if k =? e then Some ((match zget e m with Some l => l | None => [] end) ++ [h]) else zget k m.
Proof.
  induction m as [|[k' l] m IH]; cbn.
  - destruct (k =? e); reflexivity.
  - destruct (Z.eqb_spec e k') as [E|E]; cbn.
    + subst k'. destruct (Z.eqb_spec k e); [reflexivity|reflexivity].
    + rewrite IH. destruct (Z.eqb_spec k e) as [E2|E2].
      * subst k. destruct (Z.eqb_spec e k'); [contradiction|reflexivity].
      * reflexivity.
Qed.

Lemma zkeys_zappend_in e h m x : In x (zkeys (zappend e h m)) -> x = e \/ In x (zkeys m).
Proof.
  induction m as [|[k' l] m IH]; cbn.
  - intros [E|[]]. left. congruence.
  - destruct (e =? k'); cbn; intros [E|E]; auto. apply IH in E. tauto.
Qed.

Lemma zkeys_zappend_nodup e h m : NoDup (zkeys m) -> NoDup (zkeys (zappend e h m)).
Proof.
  induction m as [|[k' l] m IH]; cbn; intros ND.
  - constructor; [intros []|constructor].
  - inversion ND as [|? ? Hn ND']; subst. destruct (Z.eqb_spec e k') as [E|E]; cbn.
    + constructor; assumption.
    + constructor; [|apply IH; exact ND']. intros Hx. apply zkeys_zappend_in in Hx as [Hx|Hx]; [congruence|contradiction].
Qed.

Lemma zkeys_zdel_in {V} k (m : list (Z * V)) x : In x (zkeys (zdel k m)) -> In x (zkeys m).
Proof.
  induction m as [|[k' v] m IH]; cbn; [tauto|].
  destruct (k =? k'); cbn; [tauto|]. intros [E|E]; auto.
Qed.

Lemma zkeys_zdel_nodup {V} k (m : list (Z * V)) : NoDup (zkeys m) -> NoDup (zkeys (zdel k m)).
Proof.
  induction m as [|[k' v] m IH]; cbn; intros ND; [constructor|].
  inversion ND as [|? ? Hn ND']; subst. destruct (k =? k'); cbn; [exact ND'|].
  constructor; [|apply IH; exact ND']. intros Hx. apply zkeys_zdel_in in Hx. contradiction.
Qed.

Lemma zget_zdel {V} k k' (m : list (Z * V)) :
  NoDup (zkeys m) -> zget k (zdel k' m) = if k =? k' then None else zget k m.
Proof.
  induction m as [|[k2 v] m IH]; cbn; intros ND.
  - destruct (k =? k'); reflexivity.
  - inversion ND as [|? ? Hn ND']; subst.
    destruct (Z.eqb_spec k' k2) as [E|E]; cbn.
    + subst k2. destruct (Z.eqb_spec k k') as [E2|E2]; [|reflexivity].
      subst k. apply zget_none. exact Hn.
    + rewrite (IH ND'). destruct (Z.eqb_spec k k2) as [E2|E2].
      * subst k2. destruct (Z.eqb_spec k k'); [congruence|reflexivity].
      * reflexivity.
Qed.

Definition zmem (k : Z) (l : list Z) : bool := existsb (Z.eqb k) l.

Lemma zmem_in k l : zmem k l = true <-> In k l.
Proof.
  unfold zmem. rewrite existsb_exists. split.
  - intros (x & Hx & E). apply Z.eqb_eq in E. now subst.
  - intros H. exists k. split; [exact H|apply Z.eqb_refl].
Qed.

Lemma zget_fold_zdel {V} k ks : forall (m : list (Z * V)),
  NoDup (zkeys m) ->
  zget k (fold_left (fun m k => zdel k m) ks m) = if zmem k ks then None else zget k m.
Proof.
  induction ks as [|k' ks IH]; intros m ND; cbn [fold_left zmem existsb]; [reflexivity|].
  rewrite IH by (apply zkeys_zdel_nodup; exact ND). rewrite (zget_zdel k k' m ND).
  fold (zmem k ks). destruct (k =? k'), (zmem k ks); reflexivity.
Qed.

Lemma zkeys_fold_zdel_nodup {V} ks : forall (m : list (Z * V)),
  NoDup (zkeys m) -> NoDup (zkeys (fold_left (fun m k => zdel k m) ks m)).
Proof.
  induction ks as [|k ks IH]; intros m ND; cbn [fold_left]; [exact ND|].
  apply IH. apply zkeys_zdel_nodup. exact ND.
Qed.

(** * the hash map *)
Lemma hget_none h m : hget h m = None <-> ~ In h (hkeys m).
Proof.
  induction m as [|[h' v] m IH]; cbn; [tauto|].
  destruct (N.eqb_spec h h') as [E|E]; split; intros H.
  - discriminate.
  - exfalso. apply H. left. congruence.
  - intros [E2|E2]; [congruence|]. apply IH in H. contradiction.
  - apply IH. intro. apply H. right. assumption.
Qed.

Lemma hget_in h m e : hget h m = Some e -> In (h, e) m.
Proof.
  induction m as [|[h' v] m IH]; cbn; [discriminate|].
  destruct (N.eqb_spec h h') as [E|E]; intros H; [left; congruence|right; auto].
Qed.

Lemma hget_of_in h m e : NoDup (hkeys m) -> In (h, e) m -> hget h m = Some e.
Proof.
  induction m as [|[h' v] m IH]; cbn; intros ND Hi; [contradiction|].
  inversion ND as [|? ? Hn ND']; subst.
  destruct Hi as [E|Hi].
  - inversion E; subst. now rewrite N.eqb_refl.
  - destruct (N.eqb_spec h h') as [E|E]; [|auto].
    subst h'. exfalso. apply Hn. apply in_map_iff. exists (h, e). auto.
Qed.

Lemma hget_app h a b : hget h (a ++ b) = match hget h a with Some e => Some e | None => hget h b end.
Proof.
  induction a as [|[h' v] a IH]; cbn; [reflexivity|]. destruct (N.eqb h h'); [reflexivity|exact IH].
Qed.

Lemma hget_hdel h h' m : hget h (hdel h' m) = if N.eqb h h' then None else hget h m.
Proof.
  unfold hdel. induction m as [|[h2 v] m IH]; cbn.
  - destruct (N.eqb h h'); reflexivity.
  - destruct (N.eqb_spec h2 h') as [E|E]; cbn.
    + subst h2. rewrite IH. destruct (N.eqb_spec h h'); reflexivity.
    + destruct (N.eqb_spec h h2) as [E2|E2].
      * subst h2. destruct (N.eqb_spec h h'); [congruence|reflexivity].
      * exact IH.
Qed.

Lemma hget_fold_hdel h hs : forall m,
  hget h (fold_left (fun hm x => hdel x hm) hs m) = if mem_n h hs then None else hget h m.
Proof.
  induction hs as [|x hs IH]; intros m; cbn [fold_left mem_n existsb]; [reflexivity|].
  rewrite IH, hget_hdel. fold (mem_n h hs). destruct (N.eqb h x), (mem_n h hs); reflexivity.
Qed.

Lemma hkeys_hdel_nodup h m : NoDup (hkeys m) -> NoDup (hkeys (hdel h m)).
Proof.
  unfold hdel, hkeys. induction m as [|[h' v] m IH]; cbn; intros ND; [constructor|].
  inversion ND as [|? ? Hn ND']; subst. destruct (negb (N.eqb h' h)); cbn; [|auto].
  constructor; [|auto]. intros Hx. apply Hn. apply in_map_iff in Hx as (y & Ey & Hy).
  apply filter_In in Hy as [Hy _]. apply in_map_iff. exists y. auto.
Qed.

Lemma hkeys_fold_hdel_nodup hs : forall m,
  NoDup (hkeys m) -> NoDup (hkeys (fold_left (fun hm x => hdel x hm) hs m)).
Proof.
  induction hs as [|x hs IH]; intros m ND; cbn [fold_left]; [exact ND|]. apply IH, hkeys_hdel_nodup, ND.
Qed.

(** two duplicate-free maps with the same lookups have the same size *)
Lemma same_lookup_length (a b : list (N * Z)) :
  NoDup (hkeys a) -> NoDup (hkeys b) -> (forall h, hget h a = hget h b) -> length a = length b.
Proof.
  intros Na Nb H.
  assert (E : length (hkeys a) = length (hkeys b)).
  { apply Nat.le_antisymm; apply NoDup_incl_length; try assumption; intros x Hx.
    - destruct (hget x b) eqn:G; [apply hget_in in G; apply in_map_iff; exists (x, z); auto|].
      rewrite <- H in G. apply hget_none in G. contradiction.
    - destruct (hget x a) eqn:G; [apply hget_in in G; apply in_map_iff; exists (x, z); auto|].
      rewrite H in G. apply hget_none in G. contradiction. }
  unfold hkeys in E. now rewrite !map_length in E.
Qed.

(** * grouping the flat list by EndDelayTime *)
Definition group (k : Z) (p : pend) : list N := map fst (filter (fun x => snd x =? k) p).
Definition ogroup (k : Z) (p : pend) : option (list N) :=
  match group k p with [] => None | l => Some l end.

Lemma group_in k p h : In h (group k p) <-> In (h, k) p.
Proof.
  unfold group. rewrite in_map_iff. split.
  - intros ([h' e] & E & Hi). cbn in E. subst h'. apply filter_In in Hi as [Hi Hk].
    cbn in Hk. apply Z.eqb_eq in Hk. now subst.
  - intros Hi. exists (h, k). split; [reflexivity|]. apply filter_In. split; [exact Hi|]. cbn. apply Z.eqb_refl.
Qed.

Lemma ogroup_list k p : match ogroup k p with Some l => l | None => [] end = group k p.
Proof. unfold ogroup. destruct (group k p); reflexivity. Qed.

Lemma group_app k a b : group k (a ++ b) = group k a ++ group k b.
Proof. unfold group. now rewrite filter_app, map_app. Qed.

Lemma group_nodup k p : NoDup (hkeys p) -> NoDup (group k p).
Proof.
  unfold group, hkeys. induction p as [|[h e] p IH]; cbn; intros ND; [constructor|].
  inversion ND as [|? ? Hn ND']; subst. destruct (e =? k); cbn; [|auto].
  constructor; [|auto]. intros Hx. apply Hn. apply in_map_iff in Hx as (y & Ey & Hy).
  apply filter_In in Hy as [Hy _]. apply in_map_iff. exists y. auto.
Qed.

(** * the simulation relation *)
Record drel (d : dcache) (p : pend) : Prop := mkDrel {
  dr_pnodup : NoDup (hkeys p);
  dr_hnodup : NoDup (hkeys (d_hash d));
  dr_hget : forall h, hget h (d_hash d) = pget h p;
  dr_tnodup : NoDup (zkeys (d_tx d));
  dr_group : forall k, zget k (d_tx d) = ogroup k p
}.

Lemma drel_new size : drel (dnew size) [].
Proof. constructor; cbn; try constructor; reflexivity. Qed.

Lemma drel_len d p : drel d p -> dlen d = Z.of_nat (length p).
Proof.
  intros [Np Nh Hg _ _]. unfold dlen. f_equal. apply same_lookup_length; assumption.
Qed.

Lemma drel_add d p tx endt :
  drel d p ->
  drel (fst (dadd tx endt d)) (fst (sp_add (d_size d) tx endt p))
  /\ snd (dadd tx endt d) = snd (sp_add (d_size d) tx endt p)
  /\ d_size (fst (dadd tx endt d)) = d_size d.
Proof.
  intros R. pose proof (drel_len d p R) as EL. pose proof R as [Np Nh Hg Nt Gr].
  unfold dadd, sp_add. destruct tx as [h|]; [|cbn; auto].
  rewrite EL. destruct (d_size d <=? Z.of_nat (length p)); [cbn; auto|].
  rewrite Hg. destruct (pget h p) as [e|] eqn:G; [cbn; auto|]. cbn [fst snd d_size].
  split; [|auto]. unfold pget in G.
  assert (Hn : ~ In h (hkeys p)) by (apply hget_none; exact G).
  constructor; cbn [d_hash d_tx].
  - unfold hkeys. rewrite map_app. cbn. clear -Np Hn. unfold hkeys in *.
    induction (map fst p) as [|x l IH]; cbn; [constructor; [intros []|constructor]|].
    inversion Np; subst. constructor.
    + intros Hx. apply in_app_or in Hx as [Hx|[Hx|[]]]; [contradiction|]. subst. apply Hn. now left.
    + apply IH; [assumption|]. intro. apply Hn. now right.
  - cbn. constructor; [|exact Nh]. rewrite <- Hg in G. apply hget_none in G. exact G.
  - intros h'. cbn [hget]. unfold pget. rewrite hget_app. cbn [hget]. rewrite Hg. unfold pget.
    destruct (N.eqb_spec h' h) as [E|E].
    + subst h'. rewrite G. reflexivity.
    + destruct (hget h' p); reflexivity.
  - apply zkeys_zappend_nodup. exact Nt.
  - intros k. rewrite zget_zappend, Gr, ogroup_list. unfold ogroup. rewrite group_app.
    unfold group at 3. cbn [filter snd]. rewrite (Z.eqb_sym endt k).
    destruct (Z.eqb_spec k endt) as [E|E].
    + subst k. cbn [map fst]. destruct (group endt p ++ [h]) eqn:E2; [|reflexivity].
      apply app_eq_nil in E2 as [_ E2]. discriminate.
    + cbn [map]. rewrite app_nil_r. rewrite Gr. reflexivity.
Qed.

Lemma drel_add_block d p h b cms :
  drel d p ->
  drel (dadd_block h b cms d) (sp_add_block (d_size d) h b cms p)
  /\ d_size (dadd_block h b cms d) = d_size d.
Proof.
  unfold dadd_block, sp_add_block. revert d p.
  induction cms as [|cm tl IH]; intros d p R; cbn [fold_left]; [auto|].
  destruct (drel_add d p (Some (cm_tx cm)) (commit_end h b cm) R) as (R1 & _ & S1).
  destruct (IH _ _ R1) as (R2 & S2). rewrite S1 in R2. split; [exact R2|]. rewrite S2. exact S1.
Qed.
