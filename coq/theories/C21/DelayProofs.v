(** C21 — delExpiredTxs against the flat specification (exactness, no double
    release, order), the relation along every history, and entries that can
    never leave. *)
From Coq Require Import List ZArith NArith Bool Lia Permutation Sorted.
From C33 Require Import C21.Model C21.Spec C21.DelayModel C21.DelaySpec C21.DelayProofsMaps.
Import ListNotations.
Open Scope Z_scope.

(** * sorting the window keys *)
Lemma zinsert_in k l x : In x (zinsert k l) <-> x = k \/ In x l.
Proof.
  induction l as [|y l IH]; cbn; [intuition|].
  destruct (k <=? y); cbn; [intuition|]. rewrite IH. intuition.
Qed.

Lemma zsort_in l x : In x (zsort l) <-> In x l.
Proof.
  unfold zsort. induction l as [|y l IH]; cbn; [tauto|]. rewrite zinsert_in, IH. intuition.
Qed.

Lemma zinsert_sorted k l : StronglySorted Z.le l -> StronglySorted Z.le (zinsert k l).
Proof.
  induction 1 as [|y l Hs IH Hall]; cbn; [repeat constructor|].
  destruct (Z.leb_spec k y).
  - constructor; [constructor; assumption|]. constructor; [assumption|].
    eapply Forall_impl; [|exact Hall]. intros; lia.
  - constructor; [exact IH|]. apply Forall_forall. intros x Hx. apply zinsert_in in Hx as [->|Hx]; [lia|].
    rewrite Forall_forall in Hall. auto.
Qed.

Lemma zsort_sorted l : StronglySorted Z.le (zsort l).
Proof. unfold zsort. induction l; cbn; [constructor|apply zinsert_sorted; assumption]. Qed.

Lemma zinsert_nodup k l : NoDup l -> ~ In k l -> NoDup (zinsert k l).
Proof.
  induction l as [|y l IH]; cbn; intros ND Hn; [constructor; [intros []|constructor]|].
  destruct (k <=? y); [constructor; assumption|].
  inversion ND; subst. constructor.
  - intros Hx. apply zinsert_in in Hx as [->|Hx]; [apply Hn; now left|contradiction].
  - apply IH; [assumption|]. intro; apply Hn; now right.
Qed.

Lemma zsort_nodup l : NoDup l -> NoDup (zsort l).
Proof.
  unfold zsort. induction l as [|y l IH]; cbn; intros ND; [constructor|].
  inversion ND; subst. apply zinsert_nodup; [auto|]. rewrite (zsort_in l y). assumption.
Qed.

Lemma nodup_filter {A} (f : A -> bool) l : NoDup l -> NoDup (filter f l).
Proof.
  induction 1 as [|x l Hn _ IH]; cbn; [constructor|]. destruct (f x); [|exact IH].
  constructor; [|exact IH]. intros Hx. apply filter_In in Hx as [Hx _]. contradiction.
Qed.

Lemma nodup_app_intro {A} (a b : list A) :
  NoDup a -> NoDup b -> (forall x, In x a -> ~ In x b) -> NoDup (a ++ b).
Proof.
  induction 1 as [|x a Hn _ IH]; cbn; intros Nb Hd; [exact Nb|].
  constructor.
  - intros Hx. apply in_app_or in Hx as [Hx|Hx]; [contradiction|]. apply (Hd x); [now left|exact Hx].
  - apply IH; [exact Nb|]. intros y Hy. apply Hd. now right.
Qed.

(** * what a release takes *)
Section Release.
  Variables (d : dcache) (p : pend) (last curr height : Z).
  Hypothesis R : drel d p.

  Let wk := zsort (filter (in_window last curr) (zkeys (d_tx d))).
  Let m1 := fold_left (fun m k => zdel k m) wk (d_tx d).
  Let del1 := lists_of wk (d_tx d).
  Let del2 := match zget height m1 with Some l => l | None => [] end.

  Lemma key_present k : In k (zkeys (d_tx d)) <-> group k p <> [].
  Proof.
    pose proof (dr_group _ _ R k) as G. unfold ogroup in G. split; intros H.
    - intros E. rewrite E in G. apply zget_none in G. contradiction.
    - destruct (group k p) eqn:E; [congruence|]. eapply zget_in_keys. exact G.
  Qed.

  Lemma wk_in k : In k wk <-> in_window last curr k = true /\ group k p <> [].
  Proof. unfold wk. rewrite zsort_in, filter_In, key_present. tauto. Qed.

  Lemma wk_nodup : NoDup wk.
  Proof. unfold wk. apply zsort_nodup, nodup_filter, (dr_tnodup _ _ R). Qed.

  Lemma lists_of_group ks : lists_of ks (d_tx d) = concat (map (fun k => group k p) ks).
  Proof.
    unfold lists_of. f_equal. apply map_ext. intros k. rewrite (dr_group _ _ R k). apply ogroup_list.
  Qed.

  Lemma del1_in h : In h del1 <-> exists k, in_window last curr k = true /\ In (h, k) p.
  Proof.
    unfold del1. rewrite lists_of_group, in_concat. split.
    - intros (l & Hl & Hh). apply in_map_iff in Hl as (k & <- & Hk). apply wk_in in Hk as [Hw _].
      exists k. split; [exact Hw|]. apply group_in. exact Hh.
    - intros (k & Hw & Hi). exists (group k p). split; [|apply group_in; exact Hi].
      apply in_map_iff. exists k. split; [reflexivity|]. apply wk_in. split; [exact Hw|].
      intros E. apply group_in in Hi. rewrite E in Hi. exact Hi.
  Qed.

  Lemma del2_eq : del2 = if zmem height wk then [] else group height p.
  Proof.
    unfold del2, m1. rewrite zget_fold_zdel by apply (dr_tnodup _ _ R).
    destruct (zmem height wk); [reflexivity|]. rewrite (dr_group _ _ R height). apply ogroup_list.
  Qed.

  Lemma del2_in h : In h del2 <-> In (h, height) p /\ in_window last curr height = false.
  Proof.
    rewrite del2_eq. destruct (zmem height wk) eqn:E.
    - apply zmem_in, wk_in in E as [Hw Hne]. split; [intros []|]. intros [_ Hf]. congruence.
    - rewrite group_in. split.
      + intros Hi. split; [exact Hi|]. destruct (in_window last curr height) eqn:W; [|reflexivity].
        exfalso. assert (In height wk).
        { apply wk_in. split; [exact W|]. intros E2. apply group_in in Hi. rewrite E2 in Hi. exact Hi. }
        apply zmem_in in H. congruence.
      + tauto.
  Qed.

  Lemma del_in h : In h (del1 ++ del2) <-> exists e, pget h p = Some e /\ due last curr height e = true.
  Proof.
    rewrite in_app_iff, del1_in, del2_in. unfold due, pget. split.
    - intros [(k & Hw & Hi)|[Hi Hw]].
      + exists k. split; [apply hget_of_in; [apply (dr_pnodup _ _ R)|exact Hi]|]. rewrite Hw. reflexivity.
      + exists height. split; [apply hget_of_in; [apply (dr_pnodup _ _ R)|exact Hi]|].
        rewrite Z.eqb_refl. apply orb_true_r.
    - intros (e & G & Hd). apply hget_in in G. apply orb_true_iff in Hd as [Hw|He].
      + left. exists e. auto.
      + apply Z.eqb_eq in He. subst e. destruct (in_window last curr height) eqn:W.
        * left. exists height. auto.
        * right. auto.
  Qed.

  Lemma unique_key h k1 k2 : In (h, k1) p -> In (h, k2) p -> k1 = k2.
  Proof.
    intros H1 H2. pose proof (dr_pnodup _ _ R) as ND.
    apply (hget_of_in _ _ _ ND) in H1. apply (hget_of_in _ _ _ ND) in H2. congruence.
  Qed.

  Lemma concat_groups_nodup ks : NoDup ks -> NoDup (concat (map (fun k => group k p) ks)).
  Proof.
    induction 1 as [|k ks Hn _ IH]; cbn; [constructor|].
    apply nodup_app_intro; [apply group_nodup, (dr_pnodup _ _ R)|exact IH|].
    intros x Hx Hy. apply group_in in Hx. apply in_concat in Hy as (l & Hl & Hy).
    apply in_map_iff in Hl as (k' & <- & Hk'). apply group_in in Hy.
    pose proof (unique_key x k k' Hx Hy). subst k'. contradiction.
  Qed.

  Lemma del_nodup : NoDup (del1 ++ del2).
  Proof.
    apply nodup_app_intro.
    - unfold del1. rewrite lists_of_group. apply concat_groups_nodup, wk_nodup.
    - rewrite del2_eq. destruct (zmem height wk); [constructor|]. apply group_nodup, (dr_pnodup _ _ R).
    - intros x H1 H2. apply del1_in in H1 as (k & Hw & Hi). apply del2_in in H2 as [Hi2 Hf].
      pose proof (unique_key x k height Hi Hi2). subst k. congruence.
  Qed.

  (** the state after the release *)
  Lemma release_unfold :
    dlen d <=? 0 = false ->
    drelease last curr height d =
      (mkDc (d_size d) (zdel height m1) (fold_left (fun hm h => hdel h hm) (del1 ++ del2) (d_hash d)),
       del1 ++ del2).
  Proof. intros E. unfold drelease. rewrite E. reflexivity. Qed.

  Lemma pget_filter_due h :
    pget h (filter (fun x => negb (due last curr height (snd x))) p) =
      match pget h p with
      | Some e => if due last curr height e then None else Some e
      | None => None
      end.
  Proof.
    unfold pget. pose proof (dr_pnodup _ _ R) as ND. clear R wk m1 del1 del2.
    induction p as [|[h' e] q IH]; cbn; [reflexivity|].
    inversion ND as [|? ? Hn ND']; subst.
    destruct (N.eqb_spec h h') as [E|E].
    - subst h'. destruct (due last curr height e) eqn:D; cbn.
      + rewrite (IH ND'). assert (G : hget h q = None) by (apply hget_none; exact Hn). rewrite G. reflexivity.
      + rewrite N.eqb_refl. reflexivity.
    - destruct (due last curr height e); cbn; [apply IH; exact ND'|].
      destruct (N.eqb_spec h h'); [contradiction|apply IH; exact ND'].
  Qed.

  Lemma group_filter_due k :
    group k (filter (fun x => negb (due last curr height (snd x))) p) =
      if due last curr height k then [] else group k p.
  Proof.
    unfold group. clear R wk m1 del1 del2. induction p as [|[h e] q IH]; cbn.
    - destruct (due last curr height k); reflexivity.
    - destruct (due last curr height e) eqn:D; cbn.
      + rewrite IH. destruct (Z.eqb_spec e k) as [E|E]; [subst e; rewrite D; reflexivity|reflexivity].
      + destruct (Z.eqb_spec e k) as [E|E]; cbn; rewrite IH.
        * subst e. rewrite D. reflexivity.
        * destruct (due last curr height k); reflexivity.
  Qed.

  Lemma drel_release :
    drel (fst (drelease last curr height d)) (fst (sp_release last curr height p))
    /\ d_size (fst (drelease last curr height d)) = d_size d.
  Proof.
    unfold sp_release. cbn [fst].
    destruct (dlen d <=? 0) eqn:E.
    - unfold drelease. rewrite E. cbn [fst]. split; [|reflexivity].
      apply Z.leb_le in E. rewrite (drel_len _ _ R) in E. destruct p; [cbn; exact R|cbn in E; lia].
    - rewrite (release_unfold E). cbn [fst d_size]. split; [|reflexivity].
      constructor; cbn [d_hash d_tx].
      + unfold hkeys. pose proof (dr_pnodup _ _ R) as ND. clear -ND. unfold hkeys in ND.
        induction p as [|[h e] q IH]; cbn; [constructor|]. inversion ND; subst.
        destruct (negb (due last curr height e)); cbn; [|auto]. constructor; [|auto].
        intros Hx. apply H1. apply in_map_iff in Hx as (y & Ey & Hy). apply filter_In in Hy as [Hy _].
        apply in_map_iff. exists y. auto.
      + apply hkeys_fold_hdel_nodup, (dr_hnodup _ _ R).
      + intros h. rewrite hget_fold_hdel, pget_filter_due, (dr_hget _ _ R).
        destruct (mem_n h (del1 ++ del2)) eqn:M.
        * assert (Hi : In h (del1 ++ del2)).
          { unfold mem_n in M. apply existsb_exists in M as (x & Hx & Ex). apply N.eqb_eq in Ex. now subst. }
          apply del_in in Hi as (e & G & Hd). rewrite G, Hd. reflexivity.
        * destruct (pget h p) as [e|] eqn:G; [|reflexivity].
          destruct (due last curr height e) eqn:Hd; [|reflexivity].
          exfalso. assert (Hi : In h (del1 ++ del2)) by (apply del_in; exists e; auto).
          assert (mem_n h (del1 ++ del2) = true).
          { unfold mem_n. apply existsb_exists. exists h. split; [exact Hi|apply N.eqb_refl]. }
          congruence.
      + apply zkeys_zdel_nodup. unfold m1. apply zkeys_fold_zdel_nodup, (dr_tnodup _ _ R).
      + intros k. unfold ogroup. rewrite group_filter_due.
        rewrite zget_zdel by (unfold m1; apply zkeys_fold_zdel_nodup, (dr_tnodup _ _ R)).
        unfold m1. rewrite zget_fold_zdel by apply (dr_tnodup _ _ R). rewrite (dr_group _ _ R k).
        unfold due. destruct (Z.eqb_spec k height) as [E2|E2].
        * rewrite orb_true_r. reflexivity.
        * rewrite orb_false_r. destruct (in_window last curr k) eqn:W.
          -- destruct (zmem k wk) eqn:M; [reflexivity|].
             unfold ogroup. destruct (group k p) eqn:G; [reflexivity|]. exfalso.
             assert (In k wk) by (apply wk_in; split; [exact W|congruence]). apply zmem_in in H. congruence.
          -- destruct (zmem k wk) eqn:M; [|reflexivity]. apply zmem_in, wk_in in M as [M _]. congruence.
  Qed.

  Lemma release_members h :
    In h (snd (drelease last curr height d)) <-> In h (map fst (snd (sp_release last curr height p))).
  Proof.
    unfold sp_release. cbn [snd]. destruct (dlen d <=? 0) eqn:E.
    - unfold drelease. rewrite E. cbn [snd]. apply Z.leb_le in E. rewrite (drel_len _ _ R) in E.
      destruct p; [cbn; tauto|cbn in E; lia].
    - rewrite (release_unfold E). cbn [snd]. rewrite del_in, in_map_iff. split.
      + intros (e & G & Hd). exists (h, e). split; [reflexivity|]. apply filter_In. split; [|exact Hd].
        apply hget_in. exact G.
      + intros ([h' e] & Eh & Hi). cbn in Eh. subst h'. apply filter_In in Hi as [Hi Hd]. cbn in Hd.
        exists e. split; [|exact Hd]. apply hget_of_in; [apply (dr_pnodup _ _ R)|exact Hi].
  Qed.

  Lemma release_nodup : NoDup (snd (drelease last curr height d)).
  Proof.
    destruct (dlen d <=? 0) eqn:E.
    - unfold drelease. rewrite E. constructor.
    - rewrite (release_unfold E). apply del_nodup.
  Qed.

  (** order: every key of the first part lies in the window, the keys ascend;
      the second part holds only the height key, which is outside the window *)
  Lemma release_order :
    exists a b, snd (drelease last curr height d) = a ++ b
      /\ (exists ks, StronglySorted Z.le ks /\ Forall (fun k => in_window last curr k = true) ks
                     /\ a = concat (map (fun k => group k p) ks))
      /\ (b = [] \/ (in_window last curr height = false /\ b = group height p)).
  Proof.
    destruct (dlen d <=? 0) eqn:E.
    - unfold drelease. rewrite E. exists [], []. cbn. split; [reflexivity|]. split; [|left; reflexivity].
      exists []. repeat split; constructor.
    - rewrite (release_unfold E). cbn [snd]. exists del1, del2. split; [reflexivity|]. split.
      + exists wk. split; [apply zsort_sorted|]. split.
        * apply Forall_forall. intros k Hk. apply wk_in in Hk. tauto.
        * unfold del1. apply lists_of_group.
      + rewrite del2_eq. destruct (zmem height wk) eqn:M; [left; reflexivity|].
        destruct (group height p) eqn:G; [left; reflexivity|]. right. split; [|reflexivity].
        destruct (in_window last curr height) eqn:W; [|reflexivity]. exfalso.
        assert (In height wk) by (apply wk_in; split; [exact W|congruence]). apply zmem_in in H. congruence.
  Qed.
End Release.

(** * every history *)
Definition dsize_ok (size : Z) (s : state * dcache) : Prop := d_size (snd s) = size.

Lemma dstep_rel sh c size s p e :
  drel (snd s) p -> d_size (snd s) = size ->
  let last := hdr_time (fst s) in
  let r := dstep sh c s e in
  let q := sp_step size last p e in
  drel (snd (dst r)) (fst (fst q)) /\ d_size (snd (dst r)) = size.
Proof.
  intros R S. cbv zeta. destruct s as [st d]. cbn [fst snd] in *. subst size.
  destruct e as [ev cms|tx endt]; cbn [dstep sp_step].
  - destruct (step sh c st ev) as [st' err].
    destruct ev as [now t|hs|now|now h b hs|now h b ts]; unfold dst; cbn [fst snd]; auto.
    destruct (drel_add_block d p h b cms R) as (R1 & S1).
    pose proof (drel_release _ _ (hdr_time st) b h R1) as (R2 & S2).
    destruct (drelease (hdr_time st) b h (dadd_block h b cms d)) as [d' rel].
    unfold sp_release in *. cbn [fst snd] in *. split; [exact R2|]. rewrite S2. exact S1.
  - destruct (drel_add d p tx endt R) as (R1 & _ & S1).
    destruct (dadd tx endt d) as [d' err]. destruct (sp_add (d_size d) tx endt p) as [p' serr].
    unfold dst. cbn [fst snd] in *. auto.
Qed.

(** the flat specification run next to the model *)
Fixpoint sp_run (sh : N -> N) (c : config) (size : Z) (s : state * dcache) (p : pend) (es : list devent) : pend :=
  match es with
  | [] => p
  | e :: tl => sp_run sh c size (dst (dstep sh c s e)) (fst (fst (sp_step size (hdr_time (fst s)) p e))) tl
  end.

Lemma drun_rel sh c size es : forall s p,
  drel (snd s) p -> d_size (snd s) = size ->
  drel (snd (drun sh c s es)) (sp_run sh c size s p es).
Proof.
  unfold drun. induction es as [|e tl IH]; intros s p R S; cbn [fold_left sp_run]; [exact R|].
  destruct (dstep_rel sh c size s p e R S) as (R1 & S1). apply IH; assumption.
Qed.

(** * what the relation gives for the observables *)
Lemma drel_contains d p h : drel d p -> dcontains h d = pget h p.
Proof. intros R. apply (dr_hget _ _ R). Qed.

(** * entries that never leave *)
Lemma not_due_stays last curr height p h e :
  NoDup (hkeys p) -> pget h p = Some e -> due last curr height e = false ->
  pget h (fst (sp_release last curr height p)) = Some e.
Proof.
  intros ND G Hd. unfold sp_release. cbn [fst]. unfold pget in *.
  induction p as [|[h' e'] q IH]; cbn in *; [discriminate|].
  inversion ND as [|? ? Hn ND']; subst.
  destruct (N.eqb_spec h h') as [E|E].
  - inversion G; subst. rewrite Hd. cbn. rewrite N.eqb_refl. reflexivity.
  - destruct (due last curr height e'); cbn; [apply IH; assumption|].
    destruct (N.eqb_spec h h'); [contradiction|apply IH; assumption].
Qed.

Lemma past_not_due last curr height e : e <= last -> e <> height -> due last curr height e = false.
Proof.
  intros H1 H2. unfold due, in_window. apply orb_false_iff. split.
  - apply andb_false_iff. left. apply Z.ltb_ge. exact H1.
  - apply Z.eqb_neq. exact H2.
Qed.

Lemma sp_add_keeps size tx endt p h e :
  pget h p = Some e -> pget h (fst (sp_add size tx endt p)) = Some e.
Proof.
  intros G. unfold sp_add. destruct tx as [h'|]; [|exact G].
  destruct (size <=? Z.of_nat (length p)); [exact G|]. destruct (pget h' p); [exact G|].
  cbn [fst]. unfold pget in *. rewrite hget_app, G. reflexivity.
Qed.

(** * packaged statements *)
Lemma delay_refines sh c size hdr es :
  let s0 := (set_hdr (fst hdr) (snd hdr) init, dnew size) in
  drel (snd (drun sh c s0 es)) (sp_run sh c size s0 [] es).
Proof. intros s0. apply drun_rel; [apply drel_new|reflexivity]. Qed.

Lemma delay_observables d p :
  drel d p ->
  (forall h, dcontains h d = pget h p)
  /\ dlen d = Z.of_nat (length p)
  /\ (forall tx endt, snd (dadd tx endt d) = snd (sp_add (d_size d) tx endt p)).
Proof.
  intros R. split; [intros h; apply drel_contains; exact R|].
  split; [apply drel_len; exact R|]. intros tx endt. apply (drel_add d p tx endt R).
Qed.

Lemma release_exact d p last curr height :
  drel d p ->
  NoDup (snd (drelease last curr height d))
  /\ (forall h, In h (snd (drelease last curr height d))
                <-> exists e, pget h p = Some e /\ due last curr height e = true)
  /\ drel (fst (drelease last curr height d)) (fst (sp_release last curr height p)).
Proof.
  intros R. split; [apply (release_nodup d p last curr height R)|]. split.
  - intros h. rewrite (release_members d p last curr height R h). unfold sp_release. cbn [snd].
    rewrite in_map_iff. split.
    + intros ([h' e] & Eh & Hi). cbn in Eh. subst h'. apply filter_In in Hi as [Hi Hd]. cbn in Hd.
      exists e. split; [|exact Hd]. apply hget_of_in; [apply (dr_pnodup _ _ R)|exact Hi].
    + intros (e & G & Hd). exists (h, e). split; [reflexivity|]. apply filter_In. split; [|exact Hd].
      apply hget_in. exact G.
  - apply (drel_release d p last curr height R).
Qed.

Lemma not_due_summary p h e :
  NoDup (hkeys p) -> pget h p = Some e ->
  (forall size tx endt, pget h (fst (sp_add size tx endt p)) = Some e)
  /\ (forall last curr height, e <= last -> e <> height ->
        pget h (fst (sp_release last curr height p)) = Some e).
Proof.
  intros ND G. split.
  - intros size tx endt. apply sp_add_keeps. exact G.
  - intros last curr height H1 H2. apply not_due_stays; [exact ND|exact G|]. apply past_not_due; assumption.
Qed.

(** examples *)
Definition ex_d : dcache := fst (dadd (Some 3%N) 7 (fst (dadd (Some 2%N) 105 (fst (dadd (Some 1%N) 105 (dnew 3)))))).

Lemma example_delay_release :
  snd (dadd (Some 4%N) 9 ex_d) = D_OVERFLOW /\ snd (dadd (Some 1%N) 9 (dnew 3)) = D_OK
  /\ snd (dadd (Some 1%N) 9 ex_d) = D_OVERFLOW
  /\ snd (drelease 100 110 7 ex_d) = [1; 2; 3]%N
  /\ d_hash (fst (drelease 100 110 7 ex_d)) = []
  /\ snd (drelease 100 104 6 ex_d) = [] /\ dlen (fst (drelease 100 104 6 ex_d)) = 3
  /\ snd (drelease 100 110 105 ex_d) = [1; 2]%N.
Proof. vm_compute. repeat split; reflexivity. Qed.
