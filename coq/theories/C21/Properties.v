(** C21 — property theorems only.
    [consistent] (C21.ProofsInv) is the bookkeeping invariant: no duplicate
    hash, size <= capacity, per-sender index = the pool's transactions of the
    sender in arrival order and <= limit, latest list = a suffix of the arrival
    order of bounded length, byte and fee totals = sums over the contents,
    short-hash index = a sub-view of the contents that is never stale (unique
    keys, every entry names a pooled transaction with that short hash).
    [sh_agrees]: every pooled transaction is found under its short hash.
    [sh_owner st h t]: [t] is pooled under hash [h] and is what the lookup of its
    short hash returns.  [sh_covers]: the short-hash lookup of every pooled
    transaction is non-empty. *)
From Coq Require Import List ZArith NArith Bool.
From C33 Require Import C21.Model C21.Spec C21.ProofsLm C21.ProofsInv C21.ProofsMain C21.ProofsSpec.
Import ListNotations.
Open Scope Z_scope.

Theorem C21_init_consistent : forall sh c, 1 <= c_peracc c -> consistent sh c init.
Proof. exact init_consistent. Qed.
Print Assumptions C21_init_consistent.

Theorem C21_event_preserves : forall sh c st e,
  1 <= c_peracc c -> consistent sh c st -> consistent sh c (fst (step sh c st e)).
Proof. exact step_consistent. Qed.
Print Assumptions C21_event_preserves.

Theorem C21_consistent_all_histories : forall sh c es,
  1 <= c_peracc c ->
  consistent sh c (run sh c init es) /\ Forall (consistent sh c) (run_states sh c init es).
Proof.
  intros sh c es Hp. split.
  - apply run_consistent; [exact Hp|apply init_consistent; exact Hp].
  - apply run_states_consistent; [exact Hp|apply init_consistent; exact Hp].
Qed.
Print Assumptions C21_consistent_all_histories.

Theorem C21_block_txs_gone : forall sh c st now height bt hs h,
  consistent sh c st -> In h hs ->
  ~ In h (keys (s_q (fst (step sh c st (EAddBlock now height bt hs))))).
Proof. exact block_txs_gone. Qed.
Print Assumptions C21_block_txs_gone.

(** SHashTxCache.Remove deletes an entry only for the transaction that owns it
    (chain33 a576c70): over any event, the transaction found under a short hash
    keeps its entry as long as it stays pooled, whatever collides with it *)
Theorem C21_shash_owner_kept : forall sh c st e h t,
  1 <= c_peracc c -> consistent sh c st -> sh_owner sh st h t ->
  In h (keys (s_q (fst (step sh c st e)))) -> sh_owner sh (fst (step sh c st e)) h t.
Proof. exact step_owner. Qed.
Print Assumptions C21_shash_owner_kept.

(** a transaction accepted while no pooled transaction has its short hash gets the entry *)
Theorem C21_shash_fresh_indexed : forall sh c st now t,
  1 <= c_peracc c -> c_qcap c <= c_shmax c -> consistent sh c st ->
  snd (step sh c st (EPush now t)) = E_OK ->
  mem_n (sh (t_h t)) (map sh (keys (s_q st))) = false ->
  sh_owner sh (fst (step sh c st (EPush now t))) (t_h t) t.
Proof. intros sh c st now t. cbn [step]. apply cache_push_fresh_owner. Qed.
Print Assumptions C21_shash_fresh_indexed.

(** all histories: a transaction accepted while no pooled transaction had its
    short hash is found under its short hash after every later event up to its
    removal (boolean guards: no collision at the moment of its push; pooled
    after every later event), whatever collisions happen afterwards *)
Theorem C21_shash_first_come_found : forall sh c es1 now t es2,
  1 <= c_peracc c -> c_qcap c <= c_shmax c ->
  let s0 := run sh c init es1 in
  let s1 := fst (step sh c s0 (EPush now t)) in
  snd (step sh c s0 (EPush now t)) = E_OK ->
  mem_n (sh (t_h t)) (map sh (keys (s_q s0))) = false ->
  forallb (fun s => mem_n (t_h t) (keys (s_q s))) (run_states sh c s1 es2) = true ->
  sh_owner sh (run sh c s1 es2) (t_h t) t.
Proof. exact first_come_found. Qed.
Print Assumptions C21_shash_first_come_found.

(** non-vacuity, and the earlier refutation witness repaired: push A, push B
    (same short hash), remove B — the pool is not injective along the way, A is
    found at the end *)
Example C21_owner_kept_under_collision :
  let s1 := fst (step wsh wcfg init (EPush 0 wA)) in
  snd (step wsh wcfg init (EPush 0 wA)) = E_OK
  /\ mem_n (wsh 1%N) (map wsh (keys (s_q init))) = false
  /\ forallb (fun s => mem_n 1%N (keys (s_q s))) (run_states wsh wcfg s1 wevents_old) = true
  /\ map (fun s => map fst (s_q s)) (run_states wsh wcfg s1 wevents_old) = [[1; 2]; [1]]%N
  /\ forallb (sh_inj_pool wsh) (run_states wsh wcfg s1 wevents_old) = false
  /\ lm_get (wsh 1%N) (s_sh (run wsh wcfg s1 wevents_old)) = Some wA.
Proof. exact example_owner_kept. Qed.
Print Assumptions C21_owner_kept_under_collision.

(** the short-hash clause at full strength (guarded only by injectivity on the
    final pool) is still false: a transaction pushed while another pooled one
    has its short hash is never indexed, also not when that one leaves (push A,
    push B, remove A: B is pooled alone and its lookup is empty) ... *)
Definition C21_shash_full : Prop := shash_full_claim.

Theorem C21_refuted_shash : ~ C21_shash_full.
Proof. exact shash_full_refuted. Qed.
Print Assumptions C21_refuted_shash.

(** ... and holds for every history along which the short hash stays injective
    on the pooled hashes (boolean guard [sh_inj_pool] on every state) *)
Theorem C21_shash_partial : forall sh c es,
  1 <= c_peracc c -> c_qcap c <= c_shmax c ->
  forallb (sh_inj_pool sh) (run_states sh c init es) = true ->
  Forall (fun s => consistent sh c s /\ sh_agrees sh s) (run_states sh c init es).
Proof.
  intros sh c es Hp Hs G. apply run_states_exact; auto.
  - apply init_consistent; exact Hp.
  - reflexivity.
Qed.
Print Assumptions C21_shash_partial.

(** the executable oracle (C21.Spec) that judges the Go implementation's
    observations accepts the observation of every model state satisfying the
    invariant: the oracle is not stronger than what is proved *)
Theorem C21_oracle_accepts_invariant : forall sh c txs senders hashes err st,
  consistent sh c st -> 0 <= c_qcap c -> table_ok txs (qtx st) ->
  (forall h t, In (h, t) (qtx st) -> In (t_from t) senders) ->
  spec_base sh c txs senders hashes (observe sh senders hashes err st) = true.
Proof. exact oracle_base. Qed.
Print Assumptions C21_oracle_accepts_invariant.

Theorem C21_oracle_accepts_short : forall sh c hashes senders err st,
  consistent sh c st -> sh_covers sh st ->
  spec_short hashes (observe sh senders hashes err st) = true.
Proof. intros sh c hashes senders err st K A. exact (oracle_short sh c senders hashes err st K A). Qed.
Print Assumptions C21_oracle_accepts_short.

(** what the two short-hash clauses of the oracle amount to: a pooled
    transaction with which no other pooled one shares the short hash is found *)
Theorem C21_oracle_short_meaning : forall sh c st h t,
  consistent sh c st -> sh_covers sh st -> In (h, t) (qtx st) ->
  (forall h', In h' (keys (qtx st)) -> sh h' = sh h -> h' = h) ->
  lm_get (sh h) (s_sh st) = Some t.
Proof. intros sh c st h t K A. exact (oracle_short_self sh c st K h t A). Qed.
Print Assumptions C21_oracle_short_meaning.

Theorem C21_oracle_accepts_block : forall sh c st now height bt hs senders hashes err,
  consistent sh c st -> 1 <= c_peracc c ->
  spec_block (EAddBlock now height bt hs)
    (observe sh senders hashes err (fst (step sh c st (EAddBlock now height bt hs)))) = true.
Proof. exact oracle_block. Qed.
Print Assumptions C21_oracle_accepts_block.

Example C21_guard_satisfiable :
  forallb (sh_inj_pool xid) (run_states xid xcfg init xevents) = true
  /\ map (fun s => map fst (s_q s)) (run_states xid xcfg init xevents)
     = [[1]; [1; 2]; [1; 2]; [1; 2; 3]; [2; 3]; [2; 3; 4]; [4]; [4; 3; 1]; [4; 3; 1]]%N.
Proof. exact example_guard_satisfiable. Qed.
Print Assumptions C21_guard_satisfiable.

Example C21_peracc_hypothesis_needed :
  let st := fst (cache_push xid (mkCfg 3 (-1) 2 3 100) 10 x1 init) in
  map fst (s_q st) = [1%N] /\ s_acc st = [(0%N, [])] /\ s_fee st = 0.
Proof. exact example_peracc_needed. Qed.
Print Assumptions C21_peracc_hypothesis_needed.
