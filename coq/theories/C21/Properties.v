(** C21 — property theorems only.
    [consistent] (C21.ProofsInv) is the bookkeeping invariant: no duplicate
    hash, size <= capacity, per-sender index = the pool's transactions of the
    sender in arrival order and <= limit, latest list = a suffix of the arrival
    order of bounded length, byte and fee totals = sums over the contents,
    short-hash index = a sub-view of the contents that is never stale (unique
    keys, every entry names a pooled transaction with that short hash).
    [sh_agrees]: every pooled transaction is found under its short hash.
    [sh_owner st h t]: [t] is pooled under hash [h] and is what the lookup of its
    short hash returns.  [sh_covers]: the short-hash lookup of every pooled
    transaction is non-empty. *)
From Coq Require Import List ZArith NArith Bool.
From C33 Require Import C21.Model C21.Spec C21.ProofsLm C21.ProofsInv C21.ProofsMain C21.ProofsSpec.
From C33 Require Import C21.QueueModel C21.QueueProofs C21.QueueInst.
From C33 Require Import C21.SkipQModel C21.SkipQProofsQ C21.SkipQProofs C21.SkipQProofs2.
From C33 Require Import C21.DelayModel C21.DelaySpec C21.DelayProofsMaps C21.DelayProofs.
From Coq Require Import Permutation Sorted.
Import ListNotations.
Open Scope Z_scope.

Theorem C21_init_consistent : forall sh c, 1 <= c_peracc c -> consistent sh c init.
Proof. exact init_consistent. Qed.
Print Assumptions C21_init_consistent.

Theorem C21_event_preserves : forall sh c st e,
  1 <= c_peracc c -> consistent sh c st -> consistent sh c (fst (step sh c st e)).
Proof. exact step_consistent. Qed.
Print Assumptions C21_event_preserves.

Theorem C21_consistent_all_histories : forall sh c es,
  1 <= c_peracc c ->
  consistent sh c (run sh c init es) /\ Forall (consistent sh c) (run_states sh c init es).
Proof.
  intros sh c es Hp. split.
  - apply run_consistent; [exact Hp|apply init_consistent; exact Hp].
  - apply run_states_consistent; [exact Hp|apply init_consistent; exact Hp].
Qed.
Print Assumptions C21_consistent_all_histories.

Theorem C21_block_txs_gone : forall sh c st now height bt hs h,
  consistent sh c st -> In h hs ->
  ~ In h (keys (s_q (fst (step sh c st (EAddBlock now height bt hs))))).
Proof. exact block_txs_gone. Qed.
Print Assumptions C21_block_txs_gone.

(** SHashTxCache.Remove deletes an entry only for the transaction that owns it
    (chain33 a576c70): over any event, the transaction found under a short hash
    keeps its entry as long as it stays pooled, whatever collides with it *)
Theorem C21_shash_owner_kept : forall sh c st e h t,
  1 <= c_peracc c -> consistent sh c st -> sh_owner sh st h t ->
  In h (keys (s_q (fst (step sh c st e)))) -> sh_owner sh (fst (step sh c st e)) h t.
Proof. exact step_owner. Qed.
Print Assumptions C21_shash_owner_kept.

(** a transaction accepted while no pooled transaction has its short hash gets the entry *)
Theorem C21_shash_fresh_indexed : forall sh c st now t,
  1 <= c_peracc c -> c_qcap c <= c_shmax c -> consistent sh c st ->
  snd (step sh c st (EPush now t)) = E_OK ->
  mem_n (sh (t_h t)) (map sh (keys (s_q st))) = false ->
  sh_owner sh (fst (step sh c st (EPush now t))) (t_h t) t.
Proof. intros sh c st now t. cbn [step]. apply cache_push_fresh_owner. Qed.
Print Assumptions C21_shash_fresh_indexed.

(** all histories: a transaction accepted while no pooled transaction had its
    short hash is found under its short hash after every later event up to its
    removal (boolean guards: no collision at the moment of its push; pooled
    after every later event), whatever collisions happen afterwards *)
Theorem C21_shash_first_come_found : forall sh c es1 now t es2,
  1 <= c_peracc c -> c_qcap c <= c_shmax c ->
  let s0 := run sh c init es1 in
  let s1 := fst (step sh c s0 (EPush now t)) in
  snd (step sh c s0 (EPush now t)) = E_OK ->
  mem_n (sh (t_h t)) (map sh (keys (s_q s0))) = false ->
  forallb (fun s => mem_n (t_h t) (keys (s_q s))) (run_states sh c s1 es2) = true ->
  sh_owner sh (run sh c s1 es2) (t_h t) t.
Proof. exact first_come_found. Qed.
Print Assumptions C21_shash_first_come_found.

(** non-vacuity, and the earlier refutation witness repaired: push A, push B
    (same short hash), remove B — the pool is not injective along the way, A is
    found at the end *)
Example C21_owner_kept_under_collision :
  let s1 := fst (step wsh wcfg init (EPush 0 wA)) in
  snd (step wsh wcfg init (EPush 0 wA)) = E_OK
  /\ mem_n (wsh 1%N) (map wsh (keys (s_q init))) = false
  /\ forallb (fun s => mem_n 1%N (keys (s_q s))) (run_states wsh wcfg s1 wevents_old) = true
  /\ map (fun s => map fst (s_q s)) (run_states wsh wcfg s1 wevents_old) = [[1; 2]; [1]]%N
  /\ forallb (sh_inj_pool wsh) (run_states wsh wcfg s1 wevents_old) = false
  /\ lm_get (wsh 1%N) (s_sh (run wsh wcfg s1 wevents_old)) = Some wA.
Proof. exact example_owner_kept. Qed.
Print Assumptions C21_owner_kept_under_collision.

(** the short-hash clause at full strength (guarded only by injectivity on the
    final pool) is still false: a transaction pushed while another pooled one
    has its short hash is never indexed, also not when that one leaves (push A,
    push B, remove A: B is pooled alone and its lookup is empty) ... *)
Definition C21_shash_full : Prop := shash_full_claim.

Theorem C21_refuted_shash : ~ C21_shash_full.
Proof. exact shash_full_refuted. Qed.
Print Assumptions C21_refuted_shash.

(** ... and holds for every history along which the short hash stays injective
    on the pooled hashes (boolean guard [sh_inj_pool] on every state) *)
Theorem C21_shash_partial : forall sh c es,
  1 <= c_peracc c -> c_qcap c <= c_shmax c ->
  forallb (sh_inj_pool sh) (run_states sh c init es) = true ->
  Forall (fun s => consistent sh c s /\ sh_agrees sh s) (run_states sh c init es).
Proof.
  intros sh c es Hp Hs G. apply run_states_exact; auto.
  - apply init_consistent; exact Hp.
  - reflexivity.
Qed.
Print Assumptions C21_shash_partial.

(** the executable oracle (C21.Spec) that judges the Go implementation's
    observations accepts the observation of every model state satisfying the
    invariant: the oracle is not stronger than what is proved *)
Theorem C21_oracle_accepts_invariant : forall sh c txs senders hashes err st,
  consistent sh c st -> 0 <= c_qcap c -> table_ok txs (qtx st) ->
  (forall h t, In (h, t) (qtx st) -> In (t_from t) senders) ->
  spec_base sh c txs senders hashes (observe sh senders hashes err st) = true.
Proof. exact oracle_base. Qed.
Print Assumptions C21_oracle_accepts_invariant.

Theorem C21_oracle_accepts_short : forall sh c hashes senders err st,
  consistent sh c st -> sh_covers sh st ->
  spec_short hashes (observe sh senders hashes err st) = true.
Proof. intros sh c hashes senders err st K A. exact (oracle_short sh c senders hashes err st K A). Qed.
Print Assumptions C21_oracle_accepts_short.

(** what the two short-hash clauses of the oracle amount to: a pooled
    transaction with which no other pooled one shares the short hash is found *)
Theorem C21_oracle_short_meaning : forall sh c st h t,
  consistent sh c st -> sh_covers sh st -> In (h, t) (qtx st) ->
  (forall h', In h' (keys (qtx st)) -> sh h' = sh h -> h' = h) ->
  lm_get (sh h) (s_sh st) = Some t.
Proof. intros sh c st h t K A. exact (oracle_short_self sh c st K h t A). Qed.
Print Assumptions C21_oracle_short_meaning.

Theorem C21_oracle_accepts_block : forall sh c st now height bt hs senders hashes err,
  consistent sh c st -> 1 <= c_peracc c ->
  spec_block (EAddBlock now height bt hs)
    (observe sh senders hashes err (fst (step sh c st (EAddBlock now height bt hs)))) = true.
Proof. exact oracle_block. Qed.
Print Assumptions C21_oracle_accepts_block.

Example C21_guard_satisfiable :
  forallb (sh_inj_pool xid) (run_states xid xcfg init xevents) = true
  /\ map (fun s => map fst (s_q s)) (run_states xid xcfg init xevents)
     = [[1]; [1; 2]; [1; 2]; [1; 2; 3]; [2; 3]; [2; 3; 4]; [4]; [4; 3; 1]; [4; 3; 1]]%N.
Proof. exact example_guard_satisfiable. Qed.
Print Assumptions C21_guard_satisfiable.

Example C21_peracc_hypothesis_needed :
  let st := fst (cache_push xid (mkCfg 3 (-1) 2 3 100) 10 x1 init) in
  map fst (s_q st) = [1%N] /\ s_acc st = [(0%N, [])] /\ s_fee st = 0.
Proof. exact example_peracc_needed. Qed.
Print Assumptions C21_peracc_hypothesis_needed.

(** * Any QueueCache (QueueModel.v / QueueProofs.v)

    txCache over an arbitrary queue given as a record of operations.  [contract]:
    a fresh queue is empty; the Walk has no hash twice; GetItem, Size,
    GetCacheBytes agree with the Walk; Size <= capacity; a Push that answers an
    error changes nothing; a successful Push adds exactly the pushed item and
    removes nothing; Remove removes exactly the named item.  The Walk order is
    free.  [gconsistent]: the invariant [consistent] holds for the pool taken in
    some arrival order [G] that is a permutation of the Walk. *)
Theorem C21_consistent_any_contract_queue :
  forall (QT : Type) (o : qops QT) (ok : QT -> Prop) sh c es,
  1 <= c_peracc c -> contract c o ok ->
  gconsistent o c sh (grun o sh c (ginit o) es)
  /\ Forall (gconsistent o c sh) (grun_states o sh c (ginit o) es).
Proof. intros QT o ok sh c es. exact (contract_all_histories o ok sh c es). Qed.
Print Assumptions C21_consistent_any_contract_queue.

(** when Push appends and Remove keeps the order, the Walk itself is that arrival order *)
Theorem C21_contract_arrival_order :
  forall (QT : Type) (o : qops QT) (ok : QT -> Prop) sh c es,
  1 <= c_peracc c -> contract c o ok -> arrival_ordered o ok ->
  Forall (fun st => consistent sh c (gas_state o st (keyed_of (qo_walk o (g_q st)))))
         (grun o sh c (ginit o) es :: grun_states o sh c (ginit o) es).
Proof. intros QT o ok sh c es. exact (contract_arrival_all_histories o ok sh c es). Qed.
Print Assumptions C21_contract_arrival_order.

(** SimpleQueue (simplequeue.go as modelled in Model.v) meets the contract and is arrival-ordered *)
Theorem C21_simple_queue_contract :
  forall c, contract c (simple_ops c) (simple_ok c) /\ arrival_ordered (simple_ops c) (simple_ok c).
Proof. intros c. split; [apply simple_contract|apply simple_arrival]. Qed.
Print Assumptions C21_simple_queue_contract.

(** ... so the invariant of Model.v's pool (C21_consistent_all_histories, final
    state) is a corollary of the generic theorem *)
Theorem C21_consistent_via_contract : forall sh c es,
  1 <= c_peracc c -> consistent sh c (run sh c init es).
Proof. exact simple_consistent_via_contract. Qed.
Print Assumptions C21_consistent_via_contract.

(** /repo's common/skiplist.Queue (C24.Model) wrapped as a QueueCache meets the
    contract under NO representation invariant: its Push evicts (contract
    mismatch for anyone who plugs it into txCache) *)
Theorem C21_skiplist_queue_breaks_contract :
  forall c ok, ~ contract c (skip_ops kprice ktab 1) ok.
Proof. exact skiplist_queue_breaks_contract. Qed.
Print Assumptions C21_skiplist_queue_breaks_contract.

Example C21_skiplist_push_evicts :
  let o := skip_ops kprice ktab 1 in
  let q1 := fst (qo_push o (mkItem kA 0) (qo_new o)) in
  let q2 := fst (qo_push o (mkItem kB 0) q1) in
  snd (qo_push o (mkItem kA 0) (qo_new o)) = E_OK /\ snd (qo_push o (mkItem kB 0) q1) = E_OK
  /\ map ihash (qo_walk o q1) = [1%N] /\ map ihash (qo_walk o q2) = [2%N].
Proof. exact skiplist_push_evicts. Qed.
Print Assumptions C21_skiplist_push_evicts.

(** * txCache over common/skiplist.Queue, precisely (SkipQModel.v): any score
    function [sc], transactions named by hash through [txof] ([hash_table_ok]:
    the transaction a hash names has that hash).  [pconsistent]: [consistent]
    for some arrival order that is a permutation of the Walk. *)

(** the unguarded claim is false ... *)
Definition C21_skipqueue_full : Prop := price_full_claim.

Theorem C21_skipqueue_refuted : ~ C21_skipqueue_full.
Proof. exact price_full_refuted. Qed.
Print Assumptions C21_skipqueue_refuted.

(** ... it holds for every history in which no Push evicts (boolean guard on
    the model's record of evictions) ... *)
Theorem C21_skipqueue_partial : forall sc sh txof c es,
  1 <= c_peracc c -> hash_table_ok txof ->
  forallb no_evict (pevictions sc sh txof c (pinit c) es) = true ->
  pconsistent txof sh c (prun sc sh txof c (pinit c) es)
  /\ Forall (pconsistent txof sh c) (prun_states sc sh txof c (pinit c) es).
Proof. exact price_partial. Qed.
Print Assumptions C21_skipqueue_partial.

(** ... and the guard is tight: the first eviction of any history breaks it *)
Theorem C21_skipqueue_first_eviction_breaks : forall sc sh txof c es now h,
  1 <= c_peracc c -> hash_table_ok txof ->
  forallb no_evict (pevictions sc sh txof c (pinit c) es) = true ->
  pev (pstep sc sh txof c (prun sc sh txof c (pinit c) es) (PPush now h)) <> [] ->
  ~ pconsistent txof sh c (pst (pstep sc sh txof c (prun sc sh txof c (pinit c) es) (PPush now h))).
Proof. exact price_first_eviction_breaks. Qed.
Print Assumptions C21_skipqueue_first_eviction_breaks.

(** the queue side holds for every history, evictions or not: no duplicate,
    Size = length of the Walk <= capacity, Walk sorted by score (descending),
    scores and byte total as the transactions say, Exist = membership *)
Theorem C21_skipqueue_queue_side : forall sc sh txof c es,
  hash_table_ok txof ->
  pqueue_ok sc txof c (prun sc sh txof c (pinit c) es)
  /\ Forall (pqueue_ok sc txof c) (prun_states sc sh txof c (pinit c) es).
Proof. exact price_queue_all. Qed.
Print Assumptions C21_skipqueue_queue_side.

Theorem C21_skipqueue_block_txs_gone : forall sc sh txof c es now height bt hs h,
  hash_table_ok txof -> In h hs ->
  ~ In h (map Q.ihash (pwalk (pst (pstep sc sh txof c (prun sc sh txof c (pinit c) es)
                                          (PAddBlock now height bt hs))))).
Proof. exact price_block_gone. Qed.
Print Assumptions C21_skipqueue_block_txs_gone.

Example C21_skipqueue_guard_satisfiable :
  forallb no_evict (pevictions ex_price pid gtab gcfg (pinit gcfg) gevents) = true
  /\ map (fun s => map Q.ihash (pwalk s)) (prun_states ex_price pid gtab gcfg (pinit gcfg) gevents)
     = [[1]; [1; 2]; [1; 2]; [1; 2]; [2]; [4; 2]; [4; 2]; [4]; [4; 3]; []]%N.
Proof. exact example_price_guard. Qed.
Print Assumptions C21_skipqueue_guard_satisfiable.

Example C21_skipqueue_witness :
  let s := prun ex_price pid ptab pcfg (pinit pcfg) (pwit ++ [PRemove [1%N]]) in
  pevictions ex_price pid ptab pcfg (pinit pcfg) (pwit ++ [PRemove [1%N]]) = [[]; [1%N]; []]
  /\ map Q.ihash (pwalk s) = [2%N]
  /\ option_map (map fst) (lm_get 0%N (p_acc s)) = Some [1%N] /\ map fst (p_last s) = [1; 2]%N
  /\ option_map t_h (lm_get 1%N (p_sh s)) = Some 1%N /\ p_fee s = 10000.
Proof. exact example_price_witness. Qed.
Print Assumptions C21_skipqueue_witness.

(** * The delayed-transaction cache (DelayModel.v / DelaySpec.v)

    [drel d p]: the two maps of the cache (EndDelayTime -> transactions, hash ->
    EndDelayTime) describe exactly the flat list [p] of pending
    (hash, EndDelayTime) pairs: no hash twice, each map is the other's inverse,
    every list is the pending transactions of its key in insertion order. *)
Theorem C21_delay_refines_flat : forall sh c size hdr es,
  let s0 := (set_hdr (fst hdr) (snd hdr) init, dnew size) in
  drel (snd (drun sh c s0 es)) (sp_run sh c size s0 [] es).
Proof. exact delay_refines. Qed.
Print Assumptions C21_delay_refines_flat.

(** under that relation the observables are those of the flat specification:
    contains, the number of entries, the answer of an add *)
Theorem C21_delay_observables : forall d p,
  drel d p ->
  (forall h, dcontains h d = pget h p)
  /\ dlen d = Z.of_nat (length p)
  /\ (forall tx endt, snd (dadd tx endt d) = snd (sp_add (d_size d) tx endt p)).
Proof. exact delay_observables. Qed.
Print Assumptions C21_delay_observables.

(** delExpiredTxs hands out exactly the due entries, each once *)
Theorem C21_delay_release_exact : forall d p last curr height,
  drel d p ->
  NoDup (snd (drelease last curr height d))
  /\ (forall h, In h (snd (drelease last curr height d))
                <-> exists e, pget h p = Some e /\ due last curr height e = true)
  /\ drel (fst (drelease last curr height d)) (fst (sp_release last curr height p)).
Proof. exact release_exact. Qed.
Print Assumptions C21_delay_release_exact.

(** order of the released list: the keys inside the time window ascending (each
    key's transactions in insertion order), then the height key if it lies
    outside the window *)
Theorem C21_delay_release_order : forall d p last curr height,
  drel d p ->
  exists a b, snd (drelease last curr height d) = a ++ b
    /\ (exists ks, StronglySorted Z.le ks /\ Forall (fun k => in_window last curr k = true) ks
                   /\ a = concat (map (fun k => group k p) ks))
    /\ (b = [] \/ (in_window last curr height = false /\ b = group height p)).
Proof. intros d p last curr height R. exact (release_order d p last curr height R). Qed.
Print Assumptions C21_delay_release_order.

(** nothing but a release removes an entry, and a release leaves what is not
    due: an entry whose EndDelayTime is not after the last block time and is not
    the height of the block stays (with block times and heights only growing it
    stays for ever and keeps its slot of the bounded cache) *)
Theorem C21_delay_not_due_stays : forall p h e,
  NoDup (hkeys p) -> pget h p = Some e ->
  (forall size tx endt, pget h (fst (sp_add size tx endt p)) = Some e)
  /\ (forall last curr height, e <= last -> e <> height ->
        pget h (fst (sp_release last curr height p)) = Some e).
Proof. exact not_due_summary. Qed.
Print Assumptions C21_delay_not_due_stays.

Example C21_delay_example :
  snd (dadd (Some 4%N) 9 ex_d) = D_OVERFLOW /\ snd (dadd (Some 1%N) 9 (dnew 3)) = D_OK
  /\ snd (dadd (Some 1%N) 9 ex_d) = D_OVERFLOW
  /\ snd (drelease 100 110 7 ex_d) = [1; 2; 3]%N
  /\ d_hash (fst (drelease 100 110 7 ex_d)) = []
  /\ snd (drelease 100 104 6 ex_d) = [] /\ dlen (fst (drelease 100 104 6 ex_d)) = 3
  /\ snd (drelease 100 110 105 ex_d) = [1; 2]%N.
Proof. exact example_delay_release. Qed.
Print Assumptions C21_delay_example.
