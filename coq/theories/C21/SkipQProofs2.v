(** C21 — score-ordered pool: the history-level results, the refutation of the
    unguarded claim, and "every first eviction breaks the invariant". *)
From Coq Require Import List ZArith NArith Bool Lia Permutation Sorted.
From C33 Require Import C21.Model C21.Spec C21.ProofsLm C21.ProofsInv C21.ProofsMain.
From C33 Require Import C21.SkipQModel C21.SkipQProofsQ C21.SkipQProofs.
Import ListNotations.
Open Scope Z_scope.

(** * no eviction along the history: the invariant holds in every state *)
Lemma price_partial sc sh txof c es :
  1 <= c_peracc c -> hash_table_ok txof ->
  forallb no_evict (pevictions sc sh txof c (pinit c) es) = true ->
  pconsistent txof sh c (prun sc sh txof c (pinit c) es)
  /\ Forall (pconsistent txof sh c) (prun_states sc sh txof c (pinit c) es).
Proof.
  intros Hp Ht Hev. split.
  - apply (pinv_pconsistent sc). apply pinv_run; auto. apply pinv_init. exact Hp.
  - eapply Forall_impl; [intros s; apply (pinv_pconsistent sc)|].
    apply pinv_run_states; auto. apply pinv_init. exact Hp.
Qed.

(** * the queue side, for every history *)
Definition pqueue_ok (sc : tx -> Z -> Z) (txof : N -> tx) (c : config) (st : pstate) : Prop :=
  let w := pwalk st in
  NoDup (map Q.ihash w)
  /\ Q.q_size (p_q st) = Z.of_nat (length w)
  /\ (0 <= c_qcap c -> Z.of_nat (length w) <= c_qcap c)
  /\ StronglySorted (fun a b => Q.iscore a >= Q.iscore b) w
  /\ Forall (fun it => Q.iscore it = sc (txof (Q.ihash it)) (enter_of it)) w
  /\ Q.q_bytes (p_q st) = sum_z (map (fun it => t_size (txof (Q.ihash it))) w)
  /\ (forall h, Q.q_exist h (p_q st) = mem_n h (map Q.ihash w)).

Lemma mem_n_exist h l : mem_n h (map Q.ihash l) = QS.spec_exist h l.
Proof.
  unfold mem_n, QS.spec_exist. induction l as [|x l IH]; cbn; [reflexivity|].
  rewrite IH. unfold QS.has_hash. rewrite (N.eqb_sym h). reflexivity.
Qed.

Lemma qlink_queue_ok sc txof c st l : qlink sc txof c st l -> pqueue_ok sc txof c st.
Proof.
  intros HQ. pose proof (qlink_walk _ _ _ _ _ HQ) as Ew. destruct HQ as [HR HI].
  unfold pqueue_ok. rewrite Ew. repeat split.
  - apply (QR.R_nodup _ _ _ HR).
  - apply (QR.R_size _ _ _ HR).
  - apply (QR.R_within _ _ _ HR).
  - apply (QR.R_sorted _ _ _ HR).
  - eapply Forall_impl; [|exact HI]. intros it [_ E]. exact E.
  - unfold Q.q_bytes. rewrite (QR.R_bytes _ _ _ HR). clear HR Ew.
    induction HI as [|x l [Es _] _ IH]; cbn; [reflexivity|]. rewrite Es, IH. reflexivity.
  - intros h. unfold Q.q_exist. rewrite (QR.map_ok_mem _ _ h (QR.R_map _ _ _ HR)).
    symmetry. apply mem_n_exist.
Qed.

Lemma price_queue_all sc sh txof c es :
  hash_table_ok txof ->
  pqueue_ok sc txof c (prun sc sh txof c (pinit c) es)
  /\ Forall (pqueue_ok sc txof c) (prun_states sc sh txof c (pinit c) es).
Proof.
  intros Ht. split.
  - destruct (qlink_run sc sh txof c es (pinit c) [] Ht (qlink_init sc txof c)) as (l & H).
    eapply qlink_queue_ok; exact H.
  - eapply Forall_impl; [|apply (qlink_run_states sc sh txof c es (pinit c) [] Ht (qlink_init sc txof c))].
    intros s (l & H). eapply qlink_queue_ok; exact H.
Qed.

(** * the transactions of an added block are gone (evictions or not) *)
Lemma price_block_gone sc sh txof c es now height bt hs h :
  hash_table_ok txof -> In h hs ->
  ~ In h (map Q.ihash (pwalk (pst (pstep sc sh txof c (prun sc sh txof c (pinit c) es)
                                          (PAddBlock now height bt hs))))).
Proof.
  intros Ht Hin.
  destruct (qlink_run sc sh txof c es (pinit c) [] Ht (qlink_init sc txof c)) as (l & H).
  set (st := prun sc sh txof c (pinit c) es) in *. cbn [pstep].
  set (st1 := if _ || _ then pset_hdr height bt st else st).
  assert (H1 : qlink sc txof c st1 l).
  { unfold st1. destruct (_ || _); [|exact H]. eapply qlink_q; [|exact H]. reflexivity. }
  destruct (0 <? Q.q_size (p_q st1)) eqn:Z; unfold pst; cbn [fst].
  - destruct (qlink_remove_txs sc sh txof c hs st1 l H1) as (l1 & H2 & S2).
    destruct (qlink_remove_expired sc sh txof c now _ l1 H2) as (l2 & H3 & S3).
    rewrite (qlink_walk _ _ _ _ _ H3). intros Hx. apply S3, S2 in Hx. tauto.
  - rewrite (qlink_walk _ _ _ _ _ H1). apply Z.ltb_ge in Z.
    rewrite (QR.R_size _ _ _ (ql_R _ _ _ _ _ H1)) in Z. unfold QS.spec_size in Z.
    destruct l; [intros []|cbn in Z; lia].
Qed.

(** an example score function: fee per byte (Go int64 division) *)
Definition ex_price (t : tx) (enter : Z) : Z := Z.quot (t_fee t) (t_size t).
(** another: fee per byte minus the enter time (a later arrival scores lower) *)
Definition ex_aging (t : tx) (enter : Z) : Z := Z.quot (t_fee t) (t_size t) - enter.

(** * the unguarded claim is false *)
Definition price_full_claim : Prop :=
  forall sc sh txof c es, 1 <= c_peracc c -> hash_table_ok txof ->
    pconsistent txof sh c (prun sc sh txof c (pinit c) es).

Definition pA : tx := mkTx 1 0 1000 98 [0].
Definition pB : tx := mkTx 2 1 9000 98 [0].
Definition ptab (h : N) : tx :=
  if N.eqb h 1 then pA else if N.eqb h 2 then pB else mkTx h 2 0 100 [0].
Definition pcfg : config := mkCfg 1 4 4 8 600.
Definition pid : N -> N := fun h => h.
Definition pwit : list pevent := [PPush 0 1%N; PPush 0 2%N].

Lemma ptab_ok : hash_table_ok ptab.
Proof.
  intros h. unfold ptab. destruct (N.eqb_spec h 1) as [->|]; [reflexivity|].
  destruct (N.eqb_spec h 2) as [->|]; reflexivity.
Qed.

Lemma price_full_refuted : ~ price_full_claim.
Proof.
  intros H. specialize (H ex_price pid ptab pcfg pwit).
  destruct H as (G & (HP & HT) & K); [cbn; lia|exact ptab_ok|].
  set (s2 := prun ex_price pid ptab pcfg (pinit pcfg) pwit) in *.
  assert (Ew : map Q.ihash (pwalk s2) = [2%N]) by (vm_compute; reflexivity).
  assert (Ef : p_fee s2 = 10000) by (vm_compute; reflexivity).
  rewrite Ew in HP. apply Permutation_sym, Permutation_length_1_inv in HP.
  destruct G as [|[k it] [|? ?]]; try discriminate. cbn in HP. inversion HP; subst k.
  apply Forall_inv in HT. cbn [fst snd] in HT.
  pose proof (k_fee _ _ _ K) as F.
  change (s_fee (as_state s2 [(2%N, it)])) with (p_fee s2) in F.
  change (qtx (as_state s2 [(2%N, it)])) with [(2%N, i_tx it)] in F.
  rewrite Ef, HT in F. vm_compute in F. discriminate.
Qed.

(** * every first eviction breaks the invariant *)
Lemma pcache_push_acc sc sh c now t st :
  acc_can_push c t (p_acc st) = true ->
  snd (Q.q_push (mk_item sc t now) (p_q st)) = Q.ENone ->
  p_acc (pst (pcache_push sc sh c now t st)) = snd (acc_push c t (t_h t) (p_acc st)).
Proof.
  intros Hc He. unfold pcache_push, pst. rewrite Hc. cbn [negb].
  destruct (Q.q_push (mk_item sc t now) (p_q st)) as [q' e]. cbn [snd] in He. subst e. cbn [err_ok negb].
  destruct (acc_push c t (t_h t) (p_acc st)) as [e2 acc']. destruct (negb (N.eqb e2 E_OK)); reflexivity.
Qed.

Lemma pcache_push_ev sc sh c now t st :
  pev (pcache_push sc sh c now t st) =
    if acc_can_push c t (p_acc st)
    then evicted_of (p_q st) (snd (Q.q_push (mk_item sc t now) (p_q st))) else [].
Proof.
  unfold pcache_push, pev. destruct (acc_can_push c t (p_acc st)); cbn [negb]; [|reflexivity].
  destruct (Q.q_push (mk_item sc t now) (p_q st)) as [q' e]. cbn [snd].
  destruct (err_ok e); cbn [negb]; [|reflexivity].
  destruct (acc_push c t (t_h t) (p_acc st)) as [e2 acc']. destruct (negb (N.eqb e2 E_OK)); reflexivity.
Qed.

Lemma evict_breaks sc txof sh c st now h :
  1 <= c_peracc c -> hash_table_ok txof -> pinv sc txof sh c st ->
  pev (pstep sc sh txof c st (PPush now h)) <> [] ->
  ~ pconsistent txof sh c (pst (pstep sc sh txof c st (PPush now h))).
Proof.
  intros Hp Ht (l & G & HQ & HG & K) Hev (G' & (HP & _) & K'). cbn [pstep] in *.
  set (t := txof h) in *. assert (Eh : t_h t = h) by apply Ht.
  rewrite pcache_push_ev in Hev.
  destruct (acc_can_push c t (p_acc st)) eqn:Hcan; [|congruence].
  pose proof HQ as [HR HI].
  pose proof (pcache_push_q sc sh c now t st) as Eq. rewrite Hcan in Eq.
  pose proof (pcache_push_acc sc sh c now t st Hcan) as Ea.
  set (st' := pst (pcache_push sc sh c now t st)) in *.
  destruct (qpush_cases _ _ _ (mk_item sc t now) HR)
    as [(_ & _ & _ & E0)|[(_ & _ & _ & _ & E0)|(He & _ & Hnin & rest & worst & El & _ & HR' & _)]];
    [congruence|congruence|].
  change (Q.ihash (mk_item sc t now)) with (t_h t) in Hnin. rewrite Eh in Hnin.
  specialize (Ea He).
  set (hw := Q.ihash worst). set (Tw := txof hw). set (a := t_from Tw).
  assert (Hwl : In worst l) by (rewrite El; apply in_or_app; right; now left).
  assert (HwG : In (hw, Tw) (qtx (as_state st G))).
  { assert (In (hw, conv txof worst) G).
    { apply lm_get_in. rewrite (gl_get _ _ _ HG). unfold hw.
      rewrite (spec_get_in l worst (QR.R_nodup _ _ _ HR) Hwl). reflexivity. }
    apply (qtx_in (as_state st G)) in H. exact H. }
  assert (Hwa : In (hw, Tw) (acc_get a (p_acc st))).
  { pose proof (k_acc _ _ _ K a) as Ka. cbn [as_state s_acc] in Ka. rewrite Ka.
    apply filter_In. split; [exact HwG|]. unfold from_b, a. cbn [snd]. apply N.eqb_refl. }
  assert (HhG : ~ In h (keys G)) by (intro Hx; apply Hnin; apply (glink_keys txof l G h HG); exact Hx).
  destruct (acc_push_spec c t h (p_acc st) Hp Hcan (k_acc_nodup _ _ _ K)) as (acc' & Eacc & _ & _ & Hacc').
  { pose proof (k_acc _ _ _ K (t_from t)) as Ka. cbn [as_state s_acc] in Ka. rewrite Ka.
    intros Hx. apply keys_filter_in in Hx. rewrite qtx_keys in Hx. exact (HhG Hx). }
  rewrite Eh, Eacc in Ea. cbn [snd] in Ea.
  assert (Hwa' : In (hw, Tw) (acc_get a (p_acc st'))).
  { rewrite Ea, Hacc'. destruct (N.eqb a (t_from t)) eqn:E.
    - apply N.eqb_eq in E. rewrite <- E. apply in_or_app. left. exact Hwa.
    - exact Hwa. }
  pose proof (k_acc _ _ _ K' a) as Ka'. cbn [as_state s_acc] in Ka'. rewrite Ka' in Hwa'.
  apply filter_In in Hwa' as [Hw' _]. apply in_keys in Hw'. rewrite qtx_keys in Hw'. cbn [as_state s_q] in Hw'.
  apply (Permutation_in _ HP) in Hw'.
  assert (Ewalk : pwalk st' = QS.spec_insert (mk_item sc t now) rest).
  { unfold pwalk. rewrite Eq, QH.walk0_contents. apply (QR.R_cont _ _ _ HR'). }
  rewrite Ewalk in Hw'. apply in_map_iff in Hw' as (x & Ex & Hx).
  apply QP.spec_insert_in in Hx as [Hx|Hx].
  - subst x. change (Q.ihash (mk_item sc t now)) with (t_h t) in Ex. rewrite Eh in Ex.
    apply Hnin. rewrite Ex. unfold QP.hashes. now apply in_map.
  - pose proof (QR.R_nodup _ _ _ HR) as ND. rewrite El in ND. unfold QP.hashes in ND.
    rewrite map_app in ND. cbn [map] in ND. apply NoDup_remove_2 in ND. rewrite app_nil_r in ND.
    apply ND. fold hw. rewrite <- Ex. now apply in_map.
Qed.

Lemma price_first_eviction_breaks sc sh txof c es now h :
  1 <= c_peracc c -> hash_table_ok txof ->
  forallb no_evict (pevictions sc sh txof c (pinit c) es) = true ->
  pev (pstep sc sh txof c (prun sc sh txof c (pinit c) es) (PPush now h)) <> [] ->
  ~ pconsistent txof sh c (pst (pstep sc sh txof c (prun sc sh txof c (pinit c) es) (PPush now h))).
Proof.
  intros Hp Ht Hev. apply evict_breaks; auto. apply pinv_run; auto. apply pinv_init. exact Hp.
Qed.

(** * examples *)
Definition g1 : tx := mkTx 1 0 1000 100 [0].   (* price 10 *)
Definition g2 : tx := mkTx 2 0 1040 104 [0].   (* price 10 *)
Definition g3 : tx := mkTx 3 1 500 100 [0].    (* price 5 *)
Definition g4 : tx := mkTx 4 1 2000 100 [0].   (* price 20 *)
Definition gtab (h : N) : tx :=
  if N.eqb h 1 then g1 else if N.eqb h 2 then g2 else if N.eqb h 3 then g3
  else if N.eqb h 4 then g4 else mkTx h 2 0 100 [0].
Definition gcfg : config := mkCfg 2 2 2 4 100.
Definition gevents : list pevent :=
  [PPush 10 1%N; PPush 11 2%N; PPush 12 3%N; PPush 12 2%N; PRemove [1%N]; PPush 13 4%N;
   PPush 14 1%N; PAddBlock 15 1 15 [2%N]; PDelBlock 16 0 16 [3%N]; PExpire 200].

Lemma gtab_ok : hash_table_ok gtab.
Proof.
  intros h. unfold gtab.
  destruct (N.eqb_spec h 1) as [->|]; [reflexivity|].
  destruct (N.eqb_spec h 2) as [->|]; [reflexivity|].
  destruct (N.eqb_spec h 3) as [->|]; [reflexivity|].
  destruct (N.eqb_spec h 4) as [->|]; reflexivity.
Qed.

(** a history through a full queue without eviction (equal and lower prices
    are refused), in price order *)
Lemma example_price_guard :
  forallb no_evict (pevictions ex_price pid gtab gcfg (pinit gcfg) gevents) = true
  /\ map (fun s => map Q.ihash (pwalk s)) (prun_states ex_price pid gtab gcfg (pinit gcfg) gevents)
     = [[1]; [1; 2]; [1; 2]; [1; 2]; [2]; [4; 2]; [4; 2]; [4]; [4; 3]; []]%N.
Proof. vm_compute. split; reflexivity. Qed.

(** the witness: capacity 1, the dearer transaction evicts the cheaper one,
    which stays in the sender index, the latest list, the short-hash index and
    the fee total; removing it explicitly changes nothing *)
Lemma example_price_witness :
  let s := prun ex_price pid ptab pcfg (pinit pcfg) (pwit ++ [PRemove [1%N]]) in
  pevictions ex_price pid ptab pcfg (pinit pcfg) (pwit ++ [PRemove [1%N]]) = [[]; [1%N]; []]
  /\ map Q.ihash (pwalk s) = [2%N]
  /\ option_map (map fst) (lm_get 0%N (p_acc s)) = Some [1%N] /\ map fst (p_last s) = [1; 2]%N
  /\ option_map t_h (lm_get 1%N (p_sh s)) = Some 1%N /\ p_fee s = 10000.
Proof. vm_compute. repeat split; reflexivity. Qed.

(** another score function (ageing): the dearest transaction arrives late and is
    refused, a cheaper but earlier one evicts the worst *)
Lemma example_score_shape :
  let sc := ex_aging in
  map (fun s => map Q.ihash (pwalk s))
      (prun_states sc pid gtab gcfg (pinit gcfg) [PPush 10 3%N; PPush 11 1%N; PPush 30 4%N; PPush 12 2%N])
  = [[3]; [1; 3]; [1; 3]; [1; 2]]%N.
Proof. vm_compute. reflexivity. Qed.
