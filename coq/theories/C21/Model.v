(** C21 — executable model of the mempool bookkeeping
    (system/mempool/{simplequeue,accountindex,lasttx,shorthashtx,cache,base,eventprocess}.go
    and common/listmap/listmap.go), followed line by line.

    A transaction is abstract: its hash ([t_h], an identifier), its sender
    ([t_from], an identifier of the address [tx.From()]), its [Fee], its
    protobuf size and the [Expire] values of its members (one value for a plain
    transaction, one per member for a group; the head is the pool-level
    transaction's own [Expire]).  The 5-byte short hash is an arbitrary
    function [sh] of the hash, passed to every operation that uses it.
    No proofs here. *)
From Coq Require Import List ZArith NArith Bool.
Import ListNotations.
Open Scope Z_scope.

(** * listmap.ListMap: a map plus an insertion-ordered list.
    Modelled as an association list with unique keys in list order. *)
Definition lm (V : Type) : Type := list (N * V).

Fixpoint lm_get {V} (k : N) (l : lm V) : option V :=
  match l with
  | [] => None
  | (k', v) :: tl => if N.eqb k k' then Some v else lm_get k tl
  end.

Definition lm_exist {V} (k : N) (l : lm V) : bool :=
  match lm_get k l with Some _ => true | None => false end.

(** elm.Value = value (in place) *)
Fixpoint lm_set {V} (k : N) (v : V) (l : lm V) : lm V :=
  match l with
  | [] => []
  | (k', v') :: tl => if N.eqb k k' then (k', v) :: tl else (k', v') :: lm_set k v tl
  end.

(** Push: replace in place when the key exists, else PushBack *)
Definition lm_push {V} (k : N) (v : V) (l : lm V) : lm V :=
  if lm_exist k l then lm_set k v l else l ++ [(k, v)].

Fixpoint lm_remove {V} (k : N) (l : lm V) : lm V :=
  match l with
  | [] => []
  | (k', v') :: tl => if N.eqb k k' then tl else (k', v') :: lm_remove k tl
  end.

Definition lm_top {V} (l : lm V) : option V :=
  match l with [] => None | (_, v) :: _ => Some v end.

Definition lm_size {V} (l : lm V) : Z := Z.of_nat (length l).

(** * Data *)
Record tx := mkTx { t_h : N; t_from : N; t_fee : Z; t_size : Z; t_exp : list Z }.
Record item := mkItem { i_tx : tx; i_enter : Z }.

(** configuration: SimpleQueue capacity (SubConfig.PoolCacheSize), per-account
    limit, latest-list length, short-hash cache size (Mempool.PoolCacheSize),
    pool-age expiry interval (mempoolExpiredInterval) *)
Record config := mkCfg { c_qcap : Z; c_peracc : Z; c_lastmax : Z; c_shmax : Z; c_interval : Z }.

Record state := mkSt {
  s_q : lm item;          (* SimpleQueue.txList *)
  s_bytes : Z;            (* SimpleQueue.cacheBytes *)
  s_acc : lm (lm tx);     (* AccountTxIndex.accMap : address -> ListMap *)
  s_last : lm tx;         (* LastTxCache.l *)
  s_sh : lm tx;           (* SHashTxCache.l, keyed by short hash *)
  s_fee : Z;              (* txCache.totalFee *)
  s_hdr : option (Z * Z)  (* Mempool.header: height, block time; None = nil *)
}.

Definition init : state := mkSt [] 0 [] [] [] 0 None.

(** error classes *)
Definition E_OK : N := 0%N.
Definition E_MANYTX : N := 1%N.
Definition E_TXEXIST : N := 2%N.
Definition E_MEMFULL : N := 3%N.

(** * SimpleQueue *)
Definition q_push (c : config) (it : item) (q : lm item) (bytes : Z) : N * lm item * Z :=
  let h := t_h (i_tx it) in
  if lm_exist h q then (E_TXEXIST, q, bytes)
  else if c_qcap c <=? lm_size q then (E_MEMFULL, q, bytes)
  else (E_OK, lm_push h it q, bytes + t_size (i_tx it)).

Definition q_remove (h : N) (q : lm item) (bytes : Z) : lm item * Z :=
  match lm_get h q with
  | None => (q, bytes)
  | Some it => (lm_remove h q, bytes - t_size (i_tx it))
  end.

(** * AccountTxIndex *)
Definition acc_can_push (c : config) (t : tx) (acc : lm (lm tx)) : bool :=
  match lm_get (t_from t) acc with
  | Some l => lm_size l <? c_peracc c
  | None => true
  end.

Definition acc_push (c : config) (t : tx) (h : N) (acc : lm (lm tx)) : N * lm (lm tx) :=
  let a := t_from t in
  let acc1 := if lm_exist a acc then acc else lm_push a [] acc in
  match lm_get a acc1 with
  | None => (E_MANYTX, acc1) (* unreachable: the key was just created *)
  | Some l =>
      if c_peracc c <=? lm_size l then (E_MANYTX, acc1)
      else (E_OK, lm_set a (lm_push h t l) acc1)
  end.

Definition acc_remove (t : tx) (h : N) (acc : lm (lm tx)) : lm (lm tx) :=
  let a := t_from t in
  match lm_get a acc with
  | None => acc
  | Some l =>
      let l' := lm_remove h l in
      if lm_size l' =? 0 then lm_remove a acc else lm_set a l' acc
  end.

(** * LastTxCache *)
Definition last_push (c : config) (t : tx) (h : N) (l : lm tx) : lm tx :=
  let l1 :=
    if c_lastmax c <=? lm_size l then
      match lm_top l with
      | Some v => lm_remove (t_h v) l
      | None => l
      end
    else l in
  lm_push h t l1.

(** * SHashTxCache *)
Definition sh_push (sh : N -> N) (c : config) (t : tx) (h : N) (s : lm tx) : lm tx :=
  let k := sh h in
  if lm_exist k s then s
  else if c_shmax c <=? lm_size s then s
  else lm_push k t s.

(** Remove(txHash): the entry under the short hash is deleted only when the
    stored transaction is the one being removed (its hash equals txHash); an
    entry owned by another pooled transaction with the same short hash stays *)
Definition sh_remove (sh : N -> N) (h : N) (s : lm tx) : lm tx :=
  match lm_get (sh h) s with
  | Some t => if N.eqb (t_h t) h then lm_remove (sh h) s else s
  | None => s
  end.

(** * txCache.Push / Remove / RemoveTxs *)
Definition cache_push (sh : N -> N) (c : config) (now : Z) (t : tx) (st : state) : state * N :=
  if negb (acc_can_push c t (s_acc st)) then (st, E_MANYTX)
  else
    let it := mkItem t now in
    let h := t_h t in
    match q_push c it (s_q st) (s_bytes st) with
    | (e, q', b') =>
        if negb (N.eqb e E_OK) then (st, e)
        else
          match acc_push c t h (s_acc st) with
          | (e2, acc') =>
              if negb (N.eqb e2 E_OK)
              then (mkSt q' b' acc' (s_last st) (s_sh st) (s_fee st) (s_hdr st), e2)
              else (mkSt q' b' acc' (last_push c t h (s_last st))
                         (sh_push sh c t h (s_sh st)) (s_fee st + t_fee t) (s_hdr st), E_OK)
          end
    end.

Definition cache_remove (sh : N -> N) (h : N) (st : state) : state :=
  match lm_get h (s_q st) with
  | None => st
  | Some it =>
      let t := i_tx it in
      match q_remove h (s_q st) (s_bytes st) with
      | (q', b') =>
          mkSt q' b' (acc_remove t h (s_acc st)) (lm_remove h (s_last st))
               (sh_remove sh h (s_sh st)) (s_fee st - t_fee t) (s_hdr st)
      end
  end.

Definition remove_txs (sh : N -> N) (hs : list N) (st : state) : state :=
  fold_left (fun s h => cache_remove sh h s) hs st.

(** * expiry *)
Definition EXPIRE_BOUND : Z := 1000000000.

(** Transaction.isExpire (TxHeight-style expiries, > 2^62, are not modelled) *)
Definition exp1 (height blocktime v : Z) : bool :=
  if v =? 0 then false
  else if v <=? EXPIRE_BOUND then v <=? height
  else v <=? blocktime.

Definition tx_is_expire (t : tx) (height blocktime : Z) : bool :=
  existsb (exp1 height blocktime) (t_exp t).

Definition is_expired (c : config) (now height blocktime : Z) (it : item) : bool :=
  (c_interval c <=? now - i_enter it) || tx_is_expire (i_tx it) height blocktime.

Definition expired_hashes (c : config) (now height blocktime : Z) (q : lm item) : list N :=
  map (fun p => t_h (i_tx (snd p))) (filter (fun p => is_expired c now height blocktime (snd p)) q).

Definition remove_expired_tx (sh : N -> N) (c : config) (now height blocktime : Z) (st : state) : state :=
  remove_txs sh (expired_hashes c now height blocktime (s_q st)) st.

Definition hdr_height (st : state) : Z := match s_hdr st with Some (h, _) => h | None => 0 end.
Definition hdr_time (st : state) : Z := match s_hdr st with Some (_, b) => b | None => 0 end.
(** Mempool.Height(): -1 when no header *)
Definition mem_height (st : state) : Z := match s_hdr st with Some (h, _) => h | None => -1 end.

Definition set_hdr (h b : Z) (st : state) : state :=
  mkSt (s_q st) (s_bytes st) (s_acc st) (s_last st) (s_sh st) (s_fee st) (Some (h, b)).

(** Mempool.removeExpired *)
Definition remove_expired (sh : N -> N) (c : config) (now : Z) (st : state) : state :=
  remove_expired_tx sh c now (hdr_height st + 1) (hdr_time st) st.

(** Mempool.checkExpireValid *)
Definition check_expire_valid (now : Z) (st : state) (t : tx) : bool :=
  if tx_is_expire t (hdr_height st + 1) (hdr_time st) then false
  else
    let e := hd 0 (t_exp t) in
    if (EXPIRE_BOUND <? e) && (e <? now + 60) then false else true.

(** * events *)
Inductive event :=
| EPush (now : Z) (t : tx)                        (* Mempool.PushTx *)
| ERemove (hs : list N)                           (* Mempool.RemoveTxs *)
| EExpire (now : Z)                               (* Mempool.removeExpired (the periodic sweep) *)
| EAddBlock (now height blocktime : Z) (hs : list N)
    (* eventAddBlock; hs = hashes of block.Txs (every group member) *)
| EDelBlock (now height blocktime : Z) (ts : list tx).
    (* setHeader(new tip) + delBlock; ts = the pool-level transactions of the
       block (groups merged) that pass Transaction.Check *)

Definition del_block (sh : N -> N) (c : config) (now : Z) (ts : list tx) (st : state) : state :=
  fold_left (fun s t => if check_expire_valid now s t then fst (cache_push sh c now t s) else s) ts st.

Definition step (sh : N -> N) (c : config) (st : state) (e : event) : state * N :=
  match e with
  | EPush now t => cache_push sh c now t st
  | ERemove hs => (remove_txs sh hs st, E_OK)
  | EExpire now => (remove_expired sh c now st, E_OK)
  | EAddBlock now h b hs =>
      let height := mem_height st in
      let st1 := if (height <? h) || ((h =? 0) && (height =? 0)) then set_hdr h b st else st in
      if 0 <? lm_size (s_q st1)
      then (remove_expired sh c now (remove_txs sh hs st1), E_OK)
      else (st1, E_OK)
  | EDelBlock now h b ts => (del_block sh c now ts (set_hdr h b st), E_OK)
  end.

Definition run (sh : N -> N) (c : config) (st : state) (es : list event) : state :=
  fold_left (fun s e => fst (step sh c s e)) es st.

(** all intermediate states (after each event) *)
Fixpoint run_states (sh : N -> N) (c : config) (st : state) (es : list event) : list state :=
  match es with
  | [] => []
  | e :: tl => let st' := fst (step sh c st e) in st' :: run_states sh c st' tl
  end.

(** * observables *)
Definition qtx (st : state) : lm tx := map (fun p => (fst p, i_tx (snd p))) (s_q st).

Record obs := mkObs {
  o_err : N;                    (* error class of the operation *)
  o_walk : list N;              (* Walk order: hashes *)
  o_count : list Z;             (* TxNumOfAccount per queried sender *)
  o_acctx : list (list N);      (* GetAccTxs per queried sender: hashes in order *)
  o_last : list N;              (* GetLatestTx: hashes *)
  o_short : list (option N);    (* per queried hash h: hash of the transaction found under sh h *)
  o_present : list bool;        (* per queried hash: found under its full hash (map side) *)
  o_fee : Z;                    (* TotalFee *)
  o_bytes : Z;                  (* GetTotalCacheBytes *)
  o_size : Z                    (* Size *)
}.

Definition acc_list (a : N) (st : state) : lm tx :=
  match lm_get a (s_acc st) with Some l => l | None => [] end.

Definition observe (sh : N -> N) (senders hashes : list N) (err : N) (st : state) : obs :=
  mkObs err
    (map (fun p => t_h (i_tx (snd p))) (s_q st))
    (map (fun a => lm_size (acc_list a st)) senders)
    (map (fun a => map (fun p => t_h (snd p)) (acc_list a st)) senders)
    (map (fun p => t_h (snd p)) (s_last st))
    (map (fun h => option_map t_h (lm_get (sh h) (s_sh st))) hashes)
    (map (fun h => match lm_get h (s_q st) with
                   | Some it => N.eqb (t_h (i_tx it)) h | None => false end) hashes)
    (s_fee st) (s_bytes st) (lm_size (s_q st)).
