(** C21 — executable model of the delayed-transaction cache
    (system/mempool/cache.go delayTxCache: addDelayTx / delExpiredTxs / contains)
    and of the places where the Mempool uses it (eventprocess.go eventAddDelayTx,
    and the tail of eventAddBlock: addDelayTx(block) + pushExpiredDelayTx).

    A delayed transaction is its hash id.  [d_tx] is the Go map
    EndDelayTime -> []tx (association list, unique keys, each list in insertion
    order); [d_hash] the map hash -> EndDelayTime.  EndDelayTime is one int64 that
    means a block time or a block height, exactly as in the code.
    delExpiredTxs scans t = lastBlockTime+1 .. currBlockTime in ascending order;
    the model takes the keys of [d_tx] inside that window in ascending order
    (the same lists in the same order, without iterating over absent keys).
    What the release hands to pushDelayTxRoutine (a goroutine that calls SendTx)
    is an output of the step; the routine itself is not modelled.
    No proofs here. *)
From Coq Require Import List ZArith NArith Bool.
From C33 Require Import C21.Model.
Import ListNotations.
Open Scope Z_scope.

Definition D_OK : N := 0%N.
Definition D_NIL : N := 1%N.        (* ErrNilTransaction *)
Definition D_OVERFLOW : N := 2%N.   (* ErrCacheOverFlow *)
Definition D_DUP : N := 3%N.        (* ErrDupTx *)
Definition D_PARAM : N := 4%N.      (* ErrInvalidParam: the event carried no DelayTx *)

Record dcache := mkDc {
  d_size : Z;                   (* delayTxCache.size = Mempool.PoolCacheSize / 2 *)
  d_tx : list (Z * list N);     (* txCache *)
  d_hash : list (N * Z)         (* hashCache *)
}.

Definition dnew (size : Z) : dcache := mkDc size [] [].

Fixpoint zget {V} (k : Z) (m : list (Z * V)) : option V :=
  match m with
  | [] => None
  | (k', v) :: tl => if k =? k' then Some v else zget k tl
  end.

Fixpoint zdel {V} (k : Z) (m : list (Z * V)) : list (Z * V) :=
  match m with
  | [] => []
  | (k', v) :: tl => if k =? k' then tl else (k', v) :: zdel k tl
  end.

(** m[k] = append(m[k], h) *)
Fixpoint zappend (k : Z) (h : N) (m : list (Z * list N)) : list (Z * list N) :=
  match m with
  | [] => [(k, [h])]
  | (k', l) :: tl => if k =? k' then (k', l ++ [h]) :: tl else (k', l) :: zappend k h tl
  end.

Fixpoint hget (h : N) (m : list (N * Z)) : option Z :=
  match m with
  | [] => None
  | (h', v) :: tl => if N.eqb h h' then Some v else hget h tl
  end.

Definition hdel (h : N) (m : list (N * Z)) : list (N * Z) :=
  filter (fun p => negb (N.eqb (fst p) h)) m.

Definition dlen (d : dcache) : Z := Z.of_nat (length (d_hash d)).

(** addDelayTx; [tx = None] is a DelayTx without transaction *)
Definition dadd (tx : option N) (endt : Z) (d : dcache) : dcache * N :=
  match tx with
  | None => (d, D_NIL)
  | Some h =>
      if d_size d <=? dlen d then (d, D_OVERFLOW)
      else match hget h (d_hash d) with
           | Some _ => (d, D_DUP)
           | None => (mkDc (d_size d) (zappend endt h (d_tx d)) ((h, endt) :: d_hash d), D_OK)
           end
  end.

Fixpoint zinsert (k : Z) (l : list Z) : list Z :=
  match l with
  | [] => [k]
  | x :: tl => if k <=? x then k :: l else x :: zinsert k tl
  end.
Definition zsort (l : list Z) : list Z := fold_right zinsert [] l.

Definition in_window (last curr k : Z) : bool := (last <? k) && (k <=? curr).

Definition lists_of (ks : list Z) (m : list (Z * list N)) : list N :=
  concat (map (fun k => match zget k m with Some l => l | None => [] end) ks).

(** delExpiredTxs(lastBlockTime, currBlockTime, currBlockHeight) *)
Definition drelease (last curr height : Z) (d : dcache) : dcache * list N :=
  if dlen d <=? 0 then (d, [])
  else
    let wk := zsort (filter (in_window last curr) (map fst (d_tx d))) in
    let del1 := lists_of wk (d_tx d) in
    let m1 := fold_left (fun m k => zdel k m) wk (d_tx d) in
    let del2 := match zget height m1 with Some l => l | None => [] end in
    let m2 := zdel height m1 in
    let del := del1 ++ del2 in
    (mkDc (d_size d) m2 (fold_left (fun hm h => hdel h hm) del (d_hash d)), del).

Definition dcontains (h : N) (d : dcache) : option Z := hget h (d_hash d).

(** * the pool together with the delay cache *)
(** a CommitDelayTx found in a block: inner transaction, RelativeDelayTime, RelativeDelayHeight *)
Record commit := mkCommit { cm_tx : N; cm_time : Z; cm_height : Z }.

Inductive devent :=
| DEv (e : event) (commits : list commit)
    (* a pool event of Model.v; [commits] = the CommitDelayTx actions of the
       block of an EAddBlock, in block order (empty otherwise) *)
| DAddDelay (tx : option N) (endt : Z).
    (* eventAddDelayTx (RPC SendDelayTransaction) *)

Definition commit_end (height blocktime : Z) (cm : commit) : Z :=
  if cm_time cm <=? 0 then cm_height cm + height else cm_time cm + blocktime.

(** addDelayTx(cache, block): errors are only logged *)
Definition dadd_block (height blocktime : Z) (cms : list commit) (d : dcache) : dcache :=
  fold_left (fun dd cm => fst (dadd (Some (cm_tx cm)) (commit_end height blocktime cm) dd)) cms d.

(** result: new state, error class, the list handed to pushDelayTxRoutine *)
Definition dstep (sh : N -> N) (c : config) (s : state * dcache) (e : devent)
  : (state * dcache) * N * list N :=
  match s with
  | (st, d) =>
      match e with
      | DAddDelay tx endt => match dadd tx endt d with (d', err) => ((st, d'), err, []) end
      | DEv ev cms =>
          match step sh c st ev with
          | (st', err) =>
              match ev with
              | EAddBlock now h b hs =>
                  (* lastHeader is read before the header is replaced *)
                  let last := hdr_time st in
                  match drelease last b h (dadd_block h b cms d) with
                  | (d', rel) => ((st', d'), err, rel)
                  end
              | _ => ((st', d), err, [])
              end
          end
      end
  end.

Definition dst (r : (state * dcache) * N * list N) : state * dcache := fst (fst r).

Definition drun sh c (s : state * dcache) (es : list devent) : state * dcache :=
  fold_left (fun x e => dst (dstep sh c x e)) es s.

Fixpoint drun_states sh c (s : state * dcache) (es : list devent) : list (state * dcache) :=
  match es with
  | [] => []
  | e :: tl => let s' := dst (dstep sh c s e) in s' :: drun_states sh c s' tl
  end.

(** * observables of the delay cache *)
Record dobs := mkDobs {
  do_err : N;                    (* error class of an add *)
  do_rel : list N;               (* what the event released *)
  do_tab : list (option Z);      (* contains(h) for every known hash *)
  do_len : Z                     (* len(hashCache) *)
}.

Definition dobserve (hashes : list N) (err : N) (rel : list N) (d : dcache) : dobs :=
  mkDobs err rel (map (fun h => dcontains h d) hashes) (dlen d).
