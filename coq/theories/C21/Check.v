(** C21 — correspondence cases: an event history with the observations the Go
    mempool returned after every event. *)
From Coq Require Import List ZArith NArith Bool String.
From C33 Require Import Lib.Harness C21.Model C21.Spec C21.DelayModel C21.DelaySpec.
Import ListNotations.
Open Scope Z_scope.

Inductive case :=
| CHist (c : config) (shtab : list (N * N)) (senders hashes : list N) (txs : list tx)
        (steps : list (event * obs))
    (* sequential history *)
| CFinal (c : config) (shtab : list (N * N)) (senders hashes : list N) (txs : list tx) (o : obs)
    (* final observation of a concurrent run: only the oracle applies (a test) *)
| CDHist (c : config) (dsize : Z) (hdr0 : Z * Z) (shtab : list (N * N)) (senders hashes : list N)
         (txs : list tx) (steps : list (devent * obs * dobs)).
    (* sequential history of the pool together with the delayed-transaction cache
       ([dsize] = its capacity; the header is (height, block time) [hdr0] at the start) *)

(** the short hash of each transaction hash of the case, as computed by
    types.CalcTxShortHash on the Go side; unknown hashes get distinct values *)
Definition sh_of (tab : list (N * N)) (h : N) : N :=
  match lm_get h tab with Some k => k | None => (h + 1000000)%N end.

Definition opt_n_eqb := option_eqb N.eqb.

Definition obs_eqb (a b : obs) : bool :=
  N.eqb (o_err a) (o_err b)
  && list_n_eqb (o_walk a) (o_walk b)
  && list_eqb Z.eqb (o_count a) (o_count b)
  && list_eqb list_n_eqb (o_acctx a) (o_acctx b)
  && list_n_eqb (o_last a) (o_last b)
  && list_eqb opt_n_eqb (o_short a) (o_short b)
  && list_eqb Bool.eqb (o_present a) (o_present b)
  && (o_fee a =? o_fee b) && (o_bytes a =? o_bytes b) && (o_size a =? o_size b).

(** known finding 1 (short-hash collision, what is left of it after chain33
    a576c70): everything but the short-hash clause holds, and every pooled
    transaction whose short-hash lookup is empty
    - shares that short hash with a different hash of the history, and
    - was pooled already at the previous observation and was not the
      transaction found under its short hash there (it was pushed while another
      transaction with its short hash was pooled, was therefore never indexed,
      and the owner of the entry has left now).
    A transaction that WAS found under its short hash and loses the entry while
    it stays pooled (the repaired defect) does not match. *)
Definition lookup_of (hashes : list N) (o : obs) (h : N) : option N :=
  match find (fun x => N.eqb (fst x) h) (combine hashes (o_short o)) with
  | Some (_, s) => s
  | None => None
  end.

Definition never_owner (hashes : list N) (prev : option obs) (h : N) : bool :=
  match prev with
  | None => false
  | Some po =>
      mem_n h (o_walk po)
      && negb (match lookup_of hashes po h with Some h' => N.eqb h' h | None => false end)
  end.

Definition collision_sig (sh : N -> N) (hashes : list N) (prev : option obs) (o : obs) : bool :=
  let fs := short_failures hashes o in
  match fs with
  | [] => false
  | _ => forallb (fun h => existsb (fun h' => negb (N.eqb h' h) && N.eqb (sh h') (sh h)) hashes
                           && never_owner hashes prev h) fs
  end.

Definition spec_all (sh : N -> N) (c : config) (txs : list tx) (senders hashes : list N)
           (e : option event) (o : obs) : bool * bool :=
  (spec_base sh c txs senders hashes o
   && match e with Some e => spec_block e o | None => true end,
   spec_short hashes o).

Fixpoint check_steps (sh : N -> N) (c : config) (txs : list tx) (senders hashes : list N)
         (st : state) (prev : option obs) (steps : list (event * obs)) : verdict :=
  match steps with
  | [] => ok_verdict
  | (e, o) :: tl =>
      match step sh c st e with
      | (st', err) =>
          let mo := obs_eqb (observe sh senders hashes err st') o in
          match check_steps sh c txs senders hashes st' (Some o) tl with
          | (m, s, k) =>
              match spec_all sh c txs senders hashes (Some e) o with
              | (sb, ss) =>
                  if sb && ss then (mo && m, s, k)
                  else (mo && m, false,
                        if sb && negb ss && collision_sig sh hashes prev o then 1%N else 0%N)
              end
          end
      end
  end.

(** compact wire format (Coq parses long list notations slowly): lists of small
    numbers travel as hex strings, one byte per element; events name
    transactions by their hash, resolved in the case's transaction table *)
Definition ob (err : N) (walk count : string) (acctx : list string) (last short present : string)
           (fee bytes size : Z) : obs :=
  mkObs err (hx walk) (map Z.of_N (hx count)) (map hx acctx) (hx last)
        (map (fun x => if N.eqb x 0 then None else Some x) (hx short))
        (map (fun x => negb (N.eqb x 0)) (hx present)) fee bytes size.

Inductive xevent :=
| XPush (now : Z) (h : N)
| XRemove (hs : string)
| XExpire (now : Z)
| XAddBlock (now height blocktime : Z) (hs : string)
| XDelBlock (now height blocktime : Z) (hs : string).

Fixpoint find_all (txs : list tx) (hs : list N) : option (list tx) :=
  match hs with
  | [] => Some []
  | h :: tl =>
      match find_tx txs h, find_all txs tl with
      | Some t, Some r => Some (t :: r)
      | _, _ => None
      end
  end.

Definition decode_event (txs : list tx) (x : xevent) : option event :=
  match x with
  | XPush now h => option_map (EPush now) (find_tx txs h)
  | XRemove hs => Some (ERemove (hx hs))
  | XExpire now => Some (EExpire now)
  | XAddBlock now h b hs => Some (EAddBlock now h b (hx hs))
  | XDelBlock now h b hs => option_map (EDelBlock now h b) (find_all txs (hx hs))
  end.

Fixpoint decode_steps (txs : list tx) (l : list (xevent * obs)) : option (list (event * obs)) :=
  match l with
  | [] => Some []
  | (x, o) :: tl =>
      match decode_event txs x, decode_steps txs tl with
      | Some e, Some r => Some ((e, o) :: r)
      | _, _ => None
      end
  end.

(** XHist: [tab] = short-hash ids of the hashes 1..n, [ntx] etc. as in CHist *)
Definition XHist (c : config) (tab : string) (txs : list tx) (steps : list (xevent * obs)) : option case :=
  let hashes := map N.of_nat (seq 1 (List.length (hx tab))) in
  match decode_steps txs steps with
  | Some st => Some (CHist c (combine hashes (hx tab)) [0; 1; 2]%N hashes txs st)
  | None => None
  end.

Definition XFinal (c : config) (tab : string) (txs : list tx) (o : obs) : option case :=
  let hashes := map N.of_nat (seq 1 (List.length (hx tab))) in
  Some (CFinal c (combine hashes (hx tab)) [0; 1; 2]%N hashes txs o).

(** * pool + delayed-transaction cache (C21.DelayModel / C21.DelaySpec) *)
Definition dobs_eqb (a b : dobs) : bool :=
  N.eqb (do_err a) (do_err b) && list_n_eqb (do_rel a) (do_rel b)
  && list_oz_eqb (do_tab a) (do_tab b) && (do_len a =? do_len b).

Definition is_delay_add (e : devent) : bool := match e with DAddDelay _ _ => true | _ => false end.

(** no short-hash collision is generated in these histories: every failure of
    the pool oracle or of the delay oracle is a violation *)
Fixpoint check_dsteps (sh : N -> N) (c : config) (dsize : Z) (txs : list tx) (senders hashes : list N)
         (s : state * dcache) (p : pend) (steps : list (devent * obs * dobs)) : verdict :=
  match steps with
  | [] => ok_verdict
  | (e, o, dob) :: tl =>
      let last := hdr_time (fst s) in
      match dstep sh c s e, sp_step dsize last p e with
      | (s', err, rel), (p', serr, srel) =>
          let perr := if is_delay_add e then E_OK else err in
          let derr := if is_delay_add e then err else D_OK in
          let mo := obs_eqb (observe sh senders hashes perr (fst s')) o
                    && dobs_eqb (dobserve hashes derr rel (snd s')) dob in
          let pe := match e with DEv ev _ => Some ev | _ => None end in
          let bounds := match e with DEv (EAddBlock _ h b _) _ => Some (last, b, h) | _ => None end in
          let sp := match spec_all sh c txs senders hashes pe o with (sb, ss) => sb && ss end
                    && dspec_obs hashes p' serr srel bounds dob in
          match check_dsteps sh c dsize txs senders hashes s' p' tl with
          | (m, sv, k) => (mo && m, sp && sv, 0%N)
          end
      end
  end.

Inductive xdevent :=
| XD (x : xevent) (cms : list commit)
| XDAdd (tx : option N) (endt : Z).

Definition dob (err : N) (rel : string) (tab : list (option Z)) (len : Z) : dobs := mkDobs err (hx rel) tab len.

Fixpoint decode_dsteps (txs : list tx) (l : list (xdevent * obs * dobs)) : option (list (devent * obs * dobs)) :=
  match l with
  | [] => Some []
  | (x, o, d) :: tl =>
      match (match x with
             | XD xe cms => option_map (fun e => DEv e cms) (decode_event txs xe)
             | XDAdd tx endt => Some (DAddDelay tx endt)
             end), decode_dsteps txs tl with
      | Some e, Some r => Some ((e, o, d) :: r)
      | _, _ => None
      end
  end.

Definition XDHist (c : config) (dsize : Z) (hdr0 : Z * Z) (tab : string) (txs : list tx)
           (steps : list (xdevent * obs * dobs)) : option case :=
  let hashes := map N.of_nat (seq 1 (List.length (hx tab))) in
  match decode_dsteps txs steps with
  | Some st => Some (CDHist c dsize hdr0 (combine hashes (hx tab)) [0; 1; 2]%N hashes txs st)
  | None => None
  end.

Definition check_case' (cs : case) : verdict :=
  match cs with
  | CHist c tab senders hashes txs steps =>
      check_steps (sh_of tab) c txs senders hashes init None steps
  | CFinal c tab senders hashes txs o =>
      (* no previous observation: nothing can match the known finding *)
      match spec_all (sh_of tab) c txs senders hashes None o with
      | (sb, ss) => (true, sb && ss, 0%N)
      end
  | CDHist c dsize hdr0 tab senders hashes txs steps =>
      check_dsteps (sh_of tab) c dsize txs senders hashes
                   (set_hdr (fst hdr0) (snd hdr0) init, dnew dsize) [] steps
  end.

(** a case that does not decode is a broken harness, never a pass *)
Definition check_case (cs : option case) : verdict :=
  match cs with Some c => check_case' c | None => (false, false, 0%N) end.
