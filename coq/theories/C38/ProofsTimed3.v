(** C38 — no secret after the timeout (quiescent histories).

    A quiescent history ([seq_run]) is one particular schedule of the step-level
    LTS, so the invariant for arbitrary schedules ([Inv], C38.Proofs) holds for
    it; together with the timed oracle ([obs_ok_timed], C38.ProofsTimed2) this
    gives: whenever a request hands out a stored key / the seed / a signature,
    its own flag test under the mutex lies inside the timeout window of the most
    recent successful unlock, with no lock and no restart in between.  This is
    what the harness's timed batteries test on the real wallet: the same
    secret-returning request for the same account, inside the window and after
    it has closed. *)
From Coq Require Import List ZArith NArith Bool Lia Arith.
From C33 Require Import Lib.Harness C38.Model C38.Spec C38.Proofs C38.ProofsMain
  C38.ProofsTimed C38.ProofsTimed2.
Import ListNotations.
Open Scope Z_scope.

Arguments lrun : simpl nomatch.
Arguments run_thread : simpl nomatch.

(** ** a quiescent history is a schedule *)
Lemma exec_app a b g : exec (a ++ b) g = exec b (exec a g).
Proof. unfold exec. apply fold_left_app. Qed.

Lemma exec_cons it sc g : exec (it :: sc) g = exec sc (exec1 g it).
Proof. reflexivity. Qed.

Lemma step_done_noop g i :
  (match nth_error (thr g) i with Some (_, PDone _) => True | None => True | _ => False end) ->
  exec1 g (SStep i) = g.
Proof.
  unfold exec1. destruct (nth_error (thr g) i) as [[q c]|]; [|reflexivity].
  destruct c; intro H; try contradiction. reflexivity.
Qed.

Lemma steps_done_noop n : forall g i,
  (match nth_error (thr g) i with Some (_, PDone _) => True | None => True | _ => False end) ->
  exec (repeat (SStep i) n) g = g.
Proof.
  induction n as [|n IH]; intros g i H; [reflexivity|].
  cbn [repeat]. rewrite exec_cons, (step_done_noop g i H).
  exact (IH g i H).
Qed.

Lemma run_thread_S f i g :
  run_thread (S f) i g =
  match nth_error (thr g) i with
  | Some (_, PDone _) => g
  | Some _ => run_thread f i (exec1 g (SStep i))
  | None => g
  end.
Proof. reflexivity. Qed.

Lemma run_thread_sched fuel : forall i g,
  run_thread fuel i g = exec (repeat (SStep i) fuel) g.
Proof.
  induction fuel as [|f IH]; intros i g; [reflexivity|].
  rewrite run_thread_S.
  destruct (nth_error (thr g) i) as [[q c]|] eqn:E.
  - destruct c; try (cbn [repeat]; rewrite exec_cons; apply IH).
    symmetry. apply steps_done_noop. rewrite E. exact I.
  - symmetry. apply steps_done_noop. rewrite E. exact I.
Qed.

Definition op_sched (g : gstate) (o : seq_op) : list sched_item :=
  match o with
  | OCall q => SSpawn q :: repeat (SStep (length (thr g))) 16
  | OPass d =>
      match timer (sh g) with
      | Some dl =>
          if now (sh g) + d <? dl then [SAdvance d]
          else let d1 := Z.max 0 (dl - now (sh g)) in [SAdvance d1; SFire; SAdvance (d - d1)]
      | None => [SAdvance d]
      end
  | ORestart => [SRestart]
  end.

Lemma seq_step_sched g o : seq_step g o = exec (op_sched g o) g.
Proof.
  destruct o as [q|d|]; cbn [seq_step op_sched].
  - unfold call. cbn [fst]. rewrite run_thread_sched.
    assert (L : length (thr (exec1 g (SSpawn q))) = S (length (thr g))).
    { simpl. rewrite app_length. simpl. lia. }
    reflexivity.
  - unfold pass. destruct (timer (sh g)) as [dl|]; [|reflexivity].
    destruct (now (sh g) + d <? dl); reflexivity.
  - reflexivity.
Qed.

Lemma seq_run_sched ops : forall g, exists sched, seq_run ops g = exec sched g.
Proof.
  unfold seq_run. induction ops as [|o ops IH]; intro g.
  - exists []. reflexivity.
  - cbn [fold_left]. destruct (IH (seq_step g o)) as [sc E].
    exists (op_sched g o ++ sc). rewrite exec_app, <- seq_step_sched. exact E.
Qed.

Lemma seq_run_reach ops : exists sched, seq_run ops init_g = reach sched.
Proof. exact (seq_run_sched ops init_g). Qed.

(** ** the timed oracle, pointwise *)
Lemma obs_ok_timed_at l1 : forall i h t l2,
  obs_ok_timed (l1 ++ EObs i true h t :: l2) = true -> auth_timed l2 t = true.
Proof.
  induction l1 as [|e l1 IH]; intros i h t l2 H.
  - simpl in H. apply andb_true_iff in H as [H _]. exact H.
  - cbn [app obs_ok_timed] in H.
    destruct e; try exact (IH _ _ _ _ H).
    destruct unlocked; [|exact (IH _ _ _ _ H)].
    apply andb_true_iff in H as [_ H]. exact (IH _ _ _ _ H).
Qed.

(** every secret handed out in a quiescent history: the requester's flag test
    (under the mutex) saw "unlocked" at a time t at which the most recent
    successful unlock - no lock, no restart since - had no timeout (T <= 0) or
    was not older than its timeout *)
Lemma no_secret_after_timeout ops i newer older :
  trace (seq_run ops init_g) = newer ++ ESecret i :: older ->
  exists t mid older',
    older = mid ++ EObs i true true t :: older' /\ auth_timed older' t = true.
Proof.
  intro H. destruct (seq_run_reach ops) as [sched E].
  assert (H' : trace (reach sched) = newer ++ ESecret i :: older) by (rewrite <- E; exact H).
  destruct (no_secret_while_locked _ _ _ _ H') as [t Hin].
  apply in_split in Hin as (mid & older' & ->).
  exists t, mid, older'. split; [reflexivity|].
  pose proof (timeout_respected_seq ops) as O. rewrite H in O.
  replace (newer ++ ESecret i :: mid ++ EObs i true true t :: older')
    with ((newer ++ ESecret i :: mid) ++ EObs i true true t :: older') in O
    by (rewrite <- app_assoc; reflexivity).
  exact (obs_ok_timed_at _ _ _ _ _ O).
Qed.

Lemma lrun_S f i s q c evs :
  lrun (S f) i s q c evs =
  match c with
  | PDone _ => (s, c, evs)
  | _ => match step_thread i s q c with
         | Some (s', c', e) => lrun f i s' q c' (e ++ evs)
         | None => (s, c, evs)
         end
  end.
Proof. reflexivity. Qed.

Lemma lrun_step f i s q c evs s' c' e :
  (forall r, c <> PDone r) -> step_thread i s q c = Some (s', c', e) ->
  lrun (S f) i s q c evs = lrun f i s' q c' (e ++ evs).
Proof.
  intros D H. rewrite lrun_S.
  destruct c; try (exfalso; eapply D; reflexivity); rewrite H; reflexivity.
Qed.

(** the contrapositive the harness relies on: once the window of the last
    successful unlock has closed (T > 0 and now beyond tu + T s; or a lock / a
    restart came later; or there never was an unlock), a secret-returning
    request is refused with ErrWalletIsLocked *)
Lemma refused_after_timeout ops k :
  let g := seq_run ops init_g in
  auth_timed (trace g) (now (sh g)) = false ->
  snd (call (QSecret k) g) = Some (RErr eLocked).
Proof.
  intros g A.
  assert (L : locked (sh g) = true).
  { destruct (locked (sh g)) eqn:L; [reflexivity|].
    pose proof (unlocked_inside_timeout_seq ops L) as X. fold g in X. congruence. }
  pose proof (QI_seq ops _ QI_init) as Q. fold g in Q.
  destruct Q as [D M _ _ _].
  unfold call. cbn [snd].
  destruct g as [s ts tr]. simpl in *.
  pose proof (run_thread_lrun 16 ts s (QSecret k) PAcq (ESpawn (length ts) (QSecret k) :: tr)) as RT.
  cbv zeta in RT.
  change (exec1 (mkG s ts tr) (SSpawn (QSecret k)))
    with (mkG s (ts ++ [(QSecret k, PAcq)]) (ESpawn (length ts) (QSecret k) :: tr)).
  assert (LR : exists s' e, lrun 16 (length ts) s (QSecret k) PAcq [] = (s', PDone (RErr eLocked), e)).
  { set (n := length ts).
    rewrite (lrun_step 15 n s (QSecret k) PAcq [] (set_mtx s (Some n)) PX_flag [])
      by (try (intros r; discriminate); cbn [step_thread]; rewrite M; reflexivity).
    rewrite (lrun_step 14 n (set_mtx s (Some n)) (QSecret k) PX_flag _
               (set_mtx s (Some n)) (PRel (RErr eLocked)) [EObs n false true (now s)])
      by (try (intros r; discriminate); cbn [step_thread set_mtx locked now]; rewrite L; reflexivity).
    rewrite (lrun_step 13 n (set_mtx s (Some n)) (QSecret k) (PRel (RErr eLocked)) _
               (set_mtx (set_mtx s (Some n)) None) (PDone (RErr eLocked)) [ERet n (RErr eLocked)])
      by (try (intros r; discriminate); reflexivity).
    do 2 eexists. reflexivity. }
  destruct LR as (s' & e & LR).
  rewrite LR in RT. destruct RT as (_ & Et & _).
  unfold result_of. rewrite Et, nth_error_last. reflexivity.
Qed.

(** non-vacuity: a 1 s unlock; the seed is handed out after 0.5 s and refused
    after 1.5 s, and again after a failed re-unlock *)
Definition ops_secret_example : list seq_op :=
  [OCall (QSaveSeed pwT); OCall (QUnlock pwT 1 false); OPass 500000000;
   OCall (QSecret (KSeed pwT)); OPass 1000000000; OCall (QSecret (KSeed pwT));
   OCall (QUnlock [] 2 false); OCall (QSecret (KSeed pwT))].

Example secret_example :
  let g := seq_run ops_secret_example init_g in
  result_of g 2 = Some RSecret /\ result_of g 3 = Some (RErr eLocked)
  /\ result_of g 5 = Some (RErr eLocked)
  /\ existsb (fun e => match e with ESecret _ => true | _ => false end) (trace g) = true
  /\ auth_timed (trace g) (now (sh g)) = false.
Proof. vm_compute. repeat split; reflexivity. Qed.
