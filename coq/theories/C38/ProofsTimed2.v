From Coq Require Import List ZArith NArith Bool Lia Arith.
From C33 Require Import Lib.Harness C38.Model C38.Spec C38.Proofs C38.ProofsTimed.
Import ListNotations.
Open Scope Z_scope.

Opaque second timeout_ns valid_pw pw_eqb.

Lemma TQ_locked s tr : locked s = true -> TQ s tr.
Proof. intros L L'. congruence. Qed.

Lemma TQ_same s s' tr tr' :
  locked s' = locked s -> timer s' = timer s -> last_unlock tr' = last_unlock tr ->
  TQ s tr -> TQ s' tr'.
Proof. unfold TQ. intros -> -> ->. auto. Qed.

Lemma K1_same s s' : timer s' = timer s -> now s' = now s -> K1 s -> K1 s'.
Proof. unfold K1. intros -> ->. auto. Qed.

Ltac fin :=
  constructor; unfold flag_clause in *; simpl in *;
  try assumption; try reflexivity; try discriminate; try (intros; discriminate); auto.

Lemma step_LI n tr0 s q c evs s' c' e :
  LI n tr0 s q c evs -> step_thread n s q c = Some (s', c', e) ->
  LI n tr0 s' q c' (e ++ evs).
Proof.
  intros [P M K O F] H.
  pose proof (step_pc_ok _ _ _ _ _ _ _ H P) as P'.
  destruct c; simpl in H; try discriminate H.
  - (* PAcq *) step_inv H. destruct q; try discriminate P; fin.
  - (* PRel *) step_inv H; fin.
  - (* PU_seed *) step_inv H; fin.
  - (* PU_check *) step_inv H; fin.
  - (* PU_cas *) step_inv H; fin.
    + intros _. do 2 eexists. split; [reflexivity|left]. match goal with E : (_ =? 0) = true |- _ => apply Z.eqb_eq in E; rewrite E end. lia.
    + split; [reflexivity|]. do 3 eexists. split; reflexivity.
  - (* PU_timer *) step_inv H.
    destruct F as (L & p0 & T0 & tk & Eq & LU). injection Eq as -> -> ->.
    pose proof (timeout_ns_nonneg T0) as NN.
    fin.
    + unfold K1; simpl. intros dl E. injection E as <-. lia.
    + unfold TQ; simpl. intros _. do 2 eexists. split; [exact LU|].
      destruct (Z.le_gt_cases T0 0) as [Le|Gt]; [left; exact Le|right].
      eexists. split; [reflexivity|]. pose proof (timeout_ns_bound T0 ltac:(lia)). lia.
  - (* PL_seed *) step_inv H; fin.
  - (* PL_cas *) step_inv H; fin.
  - (* PS_flag *) step_inv H; fin.
  - (* PS_seed *) step_inv H; fin.
  - (* PS_verify *) step_inv H; fin.
  - (* PS_hasseed *) step_inv H; fin.
  - (* PS_write *) step_inv H; fin.
  - (* PX_flag *) step_inv H; fin. rewrite O, (auth_now _ _ K F) by assumption. reflexivity.
  - (* PX_seed *) step_inv H; fin.
  - (* PX_secret *) step_inv H; fin.
  - (* PO_read *) step_inv H; fin.
    all: match goal with |- context [locked ?x] => destruct (locked x) eqn:L end; simpl; try assumption.
    all: rewrite O, (auth_now _ _ K F) by assumption; reflexivity.
  - (* PO_seed *) step_inv H; fin.
  - (* PV_do *) step_inv H; fin.
Qed.

Lemma rank_zero c : rank c = 0%nat -> exists r, c = PDone r.
Proof. destruct c; simpl; try discriminate. eauto. Qed.

Lemma lrun_LI fuel : forall n tr0 s q c evs,
  LI n tr0 s q c evs ->
  let '(s', c', evs') := lrun fuel n s q c evs in
  LI n tr0 s' q c' evs' /\ ((rank c <= fuel)%nat -> exists r, c' = PDone r).
Proof.
  induction fuel as [|f IH]; intros n tr0 s q c evs L.
  - simpl. split; [exact L|]. intro R. apply rank_zero. lia.
  - destruct (step_thread n s q c) as [[[s1 c1] e1]|] eqn:E.
    + pose proof (step_LI _ _ _ _ _ _ _ _ _ L E) as L1.
      pose proof (step_rank _ _ _ _ _ _ _ E) as R1.
      specialize (IH n tr0 s1 q c1 (e1 ++ evs) L1).
      assert (X : lrun (S f) n s q c evs = lrun f n s1 q c1 (e1 ++ evs)).
      { destruct c; try (simpl in E; discriminate E); cbn [lrun]; rewrite E; reflexivity. }
      rewrite X. destruct (lrun f n s1 q c1 (e1 ++ evs)) as [[s2 c2] e2].
      destruct IH as [A B]. split; [exact A|]. intro R. apply B. lia.
    + assert (D : exists r, c = PDone r).
      { destruct c; try (eexists; reflexivity).
        all: exfalso; refine (step_progress n s q _ (li_pc _ _ _ _ _ _ L) _ _ E);
          try (intros r0; discriminate).
        all: try (intro X; discriminate X).
        intros _. pose proof (li_mtx _ _ _ _ _ _ L) as M. simpl in M. exact M. }
      destruct D as [r ->]. simpl. split; [exact L|]. eauto.
Qed.

(** ** quiescent states *)
Record QI (g : gstate) : Prop := mkQI {
  qi_done : forallb is_done (thr g) = true;
  qi_mtx : mtx (sh g) = None;
  qi_k1 : K1 (sh g);
  qi_tq : TQ (sh g) (trace g);
  qi_obs : obs_ok_timed (trace g) = true;
}.

Lemma QI_init : QI init_g.
Proof.
  constructor; simpl; try reflexivity.
  - intros dl E; discriminate.
  - intros L; discriminate.
Qed.

Arguments lrun : simpl never.
Arguments run_thread : simpl never.

Lemma QI_call g q : QI g -> QI (fst (call q g)).
Proof.
  intros [D M K T O]. unfold call. destruct g as [s ts tr]. simpl in *.
  set (n := length ts).
  assert (L0 : LI n (ESpawn n q :: tr) s q (init_pc q) []).
  { constructor; simpl; try assumption.
    - destruct q; reflexivity.
    - rewrite M. destruct q; reflexivity.
    - unfold flag_clause. destruct q; simpl; exact T. }
  pose proof (lrun_LI 16 _ _ _ _ _ _ L0) as R.
  pose proof (run_thread_lrun 16 ts s q (init_pc q) (ESpawn n q :: tr)) as RT.
  cbv zeta in RT. fold n in RT.
  destruct (lrun 16 n s q (init_pc q) []) as [[s' c'] e].
  destruct R as [L1 Fin]. destruct RT as (Es & Et & Etr).
  destruct Fin as [r ->]. { destruct q; simpl; lia. }
  destruct L1 as [P1 M1 K1' O1 F1]. simpl in *.
  constructor; rewrite ?Es, ?Et, ?Etr.
  - rewrite forallb_app, D. reflexivity.
  - exact M1.
  - exact K1'.
  - exact F1.
  - exact O1.
Qed.

Lemma QI_advance g d : QI g -> QI (exec1 g (SAdvance d)).
Proof.
  intros Q. unfold exec1. destruct (d <? 0) eqn:Dn; [exact Q|]. apply Z.ltb_ge in Dn.
  destruct Q as [D M K T O].
  destruct (timer (sh g)) as [dl|] eqn:Et.
  - destruct (now (sh g) + d <=? dl) eqn:Le; [|constructor; assumption].
    apply Z.leb_le in Le. constructor; simpl; try assumption.
    all: try (unfold TQ in *; simpl; rewrite Et in *; exact T).
    unfold K1; simpl. intros dl' E. rewrite Et in E. injection E as <-. exact Le.
  - constructor; simpl; try assumption.
    all: try (unfold TQ in *; simpl; rewrite Et in *; exact T).
    unfold K1; simpl. intros dl' E. rewrite Et in E. discriminate.
Qed.

Lemma QI_fire g : QI g -> QI (exec1 g SFire).
Proof.
  intros Q. unfold exec1. destruct (timer (sh g)) as [dl|] eqn:Et; [|exact Q].
  destruct (dl <=? now (sh g)); [|exact Q].
  destruct Q as [D M K T O]. constructor; simpl; try assumption.
  - unfold K1; simpl. intros dl' E; discriminate.
  - unfold TQ; simpl. intros L; discriminate.
Qed.

Lemma QI_restart g : QI g -> QI (exec1 g SRestart).
Proof.
  intros Q. unfold exec1. destruct (forallb is_done (thr g)) eqn:D'; [|exact Q].
  destruct Q as [D M K T O]. constructor; simpl; try assumption; try reflexivity.
  - unfold K1; simpl. intros dl' E; discriminate.
  - unfold TQ; simpl. intros L; discriminate.
Qed.

Lemma QI_pass g d : QI g -> QI (pass d g).
Proof.
  intro Q. unfold pass. destruct (timer (sh g)) as [dl|].
  - destruct (now (sh g) + d <? dl); [apply QI_advance, Q|].
    apply QI_advance, QI_fire, QI_advance, Q.
  - apply QI_advance, Q.
Qed.

Lemma QI_seq ops : forall g, QI g -> QI (seq_run ops g).
Proof.
  unfold seq_run. induction ops as [|o ops IH]; intros g Q; simpl; [exact Q|].
  apply IH. destruct o; simpl.
  - apply QI_call; assumption.
  - apply QI_pass; assumption.
  - apply QI_restart; assumption.
Qed.

(** every quiescent history satisfies the timed oracle *)
Lemma timeout_respected_seq ops : obs_ok_timed (trace (seq_run ops init_g)) = true.
Proof. exact (qi_obs _ (QI_seq ops _ QI_init)). Qed.

(** the flag after a quiescent history: unlocked only inside the timeout *)
Lemma unlocked_inside_timeout_seq ops :
  let g := seq_run ops init_g in
  locked (sh g) = false -> auth_timed (trace g) (now (sh g)) = true.
Proof.
  intros g L. pose proof (QI_seq ops _ QI_init) as Q.
  exact (auth_now _ _ (qi_k1 _ Q) (qi_tq _ Q) L).
Qed.

(** non-vacuity: a 1 s unlock seen unlocked after 0.5 s and locked after 1.5 s;
    a negative timeout that overflows int64 stays unlocked (unconstrained by the oracle) *)
Definition pwT : pw := [97; 98; 99; 100; 49; 50; 51; 52]%N.
Definition ops_example : list seq_op :=
  [OCall (QSaveSeed pwT); OCall (QUnlock pwT 1 false); OPass 500000000; OCall QIsLocked;
   OPass 1000000000; OCall QIsLocked; OCall (QSecret (KSeed pwT));
   OCall (QUnlock pwT (-9223372037) false); OPass 1000000000; OCall QIsLocked].

Lemma timed_example :
  let g := seq_run ops_example init_g in
  result_of g 2 = Some (RBool false) /\ result_of g 3 = Some (RBool true)
  /\ result_of g 4 = Some (RErr eLocked) /\ result_of g 6 = Some (RBool false).
Proof. vm_compute. repeat split; reflexivity. Qed.
