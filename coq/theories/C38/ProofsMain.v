(** C38 — main statements, all for every schedule (full strength since
    chain33 66be1e2), and what the two former refutation schedules produce now. *)
From Coq Require Import List ZArith NArith Bool Lia Arith.
From C33 Require Import Lib.Harness C38.Model C38.Spec C38.Witness C38.Proofs.
Import ListNotations.
Open Scope Z_scope.

Definition reach (sched : list sched_item) : gstate := exec sched init_g.

(** ** 1. holds for every schedule *)

(** the mutex is exclusive *)
Lemma mutex_exclusive sched i j qi ci qj cj :
  nth_error (thr (reach sched)) i = Some (qi, ci) ->
  nth_error (thr (reach sched)) j = Some (qj, cj) ->
  holds ci = true -> holds cj = true -> i = j.
Proof.
  intros Hi Hj Hci Hcj. pose proof (inv_mutex _ (Inv_reachable sched)) as M.
  pose proof (M _ _ _ Hi Hci) as A. pose proof (M _ _ _ Hj Hcj) as B.
  unfold reach in *. rewrite A in B. inversion B. reflexivity.
Qed.

Lemma secrets_ok_split l1 i l2 :
  secrets_ok (l1 ++ ESecret i :: l2) = true -> has_good_obs i l2 = true.
Proof.
  induction l1 as [|e l1 IH]; simpl.
  - intro H. apply andb_true_iff in H as [H _]. exact H.
  - destruct e; try exact IH. intro H. apply andb_true_iff in H as [_ H]. exact (IH H).
Qed.

Lemma good_obs_in i l : has_good_obs i l = true -> exists t, In (EObs i true true t) l.
Proof.
  unfold has_good_obs. rewrite existsb_exists. intros [e [Hin He]].
  destruct e; simpl in He; try discriminate.
  destruct unlocked, held; try discriminate.
  apply Nat.eqb_eq in He. subst. eauto.
Qed.

(** a request returns a stored secret only after its own flag test, made under
    the mutex, saw the wallet unlocked *)
Lemma no_secret_while_locked sched i newer older :
  trace (reach sched) = newer ++ ESecret i :: older ->
  exists t, In (EObs i true true t) older.
Proof.
  intro H. pose proof (inv_secrets _ (Inv_reachable sched)) as S.
  unfold reach in *. rewrite H in S. apply good_obs_in, (secrets_ok_split _ _ _ S).
Qed.

(** a ProcWalletSetPasswd request, whatever its passwords and whatever else is
    going on, never changes the lock flag: not in any of its steps *)
Lemma setpasswd_leaves_flag sched i old nw c :
  nth_error (thr (reach sched)) i = Some (QSetPasswd old nw, c) ->
  locked (sh (exec1 (reach sched) (SStep i))) = locked (sh (reach sched)).
Proof.
  intro Hi. pose proof (inv_setpw _ (Inv_reachable sched) _ _ _ _ Hi) as P.
  unfold reach in *. unfold exec1. rewrite Hi.
  destruct (step_thread i (sh (exec sched init_g)) (QSetPasswd old nw) c) as [[[s' c'] evs]|] eqn:E;
    [|reflexivity].
  simpl. exact (proj2 (step_setpw _ _ _ _ _ _ _ _ E P)).
Qed.

(** ** 2. the property, at full strength *)

(** every observer (lock-free or not) sees "unlocked" only after a successful
    unlock with no lock / timeout / restart in between *)
Lemma observed_unlocked sched : obs_ok true (trace (reach sched)) = true.
Proof. exact (inv_all _ (Inv_reachable sched)). Qed.

(** the requests that hand out secrets act unlocked only after a successful
    unlock with no lock / timeout / restart in between *)
Lemma secret_unlock_before sched : obs_ok false (trace (reach sched)) = true.
Proof. apply obs_ok_weaken, observed_unlocked. Qed.

(** the flag itself: clear only while the authorisation monitor is on *)
Lemma flag_clear_implies_unlock_before sched :
  locked (sh (reach sched)) = false -> auth_of (trace (reach sched)) = true.
Proof. exact (inv_flag _ (Inv_reachable sched)). Qed.

(** ** 3. the former refutation schedules *)

(** former finding 1: IsWalletLocked asked while a password change with a wrong
    old password holds the mutex now says "locked" *)
Lemma window_closed :
  let g := reach sched_window in
  result_of g 0 = Some ROk
  /\ result_of g 1 = Some (RErr eVerifyOld)        (* the password change failed *)
  /\ result_of g 2 = Some (RBool true)             (* IsWalletLocked, asked meanwhile: locked *)
  /\ locked (sh g) = true.
Proof. vm_compute. repeat split; reflexivity. Qed.

(** former finding 2: a ProcWalletLock that completes between the flag test and
    the rest of a (failing) password change stays in effect *)
Lemma lock_survives_setpasswd :
  let g := reach sched_lock_race in
  result_of g 1 = Some ROk
  /\ result_of g 2 = Some (RErr eVerifyOld)   (* the password change failed *)
  /\ result_of g 3 = Some ROk                 (* the lock succeeded *)
  /\ result_of g 4 = Some (RErr eLocked)      (* afterwards GetSeed is refused *)
  /\ locked (sh g) = true.
Proof. vm_compute. repeat split; reflexivity. Qed.

(** non-vacuity, with real concurrency: a password change (right old password,
    wallet unlocked) is in flight while Lock and IsWalletLocked run; a seed
    request waits for the mutex and is then refused; the change succeeds and the
    wallet stays locked until it is unlocked with the NEW password, after which
    the seed is handed out *)
Definition sched_concurrent : list sched_item :=
  [SSpawn (QSaveSeed pwA)] ++ steps 0 3
  ++ [SSpawn (QUnlock pwA 5 false)] ++ steps 1 6
  ++ [SSpawn QIsLocked] ++ steps 2 1
  ++ [SSpawn (QSetPasswd pwA pwB)] ++ steps 3 4
  ++ [SSpawn (QSecret (KSeed pwB)); SStep 4]         (* waits *)
  ++ [SSpawn QLock] ++ steps 5 2
  ++ [SSpawn QIsLocked] ++ steps 6 1
  ++ steps 3 3 ++ steps 4 3
  ++ [SAdvance (5 * second); SFire; SSpawn QStatus] ++ steps 7 2
  ++ [SSpawn (QUnlock pwA 0 false)] ++ steps 8 4
  ++ [SSpawn (QUnlock pwB 0 false)] ++ steps 9 5
  ++ [SSpawn (QSecret (KSeed pwB))] ++ steps 10 5.

Lemma concurrent_example :
  let g := reach sched_concurrent in
  result_of g 2 = Some (RBool false)             (* seen unlocked, legitimately *)
  /\ result_of g 3 = Some ROk                    (* the password change went through *)
  /\ result_of g 4 = Some (RErr eLocked)         (* the waiting request met the lock *)
  /\ result_of g 6 = Some (RBool true)
  /\ result_of g 7 = Some (RStatus true true)
  /\ result_of g 8 = Some (RErr eInputPw)        (* the old password no longer unlocks *)
  /\ result_of g 9 = Some ROk
  /\ result_of g 10 = Some RSecret
  /\ existsb (fun e => match e with EObs _ true _ _ => true | _ => false end) (trace g) = true.
Proof. vm_compute. repeat split; reflexivity. Qed.
