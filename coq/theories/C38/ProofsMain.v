(** C38 — main statements: what holds for every schedule, the two refutations
    with their witness schedules, and the guarded (partial) versions. *)
From Coq Require Import List ZArith NArith Bool Lia Arith.
From C33 Require Import Lib.Harness C38.Model C38.Spec C38.Witness C38.Proofs.
Import ListNotations.
Open Scope Z_scope.

Definition reach (sched : list sched_item) : gstate := exec sched init_g.

(** ** 1. holds for every schedule *)

(** the mutex is exclusive *)
Lemma mutex_exclusive sched i j qi ci qj cj :
  nth_error (thr (reach sched)) i = Some (qi, ci) ->
  nth_error (thr (reach sched)) j = Some (qj, cj) ->
  holds ci = true -> holds cj = true -> i = j.
Proof.
  intros Hi Hj Hci Hcj. pose proof (inv_mutex _ (Inv_reachable sched)) as M.
  pose proof (M _ _ _ Hi Hci) as A. pose proof (M _ _ _ Hj Hcj) as B.
  unfold reach in *. rewrite A in B. inversion B. reflexivity.
Qed.

(** no flag test made under the mutex falls between the CAS and the restore of
    another thread's ProcWalletSetPasswd *)
Lemma window_invisible_under_mutex sched i u w t :
  In (EObs i u true w t) (trace (reach sched)) -> w = false.
Proof.
  intro H. pose proof (inv_clean _ (Inv_reachable sched)) as C.
  unfold held_obs_clean in C. rewrite forallb_forall in C. apply C in H.
  simpl in H. destruct w; [discriminate|reflexivity].
Qed.

Lemma secrets_ok_split l1 i l2 :
  secrets_ok (l1 ++ ESecret i :: l2) = true -> has_good_obs i l2 = true.
Proof.
  induction l1 as [|e l1 IH]; simpl.
  - intro H. apply andb_true_iff in H as [H _]. exact H.
  - destruct e; try exact IH. intro H. apply andb_true_iff in H as [_ H]. exact (IH H).
Qed.

Lemma good_obs_in i l : has_good_obs i l = true -> exists t, In (EObs i true true false t) l.
Proof.
  unfold has_good_obs. rewrite existsb_exists. intros [e [Hin He]].
  destruct e; simpl in He; try discriminate.
  destruct unlocked, held, inwin; try discriminate.
  apply Nat.eqb_eq in He. subst. eauto.
Qed.

(** a request returns a stored secret only after its own flag test, made under
    the mutex and outside every SetPasswd window, saw the wallet unlocked *)
Lemma no_secret_while_locked sched i newer older :
  trace (reach sched) = newer ++ ESecret i :: older ->
  exists t, In (EObs i true true false t) older.
Proof.
  intro H. pose proof (inv_secrets _ (Inv_reachable sched)) as S.
  unfold reach in *. rewrite H in S. apply good_obs_in, (secrets_ok_split _ _ _ S).
Qed.

(** ** 2. the full statements and their refutations *)

(** every observer (lock-free or not) sees "unlocked" only after a successful
    unlock with no lock / timeout / restart in between *)
Definition observed_unlocked_full : Prop :=
  forall sched, obs_ok true (trace (reach sched)) = true.

(** the requests that hand out secrets act unlocked only after a successful
    unlock with no lock / timeout / restart in between *)
Definition secret_unlock_before_full : Prop :=
  forall sched, obs_ok false (trace (reach sched)) = true.

Lemma window_witness :
  let g := reach sched_window in
  result_of g 0 = Some ROk
  /\ result_of g 1 = Some (RErr eVerifyOld)        (* the password change FAILED *)
  /\ result_of g 2 = Some (RBool false)            (* IsWalletLocked said: unlocked *)
  /\ locked (sh g) = true                          (* and the wallet is locked again *)
  /\ existsb (fun e => match e with EUnlock _ _ _ => true | _ => false end) (trace g) = false
  /\ obs_ok true (trace g) = false.
Proof. vm_compute. repeat split; reflexivity. Qed.

Lemma observed_unlocked_refuted : ~ observed_unlocked_full.
Proof.
  intro H. specialize (H sched_window).
  pose proof window_witness as W. cbv zeta in W. destruct W as (_ & _ & _ & _ & _ & W).
  rewrite H in W. discriminate.
Qed.

Lemma lost_lock_witness :
  let g := reach sched_lost_lock in
  result_of g 1 = Some ROk
  /\ result_of g 2 = Some (RErr eVerifyOld)   (* the password change failed *)
  /\ result_of g 3 = Some ROk                 (* the lock succeeded *)
  /\ result_of g 4 = Some RSecret             (* afterwards GetSeed hands out the seed *)
  /\ locked (sh g) = false
  /\ split_race g = true
  /\ obs_ok false (trace g) = false.
Proof. vm_compute. repeat split; reflexivity. Qed.

Lemma secret_unlock_before_refuted : ~ secret_unlock_before_full.
Proof.
  intro H. specialize (H sched_lost_lock).
  pose proof lost_lock_witness as W. cbv zeta in W. destruct W as (_ & _ & _ & _ & _ & _ & W).
  rewrite H in W. discriminate.
Qed.

(** ** 3. the guarded versions *)

(** guard 1 (boolean, computed along the schedule): no ProcWalletLock / timer
    CAS falls between the load and the CAS(1->0) of a ProcWalletSetPasswd *)
Definition no_split_race (sched : list sched_item) : bool := negb (split_race (reach sched)).

(** guard 2: no lock-free observer reads the flag between the CAS and the
    restore of a ProcWalletSetPasswd that started on a locked wallet *)
Definition no_obs_in_window (sched : list sched_item) : bool := negb (obs_in_win (reach sched)).

Lemma secret_unlock_before_partial sched :
  no_split_race sched = true -> obs_ok false (trace (reach sched)) = true.
Proof.
  unfold no_split_race. intro H. apply negb_true_iff in H.
  exact (inv_held _ (Inv_reachable sched) H).
Qed.

Lemma observed_unlocked_partial sched :
  no_split_race sched = true -> no_obs_in_window sched = true ->
  obs_ok true (trace (reach sched)) = true.
Proof.
  unfold no_split_race, no_obs_in_window. intros H1 H2.
  apply negb_true_iff in H1. apply negb_true_iff in H2.
  exact (inv_all _ (Inv_reachable sched) H1 H2).
Qed.

(** the guards are satisfiable by a schedule with real concurrency: a password
    change (right old password, wallet unlocked) is in flight while Lock and
    IsWalletLocked run; a key request waits for the mutex and is then refused *)
Definition sched_guarded : list sched_item :=
  [SSpawn (QSaveSeed pwA)] ++ steps 0 3
  ++ [SSpawn (QUnlock pwA 5 false)] ++ steps 1 6
  ++ [SSpawn QIsLocked] ++ steps 2 1
  ++ [SSpawn (QSetPasswd pwA pwB)] ++ steps 3 6
  ++ [SSpawn (QSecret (KSeed pwB)); SStep 4]         (* waits *)
  ++ [SSpawn QLock] ++ steps 5 2
  ++ [SSpawn QIsLocked] ++ steps 6 1
  ++ steps 3 6 ++ steps 4 4
  ++ [SAdvance (5 * second); SFire; SSpawn QStatus] ++ steps 7 2.

Lemma guarded_example :
  let g := reach sched_guarded in
  no_split_race sched_guarded = true /\ no_obs_in_window sched_guarded = true
  /\ result_of g 2 = Some (RBool false)          (* seen unlocked, legitimately *)
  /\ result_of g 3 = Some (RErr eLocked)         (* the change noticed the lock in its own flag test *)
  /\ result_of g 4 = Some (RErr eLocked)
  /\ result_of g 6 = Some (RBool true)
  /\ result_of g 7 = Some (RStatus true true).
Proof. vm_compute. repeat split; reflexivity. Qed.
