(** C38 — the wallet lock as a labelled transition system at the granularity of
    the atomic steps of the Go code (wallet/wallet.go, wallet/wallet_proc.go):

    - [locked]     the atomic int32 [isWalletLocked] (true = 1),
    - [mtx]        [wallet.mtx] with its owner,
    - [timer]      the auto-lock timer armed by [resetTimeout] (deadline in ns),
    - [disk_pw]    the password whose salted hash / seed encryption is on disk
                   ([None] = no seed saved; [EncryptFlag] = 1 iff [Some]),
    - [mem_pw]     [wallet.Password], the password cached in memory ([] = none).

    Every request is a small program; a thread is a request plus a program
    counter.  One [SStep] executes exactly one atomic action of one thread
    (a mutex operation, one atomic load / CAS of the flag, one DB read, or the
    DB batch write).  The scheduler ([list sched_item]) is arbitrary.

    The model follows the code as it is (chain33 66be1e2): ProcWalletSetPasswd
    reads the flag once (its checkWalletStatus) and never writes it; after the
    old password is verified it reads the seed with HasSeed + GetSeed(db, old).
    No proofs in this file. *)
From Coq Require Import List ZArith NArith Bool.
From C33 Require Import Lib.Harness.
Import ListNotations.
Open Scope Z_scope.

(** ** passwords: byte strings; isValidPassWord for ASCII *)
Definition pw := list N.

Definition is_digit (c : N) : bool := (48 <=? c)%N && (c <=? 57)%N.
Definition is_letter (c : N) : bool :=
  ((65 <=? c)%N && (c <=? 90)%N) || ((97 <=? c)%N && (c <=? 122)%N).

Definition valid_pw (p : pw) : bool :=
  let n := N.of_nat (length p) in
  (8 <=? n)%N && (n <=? 30)%N
  && forallb (fun c => is_digit c || is_letter c) p
  && existsb is_letter p && existsb is_digit p.

Definition pw_eqb : pw -> pw -> bool := bytes_eqb.
Definition is_empty (p : pw) : bool := match p with [] => true | _ => false end.

(** ** error classes (types.Err...) *)
Definition eVerifyOld : N := 1.     (* ErrVerifyOldpasswdFail *)
Definition eInvalidPw : N := 2.     (* ErrInvalidPassWord *)
Definition eInputPw : N := 3.       (* ErrInputPassword *)
Definition eLocked : N := 4.        (* ErrWalletIsLocked *)
Definition eSaveSeedFirst : N := 5. (* ErrSaveSeedFirst *)
Definition eSeedExist : N := 6.     (* ErrSeedExist *)
Definition eAddrNotExist : N := 7.  (* ErrAddrNotExist *)
Definition eInvalidParam : N := 10. (* ErrInvalidParam *)
Definition eBalance : N := 13.      (* ErrInsufficientBalance *)

(** ** requests *)
Inductive skind :=
| KDump (a : N)        (* ProcDumpPrivkey(address of account a) *)
| KSeed (p : pw)       (* GetSeed(p) *)
| KSign (a : N)        (* ProcSignRawTx{Addr: account a} *)
| KImport              (* ProcImportPrivKey(fresh key) *)
| KSend                (* ProcSendToAddress from an unfunded account *)
| KStatus.             (* CheckWalletStatus: the flag test under the mutex, nothing else *)

Inductive req :=
| QUnlock (p : pw) (T : Z) (ticket : bool)   (* ProcWalletUnLock{Passwd,Timeout,WalletOrTicket} *)
| QLock                                      (* ProcWalletLock *)
| QSetPasswd (old nw : pw)                   (* ProcWalletSetPasswd *)
| QSecret (k : skind)                        (* the requests that need the unlocked wallet *)
| QIsLocked                                  (* IsWalletLocked: lock-free *)
| QStatus                                    (* GetWalletStatus: lock-free *)
| QApiPriv (a : N)                           (* GetPrivKeyByAddr: operator API for policies, not a request *)
| QSaveSeed (p : pw).                        (* SaveSeed *)

Inductive result :=
| ROk
| RErr (e : N)
| RSecret            (* the stored key / the seed / a signature valid for the stored key *)
| RWrongSecret       (* bytes decrypted under a wrong cached password *)
| RBool (b : bool)   (* IsWalletLocked *)
| RStatus (lk hasseed : bool).

(** ** program counters *)
Inductive pc :=
| PAcq                       (* waiting for wallet.mtx *)
| PRel (r : result)          (* deferred mtx.Unlock, then return r *)
| PDone (r : result)
(* ProcWalletUnLock *)
| PU_seed | PU_check | PU_cas | PU_timer
(* ProcWalletLock *)
| PL_seed | PL_cas
(* ProcWalletSetPasswd *)
| PS_flag | PS_seed | PS_verify | PS_hasseed | PS_write
(* flag-checking requests *)
| PX_flag | PX_seed | PX_secret
(* lock-free observers *)
| PO_read | PO_seed (v : bool)
(* SaveSeed *)
| PV_do.

(** ** shared state *)
Record shared := mkShared {
  locked : bool;
  mtx : option nat;
  timer : option Z;
  now : Z;
  disk_pw : option pw;
  mem_pw : pw;
  naccts : N;
}.

Definition set_locked (s : shared) (b : bool) : shared :=
  mkShared b (mtx s) (timer s) (now s) (disk_pw s) (mem_pw s) (naccts s).
Definition set_mtx (s : shared) (m : option nat) : shared :=
  mkShared (locked s) m (timer s) (now s) (disk_pw s) (mem_pw s) (naccts s).
Definition set_timer (s : shared) (t : option Z) : shared :=
  mkShared (locked s) (mtx s) t (now s) (disk_pw s) (mem_pw s) (naccts s).
Definition set_now (s : shared) (t : Z) : shared :=
  mkShared (locked s) (mtx s) (timer s) t (disk_pw s) (mem_pw s) (naccts s).
Definition set_mem (s : shared) (p : pw) : shared :=
  mkShared (locked s) (mtx s) (timer s) (now s) (disk_pw s) p (naccts s).
Definition set_pws (s : shared) (d : option pw) (p : pw) : shared :=
  mkShared (locked s) (mtx s) (timer s) (now s) d p (naccts s).
Definition set_naccts (s : shared) (n : N) : shared :=
  mkShared (locked s) (mtx s) (timer s) (now s) (disk_pw s) (mem_pw s) n.

Definition has_seed (s : shared) : bool :=
  match disk_pw s with Some _ => true | None => false end.

(** ** events (the trace is kept newest first) *)
Inductive event :=
| ESpawn (tid : nat) (q : req)
| EUnlock (tid : nat) (T : Z) (t : Z)   (* the CAS(1->0) of an unlock whose password was verified *)
| ELock (tid : nat)                     (* the CAS(0->1) of ProcWalletLock *)
| EFire                                 (* the CAS(0->1) of the timer function *)
| ERestart
| EObs (tid : nat) (unlocked held : bool) (t : Z)
      (* a flag read by an observer: [held] = under wallet.mtx (checkWalletStatus of a
         request) *)
| ESecret (tid : nat)                   (* a request returned a stored secret / signed with it *)
| EApiSecret (tid : nat)                (* GetPrivKeyByAddr returned a key *)
| ERet (tid : nat) (r : result).

(** time.Second * time.Duration(Timeout) in int64 *)
Definition wrap64 (x : Z) : Z := (x + 2 ^ 63) mod 2 ^ 64 - 2 ^ 63.
Definition second : Z := 1000000000.
Definition timeout_ns (T : Z) : Z := Z.max 0 (wrap64 (second * T)).

(** ** one atomic step of one thread *)
Definition holds (p : pc) : bool :=
  match p with
  | PAcq | PDone _ | PL_seed | PL_cas | PO_read | PO_seed _ => false
  | _ => true
  end.

Definition init_pc (q : req) : pc :=
  match q with
  | QLock => PL_seed
  | QIsLocked | QStatus => PO_read
  | _ => PAcq
  end.

Definition after_acq (q : req) : pc :=
  match q with
  | QUnlock _ _ _ => PU_seed
  | QSetPasswd _ _ => PS_flag
  | QSecret _ => PX_flag
  | QApiPriv _ => PX_secret
  | QSaveSeed _ => PV_do
  | _ => PDone ROk (* not reached: these requests do not take the mutex *)
  end.

(** the result of the secret-using part of a request on an unlocked wallet *)
Definition key_result (s : shared) (a : N) : result :=
  if (a <? naccts s)%N then
    match disk_pw s with
    | Some d => if pw_eqb (mem_pw s) d then RSecret else RWrongSecret
    | None => RWrongSecret
    end
  else RErr eAddrNotExist.

Definition secret_result (s : shared) (q : req) : result :=
  match q with
  | QSecret (KDump a) | QSecret (KSign a) | QApiPriv a => key_result s a
  | QSecret (KSeed p) =>
      if is_empty p then RErr eInvalidParam
      else match disk_pw s with
           | Some d => if pw_eqb p d then RSecret else RErr eInputPw
           | None => RErr eInputPw
           end
  | QSecret KImport => ROk
  | QSecret KSend => RErr eBalance
  | _ => ROk
  end.

Definition is_secret (r : result) : bool :=
  match r with RSecret | RWrongSecret => true | _ => false end.

Definition setpw_after_status (nw : pw) : pc :=
  if valid_pw nw then PS_verify else PRel (RErr eInvalidPw).

Definition verify_old (s : shared) (old : pw) : bool :=
  if is_empty (mem_pw s) then
    match disk_pw s with
    | Some d => pw_eqb old d          (* VerifyPasswordHash: one DB read *)
    | None => true                    (* EncryptFlag = 0: nothing to verify *)
    end
  else pw_eqb old (mem_pw s).

(** [step_thread tid s q p] = [None] when the thread cannot move
    (finished, or waiting for the mutex); otherwise the new shared state, the
    new pc and the events of the step (newest first). *)
Definition step_thread (tid : nat) (s : shared) (q : req) (p : pc)
  : option (shared * pc * list event) :=
  match p with
  | PDone _ => None
  | PAcq =>
      match mtx s with
      | None => Some (set_mtx s (Some tid), after_acq q, [])
      | Some _ => None
      end
  | PRel r => Some (set_mtx s None, PDone r, [ERet tid r])
  (* ---- ProcWalletUnLock *)
  | PU_seed =>
      Some (s, if has_seed s then PU_check else PRel (RErr eSaveSeedFirst), [])
  | PU_check =>
      match q with
      | QUnlock p0 T ticket =>
          if is_empty (mem_pw s) then
            match disk_pw s with
            | Some d =>
                if pw_eqb p0 d
                then Some (set_mem s p0, if ticket then PRel ROk else PU_cas, [])
                else Some (s, PRel (RErr eVerifyOld), [])
            | None => Some (set_mem s p0, if ticket then PRel ROk else PU_cas, [])
            end
          else if pw_eqb p0 (mem_pw s)
               then Some (set_mem s p0, if ticket then PRel ROk else PU_cas, [])
               else Some (s, PRel (RErr eInputPw), [])
      | _ => None
      end
  | PU_cas =>
      match q with
      | QUnlock _ T _ =>
          Some (set_locked s false, if T =? 0 then PRel ROk else PU_timer, [EUnlock tid T (now s)])
      | _ => None
      end
  | PU_timer =>
      match q with
      | QUnlock _ T _ => Some (set_timer s (Some (now s + timeout_ns T)), PRel ROk, [])
      | _ => None
      end
  (* ---- ProcWalletLock (takes no mutex) *)
  | PL_seed =>
      Some (s, if has_seed s then PL_cas else PDone (RErr eSaveSeedFirst),
            if has_seed s then [] else [ERet tid (RErr eSaveSeedFirst)])
  | PL_cas => Some (set_locked s true, PDone ROk, [ERet tid ROk; ELock tid])
  (* ---- ProcWalletSetPasswd *)
  | PS_flag =>
      match q with
      | QSetPasswd _ nw =>
          Some (s, if locked s then setpw_after_status nw else PS_seed, [])
      | _ => None
      end
  | PS_seed =>
      match q with
      | QSetPasswd _ nw =>
          Some (s, if has_seed s then setpw_after_status nw else PRel (RErr eSaveSeedFirst), [])
      | _ => None
      end
  | PS_verify =>                                    (* the lock flag is neither read nor written from here on *)
      match q with
      | QSetPasswd old _ =>
          Some (s, if verify_old s old then PS_hasseed else PRel (RErr eVerifyOld), [])
      | _ => None
      end
  | PS_hasseed =>                                                    (* walletStore.HasSeed *)
      Some (s, if has_seed s then PS_write else PRel (RErr eSaveSeedFirst), [])
  | PS_write =>                                                      (* GetSeed(db, old) ... batch.Write *)
      match q with
      | QSetPasswd old nw =>
          if is_empty old then Some (s, PRel (RErr eInvalidParam), [])
          else match disk_pw s with
               | Some d =>
                   if pw_eqb old d
                   then Some (set_pws s (Some nw) nw, PRel ROk, [])
                   else Some (s, PRel (RErr eInputPw), [])
               | None => Some (s, PRel (RErr eInputPw), [])
               end
      | _ => None
      end
  (* ---- requests that test the flag under the mutex *)
  | PX_flag =>
      Some (s, if locked s then PRel (RErr eLocked) else PX_seed,
            [EObs tid (negb (locked s)) true (now s)])
  | PX_seed =>
      Some (s, if has_seed s then PX_secret else PRel (RErr eSaveSeedFirst), [])
  | PX_secret =>
      let r := secret_result s q in
      let s' := match q with QSecret KImport => set_naccts s (naccts s + 1)%N | _ => s end in
      Some (s', PRel r,
            if is_secret r
            then match q with QApiPriv _ => [EApiSecret tid] | _ => [ESecret tid] end
            else [])
  (* ---- lock-free observers *)
  | PO_read =>
      match q with
      | QStatus => Some (s, PO_seed (locked s), [EObs tid (negb (locked s)) false (now s)])
      | _ => Some (s, PDone (RBool (locked s)),
                   [ERet tid (RBool (locked s)); EObs tid (negb (locked s)) false (now s)])
      end
  | PO_seed v =>
      Some (s, PDone (RStatus v (has_seed s)), [ERet tid (RStatus v (has_seed s))])
  (* ---- SaveSeed *)
  | PV_do =>
      match q with
      | QSaveSeed p0 =>
          if has_seed s then Some (s, PRel (RErr eSeedExist), [])
          else if is_empty p0 then Some (s, PRel (RErr eInvalidParam), [])
          else if valid_pw p0 then Some (set_pws s (Some p0) p0, PRel ROk, [])
          else Some (s, PRel (RErr eInvalidPw), [])
      | _ => None
      end
  end.

(** ** global state and scheduler *)
Record gstate := mkG {
  sh : shared;
  thr : list (req * pc);
  trace : list event;        (* newest first *)
}.

Inductive sched_item :=
| SSpawn (q : req)     (* a request arrives: new thread; its id is its index in [thr] *)
| SStep (tid : nat)    (* thread tid performs one atomic step (no-op when it cannot) *)
| SAdvance (d : Z)     (* time passes; not beyond the deadline of an armed timer (no-op then) *)
| SFire                (* the timer function runs, when armed and due *)
| SRestart.            (* process restart: new Wallet object on the same DB; only when no request is in flight *)

Definition init_shared : shared := mkShared true None None 0 None [] 0.
Definition init_g : gstate := mkG init_shared [] [].

Fixpoint upd {A} (i : nat) (x : A) (l : list A) : list A :=
  match l, i with
  | [], _ => []
  | _ :: tl, O => x :: tl
  | y :: tl, S i' => y :: upd i' x tl
  end.

Definition is_done (t : req * pc) : bool :=
  match snd t with PDone _ => true | _ => false end.

Definition exec1 (g : gstate) (it : sched_item) : gstate :=
  match it with
  | SSpawn q =>
      mkG (sh g) (thr g ++ [(q, init_pc q)]) (ESpawn (length (thr g)) q :: trace g)
  | SStep i =>
      match nth_error (thr g) i with
      | Some (q, p) =>
          match step_thread i (sh g) q p with
          | Some (s', p', evs) => mkG s' (upd i (q, p') (thr g)) (evs ++ trace g)
          | None => g
          end
      | None => g
      end
  | SAdvance d =>
      if d <? 0 then g
      else match timer (sh g) with
           | Some dl => if now (sh g) + d <=? dl
                        then mkG (set_now (sh g) (now (sh g) + d)) (thr g) (trace g)
                        else g
           | None => mkG (set_now (sh g) (now (sh g) + d)) (thr g) (trace g)
           end
  | SFire =>
      match timer (sh g) with
      | Some dl =>
          if dl <=? now (sh g)
          then mkG (set_locked (set_timer (sh g) None) true) (thr g) (EFire :: trace g)
          else g
      | None => g
      end
  | SRestart =>
      if forallb is_done (thr g)
      then mkG (mkShared true None None (now (sh g)) (disk_pw (sh g)) [] (naccts (sh g)))
               (thr g) (ERestart :: trace g)
      else g
  end.

Definition exec (sched : list sched_item) (g : gstate) : gstate :=
  fold_left exec1 sched g.

(** ** sequential use: one request at a time, run to completion *)
Fixpoint run_thread (fuel : nat) (i : nat) (g : gstate) : gstate :=
  match fuel with
  | O => g
  | S f =>
      match nth_error (thr g) i with
      | Some (_, PDone _) => g
      | Some _ => run_thread f i (exec1 g (SStep i))
      | None => g
      end
  end.

Definition result_of (g : gstate) (i : nat) : option result :=
  match nth_error (thr g) i with
  | Some (_, PDone r) => Some r
  | _ => None
  end.

(** the longest request (ProcWalletSetPasswd on an unlocked wallet) has 7 steps *)
Definition call (q : req) (g : gstate) : gstate * option result :=
  let i := length (thr g) in
  let g' := run_thread 16 i (exec1 g (SSpawn q)) in
  (g', result_of g' i).

(** time passes by d >= 0 in one or two legs, the timer function running as
    soon as it is due *)
Definition pass (d : Z) (g : gstate) : gstate :=
  match timer (sh g) with
  | Some dl =>
      if now (sh g) + d <? dl then exec1 g (SAdvance d)
      else
        let d1 := Z.max 0 (dl - now (sh g)) in
        let g1 := exec1 (exec1 g (SAdvance d1)) SFire in
        exec1 g1 (SAdvance (d - d1))
  | None => exec1 g (SAdvance d)
  end.
