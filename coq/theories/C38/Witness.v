(** C38 — the two witness schedules (used by the refutations in ProofsMain and,
    for the second, by the correspondence check of the lost-lock hammer). *)
From Coq Require Import List ZArith NArith Bool.
From C33 Require Import Lib.Harness C38.Model.
Import ListNotations.
Open Scope Z_scope.

Definition pwA : pw := [97; 98; 99; 100; 49; 50; 51; 52]%N.   (* "abcd1234" *)
Definition pwB : pw := [97; 98; 99; 100; 49; 50; 51; 53]%N.
Definition pwC : pw := [97; 98; 99; 100; 49; 50; 51; 54]%N.

Definition steps (i n : nat) : list sched_item := repeat (SStep i) n.

(** witness 1: seed saved, wallet locked.  A password change with a WRONG old
    password is between its CAS and its restore when IsWalletLocked is asked. *)
Definition sched_window : list sched_item :=
  [SSpawn (QSaveSeed pwA)] ++ steps 0 3
  ++ [SSpawn (QSetPasswd pwB pwC)] ++ steps 1 4
  ++ [SSpawn QIsLocked] ++ steps 2 1
  ++ steps 1 3.

(** witness 2: wallet legitimately unlocked.  SetPasswd (wrong old password)
    has loaded the flag (0) when ProcWalletLock runs to completion; SetPasswd's
    CAS(1->0) then undoes the lock, and its restore CAS(0->0) changes nothing:
    the wallet stays unlocked after a successful lock, and a later request
    passes the flag test under the mutex.  [tail] = the later request. *)
Definition sched_lost_lock_with (later : req) (n : nat) : list sched_item :=
  [SSpawn (QSaveSeed pwA)] ++ steps 0 3
  ++ [SSpawn (QUnlock pwA 0 false)] ++ steps 1 5
  ++ [SSpawn (QSetPasswd pwB pwC)] ++ steps 2 4
  ++ [SSpawn QLock] ++ steps 3 2
  ++ steps 2 4
  ++ [SSpawn later] ++ steps 4 n.

Definition sched_lost_lock : list sched_item := sched_lost_lock_with (QSecret (KSeed pwA)) 5.
