(** C38 — the two schedules that refuted the property before chain33 66be1e2
    (ProcWalletSetPasswd no longer touches the lock flag), re-timed for the
    repaired request program.  ProofsMain shows what they produce now. *)
From Coq Require Import List ZArith NArith Bool.
From C33 Require Import Lib.Harness C38.Model.
Import ListNotations.
Open Scope Z_scope.

Definition pwA : pw := [97; 98; 99; 100; 49; 50; 51; 52]%N.   (* "abcd1234" *)
Definition pwB : pw := [97; 98; 99; 100; 49; 50; 51; 53]%N.
Definition pwC : pw := [97; 98; 99; 100; 49; 50; 51; 54]%N.

Definition steps (i n : nat) : list sched_item := repeat (SStep i) n.

(** schedule 1 (former finding 1): seed saved, wallet locked.  A password
    change with a WRONG old password holds the mutex and is about to verify
    the old password when IsWalletLocked is asked. *)
Definition sched_window : list sched_item :=
  [SSpawn (QSaveSeed pwA)] ++ steps 0 3
  ++ [SSpawn (QSetPasswd pwB pwC)] ++ steps 1 2
  ++ [SSpawn QIsLocked] ++ steps 2 1
  ++ steps 1 2.

(** schedule 2 (former finding 2): wallet legitimately unlocked.  SetPasswd
    (wrong old password) has made its flag test (unlocked) when ProcWalletLock
    runs to completion; SetPasswd then finishes.  [later] = a request made
    afterwards. *)
Definition sched_lock_race_with (later : req) (n : nat) : list sched_item :=
  [SSpawn (QSaveSeed pwA)] ++ steps 0 3
  ++ [SSpawn (QUnlock pwA 0 false)] ++ steps 1 5
  ++ [SSpawn (QSetPasswd pwB pwC)] ++ steps 2 3
  ++ [SSpawn QLock] ++ steps 3 2
  ++ steps 2 2
  ++ [SSpawn later] ++ steps 4 n.

Definition sched_lock_race : list sched_item := sched_lock_race_with (QSecret (KSeed pwA)) 5.
