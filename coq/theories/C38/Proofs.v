(** C38 — invariants of the lock LTS, for every schedule. *)
From Coq Require Import List ZArith NArith Bool Lia Arith.
From C33 Require Import Lib.Harness C38.Model C38.Spec.
Import ListNotations.
Open Scope Z_scope.

(** ** lists of threads *)
Lemma nth_error_upd {A} (l : list A) i j x :
  nth_error (upd i x l) j =
  if Nat.eqb i j then match nth_error l j with Some _ => Some x | None => None end
  else nth_error l j.
Proof.
  revert i j; induction l as [|y l IH]; intros i j.
  - destruct i, j; simpl; try reflexivity; destruct (Nat.eqb i j); reflexivity.
  - destruct i, j; simpl; try reflexivity. apply IH.
Qed.

Lemma nth_error_upd_same {A} (l : list A) i x y :
  nth_error l i = Some y -> nth_error (upd i x l) i = Some x.
Proof. intro H. rewrite nth_error_upd, Nat.eqb_refl, H. reflexivity. Qed.

Lemma nth_error_upd_other {A} (l : list A) i j x :
  i <> j -> nth_error (upd i x l) j = nth_error l j.
Proof.
  intro H. rewrite nth_error_upd. destruct (Nat.eqb i j) eqn:E; [|reflexivity].
  apply Nat.eqb_eq in E. contradiction.
Qed.

Lemma nth_error_snoc {A} (l : list A) x j y :
  nth_error (l ++ [x]) j = Some y ->
  nth_error l j = Some y \/ (j = length l /\ y = x).
Proof.
  intro H. destruct (Nat.lt_ge_cases j (length l)) as [L|L].
  - rewrite nth_error_app1 in H by exact L. left; exact H.
  - rewrite nth_error_app2 in H by exact L.
    destruct (j - length l)%nat eqn:E; simpl in H.
    + inversion H; subst. right. split; [lia|reflexivity].
    + destruct n; discriminate.
Qed.

(** ** the invariants *)
Definition mutex_inv (g : gstate) : Prop :=
  forall i q c, nth_error (thr g) i = Some (q, c) -> holds c = true -> mtx (sh g) = Some i.

(** the flag says "unlocked" only while the authorisation monitor of the spec is on *)
Definition flag_inv (g : gstate) : Prop :=
  locked (sh g) = false -> auth_of (trace g) = true.

(** the program counters of a ProcWalletSetPasswd thread *)
Definition setpw_pc (c : pc) : bool :=
  match c with
  | PAcq | PRel _ | PDone _ | PS_flag | PS_seed | PS_verify | PS_hasseed | PS_write => true
  | _ => false
  end.

Definition setpw_inv (g : gstate) : Prop :=
  forall i old nw c, nth_error (thr g) i = Some (QSetPasswd old nw, c) -> setpw_pc c = true.

(** ** what one thread step can do *)
Ltac step_inv H :=
  unfold step_thread, setpw_after_status in H;
  repeat match type of H with
         | context [match ?x with _ => _ end] => destruct x eqn:?; try discriminate H
         end;
  injection H as ? ? ?; subst.

(** effect on the mutex *)
Lemma step_mutex i s q c s' c' evs :
  step_thread i s q c = Some (s', c', evs) ->
  (mtx s' = mtx s /\ (holds c' = true -> holds c = true))
  \/ (c = PAcq /\ mtx s = None /\ mtx s' = Some i)
  \/ (mtx s' = None /\ holds c = true /\ holds c' = false).
Proof.
  intro H. destruct c; simpl in H; try discriminate H.
  all: try (step_inv H; simpl; auto; fail).
  all: try (step_inv H; simpl; left; split; [reflexivity|intro; reflexivity]; fail).
Qed.

(** effect on the flag and on the authorisation monitor: only the CAS of a
    verified unlock clears the flag; every other step sets it or leaves it *)
Lemma step_class i s q c s' c' evs :
  step_thread i s q c = Some (s', c', evs) ->
  (forall tr, auth_of (evs ++ tr) = true)
  \/ locked s' = true
  \/ (locked s' = locked s /\ (forall tr, auth_of (evs ++ tr) = auth_of tr)).
Proof.
  intro H. destruct c; simpl in H; try discriminate H.
  all: try (step_inv H; simpl; right; right; (split; [first [reflexivity|assumption]|intro; reflexivity]); fail).
  - (* PU_cas *) step_inv H; left; intro; reflexivity.
  - (* PL_cas *) step_inv H. right; left. reflexivity.
Qed.

(** a ProcWalletSetPasswd thread stays in its own program and never writes the flag *)
Lemma step_setpw i s old nw c s' c' evs :
  step_thread i s (QSetPasswd old nw) c = Some (s', c', evs) -> setpw_pc c = true ->
  setpw_pc c' = true /\ locked s' = locked s.
Proof.
  intros H P. destruct c; simpl in P; try discriminate P; simpl in H.
  all: try discriminate H; step_inv H; simpl; auto.
Qed.

Lemma step_keeps_req_pc i s q c s' c' evs old nw :
  step_thread i s q c = Some (s', c', evs) -> q = QSetPasswd old nw -> setpw_pc c = true ->
  setpw_pc c' = true.
Proof. intros H -> P. exact (proj1 (step_setpw _ _ _ _ _ _ _ _ H P)). Qed.

(** the observations of a step *)
Lemma step_obs_ok i s q c s' c' evs lf tr :
  step_thread i s q c = Some (s', c', evs) ->
  obs_ok lf tr = true ->
  (locked s = false -> auth_of tr = true) ->
  obs_ok lf (evs ++ tr) = true.
Proof.
  intros H Htr Ha. destruct c; simpl in H; try discriminate H.
  all: try (step_inv H; simpl; try assumption; fail).
  - (* PX_flag *) inversion H; subst; clear H. simpl.
    match goal with |- context [locked ?x] => destruct (locked x) eqn:L end; simpl.
    + assumption.
    + rewrite Ha by reflexivity. assumption.
  - (* PO_read *) destruct q; inversion H; subst; clear H; simpl.
    all: match goal with |- context [locked ?x] => destruct (locked x) eqn:L end; simpl; try assumption.
    all: destruct lf; simpl; try assumption; rewrite Ha by reflexivity; assumption.
Qed.

Lemma obs_ok_weaken tr : obs_ok true tr = true -> obs_ok false tr = true.
Proof.
  induction tr as [|e tr IH]; simpl; [reflexivity|].
  destruct e; try exact IH. destruct unlocked; [|exact IH].
  intro H. apply andb_true_iff in H as [H1 H2]. rewrite (IH H2), andb_true_r.
  rewrite orb_true_r in H1. destruct held; simpl; [exact H1|reflexivity].
Qed.

(** secrets *)
Definition has_good_obs (i : nat) (tr : list event) : bool := existsb (is_good_obs i) tr.

Lemma has_good_obs_app i evs tr : has_good_obs i tr = true -> has_good_obs i (evs ++ tr) = true.
Proof. unfold has_good_obs. intro H. rewrite existsb_app, H. apply orb_true_r. Qed.

Lemma step_secrets_ok i s q c s' c' evs tr :
  step_thread i s q c = Some (s', c', evs) ->
  secrets_ok tr = true ->
  (c = PX_secret -> (exists k, q = QSecret k) -> has_good_obs i tr = true) ->
  secrets_ok (evs ++ tr) = true.
Proof.
  intros H Htr Hs. destruct c; simpl in H; try discriminate H.
  all: try (step_inv H; simpl; try assumption; fail).
  (* PX_secret *)
  inversion H; subst; clear H.
  destruct q; simpl; try assumption.
  - destruct (is_secret _); simpl; [|exact Htr].
    rewrite Htr, andb_true_r. apply Hs; eauto.
  - destruct (is_secret _); simpl; exact Htr.
Qed.

(** where a step can lead to PX_seed / PX_secret, and with what observation *)
Lemma step_enters_secret i s q c s' c' evs :
  step_thread i s q c = Some (s', c', evs) ->
  (c' = PX_seed \/ c' = PX_secret) ->
  (c = PX_flag /\ locked s = false /\ evs = [EObs i true true (now s)])
  \/ (c = PX_seed) \/ (c = PAcq /\ exists a, q = QApiPriv a).
Proof.
  intros H Hc. destruct c; simpl in H; try discriminate H.
  all: try (step_inv H; destruct Hc; discriminate).
  - (* PAcq *) step_inv H. destruct q; simpl in Hc; destruct Hc; try discriminate. right; right. split; [reflexivity|eexists; reflexivity].
  - (* PX_flag *) inversion H; subst; clear H.
    match goal with |- context [locked ?x] => destruct (locked x) eqn:L end;
      rewrite ?L in Hc; destruct Hc; try discriminate. left. auto.
  - auto.
Qed.

(** ** the global invariant *)
Record Inv (g : gstate) : Prop := mkInv {
  inv_mutex : mutex_inv g;
  inv_flag : flag_inv g;
  inv_all : obs_ok true (trace g) = true;
  inv_secrets : secrets_ok (trace g) = true;
  inv_sec_thr : forall i k c, nth_error (thr g) i = Some (QSecret k, c) ->
                c = PX_seed \/ c = PX_secret -> has_good_obs i (trace g) = true;
  inv_setpw : setpw_inv g;
}.

Lemma Inv_init : Inv init_g.
Proof.
  constructor; unfold mutex_inv, flag_inv, setpw_inv; simpl; try reflexivity; try discriminate.
  - intros [|i] q c H; discriminate.
  - intros [|i] k c H; discriminate.
  - intros [|i] old nw c H; discriminate.
Qed.

Lemma Inv_spawn g q : Inv g -> Inv (exec1 g (SSpawn q)).
Proof.
  intros [M F Ha Hs Ht Hp]. constructor; simpl.
  - intros i q' c Hi Hho. apply nth_error_snoc in Hi as [Hi|[_ Hi]].
    + exact (M _ _ _ Hi Hho).
    + inversion Hi; subst. destruct q; discriminate.
  - exact F.
  - exact Ha.
  - exact Hs.
  - intros i k c Hi Hpc. apply nth_error_snoc in Hi as [Hi|[_ Hi]].
    + unfold has_good_obs in *. simpl. exact (Ht _ _ _ Hi Hpc).
    + inversion Hi; subst. destruct Hpc as [E|E]; simpl in E; discriminate.
  - intros i old nw c Hi. apply nth_error_snoc in Hi as [Hi|[_ Hi]].
    + exact (Hp _ _ _ _ Hi).
    + inversion Hi; subst. reflexivity.
Qed.

Lemma Inv_advance g d : Inv g -> Inv (exec1 g (SAdvance d)).
Proof.
  intros I. unfold exec1. destruct (d <? 0); [exact I|].
  destruct I as [M F Ha Hs Ht Hp].
  destruct (timer (sh g)) as [dl|]; [destruct (now (sh g) + d <=? dl)|].
  2: constructor; assumption.
  all: constructor; simpl; assumption.
Qed.

Lemma Inv_fire g : Inv g -> Inv (exec1 g SFire).
Proof.
  intros I. unfold exec1. destruct (timer (sh g)) as [dl|]; [|exact I].
  destruct (dl <=? now (sh g)); [|exact I].
  destruct I as [M F Ha Hs Ht Hp]. constructor; simpl; try assumption.
  all: try (intros i q c Hi Hho; exact (M _ _ _ Hi Hho)).
  all: try (intros Hl; discriminate).
Qed.

Lemma Inv_restart g : Inv g -> Inv (exec1 g SRestart).
Proof.
  intros I. unfold exec1. destruct (forallb is_done (thr g)) eqn:D; [|exact I].
  destruct I as [M F Ha Hs Ht Hp]. constructor; simpl; try assumption.
  all: try (intros Hl; discriminate).
  intros i q c Hi Hho. rewrite forallb_forall in D.
  apply nth_error_In in Hi. apply D in Hi. unfold is_done in Hi. simpl in Hi.
  destruct c; simpl in *; discriminate.
Qed.

Lemma Inv_step g i : Inv g -> Inv (exec1 g (SStep i)).
Proof.
  intros I. unfold exec1.
  destruct (nth_error (thr g) i) as [[q c]|] eqn:Hi; [|exact I].
  destruct (step_thread i (sh g) q c) as [[[s' c'] evs]|] eqn:Hst; [|exact I].
  destruct I as [M F Ha Hs Ht Hp].
  pose proof (step_mutex _ _ _ _ _ _ _ Hst) as SM.
  pose proof (step_class _ _ _ _ _ _ _ Hst) as SC.
  constructor; simpl.
  - (* mutex *)
    intros j q' cj Hj Hho. simpl in Hj |- *. destruct (Nat.eq_dec i j) as [->|Hne].
    + rewrite (nth_error_upd_same _ _ _ _ Hi) in Hj. inversion Hj; subst.
      destruct SM as [[E Hh']|[(-> & _ & E)|(_ & _ & Hno)]].
      * rewrite E. apply (M _ _ _ Hi). auto.
      * exact E.
      * congruence.
    + rewrite nth_error_upd_other in Hj by exact Hne.
      pose proof (M _ _ _ Hj Hho) as Mj.
      destruct SM as [[E _]|[(-> & En & _)|(_ & Hhc & _)]].
      * rewrite E. exact Mj.
      * congruence.
      * pose proof (M _ _ _ Hi Hhc) as Mi. rewrite Mi in Mj. inversion Mj. contradiction.
  - (* flag *)
    intros Hl. simpl in Hl |- *.
    destruct SC as [A|[L|(L & A)]].
    + apply A.
    + congruence.
    + rewrite A. apply F. rewrite <- L. exact Hl.
  - (* all observations *)
    eapply step_obs_ok; eauto.
  - (* secrets *)
    eapply step_secrets_ok; eauto. intros -> [k ->]. eapply Ht; eauto.
  - (* threads about to hand out a secret have seen the wallet unlocked *)
    intros j k cj Hj Hpc. simpl in Hj |- *. destruct (Nat.eq_dec i j) as [->|Hne].
    + rewrite (nth_error_upd_same _ _ _ _ Hi) in Hj. inversion Hj; subst.
      destruct (step_enters_secret _ _ _ _ _ _ _ Hst Hpc) as [(-> & Hl & ->)|[->|(-> & a & Hq)]].
      * unfold has_good_obs. simpl. rewrite Nat.eqb_refl. reflexivity.
      * apply has_good_obs_app. eapply Ht; eauto.
      * discriminate.
    + rewrite nth_error_upd_other in Hj by exact Hne. apply has_good_obs_app. eapply Ht; eauto.
  - (* SetPasswd threads stay in their program *)
    intros j old nw cj Hj. simpl in Hj. destruct (Nat.eq_dec i j) as [->|Hne].
    + rewrite (nth_error_upd_same _ _ _ _ Hi) in Hj. inversion Hj; subst.
      eapply step_keeps_req_pc; eauto.
    + rewrite nth_error_upd_other in Hj by exact Hne. exact (Hp _ _ _ _ Hj).
Qed.

Lemma Inv_exec1 g it : Inv g -> Inv (exec1 g it).
Proof.
  destruct it; [apply Inv_spawn|apply Inv_step|apply Inv_advance|apply Inv_fire|apply Inv_restart].
Qed.

Lemma Inv_exec sched : forall g, Inv g -> Inv (exec sched g).
Proof.
  unfold exec. induction sched as [|it tl IH]; intros g I; simpl; [exact I|].
  apply IH, Inv_exec1, I.
Qed.

Lemma Inv_reachable sched : Inv (exec sched init_g).
Proof. apply Inv_exec, Inv_init. Qed.
