(** C38 — invariants of the lock LTS, for every schedule. *)
From Coq Require Import List ZArith NArith Bool Lia Arith.
From C33 Require Import Lib.Harness C38.Model C38.Spec.
Import ListNotations.
Open Scope Z_scope.

(** ** lists of threads *)
Lemma nth_error_upd {A} (l : list A) i j x :
  nth_error (upd i x l) j =
  if Nat.eqb i j then match nth_error l j with Some _ => Some x | None => None end
  else nth_error l j.
Proof.
  revert i j; induction l as [|y l IH]; intros i j.
  - destruct i, j; simpl; try reflexivity; destruct (Nat.eqb i j); reflexivity.
  - destruct i, j; simpl; try reflexivity. apply IH.
Qed.

Lemma nth_error_upd_same {A} (l : list A) i x y :
  nth_error l i = Some y -> nth_error (upd i x l) i = Some x.
Proof. intro H. rewrite nth_error_upd, Nat.eqb_refl, H. reflexivity. Qed.

Lemma nth_error_upd_other {A} (l : list A) i j x :
  i <> j -> nth_error (upd i x l) j = nth_error l j.
Proof.
  intro H. rewrite nth_error_upd. destruct (Nat.eqb i j) eqn:E; [|reflexivity].
  apply Nat.eqb_eq in E. contradiction.
Qed.

Lemma nth_error_snoc {A} (l : list A) x j y :
  nth_error (l ++ [x]) j = Some y ->
  nth_error l j = Some y \/ (j = length l /\ y = x).
Proof.
  intro H. destruct (Nat.lt_ge_cases j (length l)) as [L|L].
  - rewrite nth_error_app1 in H by exact L. left; exact H.
  - rewrite nth_error_app2 in H by exact L.
    destruct (j - length l)%nat eqn:E; simpl in H.
    + inversion H; subst. right. split; [lia|reflexivity].
    + destruct n; discriminate.
Qed.

(** ** the invariants *)
Definition mutex_inv (g : gstate) : Prop :=
  forall i q c, nth_error (thr g) i = Some (q, c) -> holds c = true -> mtx (sh g) = Some i.

Definition win_thread (ts : list (req * pc)) : Prop :=
  exists i q c, nth_error ts i = Some (q, c) /\ in_window c = true.

Definition flag_inv (g : gstate) : Prop :=
  split_race g = false -> locked (sh g) = false ->
  auth_of (trace g) = true \/ win_thread (thr g).

Lemma any_window_spec ts : any_window ts = true <-> win_thread ts.
Proof.
  unfold any_window, win_thread. rewrite existsb_exists. split.
  - intros [[q c] [Hin Hw]]. apply In_nth_error in Hin as [i Hi]. exists i, q, c. auto.
  - intros (i & q & c & Hi & Hw). exists (q, c). split; [eapply nth_error_In; eauto|exact Hw].
Qed.

(** a thread that holds the mutex excludes every window of another thread *)
Lemma holder_no_other_window g i q c :
  mutex_inv g -> nth_error (thr g) i = Some (q, c) -> holds c = true -> in_window c = false ->
  any_window (thr g) = false.
Proof.
  intros M Hi Hh Hw. destruct (any_window (thr g)) eqn:E; [|reflexivity].
  apply any_window_spec in E as (j & q' & c' & Hj & Hw').
  assert (Hh' : holds c' = true) by (destruct c' as [| | | | | | | | | | | | |[]|[]|[]|[]|[] ?| | | | | |]; simpl in *; congruence).
  pose proof (M _ _ _ Hi Hh) as M1. pose proof (M _ _ _ Hj Hh') as M2.
  rewrite M1 in M2. inversion M2; subst. rewrite Hi in Hj. inversion Hj; subst. congruence.
Qed.

(** ** what one thread step can do *)
Ltac step_inv H :=
  unfold step_thread, setpw_after_status in H;
  repeat match type of H with
         | context [match ?x with _ => _ end] => destruct x eqn:?; try discriminate H
         end;
  injection H as ? ? ?; subst.

(** effect on the mutex *)
Lemma step_mutex i w s q c s' c' evs :
  step_thread i w s q c = Some (s', c', evs) ->
  (mtx s' = mtx s /\ (holds c' = true -> holds c = true))
  \/ (c = PAcq /\ mtx s = None /\ mtx s' = Some i)
  \/ (mtx s' = None /\ holds c = true /\ holds c' = false).
Proof.
  intro H. destruct c; simpl in H; try discriminate H.
  all: try (step_inv H; simpl; auto; fail).
  all: try (step_inv H; simpl; left; split; [reflexivity|intro; reflexivity]; fail).
Qed.

(** effect on the flag, the authorisation monitor and the window *)
Lemma step_class i w s q c s' c' evs :
  step_thread i w s q c = Some (s', c', evs) ->
  (forall tr, auth_of (evs ++ tr) = true)
  \/ locked s' = true
  \/ (exists t, c = PS_cas t /\ c' = PS_verify t /\ evs = [] /\ locked s' = false)
  \/ (exists r, c = PS_restore false r /\ c' = PRel r /\ evs = [] /\ locked s = false)
  \/ (locked s' = locked s /\ (forall tr, auth_of (evs ++ tr) = auth_of tr)
      /\ (in_window c = true -> in_window c' = true)
      /\ (forall t, c <> PS_cas t)).
Proof.
  intro H. destruct c; simpl in H; try discriminate H.
  all: try (step_inv H; simpl; right; right; right; right;
            repeat split; try reflexivity; try discriminate; try (intro; discriminate); auto; fail).
  - (* PU_cas *) step_inv H; left; intro; reflexivity.
  - (* PL_cas *) step_inv H. right; left. reflexivity.
  - (* PS_cas *) step_inv H. right; right; left. exists t. simpl. auto.
  - (* PS_restore *) step_inv H.
    + right; left. assumption.
    + destruct t.
      * right; left. reflexivity.
      * right; right; right; left. exists r. auto.
Qed.

(** the observations of a step *)
Lemma step_obs_ok i w s q c s' c' evs lf tr :
  step_thread i w s q c = Some (s', c', evs) ->
  obs_ok lf tr = true ->
  (c = PX_flag -> locked s = false -> auth_of tr = true) ->
  (lf = true -> c = PO_read -> locked s = false -> auth_of tr = true) ->
  obs_ok lf (evs ++ tr) = true.
Proof.
  intros H Htr Hx Ho. destruct c; simpl in H; try discriminate H.
  all: try (step_inv H; simpl; try assumption; fail).
  - (* PX_flag *) inversion H; subst; clear H. simpl.
    match goal with |- context [locked ?x] => destruct (locked x) eqn:L end; simpl.
    + assumption.
    + rewrite Hx by auto. assumption.
  - (* PO_read *) destruct q; inversion H; subst; clear H; simpl.
    all: match goal with |- context [locked ?x] => destruct (locked x) eqn:L end; simpl; try assumption.
    all: destruct lf; simpl; try assumption; rewrite Ho by auto; assumption.
Qed.

(** every flag test made under the mutex carries the window ghost of its moment *)
Definition held_obs_clean (tr : list event) : bool :=
  forallb (fun e => match e with EObs _ _ true w _ => negb w | _ => true end) tr.

Lemma step_held_clean i w s q c s' c' evs tr :
  step_thread i w s q c = Some (s', c', evs) ->
  held_obs_clean tr = true -> (c = PX_flag -> w = false) ->
  held_obs_clean (evs ++ tr) = true.
Proof.
  intros H Htr Hw. unfold held_obs_clean in *. rewrite forallb_app, Htr, andb_true_r.
  destruct c; simpl in H; try discriminate H.
  all: try (step_inv H; reflexivity).
  step_inv H; simpl; rewrite Hw by reflexivity; reflexivity.
Qed.

(** secrets *)
Definition has_good_obs (i : nat) (tr : list event) : bool := existsb (is_good_obs i) tr.

Lemma has_good_obs_app i evs tr : has_good_obs i tr = true -> has_good_obs i (evs ++ tr) = true.
Proof. unfold has_good_obs. intro H. rewrite existsb_app, H. apply orb_true_r. Qed.

Lemma step_secrets_ok i w s q c s' c' evs tr :
  step_thread i w s q c = Some (s', c', evs) ->
  secrets_ok tr = true ->
  (c = PX_secret -> (exists k, q = QSecret k) -> has_good_obs i tr = true) ->
  secrets_ok (evs ++ tr) = true.
Proof.
  intros H Htr Hs. destruct c; simpl in H; try discriminate H.
  all: try (step_inv H; simpl; try assumption; fail).
  (* PX_secret *)
  inversion H; subst; clear H.
  destruct q; simpl; try assumption.
  - destruct (is_secret _); simpl; [|exact Htr].
    rewrite Htr, andb_true_r. apply Hs; eauto.
  - destruct (is_secret _); simpl; exact Htr.
Qed.

(** where a step can lead to PX_seed / PX_secret, and with what observation *)
Lemma step_enters_secret i w s q c s' c' evs :
  step_thread i w s q c = Some (s', c', evs) ->
  (c' = PX_seed \/ c' = PX_secret) ->
  (c = PX_flag /\ locked s = false /\ evs = [EObs i true true w (now s)])
  \/ (c = PX_seed) \/ (c = PAcq /\ exists a, q = QApiPriv a).
Proof.
  intros H Hc. destruct c; simpl in H; try discriminate H.
  all: try (step_inv H; destruct Hc; discriminate).
  - (* PAcq *) step_inv H. destruct q; simpl in Hc; destruct Hc; try discriminate. right; right. split; [reflexivity|eexists; reflexivity].
  - (* PX_flag *) inversion H; subst; clear H.
    match goal with |- context [locked ?x] => destruct (locked x) eqn:L end;
      rewrite ?L in Hc; destruct Hc; try discriminate. left. auto.
  - auto.
Qed.

(** ** the global invariant *)
Record Inv (g : gstate) : Prop := mkInv {
  inv_mutex : mutex_inv g;
  inv_flag : flag_inv g;
  inv_held : split_race g = false -> obs_ok false (trace g) = true;
  inv_all : split_race g = false -> obs_in_win g = false -> obs_ok true (trace g) = true;
  inv_clean : held_obs_clean (trace g) = true;
  inv_secrets : secrets_ok (trace g) = true;
  inv_sec_thr : forall i k c, nth_error (thr g) i = Some (QSecret k, c) ->
                c = PX_seed \/ c = PX_secret -> has_good_obs i (trace g) = true;
}.

Lemma Inv_init : Inv init_g.
Proof.
  constructor; unfold mutex_inv, flag_inv; simpl; try reflexivity; try discriminate.
  - intros [|i] q c H; discriminate.
  - intros [|i] k c H; discriminate.
Qed.

Lemma win_thread_snoc ts x : win_thread ts -> win_thread (ts ++ [x]).
Proof.
  intros (i & q & c & Hi & Hw). exists i, q, c. split; [|exact Hw].
  rewrite nth_error_app1; [exact Hi|]. apply nth_error_Some. congruence.
Qed.

Lemma Inv_spawn g q : Inv g -> Inv (exec1 g (SSpawn q)).
Proof.
  intros [M F Hh Ha Hc Hs Ht]. constructor; simpl.
  - intros i q' c Hi Hho. apply nth_error_snoc in Hi as [Hi|[_ Hi]].
    + exact (M _ _ _ Hi Hho).
    + inversion Hi; subst. destruct q; discriminate.
  - intros Hsp Hl. destruct (F Hsp Hl) as [A|W]; [left; exact A|right; apply win_thread_snoc; exact W].
  - exact Hh.
  - exact Ha.
  - exact Hc.
  - exact Hs.
  - intros i k c Hi Hpc. apply nth_error_snoc in Hi as [Hi|[_ Hi]].
    + unfold has_good_obs in *. simpl. exact (Ht _ _ _ Hi Hpc).
    + inversion Hi; subst. destruct Hpc as [E|E]; simpl in E; discriminate.
Qed.

Lemma Inv_advance g d : Inv g -> Inv (exec1 g (SAdvance d)).
Proof.
  intros I. unfold exec1. destruct (d <? 0); [exact I|].
  destruct I as [M F Hh Ha Hc Hs Ht].
  destruct (timer (sh g)) as [dl|]; [destruct (now (sh g) + d <=? dl)|].
  2: constructor; assumption.
  all: constructor; simpl; assumption.
Qed.

Lemma Inv_fire g : Inv g -> Inv (exec1 g SFire).
Proof.
  intros I. unfold exec1. destruct (timer (sh g)) as [dl|]; [|exact I].
  destruct (dl <=? now (sh g)); [|exact I].
  destruct I as [M F Hh Ha Hc Hs Ht]. constructor; simpl; try assumption.
  all: try (intros i q c Hi Hho; exact (M _ _ _ Hi Hho)).
  all: try (intros _ Hl; discriminate).
Qed.

Lemma Inv_restart g : Inv g -> Inv (exec1 g SRestart).
Proof.
  intros I. unfold exec1. destruct (forallb is_done (thr g)) eqn:D; [|exact I].
  destruct I as [M F Hh Ha Hc Hs Ht]. constructor; simpl; try assumption.
  all: try (intros _ Hl; discriminate).
  intros i q c Hi Hho. rewrite forallb_forall in D.
  apply nth_error_In in Hi. apply D in Hi. unfold is_done in Hi. simpl in Hi.
  destruct c; simpl in *; discriminate.
Qed.

Lemma Inv_step g i : Inv g -> Inv (exec1 g (SStep i)).
Proof.
  intros I. unfold exec1.
  destruct (nth_error (thr g) i) as [[q c]|] eqn:Hi; [|exact I].
  destruct (step_thread i (any_window (thr g)) (sh g) q c) as [[[s' c'] evs]|] eqn:Hst; [|exact I].
  destruct I as [M F Hh Ha Hc Hs Ht].
  pose proof (step_mutex _ _ _ _ _ _ _ _ Hst) as SM.
  pose proof (step_class _ _ _ _ _ _ _ _ Hst) as SC.
  (* facts used several times *)
  assert (HeldNoWin : holds c = true -> in_window c = false -> any_window (thr g) = false).
  { intros. eapply holder_no_other_window; eauto. }
  assert (AuthX : c = PX_flag -> locked (sh g) = false -> split_race g = false -> auth_of (trace g) = true).
  { intros -> Hl Hsp. destruct (F Hsp Hl) as [A|W]; [exact A|].
    apply any_window_spec in W. rewrite HeldNoWin in W by reflexivity. discriminate. }
  constructor; simpl.
  - (* mutex *)
    intros j q' cj Hj Hho. simpl in Hj |- *. destruct (Nat.eq_dec i j) as [->|Hne].
    + rewrite (nth_error_upd_same _ _ _ _ Hi) in Hj. inversion Hj; subst.
      destruct SM as [[E Hh']|[(-> & _ & E)|(_ & _ & Hno)]].
      * rewrite E. apply (M _ _ _ Hi). auto.
      * exact E.
      * congruence.
    + rewrite nth_error_upd_other in Hj by exact Hne.
      pose proof (M _ _ _ Hj Hho) as Mj.
      destruct SM as [[E _]|[(-> & En & _)|(_ & Hhc & _)]].
      * rewrite E. exact Mj.
      * congruence.
      * pose proof (M _ _ _ Hi Hhc) as Mi. rewrite Mi in Mj. inversion Mj. contradiction.
  - (* flag *)
    intros Hsp Hl. simpl in Hsp, Hl |- *. apply orb_false_elim in Hsp as [Hsp Hgh].
    assert (Keep : win_thread (thr g) -> (in_window c = true -> in_window c' = true) ->
                   win_thread (upd i (q, c') (thr g))).
    { intros (j & qj & cj & Hj & Hw) Himp. destruct (Nat.eq_dec i j) as [->|Hne].
      - rewrite Hi in Hj. inversion Hj; subst. exists j, qj, c'. split; [|auto].
        eapply nth_error_upd_same; eauto.
      - exists j, qj, cj. split; [|exact Hw]. rewrite nth_error_upd_other; auto. }
    destruct SC as [A|[L|[(t & -> & -> & -> & L)|[(r & -> & -> & -> & L)|(L & A & Wk & _)]]]].
    + left. apply A.
    + congruence.
    + (* the CAS of SetPasswd: no split race, so t is the flag value before *)
      simpl in Hgh. apply negb_false_iff, eqb_prop in Hgh. destruct t.
      * right. exists i, q, (PS_verify true). split; [eapply nth_error_upd_same; eauto|reflexivity].
      * symmetry in Hgh. destruct (F Hsp Hgh) as [A|W]; [left; exact A|right].
        apply Keep; [exact W|discriminate].
    + destruct (F Hsp L) as [A|W]; [left; exact A|right]. apply Keep; [exact W|discriminate].
    + rewrite L in Hl. destruct (F Hsp Hl) as [A'|W]; [left; rewrite A; exact A'|right].
      apply Keep; assumption.
  - (* observations under the mutex *)
    intros Hsp. simpl in Hsp |- *. apply orb_false_elim in Hsp as [Hsp _].
    eapply step_obs_ok; eauto. discriminate.
  - (* all observations *)
    intros Hsp Hob. simpl in Hsp, Hob |- *.
    apply orb_false_elim in Hsp as [Hsp _]. apply orb_false_elim in Hob as [Hob Hgo].
    eapply step_obs_ok; eauto.
    intros _ -> Hl. simpl in Hgo.
    destruct (F Hsp Hl) as [A|W]; [exact A|]. apply any_window_spec in W. congruence.
  - (* held observations are outside every window *)
    eapply step_held_clean; eauto. intros ->. apply HeldNoWin; reflexivity.
  - (* secrets *)
    eapply step_secrets_ok; eauto. intros -> [k ->]. eapply Ht; eauto.
  - (* threads about to hand out a secret have seen the wallet unlocked *)
    intros j k cj Hj Hpc. simpl in Hj |- *. destruct (Nat.eq_dec i j) as [->|Hne].
    + rewrite (nth_error_upd_same _ _ _ _ Hi) in Hj. inversion Hj; subst.
      destruct (step_enters_secret _ _ _ _ _ _ _ _ Hst Hpc) as [(-> & Hl & ->)|[->|(-> & a & Hq)]].
      * rewrite HeldNoWin by reflexivity. unfold has_good_obs. simpl. rewrite Nat.eqb_refl. reflexivity.
      * apply has_good_obs_app. eapply Ht; eauto.
      * discriminate.
    + rewrite nth_error_upd_other in Hj by exact Hne. apply has_good_obs_app. eapply Ht; eauto.
Qed.

Lemma Inv_exec1 g it : Inv g -> Inv (exec1 g it).
Proof.
  destruct it; [apply Inv_spawn|apply Inv_step|apply Inv_advance|apply Inv_fire|apply Inv_restart].
Qed.

Lemma Inv_exec sched : forall g, Inv g -> Inv (exec sched g).
Proof.
  unfold exec. induction sched as [|it tl IH]; intros g I; simpl; [exact I|].
  apply IH, Inv_exec1, I.
Qed.

Lemma Inv_reachable sched : Inv (exec sched init_g).
Proof. apply Inv_exec, Inv_init. Qed.
