(** C38 — correspondence cases.  A case is a history on one real wallet.Wallet
    together with everything the implementation returned:

    - [IOp q r]      request q, alone, returned r;
    - [IPass d]      d ns of (real) time passed with no request in flight;
    - [IRestart]     the Wallet object was closed and re-created on the same DB;
    - [IGate ...]    request [victim] was started and held INSIDE its critical
                     section at its n-th DB operation of a given kind; while it
                     was held, the [inner] requests were made (lock-free ones
                     return; at most one mutex-taking request is started and
                     seen to wait); then the victim was let go;
    - [ISpin q r u l] request q ran while a second goroutine was reading
                     IsWalletLocked in a loop; u / l = some read that began and
                     ended during the call returned unlocked / locked.

    [check_case] replays the history on the model with the same schedule and
    compares every result; the property oracle ([Spec]) is evaluated on a
    trace rebuilt from the implementation's results alone. *)
From Coq Require Import List ZArith NArith Bool String.
From C33 Require Import Lib.Harness C38.Model C38.Spec.
Import ListNotations.
Open Scope Z_scope.

Inductive gkind := GSeed | GHash | GWrite.

Inductive item :=
| IOp (q : req) (r : result)
| IPass (d : Z)
| IRestart
| IGate (victim : req) (k : gkind) (n : nat) (reached : bool)
        (inner : list (req * result))
        (blocked : option (req * bool * result))   (* request, returned while the victim was held?, result *)
        (vr : result)
| ISpin (q : req) (r : result) (sawU sawL : bool).

Inductive case :=
| CHist (items : list item)
| CDict (tab : list (list N))    (* self-check: the harness's password table *)
| CLostLock (trials hits : N).
    (* the hammer (a test): ProcWalletSetPasswd with a wrong old password in a loop
       on an unlocked wallet, concurrently [trials] times: ProcWalletLock returned
       nil, then CheckWalletStatus (under the mutex, after the SetPasswd in flight);
       [hits] = how often it still said "unlocked" although nobody had unlocked
       (must be 0: C38_secret_implies_unlock_before holds for every schedule) *)

(** password table shared with the harness (cases say [p 3]) *)
Definition pwtab : list pw :=
  [ bs "alpha1234"; bs "bravo5678"; bs "charlie90x"; bs "delta4321z";
    bs "short1"; bs "nodigitshere"; bs "has space 12"; [] ].
Definition p (i : nat) : pw := nth i pwtab [].

Definition gkind_eqb (a b : gkind) : bool :=
  match a, b with GSeed, GSeed | GHash, GHash | GWrite, GWrite => true | _, _ => false end.

Definition result_eqb (a b : result) : bool :=
  match a, b with
  | ROk, ROk | RSecret, RSecret | RWrongSecret, RWrongSecret => true
  | RErr x, RErr y => N.eqb x y
  | RBool x, RBool y => Bool.eqb x y
  | RStatus a1 a2, RStatus b1 b2 => Bool.eqb a1 b1 && Bool.eqb a2 b2
  | _, _ => false
  end.

Definition ores_eqb (m : option result) (r : result) : bool :=
  match m with Some x => result_eqb x r | None => false end.

(** DB operations (of the three kinds the harness can hold) made by one model step *)
Definition db_ops (s : shared) (q : req) (c : pc) : list gkind :=
  let hash := if is_empty (mem_pw s) && has_seed s then [GHash] else [] in
  match c with
  | PS_seed | PS_hasseed | PU_seed | PX_seed | PL_seed | PO_seed _ => [GSeed]
  | PS_verify | PU_check => hash
  | PS_write =>
      match q with
      | QSetPasswd old _ =>
          if is_empty old then []
          else match disk_pw s with
               | Some d => if pw_eqb old d then [GSeed; GWrite] else [GSeed]
               | None => [GSeed]
               end
      | _ => []
      end
  | PX_secret =>
      match q with
      | QSecret (KSeed p0) => if is_empty p0 then [] else [GSeed]
      | _ => []
      end
  | _ => []
  end.

Definition count_kind (k : gkind) (l : list gkind) : nat :=
  List.length (filter (gkind_eqb k) l).

(** step thread i until it is about to make its n-th (n >= 1) DB operation of kind k *)
Fixpoint run_to_gate (fuel : nat) (k : gkind) (n : nat) (i : nat) (g : gstate) : gstate * bool :=
  match fuel with
  | O => (g, false)
  | S f =>
      match nth_error (thr g) i with
      | Some (_, PDone _) => (g, false)
      | Some (q, c) =>
          let m := count_kind k (db_ops (sh g) q c) in
          if Nat.leb n m then (g, true)
          else run_to_gate f k (n - m) i (exec1 g (SStep i))
      | None => (g, false)
      end
  end.

(** flag values visible while a request runs alone (before and after each of its steps) *)
Fixpoint flags_during (fuel : nat) (i : nat) (g : gstate) : gstate * list bool :=
  match fuel with
  | O => (g, [locked (sh g)])
  | S f =>
      match nth_error (thr g) i with
      | Some (_, PDone _) => (g, [locked (sh g)])
      | Some _ =>
          let '(g', l) := flags_during f i (exec1 g (SStep i)) in
          (g', locked (sh g) :: l)
      | None => (g, [locked (sh g)])
      end
  end.

(** ** the implementation-side trace (built from results only) *)

(** events of a completed request *)
Definition impl_events (t : Z) (q : req) (r : result) : list event :=
  match q, r with
  | QUnlock _ T false, ROk => [EUnlock 0 T t]
  | QLock, ROk => [ELock 0]
  | QIsLocked, RBool b => [EObs 0 (negb b) false t]
  | QStatus, RStatus b _ => [EObs 0 (negb b) false t]
  | QSecret _, RErr e =>
      if N.eqb e eLocked then [EObs 0 false true t] else [EObs 0 true true t]
  | QSecret _, _ => [EObs 0 true true t]
  | _, _ => []
  end.

Definition flag_test_first (q : req) : bool := match q with QSecret _ => true | _ => false end.

Fixpoint impl_trace (t : Z) (acc : list event) (its : list item) : list event :=
  match its with
  | [] => acc
  | IOp q r :: tl => impl_trace t (impl_events t q r ++ acc) tl
  | IPass d :: tl => impl_trace (t + d) acc tl
  | IRestart :: tl => impl_trace t (ERestart :: acc) tl
  | IGate v _ _ reached inner blocked vr :: tl =>
      let ev_v := impl_events t v vr in
      let ev_in := fold_left (fun a qr => impl_events t (fst qr) (snd qr) ++ a) inner [] in
      let ev_b := match blocked with
                  | Some (q, early, r) => impl_events t q r
                  | None => []
                  end in
      (* newest first.  Not held: the victim had returned before the inner requests.
         Held: a flag test precedes every hold point; an unlock's CAS follows them. *)
      let mid :=
        if reached && negb (flag_test_first v) then ev_v ++ ev_in
        else ev_in ++ ev_v in
      (* a waiting request that returned early ran inside the hold *)
      impl_trace t (ev_b ++ mid ++ acc) tl
  | ISpin q r sawU sawL :: tl =>
      let before := if sawU then [EObs 0 true false t] else [] in
      (* an unlocked read during the call is justified by an unlock that is this very call *)
      let evq := impl_events t q r in
      let obs_first := match q, r with QUnlock _ _ false, ROk => false | _, _ => true end in
      impl_trace t (if obs_first then evq ++ before ++ acc else before ++ evq ++ acc) tl
  end.

(** ** replay on the model *)
Definition call_cmp (g : gstate) (q : req) (r : result) : gstate * bool :=
  let '(g', m) := call q g in (g', ores_eqb m r).

Fixpoint run_inner (g : gstate) (inner : list (req * result)) : gstate * bool :=
  match inner with
  | [] => (g, true)
  | (q, r) :: tl =>
      let '(g1, a) := call_cmp g q r in
      let '(g2, b) := run_inner g1 tl in
      (g2, a && b)
  end.

Definition run_item (g : gstate) (it : item) : gstate * bool :=
  match it with
  | IOp q r => call_cmp g q r
  | IPass d => (pass d g, 0 <=? d)
  | IRestart => (exec1 g SRestart, forallb is_done (thr g))
  | IGate v k n reached inner blocked vr =>
      let vi := List.length (thr g) in
      let '(g1, reached_m) := run_to_gate 16 k n vi (exec1 g (SSpawn v)) in
      let '(g2, a_in) := run_inner g1 inner in
      match blocked with
      | None =>
          let g3 := run_thread 16 vi g2 in
          (g3, Bool.eqb reached reached_m && a_in && ores_eqb (result_of g3 vi) vr)
      | Some (q, early, r) =>
          let bi := List.length (thr g2) in
          let g3 := run_thread 16 bi (exec1 g2 (SSpawn q)) in
          let early_m := match result_of g3 bi with Some _ => true | None => false end in
          let g4 := run_thread 16 vi g3 in
          let g5 := run_thread 16 bi g4 in
          (g5, Bool.eqb reached reached_m && a_in && Bool.eqb early early_m
               && ores_eqb (result_of g4 vi) vr && ores_eqb (result_of g5 bi) r)
      end
  | ISpin q r sawU sawL =>
      let i := List.length (thr g) in
      let '(g', fl) := flags_during 16 i (exec1 g (SSpawn q)) in
      (g', ores_eqb (result_of g' i) r
           && (negb sawU || existsb negb fl) && (negb sawL || existsb (fun b => b) fl))
  end.

Fixpoint run_items (g : gstate) (its : list item) : bool :=
  match its with
  | [] => true
  | it :: tl => let '(g', a) := run_item g it in a && run_items g' tl
  end.

Definition check_case (c : case) : verdict :=
  match c with
  | CHist its =>
      let tr := impl_trace 0 [] its in
      mk_verdict (run_items init_g its) (obs_ok_timed tr && obs_ok true tr)
  | CDict tab => mk_verdict (list_eqb bytes_eqb tab pwtab) true
  | CLostLock _ hits =>
      (* a status "unlocked" under the mutex after a lock that returned nil, with no
         unlock since: no schedule of the model shows it, and the oracle forbids it *)
      if N.eqb hits 0 then ok_verdict else mk_verdict false false
  end.
