(** C38 — property theorems only.  [reach sched] is the state of the lock LTS
    (C38.Model) after an arbitrary schedule of atomic steps of arbitrarily
    many requests, timer expiries, passages of time and restarts; [trace] is
    its event history (newest first); [obs_ok] / [auth_of] (C38.Spec) say that
    every observation of "unlocked" is preceded by an unlock whose password was
    verified, with no lock / timer expiry / restart in between. *)
From Coq Require Import List ZArith NArith Bool.
From C33 Require Import C38.Model C38.Spec C38.Witness C38.Proofs C38.ProofsMain C38.ProofsTimed C38.ProofsTimed2.
Import ListNotations.
Open Scope Z_scope.

Theorem C38_mutex_exclusive : forall sched i j qi ci qj cj,
  nth_error (thr (reach sched)) i = Some (qi, ci) ->
  nth_error (thr (reach sched)) j = Some (qj, cj) ->
  holds ci = true -> holds cj = true -> i = j.
Proof. exact mutex_exclusive. Qed.
Print Assumptions C38_mutex_exclusive.

Theorem C38_no_secret_while_locked : forall sched i newer older,
  trace (reach sched) = newer ++ ESecret i :: older ->
  exists t, In (EObs i true true false t) older.
Proof. exact no_secret_while_locked. Qed.
Print Assumptions C38_no_secret_while_locked.

Theorem C38_window_invisible_under_mutex : forall sched i u w t,
  In (EObs i u true w t) (trace (reach sched)) -> w = false.
Proof. exact window_invisible_under_mutex. Qed.
Print Assumptions C38_window_invisible_under_mutex.

Theorem C38_observed_unlocked_implies_unlock_before_refuted : ~ observed_unlocked_full.
Proof. exact observed_unlocked_refuted. Qed.
Print Assumptions C38_observed_unlocked_implies_unlock_before_refuted.

Theorem C38_window_witness :
  let g := reach sched_window in
  result_of g 0 = Some ROk
  /\ result_of g 1 = Some (RErr eVerifyOld)
  /\ result_of g 2 = Some (RBool false)
  /\ locked (sh g) = true
  /\ existsb (fun e => match e with EUnlock _ _ _ => true | _ => false end) (trace g) = false
  /\ obs_ok true (trace g) = false.
Proof. exact window_witness. Qed.
Print Assumptions C38_window_witness.

Theorem C38_observed_unlocked_implies_unlock_before_partial : forall sched,
  no_split_race sched = true -> no_obs_in_window sched = true ->
  obs_ok true (trace (reach sched)) = true.
Proof. exact observed_unlocked_partial. Qed.
Print Assumptions C38_observed_unlocked_implies_unlock_before_partial.

Theorem C38_secret_implies_unlock_before_refuted : ~ secret_unlock_before_full.
Proof. exact secret_unlock_before_refuted. Qed.
Print Assumptions C38_secret_implies_unlock_before_refuted.

Theorem C38_lost_lock_witness :
  let g := reach sched_lost_lock in
  result_of g 1 = Some ROk
  /\ result_of g 2 = Some (RErr eVerifyOld)
  /\ result_of g 3 = Some ROk
  /\ result_of g 4 = Some RSecret
  /\ locked (sh g) = false
  /\ split_race g = true
  /\ obs_ok false (trace g) = false.
Proof. exact lost_lock_witness. Qed.
Print Assumptions C38_lost_lock_witness.

Theorem C38_secret_implies_unlock_before_partial : forall sched,
  no_split_race sched = true -> obs_ok false (trace (reach sched)) = true.
Proof. exact secret_unlock_before_partial. Qed.
Print Assumptions C38_secret_implies_unlock_before_partial.

Theorem C38_guards_satisfiable :
  let g := reach sched_guarded in
  no_split_race sched_guarded = true /\ no_obs_in_window sched_guarded = true
  /\ result_of g 2 = Some (RBool false)
  /\ result_of g 3 = Some (RErr eLocked)
  /\ result_of g 4 = Some (RErr eLocked)
  /\ result_of g 6 = Some (RBool true)
  /\ result_of g 7 = Some (RStatus true true).
Proof. exact guarded_example. Qed.
Print Assumptions C38_guards_satisfiable.

(** quiescent histories ([seq_run]: one request at a time, time passing in
    between, the timer function running as soon as it is due, restarts): the
    timed oracle [obs_ok_timed] holds, for every int64 timeout *)
Theorem C38_timeout_respected_seq : forall ops,
  obs_ok_timed (trace (seq_run ops init_g)) = true.
Proof. exact timeout_respected_seq. Qed.
Print Assumptions C38_timeout_respected_seq.

Theorem C38_unlocked_inside_timeout_seq : forall ops,
  let g := seq_run ops init_g in
  locked (sh g) = false -> auth_timed (trace g) (now (sh g)) = true.
Proof. exact unlocked_inside_timeout_seq. Qed.
Print Assumptions C38_unlocked_inside_timeout_seq.

Theorem C38_timed_example :
  let g := seq_run ops_example init_g in
  result_of g 2 = Some (RBool false) /\ result_of g 3 = Some (RBool true)
  /\ result_of g 4 = Some (RErr eLocked) /\ result_of g 6 = Some (RBool false).
Proof. exact timed_example. Qed.
Print Assumptions C38_timed_example.
