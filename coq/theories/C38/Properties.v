(** C38 — property theorems only.  [reach sched] is the state of the lock LTS
    (C38.Model) after an arbitrary schedule of atomic steps of arbitrarily
    many requests, timer expiries, passages of time and restarts; [trace] is
    its event history (newest first); [obs_ok] / [auth_of] (C38.Spec) say that
    every observation of "unlocked" is preceded by an unlock whose password was
    verified, with no lock / timer expiry / restart in between. *)
From Coq Require Import List ZArith NArith Bool.
From C33 Require Import C38.Model C38.Spec C38.Witness C38.Proofs C38.ProofsMain C38.ProofsTimed C38.ProofsTimed2 C38.ProofsTimed3.
Import ListNotations.
Open Scope Z_scope.

Theorem C38_mutex_exclusive : forall sched i j qi ci qj cj,
  nth_error (thr (reach sched)) i = Some (qi, ci) ->
  nth_error (thr (reach sched)) j = Some (qj, cj) ->
  holds ci = true -> holds cj = true -> i = j.
Proof. exact mutex_exclusive. Qed.
Print Assumptions C38_mutex_exclusive.

Theorem C38_no_secret_while_locked : forall sched i newer older,
  trace (reach sched) = newer ++ ESecret i :: older ->
  exists t, In (EObs i true true t) older.
Proof. exact no_secret_while_locked. Qed.
Print Assumptions C38_no_secret_while_locked.

(** no step of a ProcWalletSetPasswd request changes the lock flag, in any state
    reachable by any schedule (chain33 66be1e2 removed the temporary unlock) *)
Theorem C38_setpasswd_leaves_flag : forall sched i old nw c,
  nth_error (thr (reach sched)) i = Some (QSetPasswd old nw, c) ->
  locked (sh (exec1 (reach sched) (SStep i))) = locked (sh (reach sched)).
Proof. exact setpasswd_leaves_flag. Qed.
Print Assumptions C38_setpasswd_leaves_flag.

(** full strength, every schedule: every observer, lock-free (IsWalletLocked /
    GetWalletStatus) or under the mutex, sees "unlocked" only after a verified
    unlock with no lock / timer expiry / restart since *)
Theorem C38_observed_unlocked_implies_unlock_before : forall sched,
  obs_ok true (trace (reach sched)) = true.
Proof. exact observed_unlocked. Qed.
Print Assumptions C38_observed_unlocked_implies_unlock_before.

Theorem C38_secret_implies_unlock_before : forall sched,
  obs_ok false (trace (reach sched)) = true.
Proof. exact secret_unlock_before. Qed.
Print Assumptions C38_secret_implies_unlock_before.

Theorem C38_flag_clear_implies_unlock_before : forall sched,
  locked (sh (reach sched)) = false -> auth_of (trace (reach sched)) = true.
Proof. exact flag_clear_implies_unlock_before. Qed.
Print Assumptions C38_flag_clear_implies_unlock_before.

(** the schedule that refuted the first statement before the repair *)
Theorem C38_window_closed :
  let g := reach sched_window in
  result_of g 0 = Some ROk
  /\ result_of g 1 = Some (RErr eVerifyOld)
  /\ result_of g 2 = Some (RBool true)
  /\ locked (sh g) = true.
Proof. exact window_closed. Qed.
Print Assumptions C38_window_closed.

(** the schedule that refuted the second statement before the repair *)
Theorem C38_lock_survives_setpasswd :
  let g := reach sched_lock_race in
  result_of g 1 = Some ROk
  /\ result_of g 2 = Some (RErr eVerifyOld)
  /\ result_of g 3 = Some ROk
  /\ result_of g 4 = Some (RErr eLocked)
  /\ locked (sh g) = true.
Proof. exact lock_survives_setpasswd. Qed.
Print Assumptions C38_lock_survives_setpasswd.

Theorem C38_concurrent_example :
  let g := reach sched_concurrent in
  result_of g 2 = Some (RBool false)
  /\ result_of g 3 = Some ROk
  /\ result_of g 4 = Some (RErr eLocked)
  /\ result_of g 6 = Some (RBool true)
  /\ result_of g 7 = Some (RStatus true true)
  /\ result_of g 8 = Some (RErr eInputPw)
  /\ result_of g 9 = Some ROk
  /\ result_of g 10 = Some RSecret
  /\ existsb (fun e => match e with EObs _ true _ _ => true | _ => false end) (trace g) = true.
Proof. exact concurrent_example. Qed.
Print Assumptions C38_concurrent_example.

(** quiescent histories ([seq_run]: one request at a time, time passing in
    between, the timer function running as soon as it is due, restarts): the
    timed oracle [obs_ok_timed] holds, for every int64 timeout *)
Theorem C38_timeout_respected_seq : forall ops,
  obs_ok_timed (trace (seq_run ops init_g)) = true.
Proof. exact timeout_respected_seq. Qed.
Print Assumptions C38_timeout_respected_seq.

Theorem C38_unlocked_inside_timeout_seq : forall ops,
  let g := seq_run ops init_g in
  locked (sh g) = false -> auth_timed (trace g) (now (sh g)) = true.
Proof. exact unlocked_inside_timeout_seq. Qed.
Print Assumptions C38_unlocked_inside_timeout_seq.

Theorem C38_timed_example :
  let g := seq_run ops_example init_g in
  result_of g 2 = Some (RBool false) /\ result_of g 3 = Some (RBool true)
  /\ result_of g 4 = Some (RErr eLocked) /\ result_of g 6 = Some (RBool false).
Proof. exact timed_example. Qed.
Print Assumptions C38_timed_example.

(** quiescent histories: whenever a request hands out a stored key, the seed or
    a signature made with a stored key ([ESecret i]), its own flag test under the
    mutex ([EObs i true true t]) was made at a time t at which the most recent
    successful unlock - with no lock and no restart since - had no timeout
    (T <= 0) or was at most T seconds old.  (Time does not pass inside a request
    of a quiescent history, so t is also the time of the reply.) *)
Theorem C38_no_secret_after_timeout : forall ops i newer older,
  trace (seq_run ops init_g) = newer ++ ESecret i :: older ->
  exists t mid older',
    older = mid ++ EObs i true true t :: older' /\ auth_timed older' t = true.
Proof. exact no_secret_after_timeout. Qed.
Print Assumptions C38_no_secret_after_timeout.

(** the form the timed batteries of the harness test: after any quiescent
    history whose last successful unlock has expired (or was followed by a lock
    or a restart, or never happened), every request that needs the unlocked
    wallet - DumpPrivkey, GetSeed, SignRawTx by address, ImportPrivKey,
    SendToAddress, CheckWalletStatus, for every account - is refused with
    ErrWalletIsLocked, whatever was handed out for the same account before *)
Theorem C38_refused_after_timeout : forall ops k,
  let g := seq_run ops init_g in
  auth_timed (trace g) (now (sh g)) = false ->
  snd (call (QSecret k) g) = Some (RErr eLocked).
Proof. exact refused_after_timeout. Qed.
Print Assumptions C38_refused_after_timeout.

Theorem C38_secret_timed_example :
  let g := seq_run ops_secret_example init_g in
  result_of g 2 = Some RSecret /\ result_of g 3 = Some (RErr eLocked)
  /\ result_of g 5 = Some (RErr eLocked)
  /\ existsb (fun e => match e with ESecret _ => true | _ => false end) (trace g) = true
  /\ auth_timed (trace g) (now (sh g)) = false.
Proof. exact secret_example. Qed.
Print Assumptions C38_secret_timed_example.
