(** C38 — what the property demands, as executable oracles over event traces
    (newest event first).

    The wallet may be SEEN unlocked (by a lock-free status read, or by the
    flag test of a request that then hands out a secret) only if, since the
    last lock / timer expiry / restart, an unlock with a verified password has
    happened.  Nothing here refers to the flag, the mutex or SetPasswd. *)
From Coq Require Import List ZArith NArith Bool.
From C33 Require Import Lib.Harness C38.Model.
Import ListNotations.
Open Scope Z_scope.

(** "there has been a successful unlock and no lock / timeout / restart since" *)
Fixpoint auth_of (tr : list event) : bool :=
  match tr with
  | [] => false
  | EUnlock _ _ _ :: _ => true
  | ELock _ :: _ | EFire :: _ | ERestart :: _ => false
  | _ :: tl => auth_of tl
  end.

(** every observation of "unlocked" is justified.  [lockfree = false] looks
    only at the flag tests made under the wallet mutex (the requests that hand
    out secrets); [lockfree = true] also at IsWalletLocked / GetWalletStatus. *)
Fixpoint obs_ok (lockfree : bool) (tr : list event) : bool :=
  match tr with
  | [] => true
  | EObs _ true held _ :: tl =>
      (if held || lockfree then auth_of tl else true) && obs_ok lockfree tl
  | _ :: tl => obs_ok lockfree tl
  end.

(** a request hands out a secret only after it saw the wallet unlocked, under
    the mutex *)
Definition is_good_obs (i : nat) (e : event) : bool :=
  match e with
  | EObs j true true _ => Nat.eqb i j
  | _ => false
  end.

Fixpoint secrets_ok (tr : list event) : bool :=
  match tr with
  | [] => true
  | ESecret i :: tl => existsb (is_good_obs i) tl && secrets_ok tl
  | _ :: tl => secrets_ok tl
  end.

(** timed version for quiescent (one request at a time) histories: the most
    recent successful unlock, if it had a timeout, has not expired.  A timeout
    of 0 means "no timeout"; negative timeouts are not constrained (the code
    expires them at once, or, below -9223372036, after an int64 wrap-around).
    Timer expiry is not an event here: it is implied by the clock. *)
Fixpoint auth_timed (tr : list event) (t : Z) : bool :=
  match tr with
  | [] => false
  | EUnlock _ T tu :: _ => (T <=? 0) || (t <=? tu + second * T)
  | ELock _ :: _ | ERestart :: _ => false
  | _ :: tl => auth_timed tl t
  end.

Fixpoint obs_ok_timed (tr : list event) : bool :=
  match tr with
  | [] => true
  | EObs _ true _ t :: tl => auth_timed tl t && obs_ok_timed tl
  | _ :: tl => obs_ok_timed tl
  end.
