(** C38 — the timed statement for quiescent histories (one request at a time,
    time passing between requests, the timer function running as soon as it
    is due): every observation of "unlocked" falls inside the timeout of the
    most recent successful unlock.  This is the oracle [obs_ok_timed] that the
    correspondence check applies to the implementation's timed histories. *)
From Coq Require Import List ZArith NArith Bool Lia Arith.
From C33 Require Import Lib.Harness C38.Model C38.Spec C38.Proofs.
Import ListNotations.
Open Scope Z_scope.

Inductive seq_op :=
| OCall (q : req)
| OPass (d : Z)
| ORestart.

Definition seq_step (g : gstate) (o : seq_op) : gstate :=
  match o with
  | OCall q => fst (call q g)
  | OPass d => pass d g
  | ORestart => exec1 g SRestart
  end.

Definition seq_run (ops : list seq_op) (g : gstate) : gstate := fold_left seq_step ops g.

(** ** int64 duration arithmetic *)
Lemma timeout_ns_bound T : 0 <= T -> 0 <= timeout_ns T <= second * T.
Proof.
  intro H. unfold timeout_ns, wrap64, second.
  assert (0 <= (1000000000 * T + 2 ^ 63) mod 2 ^ 64 <= 1000000000 * T + 2 ^ 63).
  { split; [apply Z.mod_pos_bound; lia|apply Z.mod_le; lia]. }
  lia.
Qed.

Lemma timeout_ns_nonneg T : 0 <= timeout_ns T.
Proof. unfold timeout_ns. lia. Qed.

(** ** a request running alone *)
Fixpoint lrun (fuel : nat) (i : nat) (s : shared) (q : req) (c : pc) (evs : list event)
  : shared * pc * list event :=
  match fuel with
  | O => (s, c, evs)
  | S f =>
      match c with
      | PDone _ => (s, c, evs)
      | _ => match step_thread i s q c with
             | Some (s', c', e) => lrun f i s' q c' (e ++ evs)
             | None => (s, c, evs)
             end
      end
  end.

Lemma nth_error_last {A} (ts : list A) x : nth_error (ts ++ [x]) (length ts) = Some x.
Proof. rewrite nth_error_app2, Nat.sub_diag by lia. reflexivity. Qed.

Lemma upd_last {A} (ts : list A) x y : upd (length ts) y (ts ++ [x]) = ts ++ [y].
Proof. induction ts as [|z ts IH]; simpl; [reflexivity|]. rewrite IH. reflexivity. Qed.

Lemma run_thread_stuck fuel i g :
  (forall q c, nth_error (thr g) i = Some (q, c) ->
               step_thread i (sh g) q c = None) ->
  run_thread fuel i g = g.
Proof.
  intro H. induction fuel as [|f IH]; [reflexivity|]. cbn [run_thread].
  destruct (nth_error (thr g) i) as [[q c]|] eqn:E; [|reflexivity].
  assert (X : exec1 g (SStep i) = g).
  { unfold exec1. rewrite E, (H _ _ eq_refl). reflexivity. }
  destruct c; try reflexivity; rewrite X; exact IH.
Qed.

Lemma lrun_acc fuel : forall i s q c evs,
  lrun fuel i s q c evs =
  let '(s', c', e) := lrun fuel i s q c [] in (s', c', e ++ evs).
Proof.
  induction fuel as [|f IH]; intros i s q c evs; simpl; [reflexivity|].
  destruct c; try reflexivity.
  all: match goal with |- context [step_thread ?a ?b ?c ?d] => destruct (step_thread a b c d) as [[[s1 c1] e1]|] end;
    try reflexivity.
  all: rewrite (IH _ _ _ _ (e1 ++ evs)), (IH _ _ _ _ (e1 ++ []));
    destruct (lrun f i s1 q c1 []) as [[s2 c2] e2]; rewrite app_nil_r, app_assoc; reflexivity.
Qed.

Lemma run_thread_lrun fuel : forall ts s q c tr,
  let g := run_thread fuel (length ts) (mkG s (ts ++ [(q, c)]) tr) in
  let '(s', c', e) := lrun fuel (length ts) s q c [] in
  sh g = s' /\ thr g = ts ++ [(q, c')] /\ trace g = e ++ tr.
Proof.
  induction fuel as [|f IH]; intros ts s q c tr.
  - simpl. auto.
  - cbn [run_thread lrun thr]. rewrite nth_error_last.
    assert (Stuck : step_thread (length ts) s q c = None ->
                    run_thread f (length ts) (mkG s (ts ++ [(q, c)]) tr)
                    = mkG s (ts ++ [(q, c)]) tr).
    { intro N. apply run_thread_stuck. simpl. intros q' c' E.
      rewrite nth_error_last in E. inversion E; subst. exact N. }
    assert (StuckE : step_thread (length ts) s q c = None ->
                     exec1 (mkG s (ts ++ [(q, c)]) tr) (SStep (length ts))
                     = mkG s (ts ++ [(q, c)]) tr).
    { intro N. unfold exec1. simpl. rewrite nth_error_last. rewrite N. reflexivity. }
    assert (Go : forall s1 c1 e1, step_thread (length ts) s q c = Some (s1, c1, e1) ->
                 exec1 (mkG s (ts ++ [(q, c)]) tr) (SStep (length ts))
                 = mkG s1 (ts ++ [(q, c1)]) (e1 ++ tr)).
    { intros s1 c1 e1 E. unfold exec1. simpl. rewrite nth_error_last.
      rewrite E, upd_last. reflexivity. }
    destruct c; try (simpl; auto; fail).
    all: match goal with |- context [step_thread ?a ?b ?c ?d] =>
           destruct (step_thread a b c d) as [[[s1 c1] e1]|] eqn:E end.
    all: try (rewrite (StuckE eq_refl), (Stuck eq_refl); simpl; auto; fail).
    all: rewrite (Go _ _ _ eq_refl);
      rewrite (lrun_acc f _ _ _ _ (e1 ++ []));
      specialize (IH ts s1 q c1 (e1 ++ tr)); simpl in IH;
      destruct (lrun f (length ts) s1 q c1 []) as [[s2 c2] e2];
      destruct IH as (A & B & C); rewrite app_nil_r, <- app_assoc; auto.
Qed.

(** ** the quiescent invariant *)
Fixpoint last_unlock (tr : list event) : option (Z * Z) :=
  match tr with
  | [] => None
  | EUnlock _ T tu :: _ => Some (T, tu)
  | ELock _ :: _ | ERestart :: _ => None
  | _ :: tl => last_unlock tl
  end.

Lemma auth_timed_last tr t :
  auth_timed tr t =
  match last_unlock tr with
  | Some (T, tu) => (T <=? 0) || (t <=? tu + second * T)
  | None => false
  end.
Proof. induction tr as [|e tr IH]; simpl; [reflexivity|]. destruct e; auto. Qed.

Definition K1 (s : shared) : Prop := forall dl, timer s = Some dl -> now s <= dl.

Definition TQ (s : shared) (tr : list event) : Prop :=
  locked s = false ->
  exists T tu, last_unlock tr = Some (T, tu)
               /\ (T <= 0 \/ exists dl, timer s = Some dl /\ dl <= tu + second * T).

Lemma auth_now s tr : K1 s -> TQ s tr -> locked s = false -> auth_timed tr (now s) = true.
Proof.
  intros K T L. destruct (T L) as (T0 & tu & E & [Hn|(dl & Et & Hd)]); rewrite auth_timed_last, E.
  - apply orb_true_iff. left. apply Z.leb_le. exact Hn.
  - apply orb_true_iff. right. apply Z.leb_le. specialize (K _ Et). lia.
Qed.

(** ** the invariant of a request running alone *)
Definition pc_ok (q : req) (c : pc) : bool :=
  match c with
  | PU_seed | PU_check | PU_cas | PU_timer =>
      match q with QUnlock _ _ _ => true | _ => false end
  | PS_flag | PS_seed | PS_verify | PS_hasseed | PS_write =>
      match q with QSetPasswd _ _ => true | _ => false end
  | PV_do => match q with QSaveSeed _ => true | _ => false end
  | PAcq => match q with QLock | QIsLocked | QStatus => false | _ => true end
  | _ => true
  end.

Definition rank (c : pc) : nat :=
  match c with
  | PDone _ => 0 | PRel _ => 1
  | PAcq => 7
  | PU_seed => 5 | PU_check => 4 | PU_cas => 3 | PU_timer => 2
  | PL_seed => 2 | PL_cas => 1
  | PS_flag => 6 | PS_seed => 5 | PS_verify => 4 | PS_hasseed => 3 | PS_write => 2
  | PX_flag => 4 | PX_seed => 3 | PX_secret => 2
  | PO_read => 2 | PO_seed _ => 1
  | PV_do => 2
  end%nat.

Ltac step_inv H :=
  unfold step_thread, setpw_after_status in H;
  repeat match type of H with
         | context [match ?x with _ => _ end] => destruct x eqn:?; try discriminate H
         end;
  injection H as ? ? ?; subst.

Lemma step_rank i s q c s' c' evs :
  step_thread i s q c = Some (s', c', evs) -> (rank c' < rank c)%nat.
Proof.
  intro H. destruct c; simpl in H; try discriminate H.
  all: try (step_inv H; simpl; lia).
  (* PAcq *) step_inv H. destruct q; simpl; lia.
Qed.

Lemma step_progress i s q c :
  pc_ok q c = true -> (forall r, c <> PDone r) -> (c = PAcq -> mtx s = None) ->
  step_thread i s q c <> None.
Proof.
  intros P D A. destruct c; simpl in *; try discriminate.
  - rewrite A by reflexivity. discriminate.
  - exfalso. eapply D. reflexivity.
  - destruct q; try discriminate.
    destruct (is_empty (mem_pw s)); [destruct (disk_pw s); [destruct (pw_eqb _ _)|]|destruct (pw_eqb _ _)];
      discriminate.
  - destruct q; discriminate.
  - destruct q; discriminate.
  - destruct q; discriminate.
  - destruct q; discriminate.
  - destruct q; discriminate.
  - destruct q; try discriminate. destruct (is_empty old); [discriminate|].
    destruct (disk_pw s); [destruct (pw_eqb _ _)|]; discriminate.
  - destruct q; discriminate.
  - destruct q; try discriminate.
    destruct (has_seed s); [discriminate|]. destruct (is_empty p); [discriminate|].
    destruct (valid_pw p); discriminate.
Qed.

Lemma step_pc_ok i s q c s' c' evs :
  step_thread i s q c = Some (s', c', evs) -> pc_ok q c = true -> pc_ok q c' = true.
Proof.
  intros H P. destruct c; simpl in H; try discriminate H.
  all: try (step_inv H; simpl in *; try reflexivity; try assumption; fail).
  (* PAcq *) step_inv H. destruct q; reflexivity.
Qed.

(** what is known about the flag at each pc of a request that runs alone *)
Definition flag_clause (s : shared) (q : req) (c : pc) (tr : list event) : Prop :=
  match c with
  | PU_timer => locked s = false /\
                exists p0 T tk, q = QUnlock p0 T tk /\ last_unlock tr = Some (T, now s)
  | _ => TQ s tr
  end.

Record LI (n : nat) (tr0 : list event) (s : shared) (q : req) (c : pc) (evs : list event) : Prop := mkLI {
  li_pc : pc_ok q c = true;
  li_mtx : mtx s = if holds c then Some n else None;
  li_k1 : K1 s;
  li_obs : obs_ok_timed (evs ++ tr0) = true;
  li_flag : flag_clause s q c (evs ++ tr0);
}.
