(** C31 — what the property demands, stated without the parsing code:

    - an address string names a listed account when it is the listed string
      itself or, for hex (0x) addresses, when both are hex addresses with the
      same 40 digits up to letter case and up to the optional 0x / 0X prefix
      ([same_account]: the account key of a hex address is its lower-case
      form, the account key of a base58 address is the literal string);
    - a transaction touches the blacklist when its sender, recipient, real
      recipient, or (for the evm executor) its contract address or 20-byte raw
      transfer target is listed;
    - a submission (single, proxied single = outer + unwrapped inner
      transaction, group = all members) that touches the blacklist must not
      be executed successfully at any height from the activation height on,
      must not be packed by the producer from that height on, and must be
      refused by the pool and by the delayed-transaction entry points at
      every height. *)
From Coq Require Import List ZArith NArith Bool.
From C33 Require Import Lib.Harness C31.Model.
Import ListNotations.
Open Scope N_scope.

Definition lower (c : N) : N := if (65 <=? c) && (c <=? 90) then c + 32 else c.
Definition norm_eth (s : str) : str := map lower (strip0x s).

Definition same_account (a b : str) : bool :=
  if is_eth_address a && is_eth_address b then bytes_eqb (norm_eth a) (norm_eth b)
  else bytes_eqb a b.

Definition listed (L : list str) (s : str) : bool := existsb (same_account s) L.

Section Spec.
  Variable cks : bytes -> bytes.
  Variable L : list str.

  (* raw 20-byte form of a listed account *)
  Definition raw_listed (raw : bytes) : bool :=
    existsb (fun l => option_eqb bytes_eqb (parse_blocked cks l) (Some raw)) L.

  Definition tx_touches (t : txf) : bool :=
    listed L (t_from t) || listed L (t_to t) || listed L (t_realto t) ||
    (is_evm t &&
     match t_evm t with
     | Some (ca, para) => listed L ca || raw_listed para
     | None => false
     end).

  Variable e : env.

  Definition inner_of (b : bundle) : option txf :=
    match b with
    | BSingle t (Some i) => if is_proxy e t then Some i else None
    | _ => None
    end.

  Definition outer_touches (b : bundle) : bool := existsb tx_touches (members b).
  Definition inner_touches (b : bundle) : bool :=
    match inner_of b with Some i => tx_touches i | None => false end.
  Definition touches (b : bundle) : bool := outer_touches b || inner_touches b.

  Definition active : bool := (e_H e <=? e_h e)%Z.

  (** oracles over what the implementation returned *)

  (* receipt types of the members (2 = ExecOk) *)
  Fixpoint no_ok_where (ts : list txf) (whole : bool) (rs : list N) : bool :=
    match ts, rs with
    | t :: tl, r :: rl => (negb (whole || tx_touches t) || negb (r =? 2)) && no_ok_where tl whole rl
    | _, _ => true
    end.
  Definition spec_exec (b : bundle) (rs : list N) : bool :=
    if active && negb (e_h e =? 0)%Z then no_ok_where (members b) (inner_touches b) rs else true.

  Definition spec_prod (b : bundle) (kept : N) : bool :=
    if active && touches b then kept =? 0 else true.

  Definition spec_entry (b : bundle) (r : reply) : bool :=
    if touches b then negb (reply_eqb r ROk) else true.

  Definition spec_cached (b : bundle) (cached : bool) : bool :=
    if touches b then negb cached else true.

  (* exported predicates on one transaction *)
  Definition spec_pred_imm (t : txf) (r : bool) : bool := if tx_touches t then r else true.
  Definition spec_pred_gated (t : txf) (r : bool) : bool := if active && tx_touches t then r else true.
End Spec.
