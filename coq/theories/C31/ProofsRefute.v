(** C31 — full-strength statements, their refutations (witnesses reproduced on
    the Go code by the harness streams w-proxy-inner, w-proxy-outer) and
    non-vacuity examples. *)
From Coq Require Import List ZArith NArith Bool String.
From C33 Require Import Lib.Harness C31.Model C31.Spec C31.Proofs.
Import ListNotations.
Open Scope N_scope.

(** full strength: a submission that touches the blacklist anywhere (members,
    or the inner transaction of a proxied one) is rejected by every
    enforcement point (the consensus-level ones from the activation height) *)
Definition C31_blocked_position_rejected_full : Prop :=
  forall cks L set e b,
    parse_list cks L = Some set -> (e_h e <> 0)%Z -> touches cks L e b = true ->
    (active e = true -> exec_rejects cks set e b = true /\ prod_rejects cks set e b = true) /\
    pool_rejects cks set b = true /\ delay_rejects cks set b = true.

Definition C31_pool_rejects_at_every_height_full : Prop :=
  forall cks L set e b,
    parse_list cks L = Some set -> touches cks L e b = true -> pool_rejects cks set b = true.

Definition C31_executor_rejects_full : Prop :=
  forall cks L set e b,
    parse_list cks L = Some set -> (e_h e <> 0)%Z -> active e = true ->
    touches cks L e b = true -> exec_rejects cks set e b = true.

(** witnesses (hex addresses only, so the checksum function is irrelevant) *)
Definition nock : bytes -> bytes := fun _ => [].
Definition aX : str := bs "0x1111111111111111111111111111111111111111"%string.  (* blacklisted *)
Definition aXup : str := bs "0X1111111111111111111111111111111111111111"%string.
Definition aA : str := bs "0x2222222222222222222222222222222222222222"%string.  (* sender *)
Definition aC : str := bs "0x3333333333333333333333333333333333333333"%string.  (* clean recipient *)
Definition aP : str := bs "0x0000000000000000000000000000000000200005"%string.  (* proxy-exec address *)
Definition aN : str := bs "1Nq1qeMGFAWHXRRLZKLr8RDjHc4Ab9sG4T"%string.           (* an exec address *)
Definition env10 : env := mkEnv 10 0 aP 10.
Definition env9 : env := mkEnv 10 0 aP 9.
Definition wL : list str := [aXup].

Definition tx_to_X : txf := mkTx aA aX aX (bs "coins"%string) None false true.
Definition tx_clean : txf := mkTx aA aC aC (bs "coins"%string) None false true.
Definition tx_none : txf := mkTx aA aN aN (bs "none"%string) None false true.
(* proxied: outer to the proxy address with an eth-style signature, inner pays the blacklisted account *)
Definition outer_clean : txf := mkTx aA aP aP (bs "evm"%string) (Some (aP, [10; 3; 1; 2; 3])) true true.
Definition w_proxy_inner : bundle := BSingle outer_clean (Some (mkTx aA aX aX (bs "coins"%string) None true true)).
(* proxied: outer names the blacklisted account as contract address, inner is clean *)
Definition outer_X : txf := mkTx aA aP aP (bs "evm"%string) (Some (aX, [10; 3; 1; 2; 3])) true true.
Definition w_proxy_outer : bundle := BSingle outer_X (Some (mkTx aA aC aC (bs "coins"%string) None true true)).
(* group whose second member pays the blacklisted account *)
Definition w_group : bundle := BGroup [tx_none; tx_to_X].

Definition wset : list bytes := [hx "1111111111111111111111111111111111111111"].

Lemma wL_parses : parse_list nock wL = Some wset.
Proof. vm_compute. reflexivity. Qed.

Lemma pool_full_refuted : ~ C31_pool_rejects_at_every_height_full.
Proof.
  intro F. specialize (F nock wL wset env10 w_proxy_inner wL_parses).
  assert (T : touches nock wL env10 w_proxy_inner = true) by (vm_compute; reflexivity).
  specialize (F T). vm_compute in F. discriminate.
Qed.

Lemma executor_full_refuted : ~ C31_executor_rejects_full.
Proof.
  intro F. specialize (F nock wL wset env10 w_proxy_outer wL_parses).
  assert (H0 : (e_h env10 <> 0)%Z) by (vm_compute; discriminate).
  assert (A : active env10 = true) by (vm_compute; reflexivity).
  assert (T : touches nock wL env10 w_proxy_outer = true) by (vm_compute; reflexivity).
  specialize (F H0 A T). vm_compute in F. discriminate.
Qed.

Lemma position_full_refuted : ~ C31_blocked_position_rejected_full.
Proof.
  intro F. specialize (F nock wL wset env10 w_proxy_inner wL_parses).
  assert (H0 : (e_h env10 <> 0)%Z) by (vm_compute; discriminate).
  assert (T : touches nock wL env10 w_proxy_inner = true) by (vm_compute; reflexivity).
  destruct (F H0 T) as (_ & P & _). vm_compute in P. discriminate.
Qed.

(** the same proxied witness before the activation height: nothing at all stops
    it (pool, producer and executor accept) *)
Lemma proxy_inner_before_fork :
  touches nock wL env9 w_proxy_inner = true /\
  pool_rejects nock wset w_proxy_inner = false /\
  prod_rejects nock wset env9 w_proxy_inner = false /\
  exec_receipts nock wset env9 w_proxy_inner [2] = [2] /\
  delay_rejects nock wset w_proxy_inner = false.
Proof. vm_compute. repeat split; reflexivity. Qed.

(** non-vacuity: the hypotheses of the positive theorems are satisfiable *)
Example ex_spelling : same_account aX aXup = true /\ aX <> aXup.
Proof. split; [vm_compute; reflexivity|discriminate]. Qed.

Example ex_plain_single :
  parse_list nock wL = Some wset /\ plain env10 (BSingle tx_to_X None) = true /\
  touches nock wL env10 (BSingle tx_to_X None) = true /\ active env10 = true /\ (e_h env10 <> 0)%Z.
Proof. vm_compute. repeat split; try reflexivity. discriminate. Qed.

(* the group whose second member alone touches the list: every point looks at it,
   the delay entry points included (checkDelayTxBlocked expands the group) *)
Example ex_group_view :
  exec_view_touches nock wL env10 w_group = true /\ outer_touches nock wL w_group = true /\
  hit nock wset tx_none = false /\ delay_rejects nock wset w_group = true /\
  delay_reply nock wset w_group ROk = RBlocked.
Proof. vm_compute. repeat split; reflexivity. Qed.

Example ex_proxy_view :
  is_proxy env10 outer_clean = true /\ exec_view_touches nock wL env10 w_proxy_inner = true /\
  outer_touches nock wL w_proxy_inner = false.
Proof. vm_compute. repeat split; reflexivity. Qed.

Example ex_inactive : is_fork (e_H env9) (e_h env9) = false /\ hit nock wset tx_to_X = true.
Proof. vm_compute. split; reflexivity. Qed.

Example ex_evm_para :
  tx_touches nock wL (mkTx aA aN aN (bs "user.p.para.evm"%string)
                        (Some (aN, hx "1111111111111111111111111111111111111111")) false true) = true.
Proof. vm_compute. reflexivity. Qed.

(** the hypothesis [e_h e <> 0] of the executor clauses is needed: at height 0
    execTx runs single transactions without checkTx (genesis path) *)
Definition env0 : env := mkEnv 0 0 aP 0.
Lemma height0_needed :
  active env0 = true /\ plain env0 (BSingle tx_to_X None) = true /\
  touches nock wL env0 (BSingle tx_to_X None) = true /\
  exec_rejects nock wset env0 (BSingle tx_to_X None) = false.
Proof. vm_compute. repeat split; reflexivity. Qed.
