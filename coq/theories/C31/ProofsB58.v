(** C31 — what exactly a base58 spelling must look like to be accepted, and that
    a hex spelling always yields a 20-byte key. *)
From Coq Require Import List ZArith NArith Bool Lia.
From C33 Require Import Lib.Harness C31.Model C31.Spec C31.Proofs.
Import ListNotations.
Open Scope N_scope.

Lemma len_length (l : list N) (n : nat) : len l = N.of_nat n -> length l = n.
Proof. unfold len. intro E. apply Nat2N.inj in E. exact E. Qed.

(** accepted base58 strings: 25 decoded bytes = version byte (any), the key,
    the first four bytes of the double SHA-256 of version ++ key *)
Lemma base58_shape cks s raw :
  is_eth_address s = false -> parse_blocked cks s = Some raw ->
  exists v c, b58_decode s = v :: raw ++ c /\ len raw = 20 /\ c = cks (v :: raw).
Proof.
  intros NE P. unfold parse_blocked in P. rewrite NE in P. unfold btc_parse in P.
  destruct (len (b58_decode s) =? 25) eqn:L25; cbn [negb] in P; [|discriminate].
  apply N.eqb_eq in L25. apply (len_length _ 25%nat) in L25.
  destruct (b58_decode s) as [|d0 rest] eqn:D; [discriminate|].
  assert (L24 : length rest = 24%nat) by (simpl in L25; lia).
  change (firstn 21 (d0 :: rest)) with (d0 :: firstn 20 rest) in P.
  change (skipn 21 (d0 :: rest)) with (skipn 20 rest) in P.
  change (skipn 1 (d0 :: rest)) with rest in P.
  destruct (bytes_eqb (cks (d0 :: firstn 20 rest)) (skipn 20 rest)) eqn:CK; [|discriminate].
  assert (ER : raw = firstn 20 rest) by congruence. subst raw. clear P. apply bytes_eqb_eq in CK.
  exists d0, (skipn 20 rest). split; [|split].
  - rewrite firstn_skipn. reflexivity.
  - unfold len. rewrite firstn_length, L24. reflexivity.
  - symmetry. exact CK.
Qed.

(** the converse: any string with such a decoding is accepted (whatever the version byte) *)
Lemma base58_accepts cks s v raw :
  is_eth_address s = false -> len raw = 20 ->
  b58_decode s = v :: raw ++ cks (v :: raw) -> len (cks (v :: raw)) = 4 ->
  parse_blocked cks s = Some raw.
Proof.
  intros NE L20 D L4. unfold parse_blocked. rewrite NE. unfold btc_parse. rewrite D.
  apply (len_length _ 20%nat) in L20. apply (len_length _ 4%nat) in L4.
  assert (L25 : len (v :: raw ++ cks (v :: raw)) = 25).
  { unfold len. simpl. rewrite app_length, L20, L4. reflexivity. }
  rewrite L25. simpl negb. cbv iota.
  change (firstn 21 (v :: raw ++ cks (v :: raw))) with (v :: firstn 20 (raw ++ cks (v :: raw))).
  change (skipn 21 (v :: raw ++ cks (v :: raw))) with (skipn 20 (raw ++ cks (v :: raw))).
  change (skipn 1 (v :: raw ++ cks (v :: raw))) with (raw ++ cks (v :: raw)).
  assert (F : firstn 20 (raw ++ cks (v :: raw)) = raw).
  { rewrite <- L20. rewrite firstn_app, Nat.sub_diag, firstn_all. simpl. apply app_nil_r. }
  assert (S : skipn 20 (raw ++ cks (v :: raw)) = cks (v :: raw)).
  { rewrite <- L20. rewrite skipn_app, Nat.sub_diag, skipn_all. reflexivity. }
  rewrite F, S, bytes_eqb_refl. reflexivity.
Qed.

(** hex spellings always give a 20-byte key (the length panic of
    parseBlockedAccounts cannot fire for them) *)
Lemma hex_val_some c : is_hex_char c = true -> exists v, hex_val c = Some v.
Proof.
  unfold is_hex_char, hex_val. intro E.
  destruct (is_digit c); [eexists; reflexivity|].
  destruct (is_lhex c); [eexists; reflexivity|].
  destruct (is_uhex c); [eexists; reflexivity|discriminate].
Qed.

Lemma hex_decode_total : forall (n : nat) s,
  length s = (2 * n)%nat -> forallb is_hex_char s = true ->
  exists r, hex_decode s = Some r /\ length r = n.
Proof.
  induction n as [|n IH]; intros s L F.
  - destruct s; [|discriminate]. exists []. split; reflexivity.
  - destruct s as [|a [|b tl]]; try discriminate.
    { simpl in L. lia. }
    simpl in F. apply andb_true_iff in F as [Fa F]. apply andb_true_iff in F as [Fb F].
    destruct (hex_val_some a Fa) as [x Hx]. destruct (hex_val_some b Fb) as [y Hy].
    assert (L' : length tl = (2 * n)%nat) by (simpl in L; lia).
    destruct (IH tl L' F) as (r & Hr & Lr).
    exists (16 * x + y :: r). cbn [hex_decode]. rewrite Hx, Hy, Hr. split; [reflexivity|simpl; lia].
Qed.

Lemma hex_key_20 cks s :
  is_eth_address s = true -> exists raw, parse_blocked cks s = Some raw /\ len raw = 20.
Proof.
  intro E. unfold parse_blocked. rewrite E, (from_hex_eth s E).
  pose proof (eth_len s E) as L40. apply (len_length _ 40%nat) in L40.
  unfold is_eth_address in E. apply andb_true_iff in E as [_ F].
  destruct (hex_decode_total 20 (strip0x s) L40 F) as (r & Hr & Lr).
  exists r. split; [exact Hr|]. unfold len. rewrite Lr. reflexivity.
Qed.
