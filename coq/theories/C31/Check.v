(** C31 — correspondence cases.

    [CParse]: a blacklist configuration (types.SetBlockedAccountsForTest /
    [blacklist] accountBlacklist), whether loading it panicked, and the answers
    of IsBlockedAccount / IsBlockedAccountRaw on probe strings / raw keys.
    [CName]: types.GetRealExecName on one execer.
    [CScen]: one submission under one blacklist, fork configuration and height
    with what every enforcement point returned (see [obs]).

    [CHist]: a history of blacklist loads and submissions in one process
    (see [hstep]).

    [tab] is the table of double SHA-256 checksums (first four bytes) of the
    21-byte prefixes of all 25-byte base58 decodings occurring in the case,
    computed by the harness with crypto/sha256. *)
From Coq Require Import List ZArith NArith Bool.
From C33 Require Import Lib.Harness C31.Model C31.Spec.
Import ListNotations.
Open Scope N_scope.

Definition cktab := list (bytes * bytes).
Fixpoint cks_of (tab : cktab) (x : bytes) : bytes :=
  match tab with
  | [] => []
  | (k, v) :: tl => if bytes_eqb k x then v else cks_of tl x
  end.

Record obs := mkObs {
  o_tx : list bool;        (* CheckTxBlockedAccount(cfg, h, member) <> nil, per member *)
  o_imm : list bool;       (* CheckTxBlockedAccountImmediate(member) <> nil, per member *)
  o_txs : bool;            (* CheckTxsBlockedAccount(cfg, h, members) <> nil *)
  o_txsimm : bool;         (* CheckTxsBlockedAccountImmediate(members) <> nil *)
  o_nilcfg : bool;         (* CheckTxBlockedAccount(nil, h, head) <> nil *)
  o_ex : option (list N * list N);  (* EventExecTxList receipt types: empty blacklist, this blacklist *)
  o_prod : option (N * bool);       (* AddTxsToBlock [entry; clean filler]: members kept, filler kept *)
  o_pool : option (bool * reply * reply);
      (* the checks of checkTxs in front of the per-member checkTx pass (oracle fact);
         EventTx reply with an empty blacklist; with this blacklist *)
  o_delay : option reply;           (* EventAddDelayTx reply for the entry (for a group: its wrapper) *)
  o_dblock : option bool            (* delayed tx embedded in a block: cached by addDelayTx *)
}.

Definition bools_eqb := list_eqb Bool.eqb.
Definition ns_eqb := list_eqb N.eqb.

(** one observation at one enforcement point *)
Inductive point :=
| PtPred (tx imm : list bool) (txs txsimm nilcfg : bool)   (* the exported predicates, as in [obs] *)
| PtExec (base wth : list N)
| PtProd (kept : N) (filler : bool)
| PtPool (pre_ok : bool) (base wth : reply)
| PtDelay (base r : reply)       (* base: the reply of the delay cache itself (ROk, or not ROk when the hash is already cached) *)
| PtDblock (cached : bool).

Definition opt_list {A} (o : option A) (f : A -> point) : list point :=
  match o with None => [] | Some a => [f a] end.

Definition points_of (o : obs) : list point :=
  PtPred (o_tx o) (o_imm o) (o_txs o) (o_txsimm o) (o_nilcfg o) ::
  opt_list (o_ex o) (fun p => PtExec (fst p) (snd p)) ++
  opt_list (o_prod o) (fun p => PtProd (fst p) (snd p)) ++
  opt_list (o_pool o) (fun p => PtPool (fst (fst p)) (snd (fst p)) (snd p)) ++
  opt_list (o_delay o) (fun r => PtDelay ROk r) ++
  opt_list (o_dblock o) (fun c => PtDblock c).

(** enforcement point numbers: 1 exported predicates, 2 executor, 3 producer,
    4 pool, 5 delay entry, 6 delay via block *)
Definition pt_idx (p : point) : N :=
  match p with
  | PtPred _ _ _ _ _ => 1 | PtExec _ _ => 2 | PtProd _ _ => 3
  | PtPool _ _ _ => 4 | PtDelay _ _ => 5 | PtDblock _ => 6
  end.

Section Points.
  Variable cks : bytes -> bytes.
  Variable L : list str.
  Variable set : list bytes.
  Variable e : env.
  Variable b : bundle.

  (* the implementation's observation equals the model's *)
  Definition pt_model (p : point) : bool :=
    let ms := members b in
    let H := e_H e in let h := e_h e in
    match p with
    | PtPred tx imm txs txsimm nilcfg =>
        bools_eqb tx (map (chk_tx cks set H h) ms) &&
        bools_eqb imm (map (chk_imm cks set) ms) &&
        Bool.eqb txs (chk_txs cks set H h ms) &&
        Bool.eqb txsimm (chk_txs_imm cks set ms) &&
        negb nilcfg
    | PtExec base wth => ns_eqb wth (exec_receipts cks set e b base)
    | PtProd kept filler =>
        (kept =? (if prod_rejects cks set e b then 0 else len (map (fun _ => 0) ms))) && filler
    | PtPool pre_ok base wth =>
        if pre_ok then reply_eqb wth (pool_reply cks set b base)
        else reply_eqb wth base && negb (reply_eqb base ROk)
    | PtDelay base r => reply_eqb r (delay_reply cks set b base)
    | PtDblock c => Bool.eqb c (negb (delay_rejects cks set b))
    end.

  (* the implementation's observation satisfies the spec *)
  Definition pt_spec (p : point) : bool :=
    let ms := members b in
    match p with
    | PtPred tx imm txs txsimm _ =>
        forallb (fun q => spec_pred_gated cks L e (fst q) (snd q)) (combine ms tx) &&
        forallb (fun q => spec_pred_imm cks L (fst q) (snd q)) (combine ms imm) &&
        (if active e && existsb (tx_touches cks L) ms then txs else true) &&
        (if existsb (tx_touches cks L) ms then txsimm else true)
    | PtExec _ wth => spec_exec cks L e b wth
    | PtProd kept _ => spec_prod cks L e b kept
    | PtPool _ _ wth => spec_entry cks L e b wth
    | PtDelay _ r => spec_entry cks L e b r
    | PtDblock c => spec_cached cks L e b c
    end.

  (** first failing enforcement point of the spec (0 = none) *)
  Definition first_fail (ps : list point) : N :=
    match find (fun p => negb (pt_spec p)) ps with Some p => pt_idx p | None => 0 end.

  (* one submission observed at some enforcement points, in this order *)
  Definition check_points (ps : list point) : verdict :=
    let m := forallb pt_model ps in
    let ff := first_fail ps in
    let s := ff =? 0 in
    (* known findings: narrow signatures *)
    let ot := outer_touches cks L b in
    let it := inner_touches cks L e b in
    let code :=
      if s then 0
      else if (3 <=? ff) && negb ot && it then 1          (* proxied: inner touches, entry points look at the outer tx only *)
      else if (ff =? 2) && ot && negb it && (match inner_of e b with Some _ => true | None => false end) then 3
                                                          (* proxied: executor looks at the inner tx only *)
      else 0 in
    (m, s, code).
End Points.

Definition check_scen (tab : cktab) (L : list str) (e : env) (b : bundle) (o : obs) : verdict :=
  let cks := cks_of tab in
  match parse_list cks L with
  | None => (false, true, 0)
  | Some set => check_points cks L set e b (points_of o)
  end.

(** ** histories: many checks in one process

    [SLoad L]: the blacklist is (re)loaded.  [SAsk h ms inner ps]: the
    submission made of the transactions number [ms] of the case's table [txs]
    (one = single, with the unwrapped [inner] transaction if any; several =
    group) is observed at height [h] at the enforcement points [ps], in this
    order, in the process state left by everything before it.  The model's
    process state is the parsed set of the last load ([p_load]); the spec is
    applied to every step with the list of the last load.  The known-finding
    code is that of the first step whose spec fails. *)
Inductive hstep :=
| SLoad (L : list str)
| SAsk (h : Z) (ms : list N) (inner : option N) (ps : list point).

Fixpoint nths {A} (l : list A) (is : list N) : option (list A) :=
  match is with
  | [] => Some []
  | i :: tl =>
      match nth_error l (N.to_nat i), nths l tl with
      | Some a, Some r => Some (a :: r)
      | _, _ => None
      end
  end.

Definition bundle_of (txs : list txf) (ms : list N) (inner : option N) : option bundle :=
  match nths txs ms with
  | Some [t] =>
      match inner with
      | None => Some (BSingle t None)
      | Some i => match nth_error txs (N.to_nat i) with Some x => Some (BSingle t (Some x)) | None => None end
      end
  | Some (t :: u :: r) => Some (BGroup (t :: u :: r))
  | _ => None
  end.

Fixpoint check_hist (cks : bytes -> bytes) (H HP : Z) (proxy : str) (txs : list txf)
         (L : list str) (set : list bytes) (steps : list hstep) (acc : verdict) : verdict :=
  match steps with
  | [] => acc
  | SLoad L' :: tl =>
      match parse_list cks L' with
      | None => (false, snd (fst acc), snd acc)     (* the generators only load lists that parse *)
      | Some _ => check_hist cks H HP proxy txs L' (p_load cks set L') tl acc
      end
  | SAsk h ms inner ps :: tl =>
      match bundle_of txs ms inner with
      | None => (false, snd (fst acc), snd acc)
      | Some b =>
          let v := check_points cks L set (mkEnv H HP proxy h) b ps in
          let '(m, s, code) := acc in
          let '(m1, s1, code1) := v in
          check_hist cks H HP proxy txs L set tl
                     (m && m1, s && s1, if s then code1 else code)
      end
  end.

Inductive case :=
| CParse (tab : cktab) (L : list str) (panics : bool)
         (probes : list (str * bool)) (raws : list (bytes * bool))
| CName (e r : bytes)
| CScen (tab : cktab) (L : list str) (e : env) (b : bundle) (o : obs)
| CHist (tab : cktab) (H HP : Z) (proxy : str) (txs : list txf) (steps : list hstep).

Definition check_case (c : case) : verdict :=
  match c with
  | CParse tab L panics probes raws =>
      let cks := cks_of tab in
      match parse_list cks L with
      | None => mk_verdict panics true
      | Some set =>
          let m := negb panics &&
                   forallb (fun p => Bool.eqb (snd p) (is_blocked cks set (fst p))) probes &&
                   forallb (fun p => Bool.eqb (snd p) (is_blocked_raw set (fst p))) raws in
          let s := panics ||
                   (forallb (fun p => if listed L (fst p) then snd p else true) probes &&
                    forallb (fun p => if (len (fst p) =? 20) && raw_listed cks L (fst p) then snd p else true) raws) in
          mk_verdict m s
      end
  | CName e r => mk_verdict (bytes_eqb (real_exec_name e) r) true
  | CScen tab L e b o => check_scen tab L e b o
  | CHist tab H HP proxy txs steps =>
      check_hist (cks_of tab) H HP proxy txs [] [] steps ok_verdict
  end.
