(** C31 — correspondence cases.

    [CParse]: a blacklist configuration (types.SetBlockedAccountsForTest /
    [blacklist] accountBlacklist), whether loading it panicked, and the answers
    of IsBlockedAccount / IsBlockedAccountRaw on probe strings / raw keys.
    [CName]: types.GetRealExecName on one execer.
    [CScen]: one submission under one blacklist, fork configuration and height
    with what every enforcement point returned (see [obs]).

    [tab] is the table of double SHA-256 checksums (first four bytes) of the
    21-byte prefixes of all 25-byte base58 decodings occurring in the case,
    computed by the harness with crypto/sha256. *)
From Coq Require Import List ZArith NArith Bool.
From C33 Require Import Lib.Harness C31.Model C31.Spec.
Import ListNotations.
Open Scope N_scope.

Definition cktab := list (bytes * bytes).
Fixpoint cks_of (tab : cktab) (x : bytes) : bytes :=
  match tab with
  | [] => []
  | (k, v) :: tl => if bytes_eqb k x then v else cks_of tl x
  end.

Record obs := mkObs {
  o_tx : list bool;        (* CheckTxBlockedAccount(cfg, h, member) <> nil, per member *)
  o_imm : list bool;       (* CheckTxBlockedAccountImmediate(member) <> nil, per member *)
  o_txs : bool;            (* CheckTxsBlockedAccount(cfg, h, members) <> nil *)
  o_txsimm : bool;         (* CheckTxsBlockedAccountImmediate(members) <> nil *)
  o_nilcfg : bool;         (* CheckTxBlockedAccount(nil, h, head) <> nil *)
  o_ex : option (list N * list N);  (* EventExecTxList receipt types: empty blacklist, this blacklist *)
  o_prod : option (N * bool);       (* AddTxsToBlock [entry; clean filler]: members kept, filler kept *)
  o_pool : option (bool * reply * reply);
      (* the checks of checkTxs in front of the per-member checkTx pass (oracle fact);
         EventTx reply with an empty blacklist; with this blacklist *)
  o_delay : option reply;           (* EventAddDelayTx reply for the entry (head of a group) *)
  o_dblock : option bool            (* delayed tx embedded in a block: cached by addDelayTx *)
}.

Inductive case :=
| CParse (tab : cktab) (L : list str) (panics : bool)
         (probes : list (str * bool)) (raws : list (bytes * bool))
| CName (e r : bytes)
| CScen (tab : cktab) (L : list str) (e : env) (b : bundle) (o : obs).

Definition bools_eqb := list_eqb Bool.eqb.
Definition ns_eqb := list_eqb N.eqb.

Definition opt_check {A} (o : option A) (f : A -> bool) : bool :=
  match o with None => true | Some a => f a end.

(** first failing enforcement point of the spec: 0 none, 1 exported predicates,
    2 executor, 3 producer, 4 pool, 5 delay entry, 6 delay via block *)
Definition first_fail (l : list (N * bool)) : N :=
  match find (fun p => negb (snd p)) l with Some (k, _) => k | None => 0 end.

Definition check_scen (tab : cktab) (L : list str) (e : env) (b : bundle) (o : obs) : verdict :=
  let cks := cks_of tab in
  match parse_list cks L with
  | None => (false, true, 0)
  | Some set =>
      let ms := members b in
      let H := e_H e in let h := e_h e in
      (* model *)
      let m_pred :=
        bools_eqb (o_tx o) (map (chk_tx cks set H h) ms) &&
        bools_eqb (o_imm o) (map (chk_imm cks set) ms) &&
        Bool.eqb (o_txs o) (chk_txs cks set H h ms) &&
        Bool.eqb (o_txsimm o) (chk_txs_imm cks set ms) &&
        negb (o_nilcfg o) in
      let m_ex := opt_check (o_ex o) (fun p => ns_eqb (snd p) (exec_receipts cks set e b (fst p))) in
      let m_prod := opt_check (o_prod o) (fun p =>
          (fst p =? (if prod_rejects cks set e b then 0 else len (map (fun _ => 0) ms))) && snd p) in
      let m_pool := opt_check (o_pool o) (fun p =>
          match p with
          | (pre_ok, base, wth) =>
              if pre_ok then reply_eqb wth (pool_reply cks set b base)
              else reply_eqb wth base && negb (reply_eqb base ROk)
          end) in
      let m_delay := opt_check (o_delay o) (fun r => reply_eqb r (delay_reply cks set b ROk)) in
      let m_dblock := opt_check (o_dblock o) (fun c => Bool.eqb c (negb (delay_rejects cks set b))) in
      let m := m_pred && m_ex && m_prod && m_pool && m_delay && m_dblock in
      (* spec *)
      let s_pred :=
        forallb (fun p => spec_pred_gated cks L e (fst p) (snd p)) (combine ms (o_tx o)) &&
        forallb (fun p => spec_pred_imm cks L (fst p) (snd p)) (combine ms (o_imm o)) &&
        (if active e && existsb (tx_touches cks L) ms then o_txs o else true) &&
        (if existsb (tx_touches cks L) ms then o_txsimm o else true) in
      let s_ex := opt_check (o_ex o) (fun p => spec_exec cks L e b (snd p)) in
      let s_prod := opt_check (o_prod o) (fun p => spec_prod cks L e b (fst p)) in
      let s_pool := opt_check (o_pool o) (fun p => spec_entry cks L e b (snd p)) in
      let s_delay := opt_check (o_delay o) (fun r => spec_entry cks L e b r) in
      let s_dblock := opt_check (o_dblock o) (fun c => spec_cached cks L e b c) in
      let ff := first_fail [(1, s_pred); (2, s_ex); (3, s_prod); (4, s_pool); (5, s_delay); (6, s_dblock)] in
      let s := ff =? 0 in
      (* known findings: narrow signatures *)
      let ot := outer_touches cks L b in
      let it := inner_touches cks L e b in
      let head_t := match head b with Some t => tx_touches cks L t | None => false end in
      let is_group := match b with BGroup _ => true | _ => false end in
      let code :=
        if s then 0
        else if (3 <=? ff) && negb ot && it then 1          (* proxied: inner touches, entry points look at the outer tx only *)
        else if (5 <=? ff) && is_group && negb head_t && ot then 2   (* delayed group: only the head is looked at *)
        else if (ff =? 2) && ot && negb it && (match inner_of e b with Some _ => true | None => false end) then 3
                                                            (* proxied: executor looks at the inner tx only *)
        else 0 in
      (m, s, code)
  end.

Definition check_case (c : case) : verdict :=
  match c with
  | CParse tab L panics probes raws =>
      let cks := cks_of tab in
      match parse_list cks L with
      | None => mk_verdict panics true
      | Some set =>
          let m := negb panics &&
                   forallb (fun p => Bool.eqb (snd p) (is_blocked cks set (fst p))) probes &&
                   forallb (fun p => Bool.eqb (snd p) (is_blocked_raw set (fst p))) raws in
          let s := panics ||
                   (forallb (fun p => if listed L (fst p) then snd p else true) probes &&
                    forallb (fun p => if (len (fst p) =? 20) && raw_listed cks L (fst p) then snd p else true) raws) in
          mk_verdict m s
      end
  | CName e r => mk_verdict (bytes_eqb (real_exec_name e) r) true
  | CScen tab L e b o => check_scen tab L e b o
  end.
