(** C31 — the statements of Properties.v assembled from Proofs.v. *)
From Coq Require Import List ZArith NArith Bool.
From C33 Require Import Lib.Harness C31.Model C31.Spec C31.Proofs.
Import ListNotations.
Open Scope N_scope.

(** plain submissions (not proxied): every enforcement point rejects *)
Lemma position_plain :
  forall cks L set e b,
    parse_list cks L = Some set -> (e_h e <> 0)%Z -> plain e b = true ->
    touches cks L e b = true ->
    (active e = true ->
       exec_rejects cks set e b = true /\ prod_rejects cks set e b = true /\
       (forall base r, In r (exec_receipts cks set e b base) -> r = 0) /\
       (forall bs, ~ In b (prod_out cks set e bs))) /\
    pool_rejects cks set b = true /\
    (forall base, pool_reply cks set b base <> ROk) /\
    delay_rejects cks set b = true /\
    (forall base, delay_reply cks set b base = RBlocked).
Proof.
  intros cks L set e b HP H0 PL HT.
  destruct (plain_views cks L e b PL) as [E1 E2].
  rewrite E1 in HT.
  pose proof (delay_rejects_outer cks L set b HP HT) as RD.
  split; [|split; [|split; [|split]]].
  - intro A.
    assert (R : exec_rejects cks set e b = true).
    { apply (exec_rejects_view cks L set e b HP H0 A). rewrite E2. exact HT. }
    split; [exact R|]. split; [apply (prod_rejects_outer cks L set e b HP A HT)|].
    split.
    + intros base r. apply exec_receipts_err. exact R.
    + intro bs. apply (prod_out_excludes cks L set e b bs HP A HT).
  - apply (pool_rejects_outer cks L set b HP HT).
  - intro base. apply (pool_reply_never_ok cks L set b base HP HT).
  - exact RD.
  - intro base. unfold delay_reply. rewrite RD. reflexivity.
Qed.

(** every enforcement point rejects what it looks at (all submissions) *)
Lemma position_views :
  forall cks L set e b,
    parse_list cks L = Some set ->
    ((e_h e <> 0)%Z -> active e = true -> exec_view_touches cks L e b = true ->
       exec_rejects cks set e b = true /\
       forall base r, In r (exec_receipts cks set e b base) -> r = 0) /\
    (active e = true -> outer_touches cks L b = true ->
       prod_rejects cks set e b = true /\ forall bs, ~ In b (prod_out cks set e bs)) /\
    (outer_touches cks L b = true ->
       pool_rejects cks set b = true /\ forall base, pool_reply cks set b base <> ROk) /\
    (outer_touches cks L b = true ->
       delay_rejects cks set b = true /\ forall base, delay_reply cks set b base = RBlocked).
Proof.
  intros cks L set e b HP. split; [|split; [|split]].
  - intros H0 A HT.
    assert (R : exec_rejects cks set e b = true) by (apply (exec_rejects_view cks L set e b HP H0 A HT)).
    split; [exact R|]. intros base r. apply exec_receipts_err. exact R.
  - intros A HT. split; [apply (prod_rejects_outer cks L set e b HP A HT)|].
    intro bs. apply (prod_out_excludes cks L set e b bs HP A HT).
  - intro HT. split; [apply (pool_rejects_outer cks L set b HP HT)|].
    intro base. apply (pool_reply_never_ok cks L set b base HP HT).
  - intro HT. pose proof (delay_rejects_outer cks L set b HP HT) as R.
    split; [exact R|]. intro base. unfold delay_reply. rewrite R. reflexivity.
Qed.

(** the pool and the delay entry do not read the fork configuration or the height *)
Lemma pool_every_height :
  forall cks L set (e : env) b,
    parse_list cks L = Some set -> outer_touches cks L b = true ->
    pool_rejects cks set b = true /\ (forall base, pool_reply cks set b base <> ROk) /\
    delay_rejects cks set b = true.
Proof.
  intros cks L set e b HP HT. split; [apply (pool_rejects_outer cks L set b HP HT)|].
  split; [intro base; apply (pool_reply_never_ok cks L set b base HP HT)|].
  apply (delay_rejects_outer cks L set b HP HT).
Qed.

(** the delay entry points apply the pool's per-member blacklist check to the
    same transactions as the pool: the submission itself and every member of its group *)
Lemma delay_entry_all_members :
  forall cks set b, delay_rejects cks set b = chk_txs_imm cks set (members b).
Proof. exact delay_rejects_members. Qed.

(** proxied: the executor checks the unwrapped transaction *)
Lemma proxy_inner_exec :
  forall cks L set e t i,
    parse_list cks L = Some set -> (e_h e <> 0)%Z -> active e = true ->
    is_proxy e t = true -> tx_touches cks L i = true ->
    exec_rejects cks set e (BSingle t (Some i)) = true /\
    forall base r, In r (exec_receipts cks set e (BSingle t (Some i)) base) -> r = 0.
Proof.
  intros cks L set e t i HP H0 A PX HT.
  assert (R : exec_rejects cks set e (BSingle t (Some i)) = true).
  { apply (exec_rejects_view cks L set e _ HP H0 A). simpl. rewrite PX. exact HT. }
  split; [exact R|]. intros base r. apply exec_receipts_err. exact R.
Qed.

(** before the activation height the consensus-level points are unchanged *)
Lemma inactive_no_effect :
  forall cks set e,
    is_fork (e_H e) (e_h e) = false ->
    (forall b base, exec_receipts cks set e b base = base) /\
    (forall bs, prod_out cks set e bs = bs).
Proof.
  intros cks set e F. split.
  - intros b base. apply inactive_exec. exact F.
  - intro bs. apply inactive_prod. exact F.
Qed.

(** an empty blacklist changes nothing anywhere *)
Lemma empty_no_effect :
  forall cks e b base,
    exec_receipts cks [] e b base = base /\ prod_rejects cks [] e b = false /\
    delay_rejects cks [] b = false.
Proof.
  intros cks e b base.
  assert (C : forall H h ts, chk_txs cks [] H h ts = false).
  { intros H h ts. unfold chk_txs. induction ts as [|t tl IH]; [reflexivity|].
    simpl. unfold chk_tx at 1. rewrite empty_set_never_hits, andb_false_r. exact IH. }
  assert (C1 : forall H h t, chk_tx cks [] H h t = false).
  { intros H h t. unfold chk_tx. rewrite empty_set_never_hits. apply andb_false_r. }
  split; [|split].
  - unfold exec_receipts, exec_rejects. destruct b as [t inner|ts].
    + destruct (e_h e =? 0)%Z; [reflexivity|]. destruct (is_proxy e t).
      * destruct inner; [rewrite C1|]; reflexivity.
      * rewrite C1. reflexivity.
    + rewrite C. reflexivity.
  - destruct b as [t inner|ts]; simpl; [apply C1|apply C].
  - rewrite delay_rejects_members. unfold chk_txs_imm.
    induction (members b) as [|t tl IH]; [reflexivity|].
    cbn [existsb]. change (chk_imm cks [] t) with false. exact IH.
Qed.

(** rejections are not arbitrary *)
Lemma rejection_sound :
  forall cks set s,
    is_blocked cks set s = true -> exists raw, parse_blocked cks s = Some raw /\ In raw set.
Proof. exact is_blocked_sound. Qed.
