(** C31 — histories of checks in one process: every answer is the pure
    function of the transaction facts, the set left by the loads before it,
    the fork configuration and the height; the checks asked before it do not
    matter. *)
From Coq Require Import List ZArith NArith Bool String.
From C33 Require Import Lib.Harness C31.Model C31.Spec C31.Proofs C31.ProofsMain C31.ProofsRefute.
Import ListNotations.
Open Scope N_scope.

Lemma p_run_length : forall cks ops st, List.length (p_run cks st ops) = List.length ops.
Proof.
  intros cks ops. induction ops as [|o tl IH]; intro st; [reflexivity|].
  simpl. rewrite IH. reflexivity.
Qed.

Lemma last_cons_nonempty : forall {A} (x : A) l d, l <> [] -> last (x :: l) d = last l d.
Proof. intros A x l d N. destruct l; [contradiction|reflexivity]. Qed.

Lemma p_run_snoc_nonempty : forall cks st pre o, p_run cks st (pre ++ [o]) <> [].
Proof.
  intros cks st pre o E.
  pose proof (p_run_length cks (pre ++ [o]) st) as HL. rewrite E, app_length in HL.
  simpl in HL. rewrite Nat.add_comm in HL. discriminate HL.
Qed.

Lemma set_after_cons : forall cks st L Ls,
  set_after cks st (L :: Ls) = set_after cks (p_load cks st L) Ls.
Proof. reflexivity. Qed.

(** the last answer of a history that ends with a question *)
Lemma history_independent :
  forall cks pre st e b,
    last (p_run cks st (pre ++ [OAsk e b])) None =
    Some (answer cks (set_after cks st (loads_of pre)) e b).
Proof.
  intros cks pre. induction pre as [|o tl IH]; intros st e b.
  - reflexivity.
  - change ((o :: tl) ++ [OAsk e b]) with (o :: (tl ++ [OAsk e b])).
    cbn [p_run]. rewrite last_cons_nonempty by apply p_run_snoc_nonempty.
    rewrite IH. destruct o as [L|e' b']; reflexivity.
Qed.

(** every answer of a history, not only the last one *)
Lemma history_independent_nth :
  forall cks ops st n e b,
    nth_error ops n = Some (OAsk e b) ->
    nth_error (p_run cks st ops) n =
    Some (Some (answer cks (set_after cks st (loads_of (firstn n ops))) e b)).
Proof.
  intros cks ops. induction ops as [|o tl IH]; intros st n e b HN.
  - destruct n; discriminate HN.
  - destruct n as [|n].
    + simpl in HN. injection HN as ->. reflexivity.
    + simpl in HN. cbn [p_run nth_error firstn]. rewrite (IH _ _ _ _ HN).
      destruct o as [L|e' b']; reflexivity.
Qed.

(** two histories with the same loads give the same answer to the same question *)
Lemma history_same_loads :
  forall cks pre1 pre2 st e b,
    loads_of pre1 = loads_of pre2 ->
    last (p_run cks st (pre1 ++ [OAsk e b])) None = last (p_run cks st (pre2 ++ [OAsk e b])) None.
Proof. intros cks pre1 pre2 st e b E. rewrite !history_independent, E. reflexivity. Qed.

Lemma loads_of_app : forall a b, loads_of (a ++ b) = loads_of a ++ loads_of b.
Proof.
  intros a b. induction a as [|o tl IH]; [reflexivity|].
  destruct o; simpl; rewrite IH; reflexivity.
Qed.

Lemma set_after_last_load : forall cks st Ls L set,
  parse_list cks L = Some set -> set_after cks st (Ls ++ [L]) = set.
Proof.
  intros cks st Ls L set HP. unfold set_after. rewrite fold_left_app. simpl.
  unfold p_load at 1. rewrite HP. reflexivity.
Qed.

(** a submission that touches the most recently loaded list is rejected at
    every enforcement point whatever was loaded or asked before it *)
Lemma history_blocked :
  forall cks st pre L set asks e b,
    parse_list cks L = Some set -> loads_of asks = [] ->
    (e_h e <> 0)%Z -> plain e b = true -> touches cks L e b = true ->
    exists a, last (p_run cks st (pre ++ OLoad L :: asks ++ [OAsk e b])) None = Some a /\
      (active e = true ->
         a_prod a = true /\ (forall base r, In r (a_exec a base) -> r = 0) /\
         a_txs a = true) /\
      a_txsimm a = true /\
      (forall base, a_pool a base <> ROk) /\
      (forall base, a_delay a base = RBlocked).
Proof.
  intros cks st pre L set asks e b HP HA H0 PL HT.
  replace (pre ++ OLoad L :: asks ++ [OAsk e b]) with ((pre ++ OLoad L :: asks) ++ [OAsk e b])
    by (rewrite <- app_assoc; reflexivity).
  rewrite history_independent.
  rewrite loads_of_app. cbn [loads_of]. rewrite HA.
  rewrite (set_after_last_load cks st (loads_of pre) L set HP).
  eexists. split; [reflexivity|].
  destruct (position_plain cks L set e b HP H0 PL HT) as [PA [PP [PR [_ PD]]]].
  destruct (plain_views cks L e b PL) as [E1 _].
  assert (OT : outer_touches cks L b = true) by (rewrite <- E1; exact HT).
  cbn [a_prod a_exec a_txs a_txsimm a_pool a_delay answer].
  split; [|split; [|split]].
  - intro A. destruct (PA A) as [_ [P2 [P3 _]]]. split; [exact P2|]. split; [exact P3|].
    apply chk_txs_of_hit; [apply active_fork; exact A|].
    apply (exists_touch_hit cks L set _ HP OT).
  - pose proof (exists_touch_hit cks L set _ HP OT) as HH. exact HH.
  - exact PR.
  - exact PD.
Qed.

(** non-vacuity: the same body signed by a clean account, then by the listed account *)
Definition tx_from_X : txf := mkTx aX aC aC (bs "coins"%string) None false true.
Definition w_hist : list pop :=
  [OLoad []; OAsk env10 (BSingle tx_from_X None); OLoad wL; OAsk env10 (BSingle tx_clean None)].

Lemma history_witness :
  parse_list nock wL = Some wset /\ loads_of [OAsk env10 (BSingle tx_clean None)] = [] /\
  (e_h env10 <> 0)%Z /\ plain env10 (BSingle tx_from_X None) = true /\
  touches nock wL env10 (BSingle tx_from_X None) = true /\
  map (option_map a_imm) (p_run nock [] (w_hist ++ [OAsk env10 (BSingle tx_from_X None)])) =
    [None; Some [false]; None; Some [false]; Some [true]] /\
  map (option_map (fun a => a_pool a ROk)) (p_run nock [] (w_hist ++ [OAsk env10 (BSingle tx_from_X None)])) =
    [None; Some ROk; None; Some ROk; Some RBlocked].
Proof.
  split; [exact wL_parses|]. split; [reflexivity|]. split; [discriminate|].
  split; [reflexivity|]. split; [vm_compute; reflexivity|]. split; vm_compute; reflexivity.
Qed.
