(** C31 — model of the account blacklist and of its enforcement points.

    Go code modelled (as it is):
    - types/account_blacklist.go: parseBlockedAccount (go-ethereum
      common.IsHexAddress + chain33 common.FromHex for hex spellings, otherwise
      address.NewBtcAddress on the decred base58 decoding), parseBlockedAccounts
      (None = the configuration panics), IsBlockedAccountRaw, IsBlockedAccount,
      checkTxBlockedAccountCore / checkEVMTxBlockedTarget (sender, recipient,
      real recipient when it differs, EVM contract address, 20-byte EVM Para),
      the fork gate of CheckTxBlockedAccount (Forks.IsFork: height -1 or
      height >= fork height), the Immediate variants, the group variants;
    - types/types.go GetParaExecName / GetRealExecName (byte level);
    - executor/execenv.go execTx (genesis exemption, proxy-exec unwrapping
      followed by checkTx on the inner transaction only), execTxGroup /
      checkTxGroup (all members);
    - system/consensus/base.go AddTxsToBlock (single: the transaction; group:
      every member; a rejected entry is skipped, the loop continues);
    - system/mempool/check.go checkTxs / checkTx (every member: address check,
      then the ungated blacklist check);
    - system/mempool/eventprocess.go eventAddDelayTx / addDelayTx ->
      checkDelayTxBlocked (ungated check of the delayed transaction itself and,
      when it is a group head, of every member of the decoded group).

    Abstracted (facts supplied with every case, the theorems quantify over
    them): the sender string (Transaction.From: public key -> address), the
    real recipient (ExecutorType.GetRealToAddr), the protobuf decoding of the
    payload as EVMContractAction4Chain33 and of its Para as a Transaction, the
    result of address.CheckAddress on the recipient, the double SHA-256
    checksum ([cks], a function argument), and whatever else decides a
    receipt / pool reply when the blacklist is empty (the "baseline"
    observables of the same call with an empty blacklist). *)
From Coq Require Import List ZArith NArith Bool String.
From C33 Require Import Lib.Harness.
Import ListNotations.
Open Scope N_scope.

Definition str := list N.     (* the bytes of a Go string *)
Definition bytes := list N.

Definition len (s : list N) : N := N.of_nat (List.length s).
Definition is_nil {A} (l : list A) : bool := match l with [] => true | _ => false end.

(** ** hex spellings *)
Definition is_digit (c : N) : bool := (48 <=? c) && (c <=? 57).
Definition is_lhex (c : N) : bool := (97 <=? c) && (c <=? 102).
Definition is_uhex (c : N) : bool := (65 <=? c) && (c <=? 70).
Definition is_hex_char (c : N) : bool := is_digit c || is_lhex c || is_uhex c.

Definition hex_val (c : N) : option N :=
  if is_digit c then Some (c - 48)
  else if is_lhex c then Some (c - 87)
  else if is_uhex c then Some (c - 55)
  else None.

(* has0xPrefix (go-ethereum) and the s[0:2] test of common.FromHex *)
Definition has0x (s : str) : bool :=
  match s with
  | a :: c :: _ => (a =? 48) && ((c =? 120) || (c =? 88))
  | _ => false
  end.

Definition strip0x (s : str) : str := if has0x s then skipn 2 s else s.

(* go-ethereum common.IsHexAddress = address.IsEthAddress *)
Definition is_eth_address (s : str) : bool :=
  let t := strip0x s in (len t =? 40) && forallb is_hex_char t.

(* encoding/hex DecodeString: None = error (odd length or bad character) *)
Fixpoint hex_decode (s : str) : option bytes :=
  match s with
  | [] => Some []
  | [_] => None
  | a :: b :: tl =>
      match hex_val a, hex_val b, hex_decode tl with
      | Some x, Some y, Some r => Some (16 * x + y :: r)
      | _, _, _ => None
      end
  end.

(* chain33 common.FromHex *)
Definition from_hex (s : str) : option bytes :=
  match s with
  | _ :: _ :: _ =>
      let s1 := strip0x s in
      let s2 := if N.odd (len s1) then 48 :: s1 else s1 in
      hex_decode s2
  | _ => Some []
  end.

(** ** base58 spellings (decred/base58 Decode) *)
Definition b58_alphabet : str :=
  bs "123456789ABCDEFGHJKLMNPQRSTUVWXYZabcdefghijkmnopqrstuvwxyz"%string.

Fixpoint index_of (c : N) (l : list N) (i : N) : option N :=
  match l with
  | [] => None
  | x :: tl => if c =? x then Some i else index_of c tl (i + 1)
  end.

Definition b58_val (c : N) : option N := index_of c b58_alphabet 0.

Fixpoint b58_num (s : str) (acc : N) : option N :=
  match s with
  | [] => Some acc
  | c :: tl =>
      match b58_val c with
      | None => None
      | Some d => b58_num tl (acc * 58 + d)
      end
  end.

Fixpoint be_bytes_fuel (fuel : nat) (n : N) (acc : bytes) : bytes :=
  match fuel with
  | O => acc
  | S f => if n =? 0 then acc else be_bytes_fuel f (n / 256) (n mod 256 :: acc)
  end.
Definition be_bytes (n : N) : bytes := be_bytes_fuel (S (N.to_nat (N.size n))) n [].

Fixpoint count_lead1 (s : str) : nat :=
  match s with
  | c :: tl => if c =? 49 then S (count_lead1 tl) else O
  | [] => O
  end.

(* invalid character: the empty slice *)
Definition b58_decode (s : str) : bytes :=
  match b58_num s 0 with
  | None => []
  | Some n => repeat 0 (count_lead1 s) ++ be_bytes n
  end.

Section WithChecksum.
  (** [cks x] = the first four bytes of SHA256(SHA256(x)) (common.Sha2Sum). *)
  Variable cks : bytes -> bytes.

  (* address.NewBtcAddress: 25 bytes, checksum over the first 21; the version
     byte is not looked at *)
  Definition btc_parse (s : str) : option bytes :=
    let dec := b58_decode s in
    if negb (len dec =? 25) then None
    else if bytes_eqb (cks (firstn 21 dec)) (skipn 21 dec)
         then Some (firstn 20 (skipn 1 dec)) else None.

  (* parseBlockedAccount *)
  Definition parse_blocked (s : str) : option bytes :=
    if is_eth_address s then from_hex s else btc_parse s.

  (* parseBlockedAccounts: None = panic *)
  Fixpoint parse_list (L : list str) : option (list bytes) :=
    match L with
    | [] => Some []
    | a :: tl =>
        match parse_blocked a with
        | None => None
        | Some raw =>
            if len raw =? 20 then
              match parse_list tl with
              | Some r => Some (raw :: r)
              | None => None
              end
            else None
        end
    end.

  Definition mem_raw (set : list bytes) (raw : bytes) : bool := existsb (bytes_eqb raw) set.

  (* IsBlockedAccountRaw *)
  Definition is_blocked_raw (set : list bytes) (raw : bytes) : bool :=
    (len raw =? 20) && negb (is_nil set) && mem_raw set raw.

  (* IsBlockedAccount *)
  Definition is_blocked (set : list bytes) (s : str) : bool :=
    if is_nil set then false
    else match parse_blocked s with
         | None => false
         | Some raw => is_blocked_raw set raw
         end.
End WithChecksum.

(** ** executor names (types.GetParaExecName / GetRealExecName) *)
Definition has_prefix (p s : bytes) : bool := bytes_eqb (firstn (List.length p) s) p.
Definition UserKey : bytes := bs "user."%string.
Definition ParaKey : bytes := bs "user.p."%string.
Definition evm_name : bytes := bs "evm"%string.

(* the suffix behind the k-th dot *)
Fixpoint after_dots (k : nat) (s : bytes) : option bytes :=
  match s with
  | [] => None
  | c :: tl =>
      if c =? 46 then
        match k with
        | O => None
        | S O => Some tl
        | S k' => after_dots k' tl
        end
      else after_dots k tl
  end.

Definition para_exec_name (e : bytes) : bytes :=
  if has_prefix ParaKey e then
    match after_dots 3 e with
    | Some (x :: r) => x :: r
    | _ => e
    end
  else e.

Fixpoint upto_dot (s : bytes) : bytes :=
  match s with
  | [] => []
  | c :: tl => if c =? 46 then [] else c :: upto_dot tl
  end.

Definition real_exec_name (e0 : bytes) : bytes :=
  let e := para_exec_name e0 in
  if has_prefix ParaKey e then e
  else if has_prefix UserKey e then
    match upto_dot (skipn 5 e) with
    | [] => e
    | r => r
    end
  else e.

(** ** transactions as the blacklist code sees them *)
Record txf := mkTx {
  t_from : str;                  (* tx.From() *)
  t_to : str;                    (* tx.GetTo() *)
  t_realto : str;                (* tx.GetRealToAddr() *)
  t_execer : bytes;              (* tx.GetExecer() *)
  t_evm : option (str * bytes);  (* Decode(payload, EVMContractAction4Chain33): ContractAddr, Para *)
  t_ethsig : bool;               (* types.IsEthSignID(tx.Signature.Ty) *)
  t_tovalid : bool               (* address.CheckAddress(tx.To, pool height) == nil *)
}.

Inductive pos := PFrom | PTo | PRealTo | PEvmAddr | PEvmPara.

Section Core.
  Variable cks : bytes -> bytes.
  Variable set : list bytes.

  Definition is_evm (t : txf) : bool := bytes_eqb (real_exec_name (t_execer t)) evm_name.

  (* checkEVMTxBlockedTarget *)
  Definition evm_target (t : txf) : option pos :=
    if negb (is_evm t) then None
    else match t_evm t with
         | None => None
         | Some (ca, para) =>
             if negb (is_nil ca) && is_blocked cks set ca then Some PEvmAddr
             else if is_blocked_raw set para then Some PEvmPara
             else None
         end.

  (* checkTxBlockedAccountCore: the first position that hits *)
  Definition core (t : txf) : option pos :=
    if is_nil set then None
    else if is_blocked cks set (t_from t) then Some PFrom
    else if is_blocked cks set (t_to t) then Some PTo
    else if negb (bytes_eqb (t_realto t) (t_to t)) && is_blocked cks set (t_realto t) then Some PRealTo
    else evm_target t.

  Definition hit (t : txf) : bool := match core t with Some _ => true | None => false end.

  (* Forks.IsFork *)
  Definition is_fork (H h : Z) : bool := (h =? -1)%Z || (H <=? h)%Z.

  (* CheckTxBlockedAccount (cfg non-nil), CheckTxBlockedAccountImmediate, group variants *)
  Definition chk_tx (H h : Z) (t : txf) : bool := is_fork H h && hit t.
  Definition chk_imm (t : txf) : bool := hit t.
  Definition chk_txs (H h : Z) (ts : list txf) : bool := existsb (chk_tx H h) ts.
  Definition chk_txs_imm (ts : list txf) : bool := existsb chk_imm ts.
End Core.

(** ** what is submitted *)
Inductive bundle :=
| BSingle (t : txf) (inner : option txf)   (* inner: proxyGetRealTx on t (None = error); only read on the proxy path *)
| BGroup (ts : list txf).                  (* expanded members, head first *)

Definition members (b : bundle) : list txf :=
  match b with BSingle t _ => [t] | BGroup ts => ts end.
Definition head (b : bundle) : option txf :=
  match b with BSingle t _ => Some t | BGroup ts => List.hd_error ts end.

Record env := mkEnv {
  e_H : Z;          (* ForkAccountBlacklist *)
  e_HP : Z;         (* ForkProxyExec *)
  e_proxy : str;    (* Exec.ProxyExecAddress *)
  e_h : Z           (* block height of the call *)
}.

Inductive reply := ROk | RBlocked | ROther.
Definition reply_eqb (a b : reply) : bool :=
  match a, b with ROk, ROk | RBlocked, RBlocked | ROther, ROther => true | _, _ => false end.

Section Points.
  Variable cks : bytes -> bytes.
  Variable set : list bytes.
  Variable e : env.

  (* executor.checkProxyExecTx *)
  Definition is_proxy (t : txf) : bool :=
    is_fork (e_HP e) (e_h e) && bytes_eqb (t_to t) (e_proxy e) && t_ethsig t && is_evm t.

  (* procExecTxList -> execTx / execTxGroup: does the blacklist turn the
     receipts into error receipts? *)
  Definition exec_rejects (b : bundle) : bool :=
    match b with
    | BSingle t inner =>
        if (e_h e =? 0)%Z then false
        else if is_proxy t then
          match inner with
          | Some i => chk_tx cks set (e_H e) (e_h e) i
          | None => false
          end
        else chk_tx cks set (e_H e) (e_h e) t
    | BGroup ts => chk_txs cks set (e_H e) (e_h e) ts
    end.

  (* receipt types; [base] = the receipts of the same call with an empty blacklist *)
  Definition exec_receipts (b : bundle) (base : list N) : list N :=
    if exec_rejects b then map (fun _ => 0) base else base.

  (* AddTxsToBlock on one entry *)
  Definition prod_rejects (b : bundle) : bool :=
    match b with
    | BSingle t _ => chk_tx cks set (e_H e) (e_h e) t
    | BGroup ts => chk_txs cks set (e_H e) (e_h e) ts
    end.
  (* entries far below the size/count limits: the kept entries in order *)
  Definition prod_out (bs : list bundle) : list bundle := filter (fun b => negb (prod_rejects b)) bs.

  (* mempool checkTxs -> checkTx per member; [base] = reply with an empty blacklist *)
  Fixpoint pool_members (ts : list txf) (base : reply) : reply :=
    match ts with
    | [] => base
    | t :: tl =>
        if negb (t_tovalid t) then ROther
        else if chk_imm cks set t then RBlocked
        else pool_members tl base
    end.
  Definition pool_reply (b : bundle) (base : reply) : reply := pool_members (members b) base.
  Definition pool_rejects (b : bundle) : bool :=
    negb (reply_eqb (pool_reply b ROk) ROk).

  (* eventAddDelayTx / addDelayTx -> checkDelayTxBlocked: the delayed
     transaction itself (for a group: the wrapper = the head), then every
     member of its group with the check of the pool's checkTx *)
  Definition delay_rejects (b : bundle) : bool :=
    match head b with
    | Some t =>
        chk_imm cks set t ||
        match b with BSingle _ _ => false | BGroup ts => chk_txs_imm cks set ts end
    | None => false
    end.
  Definition delay_reply (b : bundle) (base : reply) : reply :=
    if delay_rejects b then RBlocked else base.
End Points.

(** ** one process, many checks

    The blacklist code keeps exactly one piece of state between calls: the
    parsed set (package variable blockedAccountSet), written only when a list
    is loaded (types.Init / SetBlockedAccountsForTest -> parseBlockedAccounts;
    a list that does not parse panics before the assignment, the old set
    stays).  None of the enforcement functions writes anything that a later
    check reads.  A process history is a sequence of loads and of submissions
    asked at the enforcement points. *)
Record answers := mkAns {
  a_tx : list bool;                  (* CheckTxBlockedAccount per member *)
  a_imm : list bool;                 (* CheckTxBlockedAccountImmediate per member *)
  a_txs : bool;                      (* CheckTxsBlockedAccount *)
  a_txsimm : bool;                   (* CheckTxsBlockedAccountImmediate *)
  a_exec : list N -> list N;         (* receipts, from the receipts without a blacklist *)
  a_prod : bool;                     (* AddTxsToBlock drops the entry *)
  a_pool : reply -> reply;           (* EventTx reply, from the reply without a blacklist *)
  a_delay : reply -> reply           (* EventAddDelayTx reply, likewise *)
}.

Inductive pop :=
| OLoad (L : list str)
| OAsk (e : env) (b : bundle).

Section Process.
  Variable cks : bytes -> bytes.

  (* the pure answer: transaction facts, blocked set, fork configuration and height *)
  Definition answer (set : list bytes) (e : env) (b : bundle) : answers :=
    mkAns (map (chk_tx cks set (e_H e) (e_h e)) (members b))
          (map (chk_imm cks set) (members b))
          (chk_txs cks set (e_H e) (e_h e) (members b))
          (chk_txs_imm cks set (members b))
          (exec_receipts cks set e b)
          (prod_rejects cks set e b)
          (pool_reply cks set b)
          (delay_reply cks set b).

  Definition p_load (st : list bytes) (L : list str) : list bytes :=
    match parse_list cks L with Some s => s | None => st end.

  Definition p_step (st : list bytes) (o : pop) : list bytes * option answers :=
    match o with
    | OLoad L => (p_load st L, None)
    | OAsk e b => (st, Some (answer st e b))
    end.

  (* the outputs of a history, one per operation (None for a load) *)
  Fixpoint p_run (st : list bytes) (ops : list pop) : list (option answers) :=
    match ops with
    | [] => []
    | o :: tl => let r := p_step st o in snd r :: p_run (fst r) tl
    end.

  (* the lists loaded by a history, in order; the set they leave behind *)
  Fixpoint loads_of (ops : list pop) : list (list str) :=
    match ops with
    | [] => []
    | OLoad L :: tl => L :: loads_of tl
    | OAsk _ _ :: tl => loads_of tl
    end.
  Definition set_after (st : list bytes) (Ls : list (list str)) : list bytes := fold_left p_load Ls st.
End Process.
