(** C31 — proofs: spellings, from the list to the parsed set, every enforcement
    point rejects what it looks at, gate, and the pieces used by the partial
    theorems.  Refutations are in ProofsRefute.v. *)
From Coq Require Import List ZArith NArith Bool Lia.
From C33 Require Import Lib.Harness C31.Model C31.Spec.
Import ListNotations.
Open Scope N_scope.

(** ** byte-string equality *)
Lemma bytes_eqb_eq a b : bytes_eqb a b = true <-> a = b.
Proof. apply list_eqb_spec. intros x y. apply N.eqb_eq. Qed.

Lemma bytes_eqb_refl a : bytes_eqb a a = true.
Proof. apply bytes_eqb_eq. reflexivity. Qed.

(** ** hex spellings *)
Definition small_codes : list N := map N.of_nat (seq 0 128).

Lemma small_codes_all :
  forallb (fun c => option_eqb N.eqb (hex_val (lower c)) (hex_val c)) small_codes = true.
Proof. vm_compute. reflexivity. Qed.

Lemma option_eqb_N_eq (a b : option N) : option_eqb N.eqb a b = true -> a = b.
Proof.
  destruct a, b; simpl; intro E; try discriminate; try reflexivity.
  apply N.eqb_eq in E. congruence.
Qed.

Lemma hex_val_lower c : hex_val (lower c) = hex_val c.
Proof.
  destruct (N.ltb_spec c 128) as [Hlt|Hge].
  - apply option_eqb_N_eq.
    pose proof small_codes_all as A. rewrite forallb_forall in A. apply A.
    unfold small_codes. apply in_map_iff. exists (N.to_nat c). split.
    + apply N2Nat.id.
    + apply in_seq. lia.
  - unfold lower.
    replace ((65 <=? c) && (c <=? 90)) with false; [reflexivity|].
    symmetry. apply andb_false_iff. right. apply N.leb_gt. lia.
Qed.

Lemma hex_decode_lower : forall s, hex_decode (map lower s) = hex_decode s.
Proof.
  fix IH 1. intros [|a [|b tl]]; [reflexivity|reflexivity|].
  cbn [map hex_decode]. rewrite !hex_val_lower, (IH tl). reflexivity.
Qed.

Lemma eth_len s : is_eth_address s = true -> len (strip0x s) = 40.
Proof.
  unfold is_eth_address. intro E. apply andb_true_iff in E as [E _]. apply N.eqb_eq in E. exact E.
Qed.

Lemma from_hex_eth s : is_eth_address s = true -> from_hex s = hex_decode (strip0x s).
Proof.
  intro E. pose proof (eth_len s E) as L40.
  destruct s as [|a [|b tl]].
  - vm_compute in L40. discriminate.
  - vm_compute in L40. discriminate.
  - unfold from_hex. cbv zeta. rewrite L40. reflexivity.
Qed.

Lemma parse_eth cks s :
  is_eth_address s = true -> parse_blocked cks s = hex_decode (norm_eth s).
Proof.
  intro E. unfold parse_blocked. rewrite E, (from_hex_eth s E).
  unfold norm_eth. rewrite hex_decode_lower. reflexivity.
Qed.

(** the spelling clause *)
Lemma spelling cks a b : same_account a b = true -> parse_blocked cks a = parse_blocked cks b.
Proof.
  unfold same_account. destruct (is_eth_address a && is_eth_address b) eqn:E.
  - apply andb_true_iff in E as [Ea Eb]. intro Hn. apply bytes_eqb_eq in Hn.
    rewrite (parse_eth cks a Ea), (parse_eth cks b Eb), Hn. reflexivity.
  - intro Hn. apply bytes_eqb_eq in Hn. subst. reflexivity.
Qed.

Lemma base58_literal a b :
  is_eth_address a = false -> same_account a b = true -> a = b.
Proof.
  unfold same_account. intros Ea. rewrite Ea. simpl. apply bytes_eqb_eq.
Qed.

(* hex spellings: prefix and case do not matter *)
Lemma same_account_prefix_case a b :
  is_eth_address a = true -> is_eth_address b = true ->
  map lower (strip0x a) = map lower (strip0x b) -> same_account a b = true.
Proof.
  intros Ea Eb Hn. unfold same_account. rewrite Ea, Eb. simpl. apply bytes_eqb_eq. exact Hn.
Qed.

(** ** from the configured list to the parsed set *)
Lemma parse_list_in cks : forall L set l,
  parse_list cks L = Some set -> In l L ->
  exists raw, parse_blocked cks l = Some raw /\ len raw = 20 /\ In raw set.
Proof.
  induction L as [|a tl IH]; intros set l HP HI; [destruct HI|].
  cbn [parse_list] in HP.
  destruct (parse_blocked cks a) as [raw|] eqn:Pa; [|discriminate].
  destruct (len raw =? 20) eqn:L20; [|discriminate].
  destruct (parse_list cks tl) as [r|] eqn:Pt; [|discriminate].
  inversion HP; subst set. destruct HI as [->|HI].
  - exists raw. split; [exact Pa|]. split; [apply N.eqb_eq; exact L20|left; reflexivity].
  - destruct (IH r l eq_refl HI) as (raw' & P1 & P2 & P3).
    exists raw'. split; [exact P1|]. split; [exact P2|right; exact P3].
Qed.

Lemma mem_raw_in (set : list bytes) (raw : bytes) : In raw set -> mem_raw set raw = true.
Proof.
  intro HI. unfold mem_raw. apply existsb_exists. exists raw. split; [exact HI|apply bytes_eqb_refl].
Qed.

Lemma in_not_nil {A} (x : A) l : In x l -> is_nil l = false.
Proof. destruct l; [intros []|reflexivity]. Qed.

Lemma blocked_raw_of_in (set : list bytes) (raw : bytes) : len raw = 20 -> In raw set -> is_blocked_raw set raw = true.
Proof.
  intros L20 HI. unfold is_blocked_raw.
  rewrite L20, (in_not_nil raw set HI), (mem_raw_in set raw HI). reflexivity.
Qed.

Lemma listed_blocked cks L set s :
  parse_list cks L = Some set -> listed L s = true -> is_blocked cks set s = true.
Proof.
  intros HP HL. unfold listed in HL. apply existsb_exists in HL as (l & HI & HS).
  destruct (parse_list_in cks L set l HP HI) as (raw & P1 & P2 & P3).
  unfold is_blocked. rewrite (in_not_nil raw set P3), (spelling cks s l HS), P1.
  apply blocked_raw_of_in; assumption.
Qed.

Lemma raw_listed_blocked cks L set raw :
  parse_list cks L = Some set -> raw_listed cks L raw = true -> is_blocked_raw set raw = true.
Proof.
  intros HP HL. unfold raw_listed in HL. apply existsb_exists in HL as (l & HI & HS).
  destruct (parse_list_in cks L set l HP HI) as (raw' & P1 & P2 & P3).
  rewrite P1 in HS. simpl in HS. apply bytes_eqb_eq in HS. subst raw'.
  apply blocked_raw_of_in; assumption.
Qed.

Lemma parse_empty cks : parse_blocked cks [] = None.
Proof. reflexivity. Qed.

Lemma listed_nonempty cks L set s :
  parse_list cks L = Some set -> listed L s = true -> is_nil s = false.
Proof.
  intros HP HL. destruct s; [|reflexivity]. exfalso.
  unfold listed in HL. apply existsb_exists in HL as (l & HI & HS).
  destruct (parse_list_in cks L set l HP HI) as (raw & P1 & _).
  rewrite <- (spelling cks [] l HS), parse_empty in P1. discriminate.
Qed.

Lemma set_not_nil cks L set s :
  parse_list cks L = Some set -> listed L s = true -> is_nil set = false.
Proof.
  intros HP HL. unfold listed in HL. apply existsb_exists in HL as (l & HI & _).
  destruct (parse_list_in cks L set l HP HI) as (raw & _ & _ & P3).
  exact (in_not_nil raw set P3).
Qed.

(** ** a transaction that touches the list is hit by the core check *)
Lemma touches_hit cks L set t :
  parse_list cks L = Some set -> tx_touches cks L t = true -> hit cks set t = true.
Proof.
  intros HP HT. unfold hit, core.
  assert (NN : is_nil set = false).
  { unfold tx_touches in HT.
    repeat (apply orb_true_iff in HT as [HT|HT]);
      try (eapply set_not_nil; eassumption).
    apply andb_true_iff in HT as [_ HT]. destruct (t_evm t) as [[ca para]|]; [|discriminate].
    apply orb_true_iff in HT as [HT|HT]; [eapply set_not_nil; eassumption|].
    unfold raw_listed in HT. apply existsb_exists in HT as (l & HI & _).
    destruct (parse_list_in cks L set l HP HI) as (raw & _ & _ & P3). exact (in_not_nil raw set P3). }
  rewrite NN.
  destruct (is_blocked cks set (t_from t)) eqn:BF; [reflexivity|].
  destruct (is_blocked cks set (t_to t)) eqn:BT; [reflexivity|].
  destruct (negb (bytes_eqb (t_realto t) (t_to t)) && is_blocked cks set (t_realto t)) eqn:BR; [reflexivity|].
  unfold tx_touches in HT.
  apply orb_true_iff in HT as [HT|HT].
  - apply orb_true_iff in HT as [HT|HT].
    + apply orb_true_iff in HT as [HT|HT].
      * rewrite (listed_blocked cks L set _ HP HT) in BF. discriminate.
      * rewrite (listed_blocked cks L set _ HP HT) in BT. discriminate.
    + pose proof (listed_blocked cks L set _ HP HT) as B. rewrite B, andb_true_r in BR.
      apply negb_false_iff, bytes_eqb_eq in BR. rewrite BR, BT in B. discriminate.
  - apply andb_true_iff in HT as [HE HT]. unfold evm_target. rewrite HE. simpl.
    destruct (t_evm t) as [[ca para]|]; [|discriminate].
    apply orb_true_iff in HT as [HT|HT].
    + rewrite (listed_nonempty cks L set ca HP HT), (listed_blocked cks L set ca HP HT). reflexivity.
    + rewrite (raw_listed_blocked cks L set para HP HT).
      destruct (negb (is_nil ca) && is_blocked cks set ca); reflexivity.
Qed.

Lemma exists_touch_hit cks L set ts :
  parse_list cks L = Some set -> existsb (tx_touches cks L) ts = true -> existsb (hit cks set) ts = true.
Proof.
  intros HP HE. apply existsb_exists in HE as (t & HI & HT).
  apply existsb_exists. exists t. split; [exact HI|exact (touches_hit cks L set t HP HT)].
Qed.

(** ** gate *)
Lemma active_fork e : active e = true -> is_fork (e_H e) (e_h e) = true.
Proof. unfold active, is_fork. intro A. rewrite A. apply orb_true_r. Qed.

Lemma fork_exact H h : is_fork H h = true <-> (h = -1 \/ H <= h)%Z.
Proof.
  unfold is_fork. rewrite orb_true_iff, Z.eqb_eq, Z.leb_le. reflexivity.
Qed.

Lemma inactive_chk cks set H h t : is_fork H h = false -> chk_tx cks set H h t = false.
Proof. unfold chk_tx. intros ->. reflexivity. Qed.

Lemma inactive_chks cks set H h ts : is_fork H h = false -> chk_txs cks set H h ts = false.
Proof.
  intro F. unfold chk_txs. induction ts as [|t tl IH]; [reflexivity|].
  simpl. rewrite (inactive_chk cks set H h t F), IH. reflexivity.
Qed.

Lemma inactive_exec cks set e b base :
  is_fork (e_H e) (e_h e) = false -> exec_receipts cks set e b base = base.
Proof.
  intro F. unfold exec_receipts, exec_rejects.
  destruct b as [t inner|ts].
  - destruct (e_h e =? 0)%Z; [reflexivity|].
    destruct (is_proxy e t).
    + destruct inner as [i|]; [rewrite (inactive_chk cks set _ _ i F)|]; reflexivity.
    + rewrite (inactive_chk cks set _ _ t F). reflexivity.
  - rewrite (inactive_chks cks set _ _ ts F). reflexivity.
Qed.

Lemma inactive_prod cks set e bs :
  is_fork (e_H e) (e_h e) = false -> prod_out cks set e bs = bs.
Proof.
  intro F. unfold prod_out. induction bs as [|b tl IH]; [reflexivity|].
  simpl. replace (prod_rejects cks set e b) with false; [simpl; rewrite IH; reflexivity|].
  symmetry. destruct b as [t i|ts]; simpl;
    [apply inactive_chk|apply inactive_chks]; exact F.
Qed.

(** ** every enforcement point rejects what it looks at *)

(* what the executor looks at *)
Definition exec_view_touches cks L e (b : bundle) : bool :=
  match b with
  | BSingle t inner =>
      if is_proxy e t then match inner with Some i => tx_touches cks L i | None => false end
      else tx_touches cks L t
  | BGroup ts => existsb (tx_touches cks L) ts
  end.

Lemma chk_txs_of_hit cks set H h ts :
  is_fork H h = true -> existsb (hit cks set) ts = true -> chk_txs cks set H h ts = true.
Proof.
  intros F HE. unfold chk_txs. apply existsb_exists in HE as (t & HI & HT).
  apply existsb_exists. exists t. split; [exact HI|]. unfold chk_tx. rewrite F, HT. reflexivity.
Qed.

Lemma exec_rejects_view cks L set e b :
  parse_list cks L = Some set -> (e_h e <> 0)%Z -> active e = true ->
  exec_view_touches cks L e b = true -> exec_rejects cks set e b = true.
Proof.
  intros HP H0 A HT. pose proof (active_fork e A) as F.
  unfold exec_rejects. destruct b as [t inner|ts]; simpl in HT.
  - apply Z.eqb_neq in H0. rewrite H0.
    destruct (is_proxy e t).
    + destruct inner as [i|]; [|discriminate].
      unfold chk_tx. rewrite F, (touches_hit cks L set i HP HT). reflexivity.
    + unfold chk_tx. rewrite F, (touches_hit cks L set t HP HT). reflexivity.
  - apply chk_txs_of_hit; [exact F|]. apply (exists_touch_hit cks L set ts HP HT).
Qed.

Lemma exec_receipts_err cks set e b base :
  exec_rejects cks set e b = true -> forall r, In r (exec_receipts cks set e b base) -> r = 0.
Proof.
  intros R r HI. unfold exec_receipts in HI. rewrite R in HI.
  apply in_map_iff in HI as (x & <- & _). reflexivity.
Qed.

Lemma prod_rejects_outer cks L set e b :
  parse_list cks L = Some set -> active e = true ->
  outer_touches cks L b = true -> prod_rejects cks set e b = true.
Proof.
  intros HP A HT. pose proof (active_fork e A) as F.
  unfold outer_touches in HT. pose proof (exists_touch_hit cks L set _ HP HT) as HH.
  destruct b as [t inner|ts]; simpl in *.
  - rewrite orb_false_r in HH. unfold chk_tx. rewrite F, HH. reflexivity.
  - apply chk_txs_of_hit; assumption.
Qed.

Lemma prod_out_excludes cks L set e b bs :
  parse_list cks L = Some set -> active e = true ->
  outer_touches cks L b = true -> ~ In b (prod_out cks set e bs).
Proof.
  intros HP A HT HI. unfold prod_out in HI. apply filter_In in HI as [_ HI].
  rewrite (prod_rejects_outer cks L set e b HP A HT) in HI. discriminate.
Qed.

Lemma pool_members_rejects cks set ts base :
  existsb (hit cks set) ts = true -> pool_members cks set ts base <> ROk.
Proof.
  induction ts as [|t tl IH]; simpl; [discriminate|].
  intro HE. destruct (negb (t_tovalid t)); [discriminate|].
  unfold chk_imm. destruct (hit cks set t); [discriminate|].
  simpl in HE. apply IH. exact HE.
Qed.

Lemma pool_rejects_outer cks L set b :
  parse_list cks L = Some set -> outer_touches cks L b = true -> pool_rejects cks set b = true.
Proof.
  intros HP HT. unfold pool_rejects, pool_reply.
  pose proof (pool_members_rejects cks set (members b) ROk
                (exists_touch_hit cks L set _ HP HT)) as NE.
  destruct (pool_members cks set (members b) ROk); try reflexivity. congruence.
Qed.

Lemma pool_reply_never_ok cks L set b base :
  parse_list cks L = Some set -> outer_touches cks L b = true -> pool_reply cks set b base <> ROk.
Proof.
  intros HP HT. unfold pool_reply. apply pool_members_rejects.
  apply (exists_touch_hit cks L set _ HP HT).
Qed.

(* the delay entry points look at the transaction itself and at every member of its group *)
Lemma delay_rejects_members cks set b :
  delay_rejects cks set b = chk_txs_imm cks set (members b).
Proof.
  unfold delay_rejects, chk_txs_imm. destruct b as [t inner|[|t tl]]; simpl.
  - reflexivity.
  - reflexivity.
  - destruct (chk_imm cks set t); reflexivity.
Qed.

Lemma delay_rejects_outer cks L set b :
  parse_list cks L = Some set -> outer_touches cks L b = true -> delay_rejects cks set b = true.
Proof.
  intros HP HT. rewrite delay_rejects_members. unfold chk_txs_imm.
  exact (exists_touch_hit cks L set _ HP HT).
Qed.

(** ** rejections are not arbitrary: a hit names a position whose raw form is in the set *)
Lemma is_blocked_sound cks set s :
  is_blocked cks set s = true -> exists raw, parse_blocked cks s = Some raw /\ In raw set.
Proof.
  unfold is_blocked. destruct (is_nil set); [discriminate|].
  destruct (parse_blocked cks s) as [raw|]; [|discriminate].
  unfold is_blocked_raw, mem_raw. intro E.
  apply andb_true_iff in E as [_ E]. apply existsb_exists in E as (x & HI & HE).
  apply bytes_eqb_eq in HE. subst x. exists raw. split; [reflexivity|exact HI].
Qed.

Lemma empty_set_never_hits cks t : hit cks [] t = false.
Proof. reflexivity. Qed.

(** ** the plain case: one theorem for all four points *)
Definition plain (e : env) (b : bundle) : bool :=
  match b with
  | BSingle t _ => negb (is_proxy e t)
  | BGroup _ => true
  end.

Lemma plain_views cks L e b :
  plain e b = true -> touches cks L e b = outer_touches cks L b /\
                      exec_view_touches cks L e b = outer_touches cks L b.
Proof.
  unfold plain, touches, inner_touches, inner_of, exec_view_touches, outer_touches.
  destruct b as [t inner|ts]; simpl.
  - intro P. apply negb_true_iff in P. rewrite P.
    destruct inner; rewrite !orb_false_r; split; reflexivity.
  - intros _. rewrite orb_false_r. split; reflexivity.
Qed.

