(** C31 — property theorems only. *)
From Coq Require Import List ZArith NArith Bool.
From C33 Require Import Lib.Harness C31.Model C31.Spec C31.Proofs C31.ProofsB58 C31.ProofsMain C31.ProofsRefute C31.ProofsHist.
Import ListNotations.
Open Scope N_scope.

(** Spelling clause: two strings that name the same account (hex addresses equal
    up to letter case and the optional 0x / 0X prefix; otherwise the identical
    string) parse to the same blacklist key. *)
Theorem C31_spelling : forall cks a b,
  same_account a b = true -> parse_blocked cks a = parse_blocked cks b.
Proof. exact spelling. Qed.
Print Assumptions C31_spelling.

(** Hex spellings: any two hex addresses whose 40 digits agree up to case are the same account. *)
Theorem C31_spelling_hex : forall a b,
  is_eth_address a = true -> is_eth_address b = true ->
  map lower (strip0x a) = map lower (strip0x b) -> same_account a b = true.
Proof. exact same_account_prefix_case. Qed.
Print Assumptions C31_spelling_hex.

(** Base58: the account is the literal string; there is no second spelling. *)
Theorem C31_spelling_base58_literal : forall a b,
  is_eth_address a = false -> same_account a b = true -> a = b.
Proof. exact base58_literal. Qed.
Print Assumptions C31_spelling_base58_literal.

(** Base58, precisely: a string is accepted exactly when its base58 decoding is
    version byte (any value) ++ 20-byte key ++ first four bytes of the double
    SHA-256 of (version ++ key); the key is what is compared. *)
Theorem C31_base58_accepted_shape : forall cks s raw,
  is_eth_address s = false -> parse_blocked cks s = Some raw ->
  exists v c, b58_decode s = v :: raw ++ c /\ len raw = 20 /\ c = cks (v :: raw).
Proof. exact base58_shape. Qed.
Print Assumptions C31_base58_accepted_shape.

Theorem C31_base58_any_version_accepted : forall cks s v raw,
  is_eth_address s = false -> len raw = 20 ->
  b58_decode s = v :: raw ++ cks (v :: raw) -> len (cks (v :: raw)) = 4 ->
  parse_blocked cks s = Some raw.
Proof. exact base58_accepts. Qed.
Print Assumptions C31_base58_any_version_accepted.

(** Hex spellings always yield a 20-byte key. *)
Theorem C31_hex_key_total : forall cks s,
  is_eth_address s = true -> exists raw, parse_blocked cks s = Some raw /\ len raw = 20.
Proof. exact hex_key_20. Qed.
Print Assumptions C31_hex_key_total.

(** Any listed account in any spelling is found in the parsed set. *)
Theorem C31_listed_is_blocked : forall cks L set s,
  parse_list cks L = Some set -> listed L s = true -> is_blocked cks set s = true.
Proof. exact listed_blocked. Qed.
Print Assumptions C31_listed_is_blocked.

(** A transaction touching the list in any position is hit by the core check. *)
Theorem C31_core_covers_positions : forall cks L set t,
  parse_list cks L = Some set -> tx_touches cks L t = true -> hit cks set t = true.
Proof. exact touches_hit. Qed.
Print Assumptions C31_core_covers_positions.

(** Plain (not proxied) submissions, single transactions and groups alike:
    every enforcement point rejects; error receipts only; never packed; both
    delay entry points refuse (a group is expanded and every member checked). *)
Theorem C31_blocked_position_rejected : forall cks L set e b,
  parse_list cks L = Some set -> (e_h e <> 0)%Z -> plain e b = true ->
  touches cks L e b = true ->
  (active e = true ->
     exec_rejects cks set e b = true /\ prod_rejects cks set e b = true /\
     (forall base r, In r (exec_receipts cks set e b base) -> r = 0) /\
     (forall bs, ~ In b (prod_out cks set e bs))) /\
  pool_rejects cks set b = true /\
  (forall base, pool_reply cks set b base <> ROk) /\
  delay_rejects cks set b = true /\
  (forall base, delay_reply cks set b base = RBlocked).
Proof. exact position_plain. Qed.
Print Assumptions C31_blocked_position_rejected.

(** Full strength (proxied submissions included) fails. *)
Theorem C31_blocked_position_rejected_refuted : ~ C31_blocked_position_rejected_full.
Proof. exact position_full_refuted. Qed.
Print Assumptions C31_blocked_position_rejected_refuted.

(** Strongest statement for all submissions: every enforcement point rejects
    what it looks at (executor: the unwrapped inner transaction of a proxied
    one, all members of a group; producer, pool and delay entry points: the
    outer transaction, all members). *)
Theorem C31_blocked_position_rejected_partial : forall cks L set e b,
  parse_list cks L = Some set ->
  ((e_h e <> 0)%Z -> active e = true -> exec_view_touches cks L e b = true ->
     exec_rejects cks set e b = true /\
     forall base r, In r (exec_receipts cks set e b base) -> r = 0) /\
  (active e = true -> outer_touches cks L b = true ->
     prod_rejects cks set e b = true /\ forall bs, ~ In b (prod_out cks set e bs)) /\
  (outer_touches cks L b = true ->
     pool_rejects cks set b = true /\ forall base, pool_reply cks set b base <> ROk) /\
  (outer_touches cks L b = true ->
     delay_rejects cks set b = true /\ forall base, delay_reply cks set b base = RBlocked).
Proof. exact position_views. Qed.
Print Assumptions C31_blocked_position_rejected_partial.

(** The pool clause at full strength fails for proxied transactions ... *)
Theorem C31_pool_rejects_at_every_height_refuted : ~ C31_pool_rejects_at_every_height_full.
Proof. exact pool_full_refuted. Qed.
Print Assumptions C31_pool_rejects_at_every_height_refuted.

(** ... and holds for what the pool looks at, independently of fork height and block height. *)
Theorem C31_pool_rejects_at_every_height_partial : forall cks L set (e : env) b,
  parse_list cks L = Some set -> outer_touches cks L b = true ->
  pool_rejects cks set b = true /\ (forall base, pool_reply cks set b base <> ROk) /\
  delay_rejects cks set b = true.
Proof. exact pool_every_height. Qed.
Print Assumptions C31_pool_rejects_at_every_height_partial.

(** Delay entry points (eventAddDelayTx, addDelayTx): the blacklist verdict is
    the pool's per-member check over the submission itself and every member of
    its group - exactly what the pool looks at when the cache releases it. *)
Theorem C31_delay_entry_all_members : forall cks set b,
  delay_rejects cks set b = chk_txs_imm cks set (members b).
Proof. exact delay_entry_all_members. Qed.
Print Assumptions C31_delay_entry_all_members.

(** Proxied transactions: the executor does not look at the outer transaction. *)
Theorem C31_executor_outer_refuted : ~ C31_executor_rejects_full.
Proof. exact executor_full_refuted. Qed.
Print Assumptions C31_executor_outer_refuted.

(** Proxied transactions: the executor checks the unwrapped transaction. *)
Theorem C31_proxy_inner_rejected_by_executor : forall cks L set e t i,
  parse_list cks L = Some set -> (e_h e <> 0)%Z -> active e = true ->
  is_proxy e t = true -> tx_touches cks L i = true ->
  exec_rejects cks set e (BSingle t (Some i)) = true /\
  forall base r, In r (exec_receipts cks set e (BSingle t (Some i)) base) -> r = 0.
Proof. exact proxy_inner_exec. Qed.
Print Assumptions C31_proxy_inner_rejected_by_executor.

(** The gate is exactly "height -1 or height >= fork height" ... *)
Theorem C31_gate_exact : forall H h, is_fork H h = true <-> (h = -1 \/ H <= h)%Z.
Proof. exact fork_exact. Qed.
Print Assumptions C31_gate_exact.

(** ... and below it the consensus-level points behave as without a blacklist. *)
Theorem C31_inactive_no_effect : forall cks set e,
  is_fork (e_H e) (e_h e) = false ->
  (forall b base, exec_receipts cks set e b base = base) /\
  (forall bs, prod_out cks set e bs = bs).
Proof. exact inactive_no_effect. Qed.
Print Assumptions C31_inactive_no_effect.

(** A blocked answer always comes from a parsed key that is in the set. *)
Theorem C31_rejection_sound : forall cks set s,
  is_blocked cks set s = true -> exists raw, parse_blocked cks s = Some raw /\ In raw set.
Proof. exact rejection_sound. Qed.
Print Assumptions C31_rejection_sound.

(** Witness facts used by the refutations: before the activation height the
    proxied payment to a listed account passes pool, producer and executor,
    and the delay entry at every height. *)
Theorem C31_proxy_inner_before_fork_witness :
  touches nock wL env9 w_proxy_inner = true /\
  pool_rejects nock wset w_proxy_inner = false /\
  prod_rejects nock wset env9 w_proxy_inner = false /\
  exec_receipts nock wset env9 w_proxy_inner [2] = [2] /\
  delay_rejects nock wset w_proxy_inner = false.
Proof. exact proxy_inner_before_fork. Qed.
Print Assumptions C31_proxy_inner_before_fork_witness.

(** The height-0 hypothesis of the executor clauses is needed (genesis path of execTx). *)
Theorem C31_height0_hypothesis_needed :
  active env0 = true /\ plain env0 (BSingle tx_to_X None) = true /\
  touches nock wL env0 (BSingle tx_to_X None) = true /\
  exec_rejects nock wset env0 (BSingle tx_to_X None) = false.
Proof. exact height0_needed. Qed.
Print Assumptions C31_height0_hypothesis_needed.

(** Histories of one process (blacklist loads and submissions asked at the
    enforcement points in any order): the answer to a question is the pure
    function [answer] of the transaction facts, the fork configuration, the
    height and the set left by the loads that precede it; the questions asked
    before it (same body, other signer, other enforcement point, ...) are
    irrelevant. *)
Theorem C31_verdict_history_independent : forall cks pre st e b,
  last (p_run cks st (pre ++ [OAsk e b])) None =
  Some (answer cks (set_after cks st (loads_of pre)) e b).
Proof. exact history_independent. Qed.
Print Assumptions C31_verdict_history_independent.

(** The same for every position of a history. *)
Theorem C31_verdict_history_independent_nth : forall cks ops st n e b,
  nth_error ops n = Some (OAsk e b) ->
  nth_error (p_run cks st ops) n =
  Some (Some (answer cks (set_after cks st (loads_of (firstn n ops))) e b)).
Proof. exact history_independent_nth. Qed.
Print Assumptions C31_verdict_history_independent_nth.

(** Consequence: a plain submission touching the most recently loaded list is
    rejected at every enforcement point whatever was loaded or asked before. *)
Theorem C31_history_blocked_rejected : forall cks st pre L set asks e b,
  parse_list cks L = Some set -> loads_of asks = [] ->
  (e_h e <> 0)%Z -> plain e b = true -> touches cks L e b = true ->
  exists a, last (p_run cks st (pre ++ OLoad L :: asks ++ [OAsk e b])) None = Some a /\
    (active e = true ->
       a_prod a = true /\ (forall base r, In r (a_exec a base) -> r = 0) /\ a_txs a = true) /\
    a_txsimm a = true /\
    (forall base, a_pool a base <> ROk) /\
    (forall base, a_delay a base = RBlocked).
Proof. exact history_blocked. Qed.
Print Assumptions C31_history_blocked_rejected.

(** Its hypotheses are satisfiable: the same body from a clean signer, then from the listed one. *)
Theorem C31_history_witness :
  parse_list nock wL = Some wset /\ loads_of [OAsk env10 (BSingle tx_clean None)] = [] /\
  (e_h env10 <> 0)%Z /\ plain env10 (BSingle tx_from_X None) = true /\
  touches nock wL env10 (BSingle tx_from_X None) = true /\
  map (option_map a_imm) (p_run nock [] (w_hist ++ [OAsk env10 (BSingle tx_from_X None)])) =
    [None; Some [false]; None; Some [false]; Some [true]] /\
  map (option_map (fun a => a_pool a ROk)) (p_run nock [] (w_hist ++ [OAsk env10 (BSingle tx_from_X None)])) =
    [None; Some ROk; None; Some ROk; Some RBlocked].
Proof. exact history_witness. Qed.
Print Assumptions C31_history_witness.
