(** C27 — headers with an empty field (the complete ProcessBlock, [vdeliver0])
    and the signature stage of util.PreExecBlock against the receiver's
    mempool ([sig_stage], [verr_at]). *)
From Coq Require Import List ZArith NArith Bool Lia.
From C33 Require Import C27.Model C27.Proofs2.
Import ListNotations.
Open Scope Z_scope.

(** ---- 1. ProcessBlock does not panic ---- *)
Definition C27_no_panic_full : Prop :=
  forall (verr : N -> N -> N) (fin : Z) (s : vstate) (i : item),
    snd (snd (vdeliver0 verr fin s i)) <> VPanic.

(** witness (finding 5): the node holds the genesis block 0 and block 1; a
    block of height 2 with an empty ParentHash arrives *)
Definition hp_root : block := mkB 0 zero_par 0 1.
Definition hp_hist : list item := [mkI (mkB 1 0 1 1) 0 PBcast].
Definition hp_item : item := mkI (mkB 2 empty_par 2 1) 0 PBcast.

Lemma no_panic_refuted : ~ C27_no_panic_full.
Proof.
  intro H.
  apply (H (fun _ _ => 0%N) 0 (vrun0 (fun _ _ => 0%N) 0 hp_root hp_hist) hp_item).
  vm_compute. reflexivity.
Qed.

(** the guard: the ParentHash is not empty *)
Definition names_parent (i : item) : bool := negb (N.eqb (bpar (iblk i)) empty_par).

Section Hdr.
Variable verr : N -> N -> N.

Lemma no_panic_partial : forall fin s i,
  names_parent i = true -> snd (snd (vdeliver0 verr fin s i)) <> VPanic.
Proof.
  intros fin s i Hn. unfold names_parent in Hn. apply negb_true_iff in Hn.
  unfold vdeliver0. rewrite Hn. cbn [andb].
  destruct (in_vidx _ _); [simpl; discriminate|].
  destruct (N.eqb (bpar (iblk i)) zero_par).
  - destruct (bht (iblk i) =? 0); simpl; discriminate.
  - destruct (bht (iblk i) =? 0).
    + destruct (_ && _); simpl; discriminate.
    + apply no_panic.
Qed.

(** on a header with a named, non-zero parent and a height above 0 the complete
    model is [vdeliver], the one all history theorems speak about *)
Lemma vdeliver0_plain : forall fin s i,
  plain_hdr i = true -> vdeliver0 verr fin s i = vdeliver verr fin s i.
Proof.
  intros fin s i Hp. unfold plain_hdr in Hp.
  apply andb_true_iff in Hp as [Hp H0]. apply andb_true_iff in Hp as [He Hz].
  apply negb_true_iff in He, Hz, H0.
  unfold vdeliver0. rewrite He, Hz, H0. cbn [andb].
  destruct (in_vidx (bid (iblk i)) (vidx s)) eqn:E; [|reflexivity].
  unfold vdeliver. rewrite E. reflexivity.
Qed.

Lemma vrun0_plain : forall fin g hist,
  forallb plain_hdr hist = true -> vrun0 verr fin g hist = vrun verr fin g hist.
Proof.
  intros fin g hist. unfold vrun0, vrun. generalize (vinit g) as s.
  induction hist as [|i tl IH]; intros s H; [reflexivity|].
  simpl in H. apply andb_true_iff in H as [Hi Ht]. simpl.
  unfold vstep0 at 2. rewrite (vdeliver0_plain fin s i Hi). fold (vstep verr fin s i).
  apply IH, Ht.
Qed.

(** every other header leaves the best chain where it was.  (No index node
    has the empty hash: block hashes are 32 bytes long.) *)
Lemma odd_header_chain_unchanged : forall fin s i,
  plain_hdr i = false ->
  in_vidx empty_par (vidx s) = false ->
  vmain (vstep0 verr fin s i) = vmain s.
Proof.
  intros fin s i Hp Hne. unfold vstep0, vdeliver0, plain_hdr in *.
  destruct (in_vidx (bid (iblk i)) (vidx s)) eqn:Ex; [reflexivity|].
  destruct (in_vorph (bid (iblk i)) (vorph s)) eqn:Ek;
  destruct (N.eqb (bpar (iblk i)) empty_par) eqn:Ee;
  destruct (N.eqb (bpar (iblk i)) zero_par) eqn:Ez;
  destruct (bht (iblk i) =? 0) eqn:E0;
  destruct (2 <=? nhdr (vstore s))%nat;
  cbn [negb andb orb fst vmain] in *; try reflexivity; try discriminate Hp;
  try (destruct (in_vidx (bpar (iblk i)) (vidx s)); reflexivity).
  (* left: height above 0, the parent is the empty hash, one header in the table *)
  all: apply N.eqb_eq in Ee; unfold vdeliver; rewrite Ex, Ek, Ee, Hne; cbn [negb andb vidx]; try rewrite Hne;
    reflexivity.
Qed.

End Hdr.

Lemma no_panic_nonvacuous :
  names_parent (mkI (mkB 2 1 2 1) 0 PBcast) = true
  /\ names_parent (mkI (mkB 2 zero_par 0 1) 0 PBcast) = true
  /\ names_parent hp_item = false
  /\ snd (vdeliver0 (fun _ _ => 0%N) 0 (vrun0 (fun _ _ => 0%N) 0 hp_root hp_hist) (mkI (mkB 2 1 2 1) 0 PBcast))
     = (true, false, VNone)
  (* a second genesis block: indexed and stored, then no total difficulty for its parent *)
  /\ snd (vdeliver0 (fun _ _ => 0%N) 0 (vrun0 (fun _ _ => 0%N) 0 hp_root hp_hist) (mkI (mkB 2 zero_par 0 1) 0 PBcast))
     = (false, false, VTd)
  (* with the genesis block alone in the table the empty parent is just unknown *)
  /\ snd (vdeliver0 (fun _ _ => 0%N) 0 (vinit hp_root) hp_item) = (false, true, VNone).
Proof. vm_compute. repeat split. Qed.

(** ---- 2. the signature stage and the receiver's mempool ---- *)

Definition C27_sig_pool_full : Prop :=
  forall (pool : list N) (v : sigview), sig_stage pool v = sig_valid v.

(** witness (finding 6): transaction 1 carries a signature that does not
    verify; the mempool holds a transaction with the same hash *)
Lemma sig_pool_refuted : ~ C27_sig_pool_full.
Proof.
  intro H. specialize (H [1%N] (mkSV true [(0%N, true); (1%N, false); (2%N, true)])).
  vm_compute in H. discriminate H.
Qed.

(** the guard: the transactions of the block that the mempool holds carry
    signatures that verify *)
Definition pooled_ok (pool : list N) (v : sigview) : bool :=
  forallb (fun t => snd t || negb (memN (fst t) pool)) (sv_txs v).

Lemma forallb_filter_guard : forall (pool : list N) (l : list (N * bool)),
  forallb (fun t => snd t || negb (memN (fst t) pool)) l = true ->
  forallb snd (filter (fun t => negb (memN (fst t) pool)) l) = forallb snd l.
Proof.
  induction l as [|t tl IH]; intros H; [reflexivity|].
  simpl in H. apply andb_true_iff in H as [Ht Htl]. simpl.
  destruct (memN (fst t) pool); cbn [negb] in *.
  - rewrite orb_false_r in Ht. rewrite Ht. cbn [andb]. apply IH, Htl.
  - simpl. rewrite IH by exact Htl. reflexivity.
Qed.

Lemma sig_pool_partial : forall pool v,
  pooled_ok pool v = true -> sig_stage pool v = sig_valid v.
Proof.
  intros pool v H. unfold sig_stage, sig_valid, unverified.
  rewrite (forallb_filter_guard pool (sv_txs v) H). reflexivity.
Qed.

(** a block signature that does not verify is refused whatever the mempool holds *)
Lemma block_signature_any_pool : forall pool v,
  sv_bsig v = false -> sig_stage pool v = false.
Proof. intros pool v H. unfold sig_stage. rewrite H. reflexivity. Qed.

(** and so is a transaction signature that does not verify when the mempool
    does not hold that transaction's hash *)
Lemma tx_signature_unpooled : forall pool v t,
  In t (sv_txs v) -> snd t = false -> memN (fst t) pool = false -> sig_stage pool v = false.
Proof.
  intros pool v t Hin Hs Hm. unfold sig_stage, unverified.
  destruct (sv_bsig v); [|reflexivity]. cbn [andb].
  destruct (forallb snd _) eqn:E; [|reflexivity].
  rewrite forallb_forall in E. specialize (E t).
  rewrite E in Hs; [discriminate|]. apply filter_In. split; [exact Hin|]. rewrite Hm. reflexivity.
Qed.

Lemma sig_stage_nil : forall v, sig_stage [] v = sig_valid v.
Proof. intros v. apply sig_pool_partial. unfold pooled_ok. apply forallb_forall. intros t _. simpl. apply orb_true_r. Qed.

Lemma sig_pool_nonvacuous :
  pooled_ok [0; 2; 9]%N (mkSV false [(0, true); (1, true); (2, true)]%N) = true
  /\ sig_stage [0; 1; 2]%N (mkSV false [(0, true); (1, true); (2, true)]%N) = false
  /\ pooled_ok [0; 2]%N (mkSV true [(0, true); (1, false); (2, true)]%N) = true
  /\ sig_stage [0; 2]%N (mkSV true [(0, true); (1, false); (2, true)]%N) = false
  /\ sig_stage [0; 1; 2]%N (mkSV true [(0, true); (1, true); (2, true)]%N) = true
  /\ pooled_ok [1]%N (mkSV true [(0, true); (1, false); (2, true)]%N) = false.
Proof. vm_compute. repeat split. Qed.

(** ---- 3. the oracle of the histories does not depend on the mempool ---- *)
Section Ext.
Variables v1 v2 : N -> N -> N.
Hypothesis Hext : forall h b, v1 h b = v2 h b.

Lemma connect_block_ext : forall s h body, connect_block v1 s h body = connect_block v2 s h body.
Proof. intros. unfold connect_block. rewrite Hext. reflexivity. Qed.

Lemma attach_ext : forall p s, attach v1 s p = attach v2 s p.
Proof.
  induction p as [|[h body] tl IH]; intros s; [reflexivity|].
  simpl. rewrite connect_block_ext. destruct (connect_block v2 s h body) as [s' e].
  destruct e; try reflexivity. apply IH.
Qed.

Lemma vconnect_best_ext : forall fin s b td body,
  vconnect_best v1 fin s b td body = vconnect_best v2 fin s b td body.
Proof.
  intros. unfold vconnect_best. rewrite connect_block_ext.
  destruct (N.eqb _ _); [reflexivity|].
  destruct (find_vnode _ _); [|reflexivity].
  destruct (_ || _); [reflexivity|].
  destruct (vbranch _ _ _ _); try reflexivity.
  destruct (load_all _ _); [|reflexivity]. rewrite attach_ext. reflexivity.
Qed.

Lemma vaccept_ext : forall fin s i, vaccept v1 fin s i = vaccept v2 fin s i.
Proof.
  intros. unfold vaccept. destruct (find_vnode _ _); [|reflexivity].
  destruct (negb _); [reflexivity|]. apply vconnect_best_ext.
Qed.

Lemma vporph_ext : forall fuel fin q s, vporph v1 fuel fin q s = vporph v2 fuel fin q s.
Proof.
  induction fuel as [|f IH]; intros; [reflexivity|].
  simpl. destruct q as [|p q']; [reflexivity|].
  destruct (first_vchild _ _) as [c|]; [|apply IH].
  rewrite vaccept_ext. destruct (vaccept v2 fin _ c) as [[s1 m] e].
  destruct e; try reflexivity; apply IH.
Qed.

Lemma vdeliver_ext : forall fin s i, vdeliver v1 fin s i = vdeliver v2 fin s i.
Proof.
  intros. unfold vdeliver.
  destruct (in_vidx _ _); [reflexivity|].
  destruct (_ && _); [reflexivity|].
  match goal with |- context [negb (in_vidx ?P (vidx ?S1))] => destruct (negb (in_vidx P (vidx S1))) end;
    [reflexivity|].
  rewrite vaccept_ext.
  match goal with |- context [vaccept v2 fin ?S i] => destruct (vaccept v2 fin S i) as [[s2 ism] e] end.
  destruct e; try reflexivity. rewrite vporph_ext. reflexivity.
Qed.

Lemma vdeliver0_ext : forall fin s i, vdeliver0 v1 fin s i = vdeliver0 v2 fin s i.
Proof. intros. unfold vdeliver0. rewrite vdeliver_ext. reflexivity. Qed.

Lemma vrun_ext : forall fin g hist, vrun v1 fin g hist = vrun v2 fin g hist.
Proof.
  intros fin g hist. unfold vrun. generalize (vinit g) as s.
  induction hist as [|i tl IH]; intros s; [reflexivity|].
  simpl. unfold vstep at 2 4. rewrite vdeliver_ext. apply IH.
Qed.

Lemma vrun0_ext : forall fin g hist, vrun0 v1 fin g hist = vrun0 v2 fin g hist.
Proof.
  intros fin g hist. unfold vrun0. generalize (vinit g) as s.
  induction hist as [|i tl IH]; intros s; [reflexivity|].
  simpl. unfold vstep0 at 2 4. rewrite vdeliver0_ext. apply IH.
Qed.
End Ext.

(** The validity class of a (hash, body) pair at a receiver whose mempool
    holds [pool] is the class at a receiver with an empty mempool - the oracle
    the histories are run with - as long as the pooled transactions of the
    blocks carry good signatures; then the whole run is the same. *)
Lemma validity_independent_of_pool :
  forall (view : N -> N -> sigview) (after : N -> N -> N) (pool : list N),
    (forall h b, pooled_ok pool (view h b) = true) ->
    (forall h b, verr_at view after pool h b = verr_at view after [] h b)
    /\ (forall fin g hist,
          vrun0 (verr_at view after pool) fin g hist = vrun0 (verr_at view after []) fin g hist
          /\ vrun (verr_at view after pool) fin g hist = vrun (verr_at view after []) fin g hist).
Proof.
  intros view after pool Hg.
  assert (E : forall h b, verr_at view after pool h b = verr_at view after [] h b).
  { intros h b. unfold verr_at. rewrite (sig_pool_partial pool _ (Hg h b)), sig_stage_nil. reflexivity. }
  split; [exact E|]. intros fin g hist. split; [apply vrun0_ext | apply vrun_ext]; exact E.
Qed.

(** a block signature that does not verify gives class "signature" at every receiver *)
Lemma block_signature_class_any_pool :
  forall (view : N -> N -> sigview) (after : N -> N -> N) (pool : list N) (h b : N),
    sv_bsig (view h b) = false -> verr_at view after pool h b = 1%N.
Proof. intros. unfold verr_at. rewrite block_signature_any_pool by assumption. reflexivity. Qed.

(** ---- the statements of Properties.v ---- *)
Lemma plain_header_same :
  forall (verr : N -> N -> N) (fin : Z),
    (forall s i, plain_hdr i = true -> vdeliver0 verr fin s i = vdeliver verr fin s i)
    /\ (forall g hist, forallb plain_hdr hist = true -> vrun0 verr fin g hist = vrun verr fin g hist).
Proof. intros verr fin. split; [apply vdeliver0_plain | apply vrun0_plain]. Qed.

Lemma block_signature_any_pool_both :
  (forall (pool : list N) (v : sigview), sv_bsig v = false -> sig_stage pool v = false)
  /\ (forall (pool : list N) (v : sigview) (t : N * bool),
        In t (sv_txs v) -> snd t = false -> memN (fst t) pool = false -> sig_stage pool v = false).
Proof. split; [exact block_signature_any_pool | exact tx_signature_unpooled]. Qed.

Lemma validity_independent_of_pool_both :
  forall (view : N -> N -> sigview) (after : N -> N -> N) (pool : list N),
    ((forall h b, pooled_ok pool (view h b) = true) ->
     (forall h b, verr_at view after pool h b = verr_at view after [] h b)
     /\ (forall fin g hist,
           vrun0 (verr_at view after pool) fin g hist = vrun0 (verr_at view after []) fin g hist
           /\ vrun (verr_at view after pool) fin g hist = vrun (verr_at view after []) fin g hist))
    /\ (forall h b, sv_bsig (view h b) = false -> verr_at view after pool h b = 1%N).
Proof.
  intros view after pool. split.
  - apply validity_independent_of_pool.
  - intros h b. apply block_signature_class_any_pool.
Qed.
