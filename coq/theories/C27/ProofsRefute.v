(** C27 — the full-strength statements that the faithful model violates, with
    their witnesses (each is reproduced on the Go node by hC27). *)
From Coq Require Import List ZArith NArith Bool Lia.
From C33 Require Import C27.Model.
Import ListNotations.
Open Scope Z_scope.

(** deliveries that pass every check: valid body, and (as far as the node can
    tell when it looks) consecutive height *)
Definition valid_item (verr : N -> N -> N) (i : item) : bool := N.eqb (verr (ihash i) (ibody i)) 0.

Definition same_delivery (i j : item) : bool :=
  N.eqb (ihash i) (ihash j) && N.eqb (ibody i) (ibody j).

(** ---- 1. a rejected block leaves the best chain unchanged ---- *)
Definition C27_rejected_no_effect_full : Prop :=
  forall verr fin g hist i,
    valid_item verr i = false ->
    vmain (vstep verr fin (vrun verr fin g hist) i) = vmain (vrun verr fin g hist).

(** witness: trunk 1..13 on the root 0, side block 20 on 11, then the block 21
    on 20 that claims enough work to win and fails its state-root check.  The
    reorganisation detaches 13 and 12, attaches 20, fails at 21 — and stays. *)
Definition w_root : block := mkB 0 999 0 1.
Definition w_trunk : list item :=
  map (fun k => mkI (mkB (N.of_nat k) (N.of_nat (k - 1)) (Z.of_nat k) 1) 0 PBcast) (seq 1 13).
Definition w_side12 : item := mkI (mkB 20 11 12 1) 0 PBcast.
Definition w_bad13 : item := mkI (mkB 21 20 13 5) 0 PSync.
Definition w_verr (h b : N) : N := if N.eqb h 21 then 5%N else 0%N.

Lemma rejected_no_effect_refuted : ~ C27_rejected_no_effect_full.
Proof.
  intro H.
  specialize (H w_verr 0 w_root (w_trunk ++ [w_side12]) w_bad13 eq_refl).
  vm_compute in H. discriminate H.
Qed.

(** ---- 2. a block with the same header and another body does not poison ---- *)
(** delivering a valid block whose parent is indexed with the consecutive
    height, and which was not delivered before, is not answered "exists", and
    afterwards its body is served under its hash *)
Definition height_fits (s : vstate) (i : item) : bool :=
  match find_vnode (bpar (iblk i)) (vidx s) with
  | Some p => bht (iblk i) =? bht (vblk p) + 1
  | None => false
  end.

Definition C27_no_poison_full : Prop :=
  forall verr fin g hist i,
    valid_item verr i = true ->
    ihash i <> bid g ->
    height_fits (vrun verr fin g hist) i = true ->
    existsb (same_delivery i) hist = false ->
    let r := vdeliver verr fin (vrun verr fin g hist) i in
    snd (snd r) <> VExist /\ served (fst r) (ihash i) = Some (ibody i).

(** witness: block 1 on the root arrives with body 1 (fails its transaction-root
    check), then with its own body 0 *)
Definition p_root : block := mkB 0 999 0 1.
Definition p_b1 : block := mkB 1 0 1 1.
Definition p_verr (h b : N) : N := if N.eqb h 1 && N.eqb b 1 then 4%N else 0%N.

Lemma no_poison_refuted : ~ C27_no_poison_full.
Proof.
  intro H.
  specialize (H p_verr 0 p_root [mkI p_b1 1 PBcast] (mkI p_b1 0 PSync) eq_refl).
  assert (E : ihash (mkI p_b1 0 PSync) <> bid p_root) by (vm_compute; discriminate).
  specialize (H E eq_refl eq_refl). vm_compute in H. destruct H as [H _]. apply H. reflexivity.
Qed.

(** the served half fails as well, even on the download path (where the index
    node is deleted and the genuine block is accepted later as a side block) *)
Lemma poison_served_witness :
  served (vrun p_verr 0 p_root [mkI p_b1 1 PBcast]) 1 = Some 1%N.
Proof. reflexivity. Qed.

(** ---- 3. rejected blocks are as if they had never arrived ---- *)
Definition C27_rejected_invisible_full : Prop :=
  forall verr fin g hist,
    vmain (vrun verr fin g hist) = vmain (vrun verr fin g (filter (valid_item verr) hist)).

(** witness: the history of 1 — without the rejected block 21 the chain stays
    on the trunk (tip 13), with it the chain ends on 20.  (A second witness is
    the poisoning history of 2.  The orphan-pool witness of the unrepaired
    ProcessOrphans — invalid and valid children of block 1 waiting for it — is
    no witness any more: see [orphan_history_invisible] and the theorem
    C27_rejected_invisible_partial.) *)
Lemma rejected_invisible_refuted : ~ C27_rejected_invisible_full.
Proof.
  intro H. specialize (H w_verr 0 w_root (w_trunk ++ [w_side12; w_bad13])). vm_compute in H. discriminate H.
Qed.

Lemma rejected_invisible_refuted_by_poison :
  vmain (vrun p_verr 0 p_root [mkI p_b1 1 PBcast; mkI p_b1 0 PSync])
  <> vmain (vrun p_verr 0 p_root (filter (valid_item p_verr) [mkI p_b1 1 PBcast; mkI p_b1 0 PSync])).
Proof. vm_compute. discriminate. Qed.

(** the children 3 (invalid) and 2 (valid) of block 1 wait in the orphan pool;
    when 1 arrives ProcessOrphans drops 3 and connects 2 *)
Definition o_root : block := mkB 0 999 0 1.
Definition o_hist : list item :=
  [mkI (mkB 3 1 2 1) 0 PBcast; mkI (mkB 2 1 2 1) 0 PBcast; mkI (mkB 1 0 1 1) 0 PBcast].
Definition o_verr (h b : N) : N := if N.eqb h 3 then 5%N else 0%N.

Lemma orphan_history_invisible :
  vmain (vrun o_verr 0 o_root o_hist) = [2; 1; 0]%N
  /\ vmain (vrun o_verr 0 o_root (filter (valid_item o_verr) o_hist)) = [2; 1; 0]%N
  /\ vorph (vrun o_verr 0 o_root o_hist) = []
  /\ snd (vdeliver o_verr 0 (vrun o_verr 0 o_root (firstn 2 o_hist)) (mkI (mkB 1 0 1 1) 0 PBcast)) = (true, false, VNone).
Proof. vm_compute. repeat split. Qed.

(** ---- 4. ProcessBlock does not panic: holds since the nil-fork guard in
    connectBestChain (proved in Proofs2).  The history that used to panic: as
    in 1, but the failing block 21 came by the download path as a side block
    (body 1), its child 22 started the reorganisation (21 fails, is deleted
    from the index, its parent pointer cleared), a heavy sibling 23 of the old
    tip takes the chain back, and then 24, a child of 22, arrives: it is now
    refused with "parent block does not exist" ---- *)
Definition n_hist : list item :=
  w_trunk ++ [w_side12; mkI (mkB 21 20 13 1) 1 PDown; mkI (mkB 22 21 14 1) 0 PBcast;
              mkI (mkB 23 12 13 9) 0 PBcast].
Definition n_verr (h b : N) : N := if N.eqb h 21 && N.eqb b 1 then 1%N else 0%N.

Lemma nil_fork_refused :
  snd (vdeliver n_verr 0 (vrun n_verr 0 w_root n_hist) (mkI (mkB 24 22 15 1) 0 PBcast)) = (false, false, VParent)
  /\ vtip (vstep n_verr 0 (vrun n_verr 0 w_root n_hist) (mkI (mkB 24 22 15 1) 0 PBcast)) = 23%N.
Proof. vm_compute. split; reflexivity. Qed.
