(** C27 — executable model of how chain33 treats received blocks that may be
    invalid (blockchain/process.go ProcessBlock / maybeAddBestChain /
    maybeAcceptBlock / connectBestChain / connectBlock with handleErrBlk /
    reorganizeChain, blockstore.go dbMaybeStoreBlock / SaveBlock /
    LoadBlockByHash, orphanpool.go), as coded.

    It extends C25's model (same [block] = header identified by its hash,
    same fork choice) with
      - a body per delivered block ([ibody]; bodies are abstract identifiers,
        two deliveries with equal hash and equal body id are the same bytes),
      - the validity oracle [verr hash body] (0 = the block passes
        util.PreExecBlock's checks when executed on top of its parent, else the
        class of the first failing check),
      - the table "block by hash" ([vstore]): written by dbMaybeStoreBlock
        BEFORE any validation unless a header with that hash is already there,
        overwritten by SaveBlock when a block is connected, read by
        LoadBlockByHash (reorganizeChain executes what it reads there),
      - per index node the error mark (errLog), the "received by download"
        flag (handleErrBlk deletes such a node from the index instead of
        marking it; blockIndex.DelNode also clears the deleted node's parent
        pointer, so the nodes that were its children at that moment ([vcut])
        no longer reach the best chain: FindFork answers nil for them and
        their descendants, and connectBestChain (repaired) refuses such a
        block with ErrParentBlockNoExist; before the repair it dereferenced
        nil in its side-chain log line — a panic — or asked reorganizeChain
        to detach the whole chain).  [VPanic] stays in the error type (the
        harness reports a recovered panic with this code) but no function of
        the model produces it.

    Differences to C25's model are confined to: connectBlock may fail; a
    reorganisation stops at the first failing attach (and stays there);
    ProcessOrphans goes on after an orphan that was refused (the repaired
    orphanpool.go; C25's model of the loop stops there, which never happens
    in its world of valid blocks with consistent heights). *)
From Coq Require Import List ZArith NArith Bool.
From C33 Require Export C25.Model.   (* block/mkB, memN, take_until, drop_until, margin *)
Import ListNotations.
Open Scope Z_scope.

Inductive path := PBcast | PSync | PDown.
Definition is_down (p : path) : bool := match p with PDown => true | _ => false end.

(** one delivery: header, body, how it arrived *)
Record item := mkI { iblk : block; ibody : N; ipath : path }.
Definition ihash (i : item) : N := bid (iblk i).

(** block node of chain.index.  [vcut]: the parent pointer leads to a node
    object that DelNode removed (its own parent pointer is nil). *)
Record vnode := mkVN { vblk : block; vtd : Z; verrm : bool; vdl : bool; vcut : bool }.
Definition vid (n : vnode) : N := bid (vblk n).

Record vstate := mkV {
  vidx   : list vnode;       (* chain.index, newest first; one node per hash *)
  vorph  : list item;        (* orphan pool, insertion order *)
  vmain  : list N;           (* best chain view, tip first *)
  vstore : list (N * N)      (* block-by-hash table: hash -> body, newest binding first *)
}.

Inductive verrc := VNone | VExist | VParent | VHeight | VTd | VFuel | VLoad | VPanic | VInv (c : N).

Definition verrc_code (e : verrc) : N :=
  match e with
  | VNone => 0 | VExist => 1 | VParent => 2 | VHeight => 3 | VTd => 4 | VFuel => 5 | VLoad => 6 | VPanic => 7
  | VInv c => 10 + c
  end%N.

Definition is_none (e : verrc) : bool := match e with VNone => true | _ => false end.

Definition find_vnode (h : N) (ix : list vnode) : option vnode :=
  find (fun n => N.eqb (vid n) h) ix.
(** chain.index.HaveBlock *)
Definition in_vidx (h : N) (ix : list vnode) : bool :=
  match find_vnode h ix with Some _ => true | None => false end.

Definition sget (h : N) (st : list (N * N)) : option N :=
  match find (fun e => N.eqb (fst e) h) st with Some e => Some (snd e) | None => None end.

Definition in_vorph (h : N) (o : list item) : bool := existsb (fun i => N.eqb (ihash i) h) o.
Definition remove_vorph (h : N) (o : list item) : list item :=
  filter (fun i => negb (N.eqb (ihash i) h)) o.
Definition first_vchild (p : N) (o : list item) : option item :=
  find (fun i => N.eqb (bpar (iblk i)) p) o.

Definition vtip (s : vstate) : N := hd 0%N (vmain s).

(** genesis block [g] connected; its body is body 0 *)
Definition vinit (g : block) : vstate :=
  mkV [mkVN g (bdiff g) false false false] [] [bid g] [(bid g, 0%N)].

(** handleErrBlk for a peer's block: "download" => DelNode (the node leaves the
    index and its children lose their way to the chain), otherwise errLog *)
Definition mark_err (n : vnode) : vnode := mkVN (vblk n) (vtd n) true (vdl n) (vcut n).
Definition mark_cut (n : vnode) : vnode := mkVN (vblk n) (vtd n) (verrm n) (vdl n) true.
Definition fail_vnode (h : N) (ix : list vnode) : list vnode :=
  match find_vnode h ix with
  | None => ix
  | Some x =>
      if vdl x then
        map (fun n => if N.eqb (bpar (vblk n)) h then mark_cut n else n)
            (filter (fun n => negb (N.eqb (vid n) h)) ix)
      else
        map (fun n => if N.eqb (vid n) h then mark_err n else n) ix
  end.

(** parent-pointer walk from [h] to the best chain (FindFork + attach list):
    the walked hashes (newest first) and the fork point, or nil *)
Inductive bres := BFuel | BNil | BFork (p : list N) (fk : N).
Fixpoint vbranch (fuel : nat) (ix : list vnode) (mn : list N) (h : N) : bres :=
  match fuel with
  | O => BFuel
  | S f =>
      if memN h mn then BFork [] h
      else match find_vnode h ix with
           | None => BNil
           | Some n =>
               if vcut n then BNil
               else match vbranch f ix mn (bpar (vblk n)) with
                    | BFork p fk => BFork (h :: p) fk
                    | r => r
                    end
           end
  end.

(** ids that the universe reserves for two parent-hash values that are no block
    hashes: the all-zero hash (the genesis block's parent) and the empty one *)
Definition zero_par : N := 1000001.
Definition empty_par : N := 1000002.

(** number of rows of the header table: one per hash in the block-by-hash table *)
Definition nhdr (st : list (N * N)) : nat := length (nodup N.eq_dec (map fst st)).

(** a header whose ParentHash is neither empty nor all-zero and whose Height is above 0 *)
Definition plain_hdr (i : item) : bool :=
  negb (N.eqb (bpar (iblk i)) empty_par) && negb (N.eqb (bpar (iblk i)) zero_par) && negb (bht (iblk i) =? 0).

Section WithOracle.
Variable verr : N -> N -> N.     (* hash -> body -> 0 (valid) | class of the first failing check *)

(** connectBlock of the indexed node [h] with body [body] on top of the tip *)
Definition connect_block (s : vstate) (h body : N) : vstate * verrc :=
  let e := verr h body in
  if N.eqb e 0 then
    (mkV (vidx s) (vorph s) (h :: vmain s) ((h, body) :: vstore s), VNone)
  else
    (mkV (fail_vnode h (vidx s)) (vorph s) (vmain s) (vstore s), VInv e).

(** the attach half of reorganizeChain, bodies as loaded from the table; [p] oldest first *)
Fixpoint attach (s : vstate) (p : list (N * N)) : vstate * verrc :=
  match p with
  | [] => (s, VNone)
  | (h, body) :: tl =>
      match connect_block s h body with
      | (s', VNone) => attach s' tl
      | r => r
      end
  end.

Fixpoint load_all (st : list (N * N)) (p : list N) : option (list (N * N)) :=
  match p with
  | [] => Some []
  | h :: tl =>
      match sget h st, load_all st tl with
      | Some b, Some r => Some ((h, b) :: r)
      | _, _ => None
      end
  end.

(** connectBestChain for the freshly indexed node [b] (total difficulty [td],
    received body [body]) *)
Definition vconnect_best (fin : Z) (s : vstate) (b : block) (td : Z) (body : N)
  : vstate * bool * verrc :=
  if N.eqb (bpar b) (vtip s) then
    match connect_block s (bid b) body with
    | (s', VNone) => (s', true, VNone)
    | (s', e) => (s', false, e)
    end
  else
    match find_vnode (vtip s) (vidx s) with
    | None => (s, false, VTd)
    | Some t =>
        let fork := vbranch (S (Z.to_nat (bht b))) (vidx s) (vmain s) (bid b) in
        if (td <=? vtd t) || (bht b <? fin + margin) then
          match fork with
          | BNil => (s, false, VParent)     (* no fork point: ErrParentBlockNoExist *)
          | _ => (s, false, VNone)
          end
        else
          match fork with
          | BFuel => (s, false, VFuel)
          | BNil => (s, false, VParent)     (* no fork point: ErrParentBlockNoExist *)
          | BFork p fk =>
              match load_all (vstore s) (rev p) with
              | None => (s, false, VLoad)
              | Some lp =>
                  let s1 := mkV (vidx s) (vorph s) (drop_until fk (vmain s)) (vstore s) in
                  match attach s1 lp with
                  | (s2, VNone) => (s2, true, VNone)
                  | (s2, e) => (s2, false, e)
                  end
              end
          end
    end.

(** dbMaybeStoreBlock: skipped when a header with this hash is in the table *)
Definition maybe_store (h body : N) (st : list (N * N)) : list (N * N) :=
  match sget h st with Some _ => st | None => (h, body) :: st end.

(** maybeAcceptBlock *)
Definition vaccept (fin : Z) (s : vstate) (i : item) : vstate * bool * verrc :=
  let b := iblk i in
  match find_vnode (bpar b) (vidx s) with
  | None => (s, false, VParent)
  | Some p =>
      if negb (bht b =? bht (vblk p) + 1) then (s, false, VHeight)
      else
        let td := vtd p + bdiff b in
        let s1 := mkV (mkVN b td false (is_down (ipath i)) false :: vidx s) (vorph s) (vmain s)
                      (maybe_store (bid b) (ibody i) (vstore s)) in
        vconnect_best fin s1 b td (ibody i)
  end.

(** ProcessOrphans (breadth-first).  An orphan that maybeAcceptBlock refuses is
    dropped from the pool and the loop goes on with the next one (the error is
    only logged); a panic leaves the loop, and so does the model's own
    out-of-fuel value. *)
Fixpoint vporph (fuel : nat) (fin : Z) (q : list N) (s : vstate) : vstate * verrc :=
  match fuel with
  | O => (s, VFuel)
  | S f =>
      match q with
      | [] => (s, VNone)
      | p :: q' =>
          match first_vchild p (vorph s) with
          | None => vporph f fin q' s
          | Some c =>
              let s0 := mkV (vidx s) (remove_vorph (ihash c) (vorph s)) (vmain s) (vstore s) in
              match vaccept fin s0 c with
              | (s1, _, VNone) => vporph f fin (q ++ [ihash c]) s1
              | (s1, _, VPanic) => (s1, VPanic)
              | (s1, _, VFuel) => (s1, VFuel)
              | (s1, _, _) => vporph f fin q s1
              end
          end
      end
  end.

Definition vporph_fuel (s : vstate) : nat := 2 * length (vorph s) + 2.

(** ProcessBlock(addBlock = true) for a block received from a peer.
    Output: (isMainChain, isOrphan, error class). *)
Definition vout : Type := (bool * bool * verrc)%type.

Definition vdeliver (fin : Z) (s : vstate) (i : item) : vstate * vout :=
  let b := iblk i in
  if in_vidx (bid b) (vidx s) then (s, (false, false, VExist))
  else
    let known := in_vorph (bid b) (vorph s) in
    if known && negb (in_vidx (bpar b) (vidx s)) then (s, (false, false, VExist))
    else
      let s1 := if known then mkV (vidx s) (remove_vorph (bid b) (vorph s)) (vmain s) (vstore s) else s in
      if negb (in_vidx (bpar b) (vidx s1)) then
        (mkV (vidx s1) (vorph s1 ++ [i]) (vmain s1) (vstore s1), (false, true, VNone))
      else
        match vaccept fin s1 i with
        | (s2, ism, VNone) =>
            match vporph (vporph_fuel s2) fin [bid b] s2 with
            | (s3, VNone) => (s3, (ism, false, VNone))
            | (s3, e) => (s3, (false, false, e))
            end
        | (s2, _, e) => (s2, (false, false, e))
        end.

Definition vstep (fin : Z) (s : vstate) (i : item) : vstate := fst (vdeliver fin s i).
Definition vrun (fin : Z) (g : block) (h : list item) : vstate := fold_left (vstep fin) h (vinit g).

(** ---- headers with an empty field (the complete ProcessBlock) ----

    [vdeliver] above is ProcessBlock for a block whose header names a parent
    by a hash that is neither empty nor all-zero and has a height above 0.
    The other header values take their own ways through ProcessBlock:

    - an empty ParentHash (nil): blockExists(parent) does not find it in the
      index and asks the header table for the rows whose hash starts with the
      empty prefix - all of them; blocktable.go getHeaderByIndex panics unless
      there is exactly one row (with one row, the genesis block's, the answer
      is "unknown").  blockExists(parent) is called for a known orphan and
      for every block of height above 0.
    - the all-zero ParentHash: the index of a node that started on an empty
      database holds the pre-genesis node (zero hash, height -1), so this
      parent "exists" and maybeAcceptBlock looks at the height: a block of
      height 0 - a second genesis block - is stored by dbMaybeStoreBlock and
      indexed, and connectBestChain then finds no total difficulty for its
      parent (ErrParentTdNoExist); any other height is refused
      (ErrBlockHeightNoMatch).
    - Height 0 with another parent: "the parent exists" is false whatever the
      index holds; the block is put into the orphan pool. *)
Definition vdeliver0 (fin : Z) (s : vstate) (i : item) : vstate * vout :=
  let b := iblk i in
  if in_vidx (bid b) (vidx s) then (s, (false, false, VExist))
  else
    let known := in_vorph (bid b) (vorph s) in
    let s1 := if known then mkV (vidx s) (remove_vorph (bid b) (vorph s)) (vmain s) (vstore s) else s in
    if N.eqb (bpar b) empty_par && (2 <=? nhdr (vstore s))%nat && (known || negb (bht b =? 0))
    then (s, (false, false, VPanic))
    else if N.eqb (bpar b) zero_par then
      if bht b =? 0 then
        (mkV (mkVN b (bdiff b) false (is_down (ipath i)) false :: vidx s1) (vorph s1) (vmain s1)
             (maybe_store (bid b) (ibody i) (vstore s1)), (false, false, VTd))
      else (s1, (false, false, VHeight))
    else if bht b =? 0 then
      if known && negb (in_vidx (bpar b) (vidx s)) then (s, (false, false, VExist))
      else (mkV (vidx s1) (vorph s1 ++ [i]) (vmain s1) (vstore s1), (false, true, VNone))
    else vdeliver fin s i.

Definition vstep0 (fin : Z) (s : vstate) (i : item) : vstate := fst (vdeliver0 fin s i).
Definition vrun0 (fin : Z) (g : block) (h : list item) : vstate := fold_left (vstep0 fin) h (vinit g).

End WithOracle.

(** total difficulty recorded for the tip *)
Definition vtip_td (s : vstate) : Z :=
  match find_vnode (vtip s) (vidx s) with Some t => vtd t | None => -1 end.

(** LoadBlockByHash: the body served under a hash *)
Definition served (s : vstate) (h : N) : option N := sget h (vstore s).

(** ---- the signature stage of util.PreExecBlock ----

    What the stage looks at: whether the block signature is absent or
    verifies, and per transaction (identified by its Hash, which does not
    cover the signature) whether its signature verifies.  The mempool is asked
    which of the block's transaction hashes it holds ([pool]); only the others
    are handed to types.VerifySignature together with the block. *)
Record sigview := mkSV { sv_bsig : bool; sv_txs : list (N * bool) }.

Definition unverified (pool : list N) (v : sigview) : list (N * bool) :=
  filter (fun t => negb (memN (fst t) pool)) (sv_txs v).

(** types.VerifySignature(cfg, block, unverifiedTxs) *)
Definition sig_stage (pool : list N) (v : sigview) : bool :=
  sv_bsig v && forallb snd (unverified pool v).

(** every signature of the block verifies (what the harness computes, one by one) *)
Definition sig_valid (v : sigview) : bool := sv_bsig v && forallb snd (sv_txs v).

(** the validity oracle at a receiver whose mempool holds [pool]: class 1
    (signature) when the stage refuses, else the class [after h b] of the first
    failing check after it.  [verr_at view after []] is the oracle of the
    histories (empty mempool). *)
Definition verr_at (view : N -> N -> sigview) (after : N -> N -> N) (pool : list N) (h b : N) : N :=
  if sig_stage pool (view h b) then after h b else 1%N.
